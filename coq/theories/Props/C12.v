(** C12 — results do not depend on how the grammar is written down.
    Only property theorems live here, each closed by [exact] and followed by Print Assumptions.
    Everything is generic in the semiring: [forall R (o : sr_ops R), sr_ring o -> ...].
    The invariances are stated for the Kleene iterates [Zk] (by C01/C02: the sums over the
    derivation trees of bounded depth, hence the sum over all derivations of a non-recursive
    grammar and the approximants of the least fixed point of a recursive one), then carried to
    [tree_sum], to the sum over all derivations and to the code-shaped driver.
    The presentation transform of harness/gen.py [present] is the composition
    1 (rule order) . 2 (edge order) . 3 (node order) . 4 (label numbering) . 5 (domain values);
    theorem [C12_presentation] composes them. *)
From Coq Require Import List Arith Bool PeanoNat Permutation.
Import ListNotations.
Require Import Fggs.Model.Semiring Fggs.Model.SCC Fggs.Model.SumProduct.
Require Import Fggs.Proofs.BigSum Fggs.Proofs.SP_trees Fggs.Proofs.SP_nonrec Fggs.Proofs.SP_driver
               Fggs.Proofs.SP_main Fggs.Proofs.SP_examples.
Require Import Fggs.Proofs.Presentation Fggs.Proofs.Presentation_perm Fggs.Proofs.Presentation_nodes
               Fggs.Proofs.Presentation_dom Fggs.Proofs.Presentation_relabel Fggs.Proofs.Presentation_wf
               Fggs.Proofs.Presentation_cor
               Fggs.Proofs.Presentation_examples.
Require Import Fggs.Model.EReal Fggs.Model.Trop Fggs.Proofs.Instances_present.

(** * 1. order of the rules *)
(** permuting the rule list leaves every Kleene iterate unchanged, in every commutative semiring *)
Theorem C12_rules_perm :
  forall R (o : sr_ops R), sr_ring o ->
  forall G G' w k X xi,
    g_doms G = g_doms G' -> g_labels G = g_labels G' -> Permutation (g_rules G) (g_rules G') ->
    Zk o G w k X xi = Zk o G' w k X xi.
Proof. exact (@Zk_rules_perm). Qed.
Print Assumptions C12_rules_perm.

(** * 2. order of the edges inside each rule *)
(** [rule_edges_perm r r']: same lhs, nodes, externals; [Permutation (r_edges r) (r_edges r')] *)
Theorem C12_edges_perm :
  forall R (o : sr_ops R), sr_ring o ->
  forall G G' w k X xi,
    g_doms G = g_doms G' -> g_labels G = g_labels G' ->
    Forall2 rule_edges_perm (g_rules G) (g_rules G') ->
    Zk o G w k X xi = Zk o G' w k X xi.
Proof. exact (@Zk_edges_perm). Qed.
Print Assumptions C12_edges_perm.

(** * 3. order (numbering) of the nodes inside each rule *)
(** permutations of 0..n-1 as lists: [is_perm p := Permutation p (seq 0 (length p))]; the new
    position of old node [i] is [pfun p i := nth i p i]; [pinv p] is the inverse list *)
Theorem C12_perm_inverse :
  forall p, is_perm p ->
    is_perm (pinv p) /\ length (pinv p) = length p
    /\ (forall i, pfun (pinv p) (pfun p i) = i) /\ (forall j, pfun p (pfun (pinv p) j) = j)
    /\ (forall i, pfun p i < length p <-> i < length p).
Proof.
  exact (fun p H => conj (pinv_is_perm p H) (conj (pinv_length p)
          (conj (fun i => pfun_pinv_l p i H) (conj (fun j => pfun_pinv_r p j H) (fun i => pfun_lt_iff p i H))))).
Qed.
Print Assumptions C12_perm_inverse.

(** the assignments of the permuted size list are the permuted assignments: [a |-> sel a p] maps
    [all_assts sizes] one-to-one onto [all_assts (sel sizes p)] (a permutation of the list), so
    sums over them can be re-indexed; and [sel] commutes with it *)
Theorem C12_assignments_permuted :
  forall R (o : sr_ops R), sr_ring o ->
  forall sizes p (F : list nat -> R), is_perm p -> length p = length sizes ->
    Permutation (map (fun a => sel a p) (all_assts sizes)) (all_assts (sel sizes p))
    /\ sumS o (all_assts (sel sizes p)) F = sumS o (all_assts sizes) (fun a => F (sel a p))
    /\ (forall a att, length a = length p -> sel (sel a p) att = sel a (map (pfun p) att)).
Proof. exact (@assignments_permuted). Qed.
Print Assumptions C12_assignments_permuted.

(** [rule_nodes_perm p r r']: [is_perm p], [length p = length (r_nodes r')], same lhs,
    [r_nodes r = sel (r_nodes r') p] (the label of old node i is found at new position p[i]),
    attachments and externals of [r'] are those of [r] mapped through [pfun p] *)
Theorem C12_nodes_perm_rule :
  forall R (o : sr_ops R), sr_ring o ->
  forall G G' (e e' : env (R:=R)) p r r' xi,
    g_doms G = g_doms G' -> (forall l idx, e l idx = e' l idx) -> rule_nodes_perm p r r' ->
    rule_val o G' e' r' xi = rule_val o G e r xi.
Proof. exact (@rule_val_nodes_perm). Qed.
Print Assumptions C12_nodes_perm_rule.

Theorem C12_nodes_perm :
  forall R (o : sr_ops R), sr_ring o ->
  forall G G' w k X xi,
    g_doms G = g_doms G' -> g_labels G = g_labels G' ->
    Forall2 (fun r r' => exists p, rule_nodes_perm p r r') (g_rules G) (g_rules G') ->
    Zk o G' w k X xi = Zk o G w k X xi.
Proof. exact (@Zk_nodes_perm). Qed.
Print Assumptions C12_nodes_perm.

(** the transform as gen.py computes it satisfies the relation *)
Theorem C12_permute_nodes_rel :
  forall p r, is_perm p -> length p = length (r_nodes r) -> rule_nodes_perm p r (permute_nodes p r).
Proof. exact permute_nodes_rel. Qed.
Print Assumptions C12_permute_nodes_rel.

(** * 4. numbering of the edge labels and node labels *)
(** [relabelled pel pnl G G'] (record, Proofs/Presentation_relabel.v): [pel] injective on the
    labels of [G]; [dom G' (pnl nl) = dom G nl]; [is_term G' (pel l) = is_term G l];
    [ltype G' (pel l) = map pnl (ltype G l)]; [g_start G' = pel (g_start G)]; rules correspond
    one by one with lhs and edge labels through [pel], node labels through [pnl] *)
Theorem C12_relabel :
  forall R (o : sr_ops R), sr_ring o ->
  forall pel pnl G G' (w w' : env (R:=R)),
    wf_grammar G = true -> relabelled pel pnl G G' ->
    (forall l idx, l < length (g_labels G) -> is_term G l = true -> w' (pel l) idx = w l idx) ->
    forall k X xi, X < length (g_labels G) -> Zk o G' w' k (pel X) xi = Zk o G w k X xi.
Proof. exact (fun R o _ => @Zk_relabel R o). Qed.
Print Assumptions C12_relabel.

(** the transform computed from two permutation lists, weights precomposed with the inverse *)
Theorem C12_relabel_transform :
  forall R (o : sr_ops R), sr_ring o ->
  forall pe pn G (w : env (R:=R)),
    wf_grammar G = true ->
    is_perm pe -> length pe = length (g_labels G) -> is_perm pn -> length pn = length (g_doms G) ->
    relabelled (pfun pe) (pfun pn) G (relabel_grammar pe pn G)
    /\ forall k X xi, X < length (g_labels G) ->
         Zk o (relabel_grammar pe pn G) (relabel_weights pe w) k (pfun pe X) xi = Zk o G w k X xi.
Proof.
  exact (fun R o _ pe pn G w Hwf He Hle Hn Hln =>
           conj (relabel_grammar_rel pe pn G He Hle Hn Hln)
                (@Zk_relabel_grammar R o pe pn G w Hwf He Hle Hn Hln)).
Qed.
Print Assumptions C12_relabel_transform.

(** * 5. permuting the values of every domain together with the factor axes *)
(** [dom_perms G rho]: every node label [nl] of [G] has a permutation [rho nl] of its values;
    [pmap rho tys idx] applies them coordinatewise ([tys] = node labels of the coordinates);
    [vlab G l]: [l] is a label of [G]; [vidx G l idx]: [idx] is an index tuple of its shape *)
Theorem C12_domain_perm :
  forall R (o : sr_ops R), sr_ring o ->
  forall G rho (w w' : env (R:=R)),
    wf_grammar G = true -> dom_perms G rho ->
    (forall l idx, vlab G l -> vidx G l idx -> is_term G l = true ->
                   w' l (pmap rho (ltype G l) idx) = w l idx) ->
    forall k X xi, vlab G X -> vidx G X xi ->
      Zk o G w' k X (pmap rho (ltype G X) xi) = Zk o G w k X xi.
Proof. exact (@Zk_dom_perm). Qed.
Print Assumptions C12_domain_perm.

(** ... with [w' l idx' = w l (rho^-1 idx')] *)
Theorem C12_domain_perm_weights :
  forall R (o : sr_ops R), sr_ring o ->
  forall G rho (w : env (R:=R)),
    wf_grammar G = true -> dom_perms G rho ->
    forall k X xi, vlab G X -> vidx G X xi ->
      Zk o G (permute_weights G rho w) k X (pmap rho (ltype G X) xi) = Zk o G w k X xi.
Proof. exact (@Zk_dom_perm_weights). Qed.
Print Assumptions C12_domain_perm_weights.

(** [all_assts] is closed under applying coordinatewise bijections, which are inverted by the
    inverse permutations and commute with restriction *)
Theorem C12_assignments_domain_perm :
  forall G rho tys a,
    (forall nl, In nl tys -> is_perm (rho nl) /\ length (rho nl) = dom G nl) ->
    In a (all_assts (map (dom G) tys)) ->
    In (pmap rho tys a) (all_assts (map (dom G) tys))
    /\ pmap (rho_inv rho) tys (pmap rho tys a) = a
    /\ pmap rho tys (pmap (rho_inv rho) tys a) = a
    /\ forall att, (forall i, In i att -> i < length tys) ->
         sel (pmap rho tys a) att = pmap rho (map (fun i => nth i tys 0) att) (sel a att).
Proof. exact assignments_domain_perm. Qed.
Print Assumptions C12_assignments_domain_perm.

(** * 6. the whole presentation transform *)
(** [presents rho pel pnl G G']: [dom_perms G rho] and there are G2, G3, G4 with
    [relabelled pel pnl G G2]; G3 = G2 with the nodes of every rule renumbered; G4 = G3 with the
    edge list of every rule permuted; G' = G4 with the rule list permuted *)
Theorem C12_presentation :
  forall R (o : sr_ops R), sr_ring o ->
  forall rho pel pnl G G' (w w' : env (R:=R)),
    wf_grammar G = true -> presents rho pel pnl G G' ->
    (forall l idx, vlab G l -> vidx G l idx -> is_term G l = true ->
                   w' (pel l) (pmap rho (ltype G l) idx) = w l idx) ->
    forall k X xi, vlab G X -> vidx G X xi ->
      Zk o G' w' k (pel X) (pmap rho (ltype G X) xi) = Zk o G w k X xi.
Proof. exact (@Zk_presentation). Qed.
Print Assumptions C12_presentation.

(** * 7. the sums over derivation trees *)
Theorem C12_tree_sum_rules_perm :
  forall R (o : sr_ops R), sr_ring o ->
  forall G G' (w : env (R:=R)) k X xi,
    g_doms G = g_doms G' -> g_labels G = g_labels G' -> Permutation (g_rules G) (g_rules G') ->
    is_term G X = false -> tree_sum o G' w k X xi = tree_sum o G w k X xi.
Proof. exact (@tree_sum_rules_perm). Qed.
Print Assumptions C12_tree_sum_rules_perm.

Theorem C12_tree_sum_edges_perm :
  forall R (o : sr_ops R), sr_ring o ->
  forall G G' (w : env (R:=R)) k X xi,
    g_doms G = g_doms G' -> g_labels G = g_labels G' -> Forall2 rule_edges_perm (g_rules G) (g_rules G') ->
    is_term G X = false -> tree_sum o G' w k X xi = tree_sum o G w k X xi.
Proof. exact (@tree_sum_edges_perm). Qed.
Print Assumptions C12_tree_sum_edges_perm.

Theorem C12_tree_sum_nodes_perm :
  forall R (o : sr_ops R), sr_ring o ->
  forall G G' (w : env (R:=R)) k X xi,
    g_doms G = g_doms G' -> g_labels G = g_labels G' -> rules_nodes_perm (g_rules G) (g_rules G') ->
    is_term G X = false -> tree_sum o G' w k X xi = tree_sum o G w k X xi.
Proof. exact (@tree_sum_nodes_perm). Qed.
Print Assumptions C12_tree_sum_nodes_perm.

Theorem C12_tree_sum_relabel :
  forall R (o : sr_ops R), sr_ring o ->
  forall pel pnl G G' (w w' : env (R:=R)) k X xi,
    wf_grammar G = true -> relabelled pel pnl G G' ->
    (forall l idx, l < length (g_labels G) -> is_term G l = true -> w' (pel l) idx = w l idx) ->
    X < length (g_labels G) -> is_term G X = false ->
    tree_sum o G' w' k (pel X) xi = tree_sum o G w k X xi.
Proof. exact (@tree_sum_relabel). Qed.
Print Assumptions C12_tree_sum_relabel.

Theorem C12_tree_sum_domain_perm :
  forall R (o : sr_ops R), sr_ring o ->
  forall G rho (w w' : env (R:=R)) k X xi,
    wf_grammar G = true -> dom_perms G rho ->
    (forall l idx, vlab G l -> vidx G l idx -> is_term G l = true -> w' l (pmap rho (ltype G l) idx) = w l idx) ->
    vlab G X -> vidx G X xi -> is_term G X = false ->
    tree_sum o G w' k X (pmap rho (ltype G X) xi) = tree_sum o G w k X xi.
Proof. exact (@tree_sum_dom_perm). Qed.
Print Assumptions C12_tree_sum_domain_perm.

Theorem C12_tree_sum_presentation :
  forall R (o : sr_ops R), sr_ring o ->
  forall rho pel pnl G G' (w w' : env (R:=R)) k X xi,
    wf_grammar G = true -> presents rho pel pnl G G' ->
    (forall l idx, vlab G l -> vidx G l idx -> is_term G l = true ->
                   w' (pel l) (pmap rho (ltype G l) idx) = w l idx) ->
    vlab G X -> vidx G X xi -> is_term G X = false ->
    tree_sum o G' w' k (pel X) (pmap rho (ltype G X) xi) = tree_sum o G w k X xi.
Proof. exact (@tree_sum_presentation). Qed.
Print Assumptions C12_tree_sum_presentation.

(** non-recursive grammars ([ranked]): whenever the Kleene iterates of two grammars correspond
    at (X, xi) / (X', xi'), so do the sums over ALL their derivation trees, each tree being
    enumerated exactly once *)
Theorem C12_all_derivations_transfer :
  forall R (o : sr_ops R), sr_ring o ->
  forall G G' (w w' : env (R:=R)) rank rank' X X' xi xi',
    ranked G rank -> ranked G' rank' -> is_term G X = false -> is_term G' X' = false ->
    (forall k, Zk o G' w' k X' xi' = Zk o G w k X xi) ->
    forall k k', length (nonterminals G) <= k -> length (nonterminals G') <= k' ->
      sumS o (enum_trees G' k' X' xi') (weight o G' w') = sumS o (enum_trees G k X xi) (weight o G w)
      /\ (forall t, In t (enum_trees G k X xi) <-> wf_dtree G X xi t)
      /\ (forall t, In t (enum_trees G' k' X' xi') <-> wf_dtree G' X' xi' t).
Proof. exact (@all_trees_transfer). Qed.
Print Assumptions C12_all_derivations_transfer.

(** a presentation of a non-recursive grammar is non-recursive (the rank function is carried
    along), its labels keep their shapes, transported index tuples are index tuples *)
Theorem C12_presentation_preserves :
  forall rho pel pnl G G', wf_grammar G = true -> presents rho pel pnl G G' ->
    (forall rank, ranked G rank -> ranked G' (rank_back pel (length (g_labels G)) rank))
    /\ (forall X, vlab G X -> is_term G' (pel X) = is_term G X /\ lshape G' (pel X) = lshape G X)
    /\ (forall X xi, vlab G X -> vidx G X xi -> In (pmap rho (ltype G X) xi) (all_assts (lshape G' (pel X)))).
Proof.
  exact (fun rho pel pnl G G' Hwf Hp =>
    conj (fun rank => presents_ranked rho pel pnl G G' rank Hwf Hp)
   (conj (fun X HX => conj (presents_is_term rho pel pnl G G' X Hp HX) (presents_lshape rho pel pnl G G' X Hwf Hp HX))
         (fun X xi => presents_vidx rho pel pnl G G' X xi Hwf Hp))).
Qed.
Print Assumptions C12_presentation_preserves.

Theorem C12_all_derivations_presentation :
  forall R (o : sr_ops R), sr_ring o ->
  forall rho pel pnl G G' (w w' : env (R:=R)) rank X xi,
    wf_grammar G = true -> presents rho pel pnl G G' ->
    (forall l idx, vlab G l -> vidx G l idx -> is_term G l = true ->
                   w' (pel l) (pmap rho (ltype G l) idx) = w l idx) ->
    ranked G rank -> vlab G X -> vidx G X xi -> is_term G X = false ->
    forall k k', length (nonterminals G) <= k -> length (nonterminals G') <= k' ->
      let xi' := pmap rho (ltype G X) xi in
      sumS o (enum_trees G' k' (pel X) xi') (weight o G' w') = sumS o (enum_trees G k X xi) (weight o G w)
      /\ (forall t, In t (enum_trees G k X xi) <-> wf_dtree G X xi t)
      /\ (forall t, In t (enum_trees G' k' (pel X) xi') <-> wf_dtree G' (pel X) xi' t).
Proof. exact (@all_trees_presentation). Qed.
Print Assumptions C12_all_derivations_presentation.

(** * 8. the code-shaped driver: order of the components, presentations *)
(** any two dependency-respecting orders of singleton components give the same tables *)
Theorem C12_scc_order_irrelevant :
  forall R (o : sr_ops R), sr_ring o ->
  forall G w ord ord',
    wf_grammar G = true -> (forall l, tget w l <> None -> is_term G l = true) ->
    dep_ordered G [] ord -> dep_ordered G [] ord' ->
    forall X xi, In X ord -> In X ord' -> In xi (all_assts (lshape G X)) ->
      env_of o (sum_products_nonrec o G w (map (fun x => [x]) ord)) X xi
      = env_of o (sum_products_nonrec o G w (map (fun x => [x]) ord')) X xi.
Proof. exact (@scc_order_irrelevant). Qed.
Print Assumptions C12_scc_order_irrelevant.

(** ... in particular any two component lists accepted by the verified SCC oracle of C19 *)
Theorem C12_scc_order_irrelevant_oracle :
  forall R (o : sr_ops R), sr_ring o ->
  forall G w order order',
    wf_grammar G = true -> (forall l, tget w l <> None -> is_term G l = true) ->
    scc_ok (nt_graph G) order = true -> nonrecursive_order G order = true ->
    scc_ok (nt_graph G) order' = true -> nonrecursive_order G order' = true ->
    forall X xi, is_term G X = false -> In xi (all_assts (lshape G X)) ->
      env_of o (sum_products_nonrec o G w order) X xi = env_of o (sum_products_nonrec o G w order') X xi.
Proof. exact (@scc_order_irrelevant_scc). Qed.
Print Assumptions C12_scc_order_irrelevant_oracle.

(** the model of sum_products on a presentation of a non-recursive grammar, whatever the two
    dependency-respecting orders, returns the canonical tables re-indexed *)
Theorem C12_model_presentation :
  forall R (o : sr_ops R), sr_ring o ->
  forall rho pel pnl G G' w w' ord ord' X xi,
    wf_grammar G = true -> wf_grammar G' = true -> presents rho pel pnl G G' ->
    (forall l, tget w l <> None -> is_term G l = true) -> (forall l, tget w' l <> None -> is_term G' l = true) ->
    (forall l idx, vlab G l -> vidx G l idx -> is_term G l = true ->
                   env_of o w' (pel l) (pmap rho (ltype G l) idx) = env_of o w l idx) ->
    dep_ordered G [] ord -> dep_ordered G' [] ord' -> In X ord -> In (pel X) ord' ->
    vlab G X -> vidx G X xi ->
    env_of o (sum_products_nonrec o G' w' (map (fun x => [x]) ord')) (pel X) (pmap rho (ltype G X) xi)
    = env_of o (sum_products_nonrec o G w (map (fun x => [x]) ord)) X xi.
Proof. exact (@sum_products_nonrec_presentation). Qed.
Print Assumptions C12_model_presentation.

(** * 9. the hypotheses are satisfiable *)
(** a grammar and a presentation of it in which every ingredient is non-trivial
    (Proofs/Presentation_examples.v), related weights, ranks, orders; and the values agree *)
Theorem C12_example_hypotheses :
  wf_grammar P_ex = true /\ wf_grammar P_ex' = true
  /\ presents rho_ex (pfun pe_ex) (pfun pn_ex) P_ex P_ex'
  /\ (forall l idx, vlab P_ex l -> vidx P_ex l idx -> is_term P_ex l = true ->
        w_ex' (pfun pe_ex l) (pmap rho_ex (ltype P_ex l) idx) = w_ex l idx)
  /\ ranked P_ex (fun X => match X with 3 => 1 | _ => 0 end)
  /\ ranked P_ex' (fun X => match X with 1 => 1 | _ => 0 end)
  /\ dep_ordered P_ex [] [2; 3] /\ dep_ordered P_ex' [] [3; 1]
  /\ rule_edges_perm ex_rule ex_rule_edges
  /\ rule_nodes_perm [2; 0; 1] ex_rule (permute_nodes [2; 0; 1] ex_rule)
  /\ Zk nat_ops_example P_ex w_ex 3 2 [0] = 49 /\ Zk nat_ops_example P_ex' w_ex' 3 3 [1] = 49.
Proof.
  exact (conj (proj1 P_ex_wf) (conj (proj2 P_ex_wf) (conj P_ex_presents (conj w_ex_related
        (conj (proj1 P_ex_ranked) (conj (proj2 P_ex_ranked) (conj (proj1 P_ex_orders) (conj (proj2 P_ex_orders)
        (conj ex_rule_edges_perm (conj ex_rule_nodes_perm
        (conj (proj1 P_ex_values) (proj1 (proj2 P_ex_values))))))))))))).
Qed.
Print Assumptions C12_example_hypotheses.

(** * carrier instances of [C12_presentation], no premises: the semiring laws of BoolSemiring,
      RealSemiring (LogSemiring read through exp) and ViterbiSemiring are proved in
      Proofs/SemiringLaws.v (C08) and discharged in Proofs/Instances_present.v *)
Theorem C12_presentation_bool :
  forall rho pel pnl G G' (w w' : env (R:=bool)),
    wf_grammar G = true -> presents rho pel pnl G G' ->
    (forall l idx, vlab G l -> vidx G l idx -> is_term G l = true ->
                   w' (pel l) (pmap rho (ltype G l) idx) = w l idx) ->
    forall k X xi, vlab G X -> vidx G X xi ->
      Zk bool_ops G' w' k (pel X) (pmap rho (ltype G X) xi) = Zk bool_ops G w k X xi.
Proof. exact bool_presentation. Qed.
Print Assumptions C12_presentation_bool.

Theorem C12_presentation_real :
  forall rho pel pnl G G' (w w' : env (R:=ereal)),
    wf_grammar G = true -> presents rho pel pnl G G' ->
    (forall l idx, vlab G l -> vidx G l idx -> is_term G l = true ->
                   w' (pel l) (pmap rho (ltype G l) idx) = w l idx) ->
    forall k X xi, vlab G X -> vidx G X xi ->
      Zk ereal_ops G' w' k (pel X) (pmap rho (ltype G X) xi) = Zk ereal_ops G w k X xi.
Proof. exact real_presentation. Qed.
Print Assumptions C12_presentation_real.

Theorem C12_presentation_viterbi :
  forall rho pel pnl G G' (w w' : env (R:=trop)),
    wf_grammar G = true -> presents rho pel pnl G G' ->
    (forall l idx, vlab G l -> vidx G l idx -> is_term G l = true ->
                   w' (pel l) (pmap rho (ltype G l) idx) = w l idx) ->
    forall k X xi, vlab G X -> vidx G X xi ->
      Zk trop_ops G' w' k (pel X) (pmap rho (ltype G X) xi) = Zk trop_ops G w k X xi.
Proof. exact trop_presentation. Qed.
Print Assumptions C12_presentation_viterbi.


(** * 10. RECURSIVE grammars: least fixed points and certified enclosures (with C02) *)
(** [weights_pres rho pel G w w'] : w' (pel l) (pmap rho (ltype G l) idx) = w l idx  at every terminal
    l of G and index tuple idx of its shape (the premise of [C12_presentation]);
    [env_pres rho pel G x x'] : the same at every NONTERMINAL (x' is x re-indexed by the presentation);
    [pres_labels pel G] = map pel (nonterminals G), the nonterminals of the presentation that
    present nonterminals of G (all of them when pel is onto: [C12_lfp_presentation_all]);
    [is_lfp_on o G S F mu] (Proofs/Kleene_scc.v, C02): F mu = mu at the in-range cells of the labels
    in S, and mu <= v there for every v with F v <= v there;
    [encloses_on o G S w lo hi]: hi is above every Kleene iterate and a pre-fixed point, lo is below
    some Kleene iterate and below every pre-fixed point (what C02's certified enclosures satisfy). *)
Require Import Fggs.Model.Kleene Fggs.Model.Dual Fggs.Model.Viterbi.
Require Import Fggs.Proofs.SP_mono Fggs.Proofs.Kleene_proofs Fggs.Proofs.Kleene_scc Fggs.Proofs.Kleene_examples
               Fggs.Proofs.Presentation_lfp Fggs.Proofs.Presentation_grad Fggs.Proofs.Presentation_trees
               Fggs.Proofs.Presentation_viterbi Fggs.Proofs.Presentation_rec_examples.

(** ONE application of the equations at ARBITRARY related environments (not only the iterates) *)
Theorem C12_step_presentation :
  forall R (o : sr_ops R), sr_ring o ->
  forall rho pel pnl G G' (w w' x x' : env (R:=R)),
    wf_grammar G = true -> presents rho pel pnl G G' ->
    weights_pres rho pel G w w' -> env_pres rho pel G x x' ->
    forall X xi, vlab G X -> vidx G X xi ->
      step o G' w' x' (pel X) (pmap rho (ltype G X) xi) = step o G w x X xi.
Proof. exact (@step_presentation). Qed.
Print Assumptions C12_step_presentation.

(** x is THE least fixed point of G  <->  the re-indexed x is THE least fixed point of G' *)
Theorem C12_lfp_presentation :
  forall R (o : sr_ops R), sr_ring o ->
  forall rho pel pnl G G' (w w' : env (R:=R)),
    wf_grammar G = true -> presents rho pel pnl G G' -> weights_pres rho pel G w w' ->
    forall mu mu', env_pres rho pel G mu mu' ->
      (is_lfp_on o G (nonterminals G) (step o G w) mu
       <-> is_lfp_on o G' (pres_labels pel G) (step o G' w') mu').
Proof. exact (@lfp_presentation). Qed.
Print Assumptions C12_lfp_presentation.

(** ... on ALL nonterminals of G' when pel reaches them *)
Theorem C12_lfp_presentation_all :
  forall R (o : sr_ops R), sr_ring o ->
  forall rho pel pnl G G' (w w' mu mu' : env (R:=R)),
    wf_grammar G = true -> presents rho pel pnl G G' -> weights_pres rho pel G w w' ->
    (forall X', In X' (nonterminals G') -> exists X, vlab G X /\ pel X = X') ->
    env_pres rho pel G mu mu' ->
    (is_lfp_on o G (nonterminals G) (step o G w) mu
     <-> is_lfp_on o G' (nonterminals G') (step o G' w') mu').
Proof. exact (@lfp_presentation_all). Qed.
Print Assumptions C12_lfp_presentation_all.

(** which holds, by counting, whenever G' has as many labels as G and pel maps labels to labels
    (as [relabel_grammar] does) *)
Theorem C12_presents_onto :
  forall rho pel pnl G G',
    presents rho pel pnl G G' ->
    (forall X, vlab G X -> pel X < length (g_labels G')) ->
    length (g_labels G') = length (g_labels G) ->
    forall X', X' < length (g_labels G') -> exists X, vlab G X /\ pel X = X'.
Proof. exact presents_onto. Qed.
Print Assumptions C12_presents_onto.

(** the VALUES: any least fixed point of G' read at (pel X, rho xi) is the least fixed point of G at (X, xi) *)
Theorem C12_lfp_value_presentation :
  forall R (o : sr_ops R), sr_ring o -> sr_ordered o ->
  forall rho pel pnl G G' (w w' mu mu' : env (R:=R)),
    wf_grammar G = true -> presents rho pel pnl G G' -> weights_pres rho pel G w w' ->
    is_lfp_on o G (nonterminals G) (step o G w) mu ->
    is_lfp_on o G' (pres_labels pel G) (step o G' w') mu' ->
    forall X xi, In X (nonterminals G) -> In xi (all_assts (lshape G X)) ->
      mu' (pel X) (pmap rho (ltype G X) xi) = mu X xi.
Proof. exact (@lfp_value_presentation). Qed.
Print Assumptions C12_lfp_value_presentation.

(** [lo, hi] encloses the least fixed point of G  <->  the re-indexed pair encloses that of G' *)
Theorem C12_enclosure_presentation :
  forall R (o : sr_ops R), sr_ring o ->
  forall rho pel pnl G G' (w w' : env (R:=R)),
    wf_grammar G = true -> presents rho pel pnl G G' -> weights_pres rho pel G w w' ->
    forall lo lo' hi hi', env_pres rho pel G lo lo' -> env_pres rho pel G hi hi' ->
      (encloses_on o G (nonterminals G) w lo hi <-> encloses_on o G' (pres_labels pel G) w' lo' hi').
Proof. exact (@enclosure_presentation). Qed.
Print Assumptions C12_enclosure_presentation.

(** the certificate computed by C02's [enclosure] for G, re-indexed, brackets every least fixed point of G' *)
Theorem C12_enclosure_run_presentation :
  forall R (o : sr_ops R), sr_ring o -> sr_ordered o ->
  forall (rd infl : R -> R) (leb : R -> R -> bool),
    (forall x, le o (rd x) x) -> (forall x y, leb x y = true -> le o x y) ->
  forall rho pel pnl G G' (w w' : env (R:=R)) K lo u (lo' hi' : env (R:=R)),
    wf_grammar G = true -> presents rho pel pnl G G' -> weights_pres rho pel G w w' ->
    enclosure o rd infl leb G w K = Some (lo, u) ->
    env_pres rho pel G (env_of o lo) lo' -> env_pres rho pel G (env_of o u) hi' ->
    encloses_on o G' (pres_labels pel G) w' lo' hi'
    /\ forall mu', is_lfp_on o G' (pres_labels pel G) (step o G' w') mu' ->
         le_on_set o G' (pres_labels pel G) lo' mu' /\ le_on_set o G' (pres_labels pel G) mu' hi'.
Proof. exact (@enclosure_run_presentation). Qed.
Print Assumptions C12_enclosure_run_presentation.

(** if the k-th Kleene iterate of G is stationary, the k-th iterate of G' is its least fixed point *)
Theorem C12_Zk_fixed_presentation :
  forall R (o : sr_ops R), sr_ring o -> sr_ordered o ->
  forall rho pel pnl G G' (w w' : env (R:=R)) k,
    wf_grammar G = true -> presents rho pel pnl G G' -> weights_pres rho pel G w w' ->
    env_eq_on G (Zk o G w k) (Zk o G w (S k)) ->
    is_lfp_on o G' (pres_labels pel G) (step o G' w') (Zk o G' w' k).
Proof. exact (@Zk_fixed_presentation). Qed.
Print Assumptions C12_Zk_fixed_presentation.

(** SCC by SCC (C02_scc_decomposition; each component solved exactly, e.g. by the linear solve of
    C02_linear_is_least_fixed_point), any two dependency-respecting component orders *)
Theorem C12_scc_runs_presentation :
  forall R (o : sr_ops R), sr_ring o -> sr_ordered o ->
  forall rho pel pnl G G' (w w' mu : env (R:=R)) order order' acc acc' final final',
    wf_grammar G = true -> wf_grammar G' = true -> presents rho pel pnl G G' -> weights_pres rho pel G w w' ->
    (forall X', In X' (nonterminals G') -> exists X, vlab G X /\ pel X = X') ->
    is_lfp_on o G (nonterminals G) (step o G w) mu ->
    exact_run o G w order acc final -> Kleene_scc.dep_ordered G [] order ->
    (forall X, In X (nonterminals G) -> In X (concat order)) ->
    exact_run o G' w' order' acc' final' -> Kleene_scc.dep_ordered G' [] order' ->
    (forall X, In X (nonterminals G') -> In X (concat order')) ->
    forall X xi, In X (nonterminals G) -> In xi (all_assts (lshape G X)) ->
      final' (pel X) (pmap rho (ltype G X) xi) = final X xi.
Proof. exact (@scc_runs_presentation). Qed.
Print Assumptions C12_scc_runs_presentation.

(** carrier instances, no law premises (Proofs/Instances_present.v) *)
Theorem C12_lfp_presentation_bool :
  forall rho pel pnl G G' (w w' : env (R:=bool)),
    wf_grammar G = true -> presents rho pel pnl G G' -> weights_pres rho pel G w w' ->
    forall mu mu', env_pres rho pel G mu mu' ->
      (is_lfp_on bool_ops G (nonterminals G) (step bool_ops G w) mu
       <-> is_lfp_on bool_ops G' (pres_labels pel G) (step bool_ops G' w') mu').
Proof. exact bool_lfp_presentation. Qed.
Print Assumptions C12_lfp_presentation_bool.

Theorem C12_lfp_presentation_real :
  forall rho pel pnl G G' (w w' : env (R:=ereal)),
    wf_grammar G = true -> presents rho pel pnl G G' -> weights_pres rho pel G w w' ->
    forall mu mu', env_pres rho pel G mu mu' ->
      (is_lfp_on ereal_ops G (nonterminals G) (step ereal_ops G w) mu
       <-> is_lfp_on ereal_ops G' (pres_labels pel G) (step ereal_ops G' w') mu').
Proof. exact real_lfp_presentation. Qed.
Print Assumptions C12_lfp_presentation_real.

Theorem C12_lfp_presentation_viterbi :
  forall rho pel pnl G G' (w w' : env (R:=trop)),
    wf_grammar G = true -> presents rho pel pnl G G' -> weights_pres rho pel G w w' ->
    forall mu mu', env_pres rho pel G mu mu' ->
      (is_lfp_on trop_ops G (nonterminals G) (step trop_ops G w) mu
       <-> is_lfp_on trop_ops G' (pres_labels pel G) (step trop_ops G' w') mu').
Proof. exact trop_lfp_presentation. Qed.
Print Assumptions C12_lfp_presentation_viterbi.

Theorem C12_lfp_value_presentation_real :
  forall rho pel pnl G G' (w w' mu mu' : env (R:=ereal)),
    wf_grammar G = true -> presents rho pel pnl G G' -> weights_pres rho pel G w w' ->
    is_lfp_on ereal_ops G (nonterminals G) (step ereal_ops G w) mu ->
    is_lfp_on ereal_ops G' (pres_labels pel G) (step ereal_ops G' w') mu' ->
    forall X xi, In X (nonterminals G) -> In xi (all_assts (lshape G X)) ->
      mu' (pel X) (pmap rho (ltype G X) xi) = mu X xi.
Proof. exact real_lfp_value_presentation. Qed.
Print Assumptions C12_lfp_value_presentation_real.

(** Real / Log: the rounded-and-inflated certificate of C02_real_enclosure_sound *)
Theorem C12_enclosure_run_presentation_real :
  forall rho pel pnl G G' (w w' : env (R:=ereal)) K lo u (lo' hi' : env (R:=ereal)),
    wf_grammar G = true -> presents rho pel pnl G G' -> weights_pres rho pel G w w' ->
    enclosure ereal_ops rd_real infl_real eleb G w K = Some (lo, u) ->
    env_pres rho pel G (env_of ereal_ops lo) lo' -> env_pres rho pel G (env_of ereal_ops u) hi' ->
    encloses_on ereal_ops G' (pres_labels pel G) w' lo' hi'
    /\ forall mu', is_lfp_on ereal_ops G' (pres_labels pel G) (step ereal_ops G' w') mu' ->
         le_on_set ereal_ops G' (pres_labels pel G) lo' mu' /\ le_on_set ereal_ops G' (pres_labels pel G) mu' hi'.
Proof. exact real_enclosure_run_presentation. Qed.
Print Assumptions C12_enclosure_run_presentation_real.

(** * 11. DERIVATIONS and the Viterbi weight (with C04) *)
(** the presentation map on derivation trees: [tmap sigma alpha kappa] renames the rule index of
    every node by sigma, transports its assignment by alpha and lists its children in the order
    kappa of the rule.  [rule_tsim ... ri]: rule ri of G and rule sigma ri of G' correspond (lhs
    through pi, edges = the old ones through emap at the positions kappa ri, a permutation;
    assignments through alpha with externals / attachments restricted consistently with tau).
    Then images of well-formed derivations are well-formed, with the same weight (any commutative
    semiring) and depth *)
Theorem C12_tree_map_sim :
  forall R (o : sr_ops R), sr_ring o ->
  forall G G' pi tau sigma alpha kappa emap (w w' : env (R:=R)),
    (forall ri, ri < length (g_rules G) -> rule_tsim G G' pi tau sigma alpha kappa emap ri) ->
    (forall ri a ed, ri < length (g_rules G) -> In a (all_assts (node_sizes G (get_rule G ri))) ->
       In ed (r_edges (get_rule G ri)) -> is_term G (fst ed) = true ->
       w' (pi (fst ed)) (tau (fst ed) (sel a (snd ed))) = w (fst ed) (sel a (snd ed))) ->
    forall t X xi, wf_dtree G X xi t ->
      wf_dtree G' (pi X) (tau X xi) (tmap sigma alpha kappa t)
      /\ weight o G' w' (tmap sigma alpha kappa t) = weight o G w t
      /\ SP_trees.depth (tmap sigma alpha kappa t) = SP_trees.depth t.
Proof. exact (@tmap_sim). Qed.
Print Assumptions C12_tree_map_sim.

(** every ingredient of a presentation is an instance (rule order: sigma; edge order: kappa; node
    order / domain values: alpha; labels: pi), so: every well-formed derivation of G has an image
    among the well-formed derivations of G', of the same weight and depth *)
Theorem C12_tree_presentation :
  forall R (o : sr_ops R), sr_ring o ->
  forall rho pel pnl G G' (w w' : env (R:=R)) X xi,
    wf_grammar G = true -> presents rho pel pnl G G' -> weights_pres rho pel G w w' ->
    forall t, wf_dtree G X xi t ->
      exists t', wf_dtree G' (pel X) (pmap rho (ltype G X) xi) t'
                 /\ weight o G' w' t' = weight o G w t /\ SP_trees.depth t' = SP_trees.depth t.
Proof. exact (@tree_presentation). Qed.
Print Assumptions C12_tree_presentation.

(** selective ordered semirings (a + b is a or b; e.g. max): the image of an OPTIMAL derivation
    of G is an optimal derivation of G' *)
Theorem C12_optimal_derivation_presentation :
  forall R (o : sr_ops R), sr_ring o -> sr_ordered o -> (forall a b, add o a b = a \/ add o a b = b) ->
  forall rho pel pnl G G' (w w' : env (R:=R)) X xi t,
    wf_grammar G = true -> presents rho pel pnl G G' -> weights_pres rho pel G w w' ->
    vlab G X -> vidx G X xi -> is_term G X = false ->
    wf_dtree G X xi t -> (forall s, wf_dtree G X xi s -> le o (weight o G w s) (weight o G w t)) ->
    exists t', wf_dtree G' (pel X) (pmap rho (ltype G X) xi) t'
      /\ weight o G' w' t' = weight o G w t /\ SP_trees.depth t' = SP_trees.depth t
      /\ forall s', wf_dtree G' (pel X) (pmap rho (ltype G X) xi) s' -> le o (weight o G' w' s') (weight o G' w' t').
Proof. exact (@optimal_derivation_presentation). Qed.
Print Assumptions C12_optimal_derivation_presentation.

(** Viterbi (max, +): no premise on the carrier *)
Theorem C12_viterbi_derivation_presentation :
  forall rho pel pnl G G' (w w' : env (R:=trop)) X xi t,
    wf_grammar G = true -> presents rho pel pnl G G' -> weights_pres rho pel G w w' ->
    vlab G X -> vidx G X xi -> is_term G X = false ->
    wf_dtree G X xi t -> (forall s, wf_dtree G X xi s -> tle (weight trop_ops G w s) (weight trop_ops G w t)) ->
    exists t', wf_dtree G' (pel X) (pmap rho (ltype G X) xi) t'
      /\ weight trop_ops G' w' t' = weight trop_ops G w t /\ SP_trees.depth t' = SP_trees.depth t
      /\ forall s', wf_dtree G' (pel X) (pmap rho (ltype G X) xi) s' ->
                    tle (weight trop_ops G' w' s') (weight trop_ops G' w' t').
Proof. exact trop_optimal_derivation_presentation. Qed.
Print Assumptions C12_viterbi_derivation_presentation.

(** the optimum C04 judges against (the exact enclosure, = max over all derivations, C04_optimal)
    is the same at corresponding cells -- in particular at the start assignment *)
Theorem C12_viterbi_optimum_presentation :
  forall rho pel pnl G G' (w w' : env (R:=trop)) K K' lo u lo' u' X xi,
    wf_grammar G = true -> wf_grammar G' = true -> presents rho pel pnl G G' -> weights_pres rho pel G w w' ->
    enclosure trop_ops (fun x => x) (fun x => x) tleb G w K = Some (lo, u) ->
    enclosure trop_ops (fun x => x) (fun x => x) tleb G' w' K' = Some (lo', u') ->
    In X (nonterminals G) -> In xi (all_assts (lshape G X)) ->
    env_of trop_ops lo' (pel X) (pmap rho (ltype G X) xi) = env_of trop_ops lo X xi.
Proof. exact trop_optimum_presentation. Qed.
Print Assumptions C12_viterbi_optimum_presentation.

(** * 12. GRADIENTS (with C03: the dual numbers are a commutative semiring) *)
(** dual Kleene iterates (value, derivative in the direction d of the terminal weights); the
    direction is re-indexed like the weights *)
Theorem C12_dual_presentation :
  forall R (o : sr_ops R), sr_ring o ->
  forall rho pel pnl G G' (w w' d d' : env (R:=R)),
    wf_grammar G = true -> presents rho pel pnl G G' ->
    weights_pres rho pel G w w' -> weights_pres rho pel G d d' ->
    forall k X xi, vlab G X -> vidx G X xi ->
      Zk (dual_ops o) G' (denv w' d') k (pel X) (pmap rho (ltype G X) xi) = Zk (dual_ops o) G (denv w d) k X xi.
Proof. exact (@dual_Zk_presentation). Qed.
Print Assumptions C12_dual_presentation.

(** d Z_k[X, xi] / d w[l0, i0]  =  d Z'_k[pel X, rho xi] / d w'[pel l0, rho i0]  (eps parts; the
    weight entry is moved by the presentation together with the tables) *)
Theorem C12_grad_presentation :
  forall R (o : sr_ops R), sr_ring o ->
  forall rho pel pnl G G' (w w' : env (R:=R)) l0 i0,
    wf_grammar G = true -> presents rho pel pnl G G' -> weights_pres rho pel G w w' ->
    vlab G l0 -> vidx G l0 i0 ->
    forall k X xi, vlab G X -> vidx G X xi ->
      grad_model o G' w' (pel l0) (pmap rho (ltype G l0) i0) k (pel X) (pmap rho (ltype G X) xi)
      = grad_model o G w l0 i0 k X xi.
Proof. exact (@grad_presentation). Qed.
Print Assumptions C12_grad_presentation.

(** non-recursive grammars: the code-shaped reverse accumulation (C03_nonrecursive_gradient), any
    two dependency-respecting orders, the cotangent tables [cf] / [cf'] related like all tables *)
Theorem C12_backward_nonrec_presentation :
  forall R (o : sr_ops R), sr_ring o ->
  forall rho pel pnl G G' (w w' : tmt (R:=R)) ord ord' (cf cf' : list nat -> R) l0 i0,
    wf_grammar G = true -> wf_grammar G' = true -> presents rho pel pnl G G' ->
    g_start G' = pel (g_start G) ->
    (forall l, tget w l <> None -> is_term G l = true) -> (forall l, tget w' l <> None -> is_term G' l = true) ->
    weights_pres rho pel G (env_of o w) (env_of o w') ->
    SP_main.dep_ordered G [] ord -> NoDup ord -> (forall X, is_term G X = false -> In X ord) ->
    SP_main.dep_ordered G' [] ord' -> NoDup ord' -> (forall X, is_term G' X = false -> In X ord') ->
    is_term G l0 = true -> vlab G l0 -> vidx G l0 i0 -> pel l0 < length (g_labels G') ->
    (forall xi, vidx G (g_start G) xi -> cf' (pmap rho (ltype G (g_start G)) xi) = cf xi) ->
    env_of o (backward_nonrec o G' w' (map (fun x => [x]) ord') (map cf' (all_assts (lshape G' (g_start G')))))
           (pel l0) (pmap rho (ltype G l0) i0)
    = env_of o (backward_nonrec o G w (map (fun x => [x]) ord) (map cf (all_assts (lshape G (g_start G))))) l0 i0.
Proof. exact (@backward_nonrec_presentation). Qed.
Print Assumptions C12_backward_nonrec_presentation.

Theorem C12_grad_presentation_real :
  forall rho pel pnl G G' (w w' : env (R:=ereal)) l0 i0,
    wf_grammar G = true -> presents rho pel pnl G G' -> weights_pres rho pel G w w' ->
    vlab G l0 -> vidx G l0 i0 ->
    forall k X xi, vlab G X -> vidx G X xi ->
      grad_model ereal_ops G' w' (pel l0) (pmap rho (ltype G l0) i0) k (pel X) (pmap rho (ltype G X) xi)
      = grad_model ereal_ops G w l0 i0 k X xi.
Proof. exact real_grad_presentation. Qed.
Print Assumptions C12_grad_presentation_real.

(** * 13. the hypotheses of sections 10-12 are satisfiable *)
(** the recursive grammar of C02's examples ( X -> X a | a ,  Y -> Y Y | a ) and a presentation of
    it (domain values swapped, labels renumbered, edges reversed, rules reversed): it presents; pel
    is onto; related weights exist in every semiring; a least fixed point exists in Bool and its
    re-indexing is the least fixed point of the presentation; both exact enclosures succeed and
    agree; a well-formed two-level derivation; the weight entry a[1] and its image; and the
    hypotheses of [C12_backward_nonrec_presentation] for the non-recursive pair P_ex / P_ex' *)
Theorem C12_recursive_example_hypotheses :
  wf_grammar exG = true /\ wf_grammar exG' = true
  /\ presents rho_r (pfun pe_r) (pfun pn_r) exG exG'
  /\ (forall X', In X' (nonterminals exG') -> exists X, vlab exG X /\ pfun pe_r X = X')
  /\ (forall R (w : env (R:=R)), weights_pres rho_r (pfun pe_r) exG w (pres_w w))
  /\ (exists mu mu', is_lfp_on bool_ops exG (nonterminals exG) (step bool_ops exG exw) mu
         /\ env_pres rho_r (pfun pe_r) exG mu mu'
         /\ is_lfp_on bool_ops exG' (nonterminals exG') (step bool_ops exG' (pres_w exw)) mu')
  /\ (exists lo lo', enclosure bool_ops (fun x => x) (fun x => x) (fun a b : bool => implb a b) exG exw 3 = Some (lo, lo)
         /\ enclosure bool_ops (fun x => x) (fun x => x) (fun a b : bool => implb a b) exG' (pres_w exw) 3 = Some (lo', lo')
         /\ env_of bool_ops lo 1 [1] = true /\ env_of bool_ops lo' 0 [0] = true
         /\ env_of bool_ops lo 1 [0] = false /\ env_of bool_ops lo' 0 [1] = false)
  /\ (wf_dtree exG 1 [1] ex_tree /\ vlab exG 1 /\ vidx exG 1 [1] /\ is_term exG 1 = false)
  /\ (pfun pe_r 0 = 2 /\ pmap rho_r (ltype exG 0) [1] = [0] /\ vlab exG 0 /\ vidx exG 0 [1]).
Proof.
  exact (conj ex_wf (conj exG'_wf (conj exG_presents (conj exG_onto (conj (@pres_w_ok)
        (conj exG'_lfp (conj exG'_enclosure (conj ex_tree_wf ex_entry)))))))).
Qed.
Print Assumptions C12_recursive_example_hypotheses.

Theorem C12_backward_example_hypotheses :
  (forall l, tget wt_ex l <> None -> is_term P_ex l = true)
  /\ (forall l, tget wt_ex' l <> None -> is_term P_ex' l = true)
  /\ weights_pres rho_ex (pfun pe_ex) P_ex (env_of nat_ops_example wt_ex) (env_of nat_ops_example wt_ex')
  /\ g_start P_ex' = pfun pe_ex (g_start P_ex)
  /\ NoDup [2; 3] /\ (forall X, is_term P_ex X = false -> In X [2; 3])
  /\ NoDup [3; 1] /\ (forall X, is_term P_ex' X = false -> In X [3; 1])
  /\ is_term P_ex 0 = true /\ vlab P_ex 0 /\ vidx P_ex 0 [1; 2] /\ pfun pe_ex 0 < length (g_labels P_ex').
Proof. exact wt_ex_hyps. Qed.
Print Assumptions C12_backward_example_hypotheses.

(** * 14. order of the components, recursive components included *)
(** any two dependency-respecting orders of the component list (components of any size, recursive
    or not), each component solved exactly (its own least fixed point given the earlier results:
    [exact_run], C02), give the same value at every nonterminal and cell; [mu] is the global least
    fixed point (whose existence is what C02's solvers establish).  The hypotheses are satisfiable:
    C02's examples [ex_is_lfp], [ex_dep_ordered] (Proofs/Kleene_examples.v) *)
Theorem C12_scc_order_irrelevant_exact :
  forall R (o : sr_ops R), sr_ring o -> sr_ordered o ->
  forall G (w mu : env (R:=R)) order order' acc acc' final final',
    wf_grammar G = true ->
    is_lfp_on o G (nonterminals G) (step o G w) mu ->
    exact_run o G w order acc final -> Kleene_scc.dep_ordered G [] order ->
    (forall X, In X (nonterminals G) -> In X (concat order)) ->
    exact_run o G w order' acc' final' -> Kleene_scc.dep_ordered G [] order' ->
    (forall X, In X (nonterminals G) -> In X (concat order')) ->
    forall X xi, In X (nonterminals G) -> In xi (all_assts (lshape G X)) -> final' X xi = final X xi.
Proof. exact (@scc_order_irrelevant_exact). Qed.
Print Assumptions C12_scc_order_irrelevant_exact.
(** * twin rules: same lhs and EQUAL edges, different external nodes / isolated nodes *)
(** (node and edge ids are only unique inside one right-hand side, so such rules have equal Edge
    objects in the library; harness stream "twin rules", harness/props/_c12_util.py) *)
Require Import Fggs.Proofs.Presentation_twin.

(** the equations sum over the rule LIST: an appended rule contributes its own [rule_val]
    (own nodes, own externals), whatever rules with the same edges are already present *)
Theorem C12_rule_appended :
  forall R (o : sr_ops R), sr_ring o ->
  forall G G' r w x xi,
    g_doms G' = g_doms G -> g_labels G' = g_labels G -> g_rules G' = g_rules G ++ [r] ->
    is_term G (r_lhs r) = false ->
    step o G' w x (r_lhs r) xi
    = add o (step o G w x (r_lhs r) xi)
            (rule_val o G' (fun l => if is_term G' l then w l else x l) r xi).
Proof. exact (@step_rule_appended). Qed.
Print Assumptions C12_rule_appended.

(** a rule is NOT determined by (lhs, edges): giving a rule the value of its twin changes the result
    (other external node, Boolean semiring; one more isolated node, counting semiring) *)
Theorem C12_twin_rules_not_interchangeable_ext :
  exists r r' w k xi,
    twin_rules r r' /\ wf_grammar (tw_G [r; r']) = true /\
    Zk bool_ops (tw_G [r; r']) w k 1 xi <> Zk bool_ops (tw_G [r; r]) w k 1 xi.
Proof. exact twin_rules_not_interchangeable_ext. Qed.
Print Assumptions C12_twin_rules_not_interchangeable_ext.

Theorem C12_twin_rules_not_interchangeable_isolated :
  exists r r' w k xi,
    twin_rules r r' /\ wf_grammar (tw_G [r; r']) = true /\
    Zk nat_ops (tw_G [r; r']) w k 1 xi = 3 /\ Zk nat_ops (tw_G [r; r]) w k 1 xi = 2.
Proof. exact twin_rules_not_interchangeable_isolated. Qed.
Print Assumptions C12_twin_rules_not_interchangeable_isolated.

