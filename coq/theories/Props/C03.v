(** C03 -- placeholder while the proofs are being written. *)
From Coq Require Import List.
Require Import Fggs.Model.Semiring Fggs.Model.SumProduct Fggs.Model.Dual.
Theorem C03_placeholder : forall R (o : sr_ops R), zero (dual_ops o) = (zero o, zero o).
Proof. reflexivity. Qed.
Print Assumptions C03_placeholder.
