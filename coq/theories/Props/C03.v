(** C03 -- gradients of the sum-product are the true derivatives.
    Only property theorems live here, each closed by [exact] and followed by Print Assumptions.
    Everything is generic in the semiring: [forall R (o : sr_ops R), sr_ring o -> ...].
    The derivative is defined by running the SAME definitions over the dual numbers
    [dual_ops o : sr_ops (R * R)] (Model/Dual.v). *)
From Coq Require Import QArith Qcanon List Arith Bool PeanoNat.
Import ListNotations.
Require Import Fggs.Model.Semiring Fggs.Model.SCC Fggs.Model.SumProduct Fggs.Model.SumProductCheck
               Fggs.Model.EReal Fggs.Model.Kleene Fggs.Model.Dual.
Local Open Scope nat_scope.
Require Import Fggs.Proofs.BigSum Fggs.Proofs.SP_trees Fggs.Proofs.SP_nonrec Fggs.Proofs.SP_driver
               Fggs.Proofs.SP_examples
               Fggs.Proofs.Dual_ring Fggs.Proofs.Dual_leibniz Fggs.Proofs.Dual_trees Fggs.Proofs.Dual_J
               Fggs.Proofs.Dual_vjp Fggs.Proofs.Dual_encl Fggs.Proofs.Dual_examples
               Fggs.Proofs.SP_main Fggs.Proofs.Dual_back Fggs.Proofs.Dual_nonrec Fggs.Proofs.Dual_check Fggs.Proofs.Dual_log Fggs.Proofs.Dual_logblock Fggs.Proofs.SemiringLaws Fggs.Proofs.Dual_ereal.
Local Open Scope nat_scope.

(** * 0. The oracle of the correspondence check is sound *)
(** verdict 0 of [grad_check_real]: the grammar is well-formed and every observed gradient entry
    (an interval around the float) meets the interval [entry_interval] ... *)
Theorem C03_check_oracle_sound :
  forall gw ws is_log rounds cot obs,
  grad_check_real (gw, ws, (is_log, rounds), cot, obs) = 0 ->
  let G := grammar_of_w gw in
  wf_grammar G = true
  /\ length cot = length (all_assts (lshape G (g_start G)))
  /\ exists order, scc (nt_graph G) = Some order
     /\ forall l wl ob, In (l, wl) ws -> obs_get obs l = Some ob ->
          length ob = length (all_assts (lshape G l)) /\ length wl = length (all_assts (lshape G l))
          /\ forall i0 wv ob1, In (i0, wv, ob1) (combine (combine (all_assts (lshape G l)) wl) ob) ->
               exists iv, entry_interval G ws is_log rounds (nonrecursive_order G order) cot l i0 wv = Some (Some iv)
                          /\ meets iv ob1 = true.
Proof. exact grad_check_sound. Qed.
Print Assumptions C03_check_oracle_sound.

(** ... which contains the cotangent-weighted derivative computed from the two components
    (Z_j, dZ_j/dw) of the dual Kleene iterates of the start symbol's cells: Real: sum_j c_j dZ_j/dw,
    Log: sum_j c_j w (dZ_j/dw) / Z_j; at iterate #nonterminals for non-recursive grammars (the sum
    over all derivations, C01), at every sufficiently late iterate for recursive ones (so also in
    the limit).  The semiring laws of the carrier [0, inf] are premises (C08). *)
Theorem C03_entry_interval_sound :
  sr_ring ereal_ops -> sr_ordered ereal_ops ->
  forall G ws is_log rounds nonrec cot l i0 wv iv,
  wf_grammar G = true -> (0 <= wq_of wv)%Q ->
  entry_interval G ws is_log rounds nonrec cot l i0 wv = Some (Some iv) ->
  exists K, forall k, (if nonrec then k = length (nonterminals G) else K <= k) ->
    exists gs,
      Forall2 (fun xi g => exists az ad,
                 Zk dops G (env_of dops (dual_weights G ws l i0)) k (g_start G) xi = (Fin az, Fin ad)
                 /\ (is_log = true -> (0 < this (qv az))%Q)
                 /\ g = cell_quantity is_log (wq_of wv) (this (qv az)) (this (qv ad)))
              (all_assts (lshape G (g_start G))) gs
      /\ (fst iv <= dot cot gs)%Q /\ (dot cot gs <= snd iv)%Q.
Proof. exact entry_interval_sound. Qed.
Print Assumptions C03_entry_interval_sound.

Theorem C03_start_bounds_sound :
  sr_ring ereal_ops -> sr_ordered ereal_ops ->
  forall G ws rounds nonrec l i0 tlo tv,
  wf_grammar G = true -> start_bounds G ws rounds nonrec l i0 = Some (tlo, tv) ->
  exists K, forall k, (if nonrec then k = length (nonterminals G) else K <= k) ->
    forall xi, In xi (all_assts (lshape G (g_start G))) ->
      le dops (tab_get dops tlo xi) (Zk dops G (env_of dops (dual_weights G ws l i0)) k (g_start G) xi)
      /\ le dops (Zk dops G (env_of dops (dual_weights G ws l i0)) k (g_start G) xi) (tab_get dops tv xi).
Proof. exact start_bounds_sound. Qed.
Print Assumptions C03_start_bounds_sound.

(** the rounding functions of the Real instance round in the right direction; signed interval
    contraction is sound *)
Theorem C03_rounding_directed :
  (forall x, ele (rd_f x) x) /\ (forall x, ele x (ru_f x))
  /\ (forall a b : D, pair_rel eleb a b = true -> le dops a b).
Proof. exact (conj rd_f_le (conj ru_f_ge pair_eleb_sound)). Qed.
Print Assumptions C03_rounding_directed.

Theorem C03_contract_sound :
  forall cs los gs his, bounded3 los gs his ->
    (fst (contract cs los his) <= dot cs gs)%Q /\ (dot cs gs <= snd (contract cs los his))%Q.
Proof. exact contract_sound. Qed.
Print Assumptions C03_contract_sound.

(** * 1. The dual numbers *)
Theorem C03_dual_is_semiring :
  forall R (o : sr_ops R), sr_ring o -> sr_ring (dual_ops o).
Proof. exact (fun R o => @dual_ring R o). Qed.
Print Assumptions C03_dual_is_semiring.

Theorem C03_dual_is_ordered :
  forall R (o : sr_ops R), sr_ordered o -> sr_ordered (dual_ops o).
Proof. exact (fun R o => @dual_ordered R o). Qed.
Print Assumptions C03_dual_is_ordered.

(** star (a + a' eps) = a* + a* a' a* eps is the least solution of y = 1 + x y over the duals *)
Theorem C03_dual_is_star_semiring :
  forall R (o : sr_ops R), sr_ring o -> sr_ordered o -> sr_star o -> sr_star (dual_ops o).
Proof. exact (fun R o => @dual_star R o). Qed.
Print Assumptions C03_dual_is_star_semiring.

(** Leibniz: the epsilon part of a product is the sum, over the factors, of the epsilon part of
    that factor times the product of the value parts of the OTHER factors *)
Theorem C03_leibniz_product :
  forall R (o : sr_ops R), sr_ring o ->
  forall A (l : list A) (f : A -> R * R),
    fst (prodS (dual_ops o) l f) = prodS o l (fun x => fst (f x))
    /\ snd (prodS (dual_ops o) l f)
       = sumS o (splits l) (fun s => mul o (snd (f (snd (fst s)))) (prodS o (fst (fst s) ++ snd s) (fun x => fst (f x)))).
Proof.
  exact (fun R o H A l f =>
           conj (fst_prodS o l f)
                (eq_trans (snd_prodS o H l f) (leib_splits o H l (fun x => fst (f x)) (fun x => snd (f x))))).
Qed.
Print Assumptions C03_leibniz_product.

Theorem C03_splits_spec :
  forall A (l : list A) s, In s (splits l) -> l = fst (fst s) ++ snd (fst s) :: snd s.
Proof. exact (fun A => @splits_spec A). Qed.
Print Assumptions C03_splits_spec.

(** * 2. The dual Kleene iterates: value = ordinary iterate, epsilon part = formal derivative *)
(** projection is a homomorphism; the epsilon part obeys the linearised recurrence
    eps Z_{k+1} = J(Z_k) . eps Z_k + (dF/dw)(Z_k) . eps w, where [dstep G e de X xi] is the
    derivative of the sum of X's rule values at the point e in the direction de: the sum over
    rules, assignments and EDGES of de(edge) * product of e over the other edges *)
Theorem C03_dual_is_derivative :
  forall R (o : sr_ops R), sr_ring o ->
  forall G (W : env (R:=R * R)) k X xi,
    fst (Zk (dual_ops o) G W k X xi) = Zk o G (penv W) k X xi
    /\ (is_term G X = false ->
        let e := env_k G (penv W) (Zk o G (penv W) k) in
        snd (Zk (dual_ops o) G W (S k) X xi)
        = add o (dstep o G e (only_nt o G (eenv (Zk (dual_ops o) G W k))) X xi)
                (dstep o G e (only_t o G (eenv W)) X xi)).
Proof.
  exact (fun R o H G W k X xi => conj (fst_Zk o G W k X xi) (snd_Zk_S_split o H G W k X xi)).
Qed.
Print Assumptions C03_dual_is_derivative.

Theorem C03_grad_model_value_part :
  forall R (o : sr_ops R), sr_ring o ->
  forall G (w d : env (R:=R)) k X xi, fst (Zk (dual_ops o) G (denv w d) k X xi) = Zk o G w k X xi.
Proof. exact (fun R o _ => @fst_Zk_denv R o). Qed.
Print Assumptions C03_grad_model_value_part.

(** one application of the equations over the duals *)
Theorem C03_dual_step :
  forall R (o : sr_ops R), sr_ring o ->
  forall G (W Y : env (R:=R * R)) X xi, is_term G X = false ->
    fst (step (dual_ops o) G W Y X xi) = step o G (penv W) (penv Y) X xi
    /\ snd (step (dual_ops o) G W Y X xi)
       = dstep o G (env_k G (penv W) (penv Y)) (env_k G (eenv W) (eenv Y)) X xi.
Proof.
  exact (fun R o H G W Y X xi HX => conj (fst_step o G W Y X xi) (snd_step o H G W Y X xi HX)).
Qed.
Print Assumptions C03_dual_step.

(** * 3. The code's J is the formal Jacobian *)
(** multi_mv (J, J_inputs) (dx, dw) at the point (x, w) = epsilon part of F over the duals at
    (x + eps dx, w + eps dw): every rule shape is covered (edges sharing a label, repeated
    attachments, isolated nodes, duplicated externals -- inherited from C01's [spe] theorem) *)
Theorem C03_J_is_formal_derivative :
  forall R (o : sr_ops R), sr_ring o ->
  forall G, wf_grammar G = true ->
  forall comp (w x dw dx : env (R:=R)) n xi,
    NoDup comp -> In n comp -> is_term G n = false -> In xi (all_assts (lshape G n)) ->
    J_mv o G (J_contribs o G comp (fun l => Some (env_k G w x l)) true) (env_k G dw dx) n xi
    = snd (step (dual_ops o) G (denv w dw) (denv x dx) n xi).
Proof. exact (fun R o H => @J_is_formal_derivative R o H). Qed.
Print Assumptions C03_J_is_formal_derivative.

(** the same for the partial environments the code works with (a label without value counts as
    zero), with or without J_inputs *)
Theorem C03_J_partial_env :
  forall R (o : sr_ops R), sr_ring o ->
  forall G, wf_grammar G = true ->
  forall comp (e : nat -> option (list nat -> R)) (de : env (R:=R)) wi n xi,
    NoDup comp -> In n comp -> In xi (all_assts (lshape G n)) ->
    J_mv o G (J_contribs o G comp e wi) de n xi
    = dstep o G (oenv o e) (fun l i => if wi || mem comp l then de l i else zero o) n xi.
Proof. exact (fun R o H => @J_mv_is_dstep R o H). Qed.
Print Assumptions C03_J_partial_env.

(** Jx = directions supported on the component's nonterminals; J_inputs = directions supported
    on the inputs (terminal weights and earlier nonterminals) *)
Theorem C03_Jx_and_J_inputs :
  forall R (o : sr_ops R), sr_ring o ->
  forall G, wf_grammar G = true ->
  forall comp (e : nat -> option (list nat -> R)) (de : env (R:=R)) n xi,
    NoDup comp -> In n comp -> In xi (all_assts (lshape G n)) ->
    J_mv o G (Jx_of comp (J_contribs o G comp e true)) de n xi
    = dstep o G (oenv o e) (fun l i => if mem comp l then de l i else zero o) n xi
    /\ J_mv o G (Jin_of comp (J_contribs o G comp e true)) de n xi
       = dstep o G (oenv o e) (fun l i => if mem comp l then zero o else de l i) n xi.
Proof.
  exact (fun R o H G Hwf comp e de n xi Hnd Hn Hxi =>
           conj (Jx_is_derivative o H G Hwf comp e de true n xi Hnd Hn Hxi)
                (Jin_is_derivative o H G Hwf comp e de n xi Hnd Hn Hxi)).
Qed.
Print Assumptions C03_Jx_and_J_inputs.

(** * 4. The backward pass of a component evaluated in one step is the vector-Jacobian product *)
Theorem C03_scc_vjp_onestep :
  forall R (o : sr_ops R), sr_ring o ->
  forall G, wf_grammar G = true ->
  forall (all : tmt (R:=R)) X (g : env (R:=R)) l yi,
    (forall r ed, In r (rules_of G X) -> In ed (r_edges r) -> fst ed <> X) ->
    l <> X -> In yi (all_assts (lshape G l)) ->
    backward_onestep o G all X g l yi
    = sumS o (all_assts (lshape G X))
           (fun xi => mul o (g X xi) (dstep o G (env_of o all) (delta_env o l yi) X xi)).
Proof. exact (fun R o H => @vjp_onestep R o H). Qed.
Print Assumptions C03_scc_vjp_onestep.

(** reverse accumulation over the components of a non-recursive grammar (the composition of the
    one-step backward passes that autograd performs) = the cotangent-weighted dual-number
    derivative of the start symbol, for every terminal weight entry: factors shared between
    rules, factors that cannot influence the start symbol (derivative zero), any start arity *)
Theorem C03_nonrecursive_gradient :
  forall R (o : sr_ops R), sr_ring o ->
  forall G, wf_grammar G = true ->
  forall (w : tmt (R:=R)), (forall l, tget w l <> None -> is_term G l = true) ->
  forall ord, dep_ordered G [] ord -> NoDup ord -> (forall X, is_term G X = false -> In X ord) ->
  forall (cot : list R) l0 i0,
    is_term G l0 = true -> l0 < length (g_labels G) -> In i0 (all_assts (lshape G l0)) ->
    length cot = length (all_assts (lshape G (g_start G))) ->
    env_of o (backward_nonrec o G w (map (fun x => [x]) ord) cot) l0 i0
    = sumS o (combine (all_assts (lshape G (g_start G))) cot)
           (fun p => mul o (snd p) (grad_model o G (env_of o w) l0 i0 (length ord) (g_start G) (fst p))).
Proof. exact (fun R o H G Hwf w Hk ord Hd Hn Hc => @nonrecursive_gradient R o H G Hwf w Hk ord Hd Hn Hc). Qed.
Print Assumptions C03_nonrecursive_gradient.

(** * 5. Derivation trees *)
(** the epsilon part of the k-th dual iterate = sum over the derivation trees of depth <= k and
    over each occurrence of the weight entry among the tree's leaves of the product of the
    remaining weights *)
Theorem C03_tree_derivative :
  forall R (o : sr_ops R), sr_ring o ->
  forall G (w : env (R:=R)) l0 i0 k X xi, is_term G X = false ->
    grad_model o G w l0 i0 k X xi
    = sumS o (enum_trees G k X xi)
           (fun t => sumS o (occurrences (l0, i0) (leaves G t))
                          (fun s => prodS o (fst (fst s) ++ snd s) (wt w))).
Proof. exact (fun R o H => @tree_derivative_entry R o H). Qed.
Print Assumptions C03_tree_derivative.

(** general direction d: the sum over trees of the Leibniz sum over the tree's leaves *)
Theorem C03_tree_derivative_direction :
  forall R (o : sr_ops R), sr_ring o ->
  forall G (w d : env (R:=R)) k X xi, is_term G X = false ->
    snd (Zk (dual_ops o) G (denv w d) k X xi) = sumS o (enum_trees G k X xi) (dweight o G w d).
Proof. exact (fun R o H => @tree_derivative R o H). Qed.
Print Assumptions C03_tree_derivative_direction.

Theorem C03_weight_is_product_of_leaves :
  forall R (o : sr_ops R), sr_ring o ->
  forall G (w : env (R:=R)) t, weight o G w t = prodS o (leaves G t) (wt w).
Proof. exact (fun R o H => @weight_leaves R o H). Qed.
Print Assumptions C03_weight_is_product_of_leaves.

(** w * dZ/dw = sum over trees of (number of uses of the entry in the tree) * weight(tree):
    divided by Z this is the expected number of uses of the factor entry *)
Theorem C03_expected_count_numerator :
  forall R (o : sr_ops R), sr_ring o ->
  forall G (w : env (R:=R)) l0 i0 k X xi, is_term G X = false ->
    mul o (w l0 i0) (grad_model o G w l0 i0 k X xi)
    = sumS o (enum_trees G k X xi)
           (fun t => mul o (from_nat o (length (filter (fun p => key_eqb p (l0, i0)) (leaves G t)))) (weight o G w t)).
Proof.
  exact (fun R o H G w l0 i0 k X xi HX =>
           eq_trans (expected_count_numerator o H G w l0 i0 k X xi HX)
                    (sumS_ext o _ _ _ (fun t _ => f_equal (fun n => mul o (from_nat o n) (weight o G w t))
                                                          (occurrences_count (l0, i0) (leaves G t))))).
Qed.
Print Assumptions C03_expected_count_numerator.

(** * 6. Recursive grammars: certified enclosure at any ordered carrier (hence at the duals) *)
Theorem C03_encl2_sound :
  forall R (o : sr_ops R), sr_ring o -> sr_ordered o ->
  forall (rd ru infl : R -> R) (leb close : R -> R -> bool),
    (forall x, le o (rd x) x) -> (forall x, le o x (ru x)) -> (forall a b, leb a b = true -> le o a b) ->
  forall G, wf_grammar G = true ->
  forall (w : env (R:=R)) rounds lo v,
    encl2 o rd ru infl leb close G w rounds = Some (lo, v) ->
    exists K, forall k, K <= k -> forall X xi, is_term G X = false -> In xi (all_assts (lshape G X)) ->
      le o (env_of o lo X xi) (Zk o G w k X xi) /\ le o (Zk o G w k X xi) (env_of o v X xi).
Proof. exact (fun R o Hr Ho rd ru infl leb close H1 H2 H3 G Hwf w => @encl2_sound R o Hr Ho rd ru infl leb close H1 H2 H3 G Hwf w). Qed.
Print Assumptions C03_encl2_sound.

Theorem C03_kleene_chain :
  forall R (o : sr_ops R), sr_ring o -> sr_ordered o ->
  forall G, wf_grammar G = true ->
  forall (w : env (R:=R)) j k, j <= k -> env_le o G (Zk o G w j) (Zk o G w k).
Proof. exact (fun R o Hr Ho G Hwf w => @Zk_mono R o Hr Ho G Hwf w). Qed.
Print Assumptions C03_kleene_chain.

(** * 7. The hypotheses are satisfiable: the natural numbers, a concrete grammar *)
Theorem C03_example_semiring : sr_ring nat_ops_example /\ sr_ordered nat_ops_example /\ wf_grammar G_ex = true.
Proof. exact (conj nat_ring_example (conj nat_ordered_example G_ex_wf)). Qed.
Print Assumptions C03_example_semiring.

Theorem C03_example_gradient :
  grad_model nat_ops_example G_ex W_nat 0 [1; 2] 3 2 [] = 3
  /\ map snd (match tmt_get (backward_nonrec nat_ops_example G_ex w_nat (map (fun x => [x]) ord_ex) [1]) 0 with
              | Some t => t | None => [] end) = [3; 3; 3; 3; 3; 3].
Proof. exact (conj grad_S_f12 backward_S_f). Qed.
Print Assumptions C03_example_gradient.
(** * 8. J_log (Log semiring, read through exp) *)
(** [J_log_contribs] models the code as it is now (b84d904: nan_to_num_ on every (rule, edge) tensor
    after exp, so a rule whose sum-product is zero contributes nothing); [J_log_old_contribs] /
    [J_log_old_val] model the code before that repair (one nan poisons the block). *)

(** the algebraic heart, per (rule, edge) contribution *)
Theorem C03_log_partial :
  forall R (o : sr_ops R), sr_ring o ->
  forall G, wf_grammar G = true ->
  forall (E : env (R:=R)) (dv : R -> R -> option R) (ok : R -> Prop),
    (forall a b, ok b -> exists c, dv a b = Some c /\ mul o c b = a) ->
  forall r s xi yi (total : R),
    wf_rule G r = true -> In s (splits (r_edges r)) ->
    In xi (all_assts (lshape G (r_lhs r))) -> In yi (all_assts (lshape G (fst (snd (fst s))))) ->
    ok (rule_val o G E r xi) -> ok total ->
    exists v,
      omul o (dv (full_prod o G E r s (xi ++ yi))
                 (sumS o (all_assts (lshape G (fst (snd (fst s))))) (fun yi' => full_prod o G E r s (xi ++ yi'))))
             (dv (rule_val o G E r xi) total) = Some v
      /\ mul o v total = mul o (loo_prod o G E r s (xi ++ yi)) (E (fst (snd (fst s))) yi).
Proof. exact (fun R o H G Hwf E dv ok Hdv => @J_log_entry R o H G E dv ok Hdv). Qed.
Print Assumptions C03_log_partial.

Theorem C03_log_rowsum :
  forall R (o : sr_ops R), sr_ring o ->
  forall G (E : env (R:=R)) r s xi,
    wf_rule G r = true -> In s (splits (r_edges r)) -> In xi (all_assts (lshape G (r_lhs r))) ->
    sumS o (all_assts (lshape G (fst (snd (fst s))))) (fun yi => full_prod o G E r s (xi ++ yi)) = rule_val o G E r xi.
Proof. exact (fun R o H G E => @full_rowsum R o H G E). Qed.
Print Assumptions C03_log_rowsum.

(** C03_log (tier B, proved) for the code as it is now: block (n, l), cell (xi, yi), total
    environment E, a division that is exact on [ok] denominators with 0/0 = nan, a zero-sum-free
    semiring.  The dead-rule guard is gone; what is left is finiteness: every rule value and
    their total F_n is zero or [ok] at xi.  Then
      J_log[(n, l)](xi, yi) * F_n(xi) = J[(n, l)](xi, yi) * x_l(yi),
    i.e. J_log = diag(1/F x) J diag(x), the Jacobian of log F w.r.t. the log-values *)
Theorem C03_log :
  forall R (o : sr_ops R), sr_ring o ->
  forall G, wf_grammar G = true ->
  forall (E : env (R:=R)) (dv : R -> R -> option R) (ok : R -> Prop),
    (forall a b, ok b -> exists c, dv a b = Some c /\ mul o c b = a) ->
    (forall a b, add o a b = zero o -> a = zero o /\ b = zero o) ->
    dv (zero o) (zero o) = None ->
  forall comp wi n l xi yi,
    NoDup comp -> In n comp -> In xi (all_assts (lshape G n)) -> In yi (all_assts (lshape G l)) ->
    (forall r, In r (rules_of G n) -> rule_val o G E r xi = zero o \/ ok (rule_val o G E r xi)) ->
    (sumS o (rules_of G n) (fun r => rule_val o G E r xi) = zero o
     \/ ok (sumS o (rules_of G n) (fun r => rule_val o G E r xi))) ->
    mul o (J_val o (J_log_contribs o dv G comp (fun l => Some (E l)) wi) n l (xi ++ yi))
          (sumS o (rules_of G n) (fun r => rule_val o G E r xi))
    = mul o (J_val o (J_contribs o G comp (fun l => Some (E l)) wi) n l (xi ++ yi)) (E l yi).
Proof. exact (fun R o H G Hwf E dv ok Hdv Hz Hn => @J_log_block R o H G Hwf E dv ok Hdv Hz Hn). Qed.
Print Assumptions C03_log.

(** the instance [0, inf] with the floats' division: the only guard is that the rule values and
    their total are finite *)
Theorem C03_log_ereal :
  forall G (E : env (R:=ereal)) comp wi n l xi yi,
  wf_grammar G = true ->
  NoDup comp -> In n comp -> In xi (all_assts (lshape G n)) -> In yi (all_assts (lshape G l)) ->
  (forall r, In r (rules_of G n) -> rule_val ereal_ops G E r xi <> PInf) ->
  sumS ereal_ops (rules_of G n) (fun r => rule_val ereal_ops G E r xi) <> PInf ->
  emul (J_val ereal_ops (J_log_contribs ereal_ops ediv G comp (fun l => Some (E l)) wi) n l (xi ++ yi))
       (sumS ereal_ops (rules_of G n) (fun r => rule_val ereal_ops G E r xi))
  = emul (J_val ereal_ops (J_contribs ereal_ops G comp (fun l => Some (E l)) wi) n l (xi ++ yi)) (E l yi).
Proof. exact J_log_block_ereal. Qed.
Print Assumptions C03_log_ereal.

(** the former failing input S -> t(n) | t(n) X, X without rules, t = [1/4, 1/4]: the block (S, t)
    is now J * x / F = 1 * (1/4) / (1/2) = 1/2 *)
Theorem C03_log_dead_rule_now :
  eeqb (J_val ereal_ops (J_log_contribs ereal_ops ediv G_dead [0] E_dead true) 0 2 [1]) half = true.
Proof. exact log_dead_rule_now. Qed.
Print Assumptions C03_log_dead_rule_now.

(** the code BEFORE b84d904 ([J_log_old]; finding c03_log_dead_rule_nan, fixed): the same block was
    nan (0 after nan_to_num) although J * x / F = 1/2; it satisfied the identity only under the
    guard that every rule value is invertible *)
Theorem C03_log_old_dead_rule_refuted :
  J_log_old_val ereal_ops (J_log_old_contribs ereal_ops ediv G_dead [0] E_dead true) 0 2 [1] = None
  /\ nan_to_zero ereal_ops (J_log_old_val ereal_ops (J_log_old_contribs ereal_ops ediv G_dead [0] E_dead true) 0 2 [1]) = Fin nn0
  /\ eeqb (J_val ereal_ops (J_contribs ereal_ops G_dead [0] E_dead true) 0 2 [1]) (Fin nn1) = true
  /\ eeqb (emul (J_val ereal_ops (J_contribs ereal_ops G_dead [0] E_dead true) 0 2 [1]) quarter) (emul half half) = true.
Proof. exact log_dead_rule_refuted. Qed.
Print Assumptions C03_log_old_dead_rule_refuted.

Theorem C03_log_old_guarded :
  forall R (o : sr_ops R), sr_ring o ->
  forall G, wf_grammar G = true ->
  forall (E : env (R:=R)) (dv : R -> R -> option R) (ok : R -> Prop),
    (forall a b, ok b -> exists c, dv a b = Some c /\ mul o c b = a) ->
  forall comp wi n l xi yi,
    NoDup comp -> In n comp -> In xi (all_assts (lshape G n)) -> In yi (all_assts (lshape G l)) ->
    (forall r, In r (rules_of G n) -> ok (rule_val o G E r xi)) ->
    ok (sumS o (rules_of G n) (fun r => rule_val o G E r xi)) ->
    exists v,
      J_log_old_val o (J_log_old_contribs o dv G comp (fun l => Some (E l)) wi) n l (xi ++ yi) = Some v
      /\ mul o v (sumS o (rules_of G n) (fun r => rule_val o G E r xi))
         = mul o (J_val o (J_contribs o G comp (fun l => Some (E l)) wi) n l (xi ++ yi)) (E l yi).
Proof. exact (fun R o H G Hwf E dv ok Hdv => @J_log_old_block R o H G Hwf E dv ok Hdv). Qed.
Print Assumptions C03_log_old_guarded.

(** * 9. The derivative at a zero weight (finding c03_fixed_point_empty_solution, fixed in 839ae95) *)
(** X -> X a | b, a = 1/4, b = 0: Z = 0 but the derivative with respect to b is
    1, 1 + 1/4, 1 + 1/4 + 1/16 = 21/16, ... (-> 4/3), not 0 *)
Theorem C03_zero_weight_derivative_witness :
  eeqb (Zk ereal_ops G_rec0 W_rec0 3 2 []) (Fin nn0) = true
  /\ eeqb (grad_model ereal_ops G_rec0 W_rec0 1 [] 1 2 []) (Fin nn1) = true
  /\ eeqb (grad_model ereal_ops G_rec0 W_rec0 1 [] 3 2 []) (Fin (nn_of_Q (21 # 16))) = true.
Proof. exact zero_weight_derivative_witness. Qed.
Print Assumptions C03_zero_weight_derivative_witness.

(** * 10. Instances for [0, inf] (RealSemiring; LogSemiring read through exp): laws discharged *)
Theorem C03_dual_ereal_laws : sr_ring dops /\ sr_ordered dops /\ sr_star dops.
Proof. exact (conj dops_ring (conj dops_ordered dops_star)). Qed.
Print Assumptions C03_dual_ereal_laws.

Theorem C03_nonrecursive_gradient_ereal :
  forall G, wf_grammar G = true ->
  forall (w : tmt (R:=ereal)), (forall l, tget w l <> None -> is_term G l = true) ->
  forall ord, dep_ordered G [] ord -> NoDup ord -> (forall X, is_term G X = false -> In X ord) ->
  forall (cot : list ereal) l0 i0,
    is_term G l0 = true -> l0 < length (g_labels G) -> In i0 (all_assts (lshape G l0)) ->
    length cot = length (all_assts (lshape G (g_start G))) ->
    env_of ereal_ops (backward_nonrec ereal_ops G w (map (fun x => [x]) ord) cot) l0 i0
    = sumS ereal_ops (combine (all_assts (lshape G (g_start G))) cot)
           (fun p => emul (snd p) (grad_model ereal_ops G (env_of ereal_ops w) l0 i0 (length ord) (g_start G) (fst p))).
Proof. exact (fun G Hwf w Hk ord Hd Hn Hc => @nonrecursive_gradient ereal ereal_ops ereal_ring G Hwf w Hk ord Hd Hn Hc). Qed.
Print Assumptions C03_nonrecursive_gradient_ereal.

Theorem C03_tree_derivative_ereal :
  forall G (w : env (R:=ereal)) l0 i0 k X xi, is_term G X = false ->
    grad_model ereal_ops G w l0 i0 k X xi
    = sumS ereal_ops (enum_trees G k X xi)
           (fun t => sumS ereal_ops (occurrences (l0, i0) (leaves G t))
                          (fun s => prodS ereal_ops (fst (fst s) ++ snd s) (wt w))).
Proof. exact (@tree_derivative_entry ereal ereal_ops ereal_ring). Qed.
Print Assumptions C03_tree_derivative_ereal.

(** the oracle of the check without premises *)
Theorem C03_entry_interval_sound_ereal :
  forall G ws is_log rounds nonrec cot l i0 wv iv,
  wf_grammar G = true -> (0 <= wq_of wv)%Q ->
  entry_interval G ws is_log rounds nonrec cot l i0 wv = Some (Some iv) ->
  exists K, forall k, (if nonrec then k = length (nonterminals G) else K <= k) ->
    exists gs,
      Forall2 (fun xi g => exists az ad,
                 Zk dops G (env_of dops (dual_weights G ws l i0)) k (g_start G) xi = (Fin az, Fin ad)
                 /\ (is_log = true -> (0 < this (qv az))%Q)
                 /\ g = cell_quantity is_log (wq_of wv) (this (qv az)) (this (qv ad)))
              (all_assts (lshape G (g_start G))) gs
      /\ (fst iv <= dot cot gs)%Q /\ (dot cot gs <= snd iv)%Q.
Proof. exact entry_interval_sound_ereal. Qed.
Print Assumptions C03_entry_interval_sound_ereal.

(** * Which weight tensors are one autograd leaf (Model/LeafAlias.v) *)
Require Import Fggs.Model.LeafAlias Fggs.Proofs.LeafAlias_proofs.

(** the storage-partition check of the correspondence (stream "paths") is exact: verdict 0 iff two factors share
    storage after a constructor / loader / copy path only if the caller had made them share it before *)
Theorem C03_alias_check_exact :
  forall pre post,
  alias_check (pre, post) = 0 <->
  length pre = length post /\
  forall p q, In p (combine pre post) -> In q (combine pre post) -> snd p = snd q -> fst p = fst q.
Proof. exact alias_check_exact. Qed.
Print Assumptions C03_alias_check_exact.

(** ... so a path accepted by it keeps tensors the caller supplied separately in separate storages *)
Theorem C03_alias_check_preserves_separate_storage :
  forall pre post, alias_check (pre, post) = 0 -> NoDup pre -> NoDup post.
Proof. exact alias_check_preserves_nodup. Qed.
Print Assumptions C03_alias_check_preserves_separate_storage.

(** per-leaf accumulation: when no two factors share storage, factor.weights.grad is the factor's own derivative *)
Theorem C03_separate_storage_own_gradient :
  forall R (o : sr_ops R), sr_ring o ->
  forall fs : list (nat * R), NoDup (map fst fs) -> observed_grads o fs = map snd fs.
Proof. exact @observed_grads_unshared. Qed.
Print Assumptions C03_separate_storage_own_gradient.

(** ... and two factors in ONE storage both show the sum of their derivatives (naturals: 1, 2 -> 3, 3) *)
Theorem C03_shared_storage_sum :
  forall R (o : sr_ops R), sr_ring o ->
  forall s a b, observed_grads o [(s, a); (s, b)] = [add o a b; add o a b].
Proof. exact @observed_grads_shared_pair. Qed.
Print Assumptions C03_shared_storage_sum.

Theorem C03_shared_storage_witness :
  observed_grads nat_ops_example [(0, 1); (0, 2)] = [3; 3]
  /\ observed_grads nat_ops_example [(0, 1); (0, 2)] <> map snd [(0, 1); (0, 2)].
Proof. exact observed_grads_shared_witness. Qed.
Print Assumptions C03_shared_storage_witness.
