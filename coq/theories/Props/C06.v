(** C06 -- patterned tensors behave exactly like the dense tensors they denote.
    Only property theorems live here, each closed by [exact] and followed by Print Assumptions. *)
From Coq Require Import List Arith Bool PArith QArith Qcanon.
Import ListNotations.
Require Import Fggs.Model.Axis Fggs.Model.AxisCheck Fggs.Model.AxisEnum Fggs.Model.XVal Fggs.Model.PTensor Fggs.Model.PTensorCheck.
Require Import Fggs.Proofs.Axis_sem Fggs.Proofs.Axis_unify Fggs.Proofs.Axis_antiunify Fggs.Proofs.Axis_complete Fggs.Proofs.Axis_repr.
Require Import Fggs.Proofs.PTensor_sem Fggs.Proofs.PTensor_dense Fggs.Proofs.PTensor_views Fggs.Proofs.PTensor_unary.
Require Import Fggs.Proofs.PTensor_binary Fggs.Proofs.PTensor_xval Fggs.Proofs.PTensor_transpose Fggs.Proofs.PTensor_expand.
Require Import Fggs.Proofs.Axis_antiunify_inv.
Require Import Fggs.Proofs.Axis_complete_gen Fggs.Proofs.Axis_typed Fggs.Proofs.Axis_total Fggs.Proofs.Axis_fuel Fggs.Proofs.Axis_mgu Fggs.Proofs.Axis_rank Fggs.Proofs.Axis_typed_check Fggs.Proofs.Axis_typed_model.
Local Open Scope nat_scope.

(** * L2: the axis algebra *)

(** an in-range environment is mapped below [numel] *)
Theorem C06_eval_bound : forall rho e, inrange rho e -> eval rho e < numel e.
Proof. exact eval_bound. Qed.
Print Assumptions C06_eval_bound.

(** [stride] (as coded, following a substitution) is the affine form of [eval] *)
Theorem C06_stride_affine : forall rho sigma, models rho sigma ->
  forall fuel e o s, stride fuel sigma e = Ok (o, s) -> eval rho e = o + lin_eval rho s.
Proof. exact stride_affine. Qed.
Print Assumptions C06_stride_affine.

Theorem C06_stride_total : forall e, exists o s, stride (asize e) [] e = Ok (o, s).
Proof. exact stride_total. Qed.
Print Assumptions C06_stride_total.

(** [index] inverts [eval]: sound ... *)
Theorem C06_index_inverts_eval_sound : forall e pi v pi', index e pi v = IOk pi' ->
  extends pi pi' /\ (forall k, In k (fv e) -> assoc k pi' <> None) /\
  (forall rho, agrees rho pi' -> eval rho e = v /\ inrange rho e).
Proof. exact index_sound. Qed.
Print Assumptions C06_index_inverts_eval_sound.

(** ... and complete *)
Theorem C06_index_inverts_eval_complete : forall e rho pi, inrange rho e -> agrees rho pi ->
  exists pi', index e pi (eval rho e) = IOk pi' /\ agrees rho pi'.
Proof. exact index_complete. Qed.
Print Assumptions C06_index_inverts_eval_complete.

Theorem C06_index_empty_unoccupied : forall e v, index e [] v = IEmpty ->
  forall rho, inrange rho e -> eval rho e <> v.
Proof. exact index_empty_sound. Qed.
Print Assumptions C06_index_empty_unoccupied.

(** "Every patterned tensor backs each virtual element by at most one physical element": the index
    map of ANY pattern is injective on the physical axes that occur in it *)
Theorem C06_at_most_one_backing : forall vaxes rho1 rho2,
  Forall (inrange rho1) vaxes -> Forall (inrange rho2) vaxes ->
  map (eval rho1) vaxes = map (eval rho2) vaxes ->
  forall k, In k (flat_map fv vaxes) -> rho1 k = rho2 k.
Proof. exact pattern_injective. Qed.
Print Assumptions C06_at_most_one_backing.

(** [unify] is sound: every in-range solution of the resulting substitution (read as equations)
    gives both patterns the same index tuple *)
Theorem C06_unify_sound : forall fuel es fs next st',
  length es = length fs ->
  unify_list fuel es fs (ustate0 next) = Ok (true, st') ->
  forall rho, Forall (inrange rho) es -> Forall (inrange rho) fs -> models rho (us_subst st') ->
    map (eval rho) es = map (eval rho) fs.
Proof. exact unify_sound. Qed.
Print Assumptions C06_unify_sound.

(** [antiunify]: the generalisation instantiates to both arguments *)
Theorem C06_antiunify_generalises : forall fuel es fs next gs st',
  length es = length fs ->
  antiunify_list fuel es fs (astate0 next) = Ok (gs, st') ->
  map numel gs = map numel es /\
  (forall rho, models rho (sigma1 (as_list st')) -> map (eval rho) gs = map (eval rho) es) /\
  (forall rho, models rho (sigma2 (as_list st')) -> map (eval rho) gs = map (eval rho) fs).
Proof. exact antiunify_generalises. Qed.
Print Assumptions C06_antiunify_generalises.

(** * L2, bounded tier B: completeness of [unify] on typed axes (exhaustive in the kernel) *)

(** the executable specification used below and by the harness means what it says *)
Theorem C06_coincidences_meaning : forall es fs vars tup,
  In tup (coincidences es fs vars) <->
  exists pi, In pi (all_envs vars) /\ evals (env_of pi) es = evals (env_of pi) fs /\
             tup = map (fun kn => env_of pi (fst kn)) vars.
Proof. exact coincidences_spec. Qed.
Print Assumptions C06_coincidences_meaning.

(** all pairs of axes of every index type with <= 3 leaves / size <= 12: [unify] stays within its fuel,
    does not warn, and succeeds with a unifier denoting exactly the coincidence set or fails on
    disjoint patterns.  (Full statement, open: the same for all typed axes.) *)
Theorem C06_unify_complete_upto12 : forall t e f,
  In t (types_upto 12) -> In e (axes_of t 1) -> In f (axes_of t 50) ->
  has_type e t = true /\ has_type f t = true /\ unify_complete [e] [f] 100.
Proof. exact unify_complete_upto12. Qed.
Print Assumptions C06_unify_complete_upto12.

(** all pairs of 2-dimensional patterns with shared variables over the index types with <= 2 leaves / size <= 6 *)
Theorem C06_unify_complete_2d_upto6 : forall t1 t2 es fs,
  In t1 small_types -> In t2 small_types ->
  In es (patterns2 t1 t2 1) -> In fs (patterns2 t1 t2 50) -> unify_complete es fs 100.
Proof. exact unify_complete_2d_upto6. Qed.
Print Assumptions C06_unify_complete_2d_upto6.

(** * L2, tier B unbounded: unification is complete on typed axes (DESIGN.md Appendix C)

    Judgement [ty G e ps] (Proofs/Axis_typed.v): axis [e] has the flattened product type [ps] in
    the context [G] that gives every physical axis one type; [tys] for patterns; [gprimes ps]:
    every prime is an atom of size >= 2 or a sum type of size >= 2 whose summands are good
    ([tgood]).  The judgement includes what [__post_init__] / [productAxis] guarantee (no physical
    axis of size 1, no one-factor product, no product directly inside a product).
    [tyfuel ps = 3 * tws ps + 2] is the fuel bound computed from the type. *)

(** (i) no typing needed: whenever [unify] returns without having warned, success means "most
    general unifier" and failure means "no coincidence" *)
Theorem C06_unify_complete_nowarn : forall fuel es fs next b st',
  length es = length fs -> (forall x, In x (es ++ fs) -> below next x) ->
  unify_list fuel es fs (ustate0 next) = Ok (b, st') -> us_warn st' = false ->
  forall rho, Forall (inrange rho) es -> Forall (inrange rho) fs -> map (eval rho) es = map (eval rho) fs ->
    if b then exists rho', extends_to next rho rho' /\ inr_s rho' (us_subst st') /\ models rho' (us_subst st')
    else False.
Proof. exact unify_complete_nowarn. Qed.
Print Assumptions C06_unify_complete_nowarn.

(** (ii) typed patterns: [unify] neither runs out of fuel (fuel [>= tyfuel] of every dimension's
    type) nor warns; it returns a substitution (well typed and acyclic in an extension [G'] of the
    context) or the clean failure *)
Theorem C06_unify_total_typed : forall G es fs pss next fuel,
  ctx_good G -> ctx_below G next -> tys G es pss -> tys G fs pss -> Forall gprimes pss ->
  Forall (fun ps => tyfuel ps <= fuel) pss ->
  exists b st' G', unify_list fuel es fs (ustate0 next) = Ok (b, st') /\ us_warn st' = false /\
                   (next <= us_next st')%positive /\ ctx_ext next G G' /\ tstate G' st'.
Proof. exact unify_total_typed_list. Qed.
Print Assumptions C06_unify_total_typed.

(** the fuel is an artefact of the model: more fuel never changes an answer *)
Theorem C06_unify_fuel_monotone : forall fuel fuel', fuel <= fuel' ->
  forall es fs st r, unify_list fuel es fs st = Ok r -> unify_list fuel' es fs st = Ok r.
Proof. exact unify_list_mono. Qed.
Print Assumptions C06_unify_fuel_monotone.

(** (iii) completeness: for typed patterns and WHATEVER the fuel, if the model answers at all it
    has not warned, and the answer is a most general unifier (sound; every coincidence is an
    instance, extending the environment on the fresh variables only) or, on failure, the patterns
    have no coincidence.  Replaces the [_upto12] / [_2d_upto6] theorems (kept as a cross-check). *)
Theorem C06_unify_complete : forall G es fs pss next fuel b st',
  ctx_good G -> ctx_below G next -> tys G es pss -> tys G fs pss -> Forall gprimes pss ->
  unify_list fuel es fs (ustate0 next) = Ok (b, st') ->
  us_warn st' = false /\
  (exists G', (next <= us_next st')%positive /\ ctx_ext next G G' /\ tstate G' st') /\
  (forall rho, Forall (inrange rho) es -> Forall (inrange rho) fs ->
     if b
     then (models rho (us_subst st') -> map (eval rho) es = map (eval rho) fs) /\
          (map (eval rho) es = map (eval rho) fs ->
           exists rho', extends_to next rho rho' /\ inr_s rho' (us_subst st') /\ models rho' (us_subst st'))
     else map (eval rho) es <> map (eval rho) fs).
Proof. exact unify_typed_mgu_any_fuel. Qed.
Print Assumptions C06_unify_complete.

(** ... and with the fuel the model / the check function uses, it does answer, provided that fuel
    is at least the type-derived bound.  OPEN (notes/UNIFY.md): dropping the side condition, i.e.
    [unify_fuel es fs >= ] the recursion depth for ALL typed patterns; it holds on every universe
    the harness enumerates ([C06_typed_universe_upto12]). *)
Theorem C06_unify_complete_model_fuel_partial : forall G es fs pss next,
  ctx_good G -> ctx_below G next -> tys G es pss -> tys G fs pss -> Forall gprimes pss ->
  Forall (fun ps => tyfuel ps <= unify_fuel es fs) pss ->
  exists b st', unify_list (unify_fuel es fs) es fs (ustate0 next) = Ok (b, st') /\ us_warn st' = false /\
    (forall rho, Forall (inrange rho) es -> Forall (inrange rho) fs ->
       if b
       then (models rho (us_subst st') -> map (eval rho) es = map (eval rho) fs) /\
            (map (eval rho) es = map (eval rho) fs ->
             exists rho', extends_to next rho rho' /\ inr_s rho' (us_subst st') /\ models rho' (us_subst st'))
       else map (eval rho) es <> map (eval rho) fs).
Proof. exact unify_typed_mgu_model_fuel. Qed.
Print Assumptions C06_unify_complete_model_fuel_partial.

(** two environments (patterns over disjoint physical axes, as [equal] / [mul] arrange by
    freshening): every coincidence [eval rho1 es = eval rho2 fs] is an instance of the unifier *)
Theorem C06_unify_complete_two_envs : forall G es fs pss next fuel,
  ctx_good G -> ctx_below G next -> tys G es pss -> tys G fs pss -> Forall gprimes pss ->
  Forall (fun ps => tyfuel ps <= fuel) pss ->
  (forall k, In k (flat_map fv es) -> ~ In k (flat_map fv fs)) ->
  exists b st', unify_list fuel es fs (ustate0 next) = Ok (b, st') /\ us_warn st' = false /\
    (forall rho1 rho2, Forall (inrange rho1) es -> Forall (inrange rho2) fs ->
       map (eval rho1) es = map (eval rho2) fs ->
       b = true /\ exists rho', (forall k, In k (flat_map fv es) -> rho' k = rho1 k) /\
                                (forall k, In k (flat_map fv fs) -> rho' k = rho2 k) /\
                                models rho' (us_subst st')).
Proof. exact unify_typed_mgu_two_envs. Qed.
Print Assumptions C06_unify_complete_two_envs.

(** the guard on sum types cannot be dropped (new finding F24): a sum type of size 1 is a prime of
    size 1, and [unify] warns and fails on two overlapping patterns of a type that contains one *)
Theorem C06_unify_size1_sum_refuted :
  let t := TProd [TSum [TAtom 2; TAtom 3]; TSum [TAtom 1]; TAtom 2] in
  let e := Prod [Sum 0 (Phys 1 2) 3; Sum 0 unitAxis 0; Phys 2 2] in
  let f := Prod [Sum 0 (Phys 3 2) 3; Phys 4 2] in
  has_type e t = true /\ has_type f t = true /\ tgood t = false /\
  (exists st', unify_list 100 [e] [f] (ustate0 10) = Ok (false, st') /\ us_warn st' = true) /\
  (exists rho, inrange rho e /\ inrange rho f /\ eval rho e = eval rho f).
Proof. exact unify_size1_sum_refuted. Qed.
Print Assumptions C06_unify_size1_sum_refuted.

(** the theory of typed axes used above *)
Theorem C06_typed_numel : forall G e ps, ty G e ps -> numel e = tsizes ps.
Proof. exact ty_numel. Qed.
Print Assumptions C06_typed_numel.

Theorem C06_typed_lookup : forall G s e ps, wts G s -> ty G e ps ->
  exists e', lookup (lookup_fuel s) s e = Ok e' /\ ty G e' ps /\ unbound s e'.
Proof. exact lookup_typed. Qed.
Print Assumptions C06_typed_lookup.

(** a well-typed acyclic substitution has a solution for every assignment of its unbound axes, and
    the solution respects the sizes when the assignment does *)
Theorem C06_typed_subst_solvable : forall G s (g : env), wts G s ->
  exists rho, models rho s /\ forall k, assoc k s = None -> rho k = g k.
Proof. exact model_exists. Qed.
Print Assumptions C06_typed_subst_solvable.

Theorem C06_typed_subst_fits : forall G s rho, wts G s -> models rho s ->
  (forall k, assoc k s = None -> G k <> [] -> rho k < tsizes (G k)) -> fits G rho.
Proof. exact model_fits. Qed.
Print Assumptions C06_typed_subst_fits.

(** the executable checker for the judgement is sound, and the universes of the bounded theorems
    above (= the harness's typed generator) lie inside the domain of the unbounded theorem,
    including the fuel side condition *)
Theorem C06_ty_b_sound : forall G e ps, ty_b G e ps = true -> ty G e ps.
Proof. exact ty_b_sound. Qed.
Print Assumptions C06_ty_b_sound.

(** the context judgement is at least as strict as the Model's context-free [has_type] *)
Theorem C06_ty_has_type : forall G e t, ty G e (tprimes t) -> has_type e t = true.
Proof. exact ty_has_type. Qed.
Print Assumptions C06_ty_has_type.

Theorem C06_typed_universe_upto12 : forall t e f,
  In t (types_upto 12) -> In e (axes_of t 1) -> In f (axes_of t 50) ->
  exists G, ctx_good G /\ ctx_below G 100 /\ tys G [e] [tprimes t] /\ tys G [f] [tprimes t] /\
            Forall gprimes [tprimes t] /\ Forall (fun ps => tyfuel ps <= unify_fuel [e] [f]) [tprimes t].
Proof. exact typed_universe_upto12. Qed.
Print Assumptions C06_typed_universe_upto12.

(** * L3: patterned tensors *)

(** an element is the physical element of the environment that evaluates to its index ... *)
Theorem C06_denote_backed : forall (V : Type) (t : ptensor V) rho,
  covers (paxes t) (vaxes t) -> Forall (inrange rho) (vaxes t) ->
  denote V t (evals rho (vaxes t)) = pget V t rho.
Proof. exact denote_backed. Qed.
Print Assumptions C06_denote_backed.

(** ... or the default when no in-range environment evaluates to it *)
Theorem C06_denote_unbacked : forall (V : Type) (t : ptensor V) idx,
  length idx = length (vaxes t) ->
  (forall rho, Forall (inrange rho) (vaxes t) -> evals rho (vaxes t) <> idx) ->
  denote V t idx = default t.
Proof. exact denote_unbacked. Qed.
Print Assumptions C06_denote_unbacked.

(** [to_dense] as coded (new_full + strided copy_ through Axis.stride) computes the denotation *)
Theorem C06_to_dense_is_denote : forall (V : Type) (t : ptensor V), wf V t ->
  exists st, to_dense_store V t = Ok st /\
    forall idx, in_bounds (shape V t) idx -> st (flat_offset (shape V t) idx) = denote V t idx.
Proof. exact to_dense_denote. Qed.
Print Assumptions C06_to_dense_is_denote.

(** the extracted oracle of the monitor is sound: what passes it is well formed, hence injective *)
Theorem C06_repr_inv_wf : forall (V : Type) (t : ptensor V) psize,
  repr_inv_b psize (paxes t) (vaxes t) = true -> wf V t.
Proof. exact repr_inv_wf. Qed.
Print Assumptions C06_repr_inv_wf.

Theorem C06_repr_inv_injective : forall (V : Type) (t : ptensor V) psize,
  repr_inv_b psize (paxes t) (vaxes t) = true ->
  forall pi1 pi2, In pi1 (all_envs (paxes t)) -> In pi2 (all_envs (paxes t)) ->
    evals (env_of pi1) (vaxes t) = evals (env_of pi2) (vaxes t) ->
    forall k, In k (map fst (paxes t)) -> env_of pi1 k = env_of pi2 k.
Proof. exact repr_inv_injective. Qed.
Print Assumptions C06_repr_inv_injective.

(** views: denote (op t) = dense_op (denote t) *)
Theorem C06_permute : forall (V : Type) (t t' : ptensor V) dims idx idx',
  covers (paxes t) (vaxes t) -> length idx = length (vaxes t) ->
  pt_permute V dims t = Some t' -> select dims idx = Some idx' ->
  denote V t' idx' = denote V t idx.
Proof. exact permute_refines. Qed.
Print Assumptions C06_permute.

(** transpose, with the five slices of the code *)
Theorem C06_transpose : forall (V : Type) (t t' : ptensor V) d0 d1 idx,
  covers (paxes t) (vaxes t) -> length idx = length (vaxes t) ->
  pt_transpose V d0 d1 t = Some t' ->
  denote V t' (if Nat.eqb d0 d1 then idx else swap_dims (Nat.min d0 d1) (Nat.max d0 d1) idx) = denote V t idx.
Proof. exact transpose_refines. Qed.
Print Assumptions C06_transpose.

Theorem C06_T : forall (V : Type) (t : ptensor V) idx,
  covers (paxes t) (vaxes t) -> length idx = length (vaxes t) ->
  denote V (pt_T V t) (rev idx) = denote V t idx.
Proof. exact T_refines. Qed.
Print Assumptions C06_T.

Theorem C06_unsqueeze : forall (V : Type) (t : ptensor V) dim idx,
  covers (paxes t) (vaxes t) -> length idx = length (vaxes t) ->
  denote V (pt_unsqueeze V dim t) (firstn dim idx ++ [0] ++ skipn dim idx) = denote V t idx.
Proof. exact unsqueeze_refines. Qed.
Print Assumptions C06_unsqueeze.

Theorem C06_flatten : forall (V : Type) (t : ptensor V) idx,
  covers (paxes t) (vaxes t) -> in_bounds (shape V t) idx ->
  denote V (pt_flatten V t) [flat_offset (shape V t) idx] = denote V t idx.
Proof. exact flatten_refines. Qed.
Print Assumptions C06_flatten.

(** expand: dense broadcasting -- new leading dimensions are dropped and every size-1 dimension of the
    operand is read at 0 ([bidxr], on reversed lists as the code processes them) *)
Theorem C06_expand : forall (V : Type) (t t' : ptensor V) sizes next next' idx,
  wf V t -> (forall e, In e (vaxes t) -> below next e) ->
  pt_expand V sizes next t = Some (t', next') -> Forall2 lt idx sizes ->
  denote V t' idx = denote V t (rev (bidxr (rev (vaxes t)) (rev idx))).
Proof. exact expand_refines. Qed.
Print Assumptions C06_expand.

(** unary maps: pointwise, provided the new default is the map of the old default *)
Theorem C06_unary_map : forall (V : Type) (f : V -> V) fd (t : ptensor V) idx,
  fd = f (default t) -> denote V (pt_map V f fd t) idx = f (denote V t idx).
Proof. exact map_refines. Qed.
Print Assumptions C06_unary_map.

(** the side condition holds for every modelled unary / scalar operation on the concrete carrier and
    EVERY default (0, inf, NaN): abs, neg_, relu_, scalar + - * / (division by 0 included), comparisons;
    the only guard left is for clamp_min/clamp_max, whose default is still Python's max/min: the
    scalar *argument* must not be NaN *)
Theorem C06_unary_ops : forall op sc (t r : pt) next f idx,
  is_unary op = true -> unary_guard op sc = true ->
  model_op op [] sc [t] next = Ok r -> unary_fn op sc = Some f ->
  denote xval r idx = f (denote xval t idx).
Proof. exact unary_refines. Qed.
Print Assumptions C06_unary_ops.

(** nan_to_num_ (F1 is repaired in /repo: neginf reaches the physical tensor) *)
Theorem C06_nan_to_num : forall na sc (t r : pt) next idx,
  model_op 24 na sc [t] next = Ok r ->
  denote xval r idx =
  xnan_to_num (nth 0 sc XNaN) (opt_of_flag (nth 0 na 0) (nth 1 sc XNaN)) (opt_of_flag (nth 1 na 0) (nth 2 sc XNaN))
              (denote xval t idx).
Proof. exact nan_to_num_refines. Qed.
Print Assumptions C06_nan_to_num.

(** division by a scalar (fc474fc): for every scalar, 0 / inf / NaN included, and every default *)
Theorem C06_div_scalar : forall s (t r : pt) next idx,
  model_op 18 [] [s] [t] next = Ok r ->
  denote xval r idx = xdiv (denote xval t idx) s.
Proof. exact div_scalar_refines. Qed.
Print Assumptions C06_div_scalar.

(** relu_ (fd2047f): for every default; a NaN default stays NaN *)
Theorem C06_relu : forall (t r : pt) next idx,
  model_op 12 [] [] [t] next = Ok r -> denote xval r idx = xrelu (denote xval t idx).
Proof. exact relu_refines. Qed.
Print Assumptions C06_relu.

(** log / log_ (ad94aa4): the helper [_log] treats every default like torch.log treats an element
    (0 -> -inf, negative / -inf / NaN -> NaN, inf -> inf); [lnpos] is the logarithm on positive rationals *)
Theorem C06_log_default : forall (lnpos : Qc -> xval) (t : pt) idx,
  denote xval (pt_map xval (xlog lnpos) (py_log lnpos (default t)) t) idx = xlog lnpos (denote xval t idx).
Proof. exact log_refines. Qed.
Print Assumptions C06_log_default.

(** record of the repaired behaviour: the former Python-scalar defaults, as explicitly named [*_old] definitions *)
Theorem C06_relu_default_old_refuted : relu_default_old XNaN <> xrelu XNaN.
Proof. exact relu_default_old_refuted. Qed.
Print Assumptions C06_relu_default_old_refuted.
Theorem C06_maximum_default_old_refuted : maximum_default_old (XF 1) XNaN <> xmax (XF 1) XNaN.
Proof. exact maximum_default_old_refuted. Qed.
Print Assumptions C06_maximum_default_old_refuted.

(** * binary operations through expansion / anti-unification

    Full statement (open for operands that need broadcasting -- different ranks or a unit dimension
    against a non-unit one):
      forall t u, wf t -> wf u -> pt_binary op (op dt du) next t u = Ok (r, _) ->
        forall idx in bounds, denote r idx = op (denote t (broadcast idx)) (denote u (broadcast idx)).
    Proved below under the boolean guards [no_broadcast] (equal rank, no unit-against-non-unit
    dimension) and [sizes_agree] (the anti-unification recorded parts of equal sizes, which is what
    well-typedness of the two operands over a common shape gives): [_partial]. *)
Theorem C06_binary_refines_partial : forall (V : Type) (op : V -> V -> V) dflt next (t u r : ptensor V) next' x idx,
  wf V t -> wf V u -> vars_below V next t -> vars_below V next u ->
  no_broadcast V t u = true ->
  expansion V next t u = Ok x -> sizes_agree x = true ->
  pt_binary V op dflt next t u = Ok (r, next') ->
  dflt = op (default t) (default u) ->
  length idx = length (vaxes t) ->
  denote V r idx = op (denote V t idx) (denote V u idx).
Proof. exact binary_refines. Qed.
Print Assumptions C06_binary_refines_partial.

(** all three code paths of [commutative] (add, mul, logaddexp, maximum, logical and/or) *)
Theorem C06_commutative_refines_partial : forall (V : Type) (veqb : V -> V -> bool) (op : V -> V -> V) identity dflt next
                            (t u r : ptensor V) next' x idx,
  (forall a b, veqb a b = true -> a = b) -> (forall a, op a identity = a) -> (forall a b, op a b = op b a) ->
  wf V t -> wf V u -> vars_below V next t -> vars_below V next u ->
  no_broadcast V t u = true ->
  expansion V next t u = Ok x -> sizes_agree x = true ->
  pt_commutative V veqb op identity dflt next t u = Ok (r, next') ->
  dflt = op (default t) (default u) ->
  length idx = length (vaxes t) ->
  denote V r idx = op (denote V t idx) (denote V u idx).
Proof. exact commutative_refines. Qed.
Print Assumptions C06_commutative_refines_partial.

(** [sub] (and [div], whose reciprocal laws are hypotheses here) *)
Theorem C06_sub_like_refines_partial : forall (V : Type) (veqb : V -> V -> bool) (op : V -> V -> V) (inv : V -> V) (op' : V -> V -> V)
                         identity dflt next (t u r : ptensor V) next' x idx,
  (forall a b, veqb a b = true -> a = b) -> (forall a, op a identity = a) ->
  (forall a b, op' (inv b) a = op a b) -> (forall b, op identity b = inv b) ->
  wf V t -> wf V u -> vars_below V next t -> vars_below V next u ->
  no_broadcast V t u = true ->
  expansion V next t u = Ok x -> sizes_agree x = true ->
  pt_sub_like V veqb op inv op' identity dflt next t u = Ok (r, next') ->
  dflt = op (default t) (default u) ->
  length idx = length (vaxes t) ->
  denote V r idx = op (denote V t idx) (denote V u idx).
Proof. exact sub_like_refines. Qed.
Print Assumptions C06_sub_like_refines_partial.

(** the laws hold on the concrete carrier: add, mul, maximum, sub *)
Theorem C06_add_partial : forall next (t u r : pt) next' x idx,
  wf xval t -> wf xval u -> vars_below xval next t -> vars_below xval next u ->
  no_broadcast xval t u = true -> expansion xval next t u = Ok x -> sizes_agree x = true ->
  length idx = length (vaxes t) ->
  pt_commutative xval xeqb' xadd (XF 0) (xadd (default t) (default u)) next t u = Ok (r, next') ->
  denote xval r idx = xadd (denote xval t idx) (denote xval u idx).
Proof. exact add_refines. Qed.
Print Assumptions C06_add_partial.

Theorem C06_mul_partial : forall next (t u r : pt) next' x idx,
  wf xval t -> wf xval u -> vars_below xval next t -> vars_below xval next u ->
  no_broadcast xval t u = true -> expansion xval next t u = Ok x -> sizes_agree x = true ->
  length idx = length (vaxes t) ->
  pt_commutative xval xeqb' xmul (XF 1) (xmul (default t) (default u)) next t u = Ok (r, next') ->
  denote xval r idx = xmul (denote xval t idx) (denote xval u idx).
Proof. exact mul_refines. Qed.
Print Assumptions C06_mul_partial.

Theorem C06_maximum_partial : forall next (t u r : pt) next' x idx,
  wf xval t -> wf xval u -> vars_below xval next t -> vars_below xval next u ->
  no_broadcast xval t u = true -> expansion xval next t u = Ok x -> sizes_agree x = true ->
  length idx = length (vaxes t) ->
  pt_commutative xval xeqb' xmax XNInf (xmax (default t) (default u)) next t u = Ok (r, next') ->
  denote xval r idx = xmax (denote xval t idx) (denote xval u idx).
Proof. exact maximum_refines. Qed.
Print Assumptions C06_maximum_partial.

Theorem C06_sub_partial : forall next (t u r : pt) next' x idx,
  wf xval t -> wf xval u -> vars_below xval next t -> vars_below xval next u ->
  no_broadcast xval t u = true -> expansion xval next t u = Ok x -> sizes_agree x = true ->
  length idx = length (vaxes t) ->
  pt_sub_like xval xeqb' xsub xneg xadd (XF 0) (xsub (default t) (default u)) next t u = Ok (r, next') ->
  denote xval r idx = xsub (denote xval t idx) (denote xval u idx).
Proof. exact sub_refines. Qed.
Print Assumptions C06_sub_partial.

(** div (fc474fc): the default is xdiv of the defaults for every divisor default (0 included); the
    reciprocal path [(1 / u) * t] equals [t / u] on the whole carrier *)
Theorem C06_div_partial : forall next (t u r : pt) next' x idx,
  wf xval t -> wf xval u -> vars_below xval next t -> vars_below xval next u ->
  no_broadcast xval t u = true -> expansion xval next t u = Ok x -> sizes_agree x = true ->
  length idx = length (vaxes t) ->
  pt_sub_like xval xeqb' xdiv (fun b => xdiv (XF 1) b) xmul (XF 1) (xdiv (default t) (default u)) next t u = Ok (r, next') ->
  denote xval r idx = xdiv (denote xval t idx) (denote xval u idx).
Proof. exact div_refines. Qed.
Print Assumptions C06_div_partial.
