(** C06 -- patterned tensors behave exactly like the dense tensors they denote.
    Only property theorems live here, each closed by [exact] and followed by Print Assumptions. *)
From Coq Require Import List Arith Bool PArith QArith Qcanon.
Import ListNotations.
Require Import Fggs.Model.Axis Fggs.Model.AxisCheck Fggs.Model.AxisEnum Fggs.Model.XVal Fggs.Model.PTensor Fggs.Model.PTensorCheck.
Require Import Fggs.Proofs.Axis_sem Fggs.Proofs.Axis_unify Fggs.Proofs.Axis_antiunify Fggs.Proofs.Axis_complete Fggs.Proofs.Axis_repr.
Require Import Fggs.Proofs.PTensor_sem Fggs.Proofs.PTensor_dense Fggs.Proofs.PTensor_views Fggs.Proofs.PTensor_unary.
Require Import Fggs.Proofs.PTensor_binary Fggs.Proofs.PTensor_xval Fggs.Proofs.PTensor_transpose Fggs.Proofs.PTensor_expand.
Require Import Fggs.Proofs.Axis_antiunify_inv.
Require Import Fggs.Proofs.Axis_complete_gen Fggs.Proofs.Axis_typed Fggs.Proofs.Axis_total Fggs.Proofs.Axis_fuel Fggs.Proofs.Axis_mgu Fggs.Proofs.Axis_rank Fggs.Proofs.Axis_typed_check Fggs.Proofs.Axis_typed_model.
Require Import Fggs.Proofs.Axis_total_path Fggs.Proofs.Axis_coarsen Fggs.Proofs.Axis_fuel_suffices.
Require Import Fggs.Model.PTensorOps.
Require Import Fggs.Proofs.PTensor_bcast Fggs.Proofs.PTensor_bcast_inv Fggs.Proofs.PTensor_bcast_thm Fggs.Proofs.PTensor_bcast_xval.
Require Import Fggs.Proofs.Axis_clone Fggs.Proofs.PTensor_struct Fggs.Proofs.PTensor_getitem Fggs.Proofs.PTensor_reprinv.
Require Import Fggs.Proofs.PTensor_storage Fggs.Proofs.PTEqual_freshen.
Require Import Fggs.Model.PTensorOpsCheck Fggs.Proofs.Axis_subst Fggs.Proofs.PTensor_reshape Fggs.Proofs.PTensor_any Fggs.Proofs.PTensor_d2d.
Local Open Scope nat_scope.

(** * L2: the axis algebra *)

(** an in-range environment is mapped below [numel] *)
Theorem C06_eval_bound : forall rho e, inrange rho e -> eval rho e < numel e.
Proof. exact eval_bound. Qed.
Print Assumptions C06_eval_bound.

(** [stride] (as coded, following a substitution) is the affine form of [eval] *)
Theorem C06_stride_affine : forall rho sigma, models rho sigma ->
  forall fuel e o s, stride fuel sigma e = Ok (o, s) -> eval rho e = o + lin_eval rho s.
Proof. exact stride_affine. Qed.
Print Assumptions C06_stride_affine.

Theorem C06_stride_total : forall e, exists o s, stride (asize e) [] e = Ok (o, s).
Proof. exact stride_total. Qed.
Print Assumptions C06_stride_total.

(** [index] inverts [eval]: sound ... *)
Theorem C06_index_inverts_eval_sound : forall e pi v pi', index e pi v = IOk pi' ->
  extends pi pi' /\ (forall k, In k (fv e) -> assoc k pi' <> None) /\
  (forall rho, agrees rho pi' -> eval rho e = v /\ inrange rho e).
Proof. exact index_sound. Qed.
Print Assumptions C06_index_inverts_eval_sound.

(** ... and complete *)
Theorem C06_index_inverts_eval_complete : forall e rho pi, inrange rho e -> agrees rho pi ->
  exists pi', index e pi (eval rho e) = IOk pi' /\ agrees rho pi'.
Proof. exact index_complete. Qed.
Print Assumptions C06_index_inverts_eval_complete.

Theorem C06_index_empty_unoccupied : forall e v, index e [] v = IEmpty ->
  forall rho, inrange rho e -> eval rho e <> v.
Proof. exact index_empty_sound. Qed.
Print Assumptions C06_index_empty_unoccupied.

(** "Every patterned tensor backs each virtual element by at most one physical element": the index
    map of ANY pattern is injective on the physical axes that occur in it *)
Theorem C06_at_most_one_backing : forall vaxes rho1 rho2,
  Forall (inrange rho1) vaxes -> Forall (inrange rho2) vaxes ->
  map (eval rho1) vaxes = map (eval rho2) vaxes ->
  forall k, In k (flat_map fv vaxes) -> rho1 k = rho2 k.
Proof. exact pattern_injective. Qed.
Print Assumptions C06_at_most_one_backing.

(** [unify] is sound: every in-range solution of the resulting substitution (read as equations)
    gives both patterns the same index tuple *)
Theorem C06_unify_sound : forall fuel es fs next st',
  length es = length fs ->
  unify_list fuel es fs (ustate0 next) = Ok (true, st') ->
  forall rho, Forall (inrange rho) es -> Forall (inrange rho) fs -> models rho (us_subst st') ->
    map (eval rho) es = map (eval rho) fs.
Proof. exact unify_sound. Qed.
Print Assumptions C06_unify_sound.

(** [antiunify]: the generalisation instantiates to both arguments *)
Theorem C06_antiunify_generalises : forall fuel es fs next gs st',
  length es = length fs ->
  antiunify_list fuel es fs (astate0 next) = Ok (gs, st') ->
  map numel gs = map numel es /\
  (forall rho, models rho (sigma1 (as_list st')) -> map (eval rho) gs = map (eval rho) es) /\
  (forall rho, models rho (sigma2 (as_list st')) -> map (eval rho) gs = map (eval rho) fs).
Proof. exact antiunify_generalises. Qed.
Print Assumptions C06_antiunify_generalises.

(** * L2, bounded tier B: completeness of [unify] on typed axes (exhaustive in the kernel) *)

(** the executable specification used below and by the harness means what it says *)
Theorem C06_coincidences_meaning : forall es fs vars tup,
  In tup (coincidences es fs vars) <->
  exists pi, In pi (all_envs vars) /\ evals (env_of pi) es = evals (env_of pi) fs /\
             tup = map (fun kn => env_of pi (fst kn)) vars.
Proof. exact coincidences_spec. Qed.
Print Assumptions C06_coincidences_meaning.

(** all pairs of axes of every index type with <= 3 leaves / size <= 12: [unify] stays within its fuel,
    does not warn, and succeeds with a unifier denoting exactly the coincidence set or fails on
    disjoint patterns.  (Full statement, open: the same for all typed axes.) *)
Theorem C06_unify_complete_upto12 : forall t e f,
  In t (types_upto 12) -> In e (axes_of t 1) -> In f (axes_of t 50) ->
  has_type e t = true /\ has_type f t = true /\ unify_complete [e] [f] 100.
Proof. exact unify_complete_upto12. Qed.
Print Assumptions C06_unify_complete_upto12.

(** all pairs of 2-dimensional patterns with shared variables over the index types with <= 2 leaves / size <= 6 *)
Theorem C06_unify_complete_2d_upto6 : forall t1 t2 es fs,
  In t1 small_types -> In t2 small_types ->
  In es (patterns2 t1 t2 1) -> In fs (patterns2 t1 t2 50) -> unify_complete es fs 100.
Proof. exact unify_complete_2d_upto6. Qed.
Print Assumptions C06_unify_complete_2d_upto6.

(** * L2, tier B unbounded: unification is complete on typed axes (DESIGN.md Appendix C)

    Judgement [ty G e ps] (Proofs/Axis_typed.v): axis [e] has the flattened product type [ps] in
    the context [G] that gives every physical axis one type; [tys] for patterns; [gprimes ps]:
    every prime is an atom of size >= 2 or a sum type of size >= 2 whose summands are good
    ([tgood]).  The judgement includes what [__post_init__] / [productAxis] guarantee (no physical
    axis of size 1, no one-factor product, no product directly inside a product).
    [tyfuel ps = 3 * tws ps + 2] is the fuel bound computed from the type. *)

(** (i) no typing needed: whenever [unify] returns without having warned, success means "most
    general unifier" and failure means "no coincidence" *)
Theorem C06_unify_complete_nowarn : forall fuel es fs next b st',
  length es = length fs -> (forall x, In x (es ++ fs) -> below next x) ->
  unify_list fuel es fs (ustate0 next) = Ok (b, st') -> us_warn st' = false ->
  forall rho, Forall (inrange rho) es -> Forall (inrange rho) fs -> map (eval rho) es = map (eval rho) fs ->
    if b then exists rho', extends_to next rho rho' /\ inr_s rho' (us_subst st') /\ models rho' (us_subst st')
    else False.
Proof. exact unify_complete_nowarn. Qed.
Print Assumptions C06_unify_complete_nowarn.

(** (ii) typed patterns: [unify] neither runs out of fuel (fuel [>= tyfuel] of every dimension's
    type) nor warns; it returns a substitution (well typed and acyclic in an extension [G'] of the
    context) or the clean failure *)
Theorem C06_unify_total_typed : forall G es fs pss next fuel,
  ctx_good G -> ctx_below G next -> tys G es pss -> tys G fs pss -> Forall gprimes pss ->
  Forall (fun ps => tyfuel ps <= fuel) pss ->
  exists b st' G', unify_list fuel es fs (ustate0 next) = Ok (b, st') /\ us_warn st' = false /\
                   (next <= us_next st')%positive /\ ctx_ext next G G' /\ tstate G' st'.
Proof. exact unify_total_typed_list. Qed.
Print Assumptions C06_unify_total_typed.

(** the fuel is an artefact of the model: more fuel never changes an answer *)
Theorem C06_unify_fuel_monotone : forall fuel fuel', fuel <= fuel' ->
  forall es fs st r, unify_list fuel es fs st = Ok r -> unify_list fuel' es fs st = Ok r.
Proof. exact unify_list_mono. Qed.
Print Assumptions C06_unify_fuel_monotone.

(** (iii) completeness: for typed patterns and WHATEVER the fuel, if the model answers at all it
    has not warned, and the answer is a most general unifier (sound; every coincidence is an
    instance, extending the environment on the fresh variables only) or, on failure, the patterns
    have no coincidence.  Replaces the [_upto12] / [_2d_upto6] theorems (kept as a cross-check). *)
Theorem C06_unify_complete : forall G es fs pss next fuel b st',
  ctx_good G -> ctx_below G next -> tys G es pss -> tys G fs pss -> Forall gprimes pss ->
  unify_list fuel es fs (ustate0 next) = Ok (b, st') ->
  us_warn st' = false /\
  (exists G', (next <= us_next st')%positive /\ ctx_ext next G G' /\ tstate G' st') /\
  (forall rho, Forall (inrange rho) es -> Forall (inrange rho) fs ->
     if b
     then (models rho (us_subst st') -> map (eval rho) es = map (eval rho) fs) /\
          (map (eval rho) es = map (eval rho) fs ->
           exists rho', extends_to next rho rho' /\ inr_s rho' (us_subst st') /\ models rho' (us_subst st'))
     else map (eval rho) es <> map (eval rho) fs).
Proof. exact unify_typed_mgu_any_fuel. Qed.
Print Assumptions C06_unify_complete.

(** ... and with the fuel the model / the check function uses ([unify_fuel], Model/AxisCheck.v) it
    DOES answer, on every typed pair of patterns -- no side condition (notes/UNIFY.md section 6):
    the model answers, has not warned, returns a well-typed acyclic substitution, and the answer is
    a most general unifier or, on failure, the patterns have no coincidence.
    (The former statement [C06_unify_complete_model_fuel_partial] carried the premise
    [Forall (fun ps => tyfuel ps <= unify_fuel es fs) pss], which is false in general: a typing may
    use types much larger than the patterns.) *)
Theorem C06_unify_complete_model_fuel : forall G es fs pss next,
  ctx_good G -> ctx_below G next -> tys G es pss -> tys G fs pss -> Forall gprimes pss ->
  exists b st', unify_list (unify_fuel es fs) es fs (ustate0 next) = Ok (b, st') /\ us_warn st' = false /\
    (exists G', (next <= us_next st')%positive /\ ctx_ext next G G' /\ tstate G' st') /\
    (forall rho, Forall (inrange rho) es -> Forall (inrange rho) fs ->
       if b
       then (models rho (us_subst st') -> map (eval rho) es = map (eval rho) fs) /\
            (map (eval rho) es = map (eval rho) fs ->
             exists rho', extends_to next rho rho' /\ inr_s rho' (us_subst st') /\ models rho' (us_subst st'))
       else map (eval rho) es <> map (eval rho) fs).
Proof. exact unify_typed_mgu_model. Qed.
Print Assumptions C06_unify_complete_model_fuel.

(** the ingredients: (a) totality with a fuel bound that follows one path through the type
    ([pm]: primes of the product spaces met + sum types crossed; [pmfuel ps = 3 * pm ps + 2]) *)
Theorem C06_unify_total_path : forall G es fs pss next fuel,
  ctx_good G -> ctx_below G next -> tys G es pss -> tys G fs pss -> Forall gprimes pss ->
  Forall (fun ps => pmfuel ps <= fuel) pss ->
  exists b st' G', unify_list fuel es fs (ustate0 next) = Ok (b, st') /\ us_warn st' = false /\
                   (next <= us_next st')%positive /\ ctx_ext next G G' /\ tstate G' st'.
Proof. exact unify_total_path_list. Qed.
Print Assumptions C06_unify_total_path.

(** (b) every typed pair has a coarser typing (sum types at which no [Sum] node is typed become
    atoms) whose path fuel is at most the fuel of the model *)
Theorem C06_unify_fuel_suffices : forall G es fs pss,
  tys G es pss -> tys G fs pss -> Forall gprimes pss ->
  exists V, tys (coG V G) es (map (map (co V)) pss) /\ tys (coG V G) fs (map (map (co V)) pss) /\
            Forall gprimes (map (map (co V)) pss) /\
            Forall (fun ps => pmfuel ps <= unify_fuel es fs) (map (map (co V)) pss).
Proof. exact unify_fuel_suffices. Qed.
Print Assumptions C06_unify_fuel_suffices.

(** the former fuel formula of the model (linear in the number of nodes) is refuted: the conjugacy
    equation [a.X = X.a'], [X] a shared physical axis of size [2^16], is a typed pair on which the
    recursion is 49 deep although the patterns have 6 nodes (fuel 46); a finding about the MODEL --
    the Python code has no fuel, it just recurses 49 frames deep *)
Theorem C06_unify_fuel_old_refuted :
  ctx_good conj_ctx /\ ctx_below conj_ctx 4 /\
  tys conj_ctx conj_es [repeat (TAtom 2) 17] /\ tys conj_ctx conj_fs [repeat (TAtom 2) 17] /\
  Forall gprimes [repeat (TAtom 2) 17] /\
  unify_list (unify_fuel_old conj_es conj_fs) conj_es conj_fs (ustate0 4) = Fail OutOfFuel /\
  exists st', unify_list (unify_fuel conj_es conj_fs) conj_es conj_fs (ustate0 4) = Ok (true, st') /\ us_warn st' = false.
Proof. exact unify_fuel_old_refuted. Qed.
Print Assumptions C06_unify_fuel_old_refuted.

(** two environments with the model's fuel, premise-free (what C07's [mul] / einsum needs) *)
Theorem C06_unify_complete_two_envs_model : forall G es fs pss next,
  ctx_good G -> ctx_below G next -> tys G es pss -> tys G fs pss -> Forall gprimes pss ->
  (forall k, In k (flat_map fv es) -> ~ In k (flat_map fv fs)) ->
  exists b st', unify_list (unify_fuel es fs) es fs (ustate0 next) = Ok (b, st') /\ us_warn st' = false /\
    (forall rho1 rho2, Forall (inrange rho1) es -> Forall (inrange rho2) fs ->
       map (eval rho1) es = map (eval rho2) fs ->
       b = true /\ exists rho', (forall k, In k (flat_map fv es) -> rho' k = rho1 k) /\
                                (forall k, In k (flat_map fv fs) -> rho' k = rho2 k) /\
                                models rho' (us_subst st')).
Proof. exact unify_typed_mgu_two_envs_model. Qed.
Print Assumptions C06_unify_complete_two_envs_model.

(** two environments (patterns over disjoint physical axes, as [equal] / [mul] arrange by
    freshening): every coincidence [eval rho1 es = eval rho2 fs] is an instance of the unifier *)
Theorem C06_unify_complete_two_envs : forall G es fs pss next fuel,
  ctx_good G -> ctx_below G next -> tys G es pss -> tys G fs pss -> Forall gprimes pss ->
  Forall (fun ps => tyfuel ps <= fuel) pss ->
  (forall k, In k (flat_map fv es) -> ~ In k (flat_map fv fs)) ->
  exists b st', unify_list fuel es fs (ustate0 next) = Ok (b, st') /\ us_warn st' = false /\
    (forall rho1 rho2, Forall (inrange rho1) es -> Forall (inrange rho2) fs ->
       map (eval rho1) es = map (eval rho2) fs ->
       b = true /\ exists rho', (forall k, In k (flat_map fv es) -> rho' k = rho1 k) /\
                                (forall k, In k (flat_map fv fs) -> rho' k = rho2 k) /\
                                models rho' (us_subst st')).
Proof. exact unify_typed_mgu_two_envs. Qed.
Print Assumptions C06_unify_complete_two_envs.

(** the guard on sum types cannot be dropped (new finding F24): a sum type of size 1 is a prime of
    size 1, and [unify] warns and fails on two overlapping patterns of a type that contains one *)
Theorem C06_unify_size1_sum_refuted :
  let t := TProd [TSum [TAtom 2; TAtom 3]; TSum [TAtom 1]; TAtom 2] in
  let e := Prod [Sum 0 (Phys 1 2) 3; Sum 0 unitAxis 0; Phys 2 2] in
  let f := Prod [Sum 0 (Phys 3 2) 3; Phys 4 2] in
  has_type e t = true /\ has_type f t = true /\ tgood t = false /\
  (exists st', unify_list 100 [e] [f] (ustate0 10) = Ok (false, st') /\ us_warn st' = true) /\
  (exists rho, inrange rho e /\ inrange rho f /\ eval rho e = eval rho f).
Proof. exact unify_size1_sum_refuted. Qed.
Print Assumptions C06_unify_size1_sum_refuted.

(** the theory of typed axes used above *)
Theorem C06_typed_numel : forall G e ps, ty G e ps -> numel e = tsizes ps.
Proof. exact ty_numel. Qed.
Print Assumptions C06_typed_numel.

Theorem C06_typed_lookup : forall G s e ps, wts G s -> ty G e ps ->
  exists e', lookup (lookup_fuel s) s e = Ok e' /\ ty G e' ps /\ unbound s e'.
Proof. exact lookup_typed. Qed.
Print Assumptions C06_typed_lookup.

(** a well-typed acyclic substitution has a solution for every assignment of its unbound axes, and
    the solution respects the sizes when the assignment does *)
Theorem C06_typed_subst_solvable : forall G s (g : env), wts G s ->
  exists rho, models rho s /\ forall k, assoc k s = None -> rho k = g k.
Proof. exact model_exists. Qed.
Print Assumptions C06_typed_subst_solvable.

Theorem C06_typed_subst_fits : forall G s rho, wts G s -> models rho s ->
  (forall k, assoc k s = None -> G k <> [] -> rho k < tsizes (G k)) -> fits G rho.
Proof. exact model_fits. Qed.
Print Assumptions C06_typed_subst_fits.

(** the executable checker for the judgement is sound, and the universes of the bounded theorems
    above (= the harness's typed generator) lie inside the domain of the unbounded theorem,
    including the fuel side condition *)
Theorem C06_ty_b_sound : forall G e ps, ty_b G e ps = true -> ty G e ps.
Proof. exact ty_b_sound. Qed.
Print Assumptions C06_ty_b_sound.

(** the context judgement is at least as strict as the Model's context-free [has_type] *)
Theorem C06_ty_has_type : forall G e t, ty G e (tprimes t) -> has_type e t = true.
Proof. exact ty_has_type. Qed.
Print Assumptions C06_ty_has_type.

Theorem C06_typed_universe_upto12 : forall t e f,
  In t (types_upto 12) -> In e (axes_of t 1) -> In f (axes_of t 50) ->
  exists G, ctx_good G /\ ctx_below G 100 /\ tys G [e] [tprimes t] /\ tys G [f] [tprimes t] /\
            Forall gprimes [tprimes t] /\ Forall (fun ps => tyfuel ps <= unify_fuel [e] [f]) [tprimes t].
Proof. exact typed_universe_upto12. Qed.
Print Assumptions C06_typed_universe_upto12.

(** * L3: patterned tensors *)

(** an element is the physical element of the environment that evaluates to its index ... *)
Theorem C06_denote_backed : forall (V : Type) (t : ptensor V) rho,
  covers (paxes t) (vaxes t) -> Forall (inrange rho) (vaxes t) ->
  denote V t (evals rho (vaxes t)) = pget V t rho.
Proof. exact denote_backed. Qed.
Print Assumptions C06_denote_backed.

(** ... or the default when no in-range environment evaluates to it *)
Theorem C06_denote_unbacked : forall (V : Type) (t : ptensor V) idx,
  length idx = length (vaxes t) ->
  (forall rho, Forall (inrange rho) (vaxes t) -> evals rho (vaxes t) <> idx) ->
  denote V t idx = default t.
Proof. exact denote_unbacked. Qed.
Print Assumptions C06_denote_unbacked.

(** [to_dense] as coded (new_full + strided copy_ through Axis.stride) computes the denotation *)
Theorem C06_to_dense_is_denote : forall (V : Type) (t : ptensor V), wf V t ->
  exists st, to_dense_store V t = Ok st /\
    forall idx, in_bounds (shape V t) idx -> st (flat_offset (shape V t) idx) = denote V t idx.
Proof. exact to_dense_denote. Qed.
Print Assumptions C06_to_dense_is_denote.

(** the extracted oracle of the monitor is sound: what passes it is well formed, hence injective *)
Theorem C06_repr_inv_wf : forall (V : Type) (t : ptensor V) psize,
  repr_inv_b psize (paxes t) (vaxes t) = true -> wf V t.
Proof. exact repr_inv_wf. Qed.
Print Assumptions C06_repr_inv_wf.

Theorem C06_repr_inv_injective : forall (V : Type) (t : ptensor V) psize,
  repr_inv_b psize (paxes t) (vaxes t) = true ->
  forall pi1 pi2, In pi1 (all_envs (paxes t)) -> In pi2 (all_envs (paxes t)) ->
    evals (env_of pi1) (vaxes t) = evals (env_of pi2) (vaxes t) ->
    forall k, In k (map fst (paxes t)) -> env_of pi1 k = env_of pi2 k.
Proof. exact repr_inv_injective. Qed.
Print Assumptions C06_repr_inv_injective.

(** views: denote (op t) = dense_op (denote t) *)
Theorem C06_permute : forall (V : Type) (t t' : ptensor V) dims idx idx',
  covers (paxes t) (vaxes t) -> length idx = length (vaxes t) ->
  pt_permute V dims t = Some t' -> select dims idx = Some idx' ->
  denote V t' idx' = denote V t idx.
Proof. exact permute_refines. Qed.
Print Assumptions C06_permute.

(** transpose, with the five slices of the code *)
Theorem C06_transpose : forall (V : Type) (t t' : ptensor V) d0 d1 idx,
  covers (paxes t) (vaxes t) -> length idx = length (vaxes t) ->
  pt_transpose V d0 d1 t = Some t' ->
  denote V t' (if Nat.eqb d0 d1 then idx else swap_dims (Nat.min d0 d1) (Nat.max d0 d1) idx) = denote V t idx.
Proof. exact transpose_refines. Qed.
Print Assumptions C06_transpose.

Theorem C06_T : forall (V : Type) (t : ptensor V) idx,
  covers (paxes t) (vaxes t) -> length idx = length (vaxes t) ->
  denote V (pt_T V t) (rev idx) = denote V t idx.
Proof. exact T_refines. Qed.
Print Assumptions C06_T.

Theorem C06_unsqueeze : forall (V : Type) (t : ptensor V) dim idx,
  covers (paxes t) (vaxes t) -> length idx = length (vaxes t) ->
  denote V (pt_unsqueeze V dim t) (firstn dim idx ++ [0] ++ skipn dim idx) = denote V t idx.
Proof. exact unsqueeze_refines. Qed.
Print Assumptions C06_unsqueeze.

Theorem C06_flatten : forall (V : Type) (t : ptensor V) idx,
  covers (paxes t) (vaxes t) -> in_bounds (shape V t) idx ->
  denote V (pt_flatten V t) [flat_offset (shape V t) idx] = denote V t idx.
Proof. exact flatten_refines. Qed.
Print Assumptions C06_flatten.

(** expand: dense broadcasting -- new leading dimensions are dropped and every size-1 dimension of the
    operand is read at 0 ([bidxr], on reversed lists as the code processes them) *)
Theorem C06_expand : forall (V : Type) (t t' : ptensor V) sizes next next' idx,
  wf V t -> (forall e, In e (vaxes t) -> below next e) ->
  pt_expand V sizes next t = Some (t', next') -> Forall2 lt idx sizes ->
  denote V t' idx = denote V t (rev (bidxr (rev (vaxes t)) (rev idx))).
Proof. exact expand_refines. Qed.
Print Assumptions C06_expand.

(** unary maps: pointwise, provided the new default is the map of the old default *)
Theorem C06_unary_map : forall (V : Type) (f : V -> V) fd (t : ptensor V) idx,
  fd = f (default t) -> denote V (pt_map V f fd t) idx = f (denote V t idx).
Proof. exact map_refines. Qed.
Print Assumptions C06_unary_map.

(** the side condition holds for every modelled unary / scalar operation on the concrete carrier and
    EVERY default (0, inf, NaN): abs, neg_, relu_, scalar + - * / (division by 0 included), comparisons;
    the only guard left is for clamp_min/clamp_max, whose default is still Python's max/min: the
    scalar *argument* must not be NaN *)
Theorem C06_unary_ops : forall op sc (t r : pt) next f idx,
  is_unary op = true -> unary_guard op sc = true ->
  model_op op [] sc [t] next = Ok r -> unary_fn op sc = Some f ->
  denote xval r idx = f (denote xval t idx).
Proof. exact unary_refines. Qed.
Print Assumptions C06_unary_ops.

(** nan_to_num_ (F1 is repaired in /repo: neginf reaches the physical tensor) *)
Theorem C06_nan_to_num : forall na sc (t r : pt) next idx,
  model_op 24 na sc [t] next = Ok r ->
  denote xval r idx =
  xnan_to_num (nth 0 sc XNaN) (opt_of_flag (nth 0 na 0) (nth 1 sc XNaN)) (opt_of_flag (nth 1 na 0) (nth 2 sc XNaN))
              (denote xval t idx).
Proof. exact nan_to_num_refines. Qed.
Print Assumptions C06_nan_to_num.

(** division by a scalar (fc474fc): for every scalar, 0 / inf / NaN included, and every default *)
Theorem C06_div_scalar : forall s (t r : pt) next idx,
  model_op 18 [] [s] [t] next = Ok r ->
  denote xval r idx = xdiv (denote xval t idx) s.
Proof. exact div_scalar_refines. Qed.
Print Assumptions C06_div_scalar.

(** relu_ (fd2047f): for every default; a NaN default stays NaN *)
Theorem C06_relu : forall (t r : pt) next idx,
  model_op 12 [] [] [t] next = Ok r -> denote xval r idx = xrelu (denote xval t idx).
Proof. exact relu_refines. Qed.
Print Assumptions C06_relu.

(** log / log_ (ad94aa4): the helper [_log] treats every default like torch.log treats an element
    (0 -> -inf, negative / -inf / NaN -> NaN, inf -> inf); [lnpos] is the logarithm on positive rationals *)
Theorem C06_log_default : forall (lnpos : Qc -> xval) (t : pt) idx,
  denote xval (pt_map xval (xlog lnpos) (py_log lnpos (default t)) t) idx = xlog lnpos (denote xval t idx).
Proof. exact log_refines. Qed.
Print Assumptions C06_log_default.

(** record of the repaired behaviour: the former Python-scalar defaults, as explicitly named [*_old] definitions *)
Theorem C06_relu_default_old_refuted : relu_default_old XNaN <> xrelu XNaN.
Proof. exact relu_default_old_refuted. Qed.
Print Assumptions C06_relu_default_old_refuted.
Theorem C06_maximum_default_old_refuted : maximum_default_old (XF 1) XNaN <> xmax (XF 1) XNaN.
Proof. exact maximum_default_old_refuted. Qed.
Print Assumptions C06_maximum_default_old_refuted.

(** * binary operations through expansion / anti-unification, WITH broadcasting

    For well-formed operands whose patterns are broadcast compatible ([bcast_ok]: at every position
    aligned from the right the sizes agree or one side is [unitAxis]; operands of different rank are
    padded with [unitAxis]) the result of [binary] is well formed, has the broadcast shape, and its
    element at [idx] is the operation applied to the operands' elements at the broadcast indices
    [bidx] (leading dimensions dropped, size-1 dimensions read at 0).  The former guards
    [no_broadcast] and [sizes_agree] are gone: the recorded parts have equal sizes because
    [antiunify] is only ever called on axes of equal size ([antiunify_szeq]). *)
Theorem C06_binary_refines : forall (V : Type) (op : V -> V -> V) dflt next (t u r : ptensor V) next',
  wf V t -> wf V u -> vars_below V next t -> vars_below V next u ->
  bcast_ok V t u = true ->
  pt_binary V op dflt next t u = Ok (r, next') ->
  dflt = op (default t) (default u) ->
  wf V r /\ bshape (shape V t) (shape V u) = Some (shape V r) /\
  forall idx, in_bounds (shape V r) idx ->
    denote V r idx = op (denote V t (bidx (shape V t) idx)) (denote V u (bidx (shape V u) idx)).
Proof. exact binary_bcast_refines. Qed.
Print Assumptions C06_binary_refines.

(** all three code paths of [commutative] (add, mul, logaddexp, maximum, logical and/or) *)
Theorem C06_commutative_refines : forall (V : Type) (veqb : V -> V -> bool) (op : V -> V -> V) identity dflt next
                            (t u r : ptensor V) next',
  (forall a b, veqb a b = true -> a = b) -> (forall a, op a identity = a) -> (forall a b, op a b = op b a) ->
  wf V t -> wf V u -> vars_below V next t -> vars_below V next u ->
  bcast_ok V t u = true ->
  pt_commutative V veqb op identity dflt next t u = Ok (r, next') ->
  dflt = op (default t) (default u) ->
  wf V r /\ bshape (shape V t) (shape V u) = Some (shape V r) /\
  forall idx, in_bounds (shape V r) idx ->
    denote V r idx = op (denote V t (bidx (shape V t) idx)) (denote V u (bidx (shape V u) idx)).
Proof. exact commutative_bcast_refines. Qed.
Print Assumptions C06_commutative_refines.

(** [sub] (and [div], whose reciprocal laws are hypotheses here) *)
Theorem C06_sub_like_refines : forall (V : Type) (veqb : V -> V -> bool) (op : V -> V -> V) (inv : V -> V) (op' : V -> V -> V)
                         identity dflt next (t u r : ptensor V) next',
  (forall a b, veqb a b = true -> a = b) -> (forall a, op a identity = a) ->
  (forall a b, op' (inv b) a = op a b) -> (forall b, op identity b = inv b) ->
  wf V t -> wf V u -> vars_below V next t -> vars_below V next u ->
  bcast_ok V t u = true ->
  pt_sub_like V veqb op inv op' identity dflt next t u = Ok (r, next') ->
  dflt = op (default t) (default u) ->
  wf V r /\ bshape (shape V t) (shape V u) = Some (shape V r) /\
  forall idx, in_bounds (shape V r) idx ->
    denote V r idx = op (denote V t (bidx (shape V t) idx)) (denote V u (bidx (shape V u) idx)).
Proof. exact sub_like_bcast_refines. Qed.
Print Assumptions C06_sub_like_refines.

(** the recorded parts always have equal sizes when [antiunify] starts from axes of equal size *)
Theorem C06_antiunify_sizes_agree : forall fuel e f st g st',
  numel e = numel f -> szeq (as_list st) -> antiunify fuel e f st = Ok (g, st') -> szeq (as_list st').
Proof. exact (fun fuel => proj1 (antiunify_szeq fuel)). Qed.
Print Assumptions C06_antiunify_sizes_agree.

(** the laws hold on the concrete carrier: add, mul, maximum, sub, div ([bcast_spec] is the
    conclusion of the three theorems above) *)
Theorem C06_add : forall next (t u r : pt) next',
  wf xval t -> wf xval u -> vars_below xval next t -> vars_below xval next u -> bcast_ok xval t u = true ->
  pt_commutative xval xeqb' xadd (XF 0) (xadd (default t) (default u)) next t u = Ok (r, next') -> bcast_spec t u r xadd.
Proof. exact add_bcast. Qed.
Print Assumptions C06_add.

Theorem C06_mul : forall next (t u r : pt) next',
  wf xval t -> wf xval u -> vars_below xval next t -> vars_below xval next u -> bcast_ok xval t u = true ->
  pt_commutative xval xeqb' xmul (XF 1) (xmul (default t) (default u)) next t u = Ok (r, next') -> bcast_spec t u r xmul.
Proof. exact mul_bcast. Qed.
Print Assumptions C06_mul.

Theorem C06_maximum : forall next (t u r : pt) next',
  wf xval t -> wf xval u -> vars_below xval next t -> vars_below xval next u -> bcast_ok xval t u = true ->
  pt_commutative xval xeqb' xmax XNInf (xmax (default t) (default u)) next t u = Ok (r, next') -> bcast_spec t u r xmax.
Proof. exact maximum_bcast. Qed.
Print Assumptions C06_maximum.

Theorem C06_sub : forall next (t u r : pt) next',
  wf xval t -> wf xval u -> vars_below xval next t -> vars_below xval next u -> bcast_ok xval t u = true ->
  pt_sub_like xval xeqb' xsub xneg xadd (XF 0) (xsub (default t) (default u)) next t u = Ok (r, next') -> bcast_spec t u r xsub.
Proof. exact sub_bcast. Qed.
Print Assumptions C06_sub.

(** div (fc474fc): the default is xdiv of the defaults for every divisor default (0 included); the
    reciprocal path [(1 / u) * t] equals [t / u] on the whole carrier *)
Theorem C06_div : forall next (t u r : pt) next',
  wf xval t -> wf xval u -> vars_below xval next t -> vars_below xval next u -> bcast_ok xval t u = true ->
  pt_sub_like xval xeqb' xdiv (fun b => xdiv (XF 1) b) xmul (XF 1) (xdiv (default t) (default u)) next t u = Ok (r, next') ->
  bcast_spec t u r xdiv.
Proof. exact div_bcast. Qed.
Print Assumptions C06_div.

(** [bcast_ok] cannot be weakened to "the shapes broadcast" (F24, degenerate: a one-element sum type): a
    size-1 dimension whose axis is [Sum 0 unitAxis 0] is not broadcast by [expansion], which tests
    [e == unitAxis]; the result of [binary] then has shape [1] instead of [3] *)
Theorem C06_expansion_nonunit_size1_refuted :
  wf xval ex_one /\ wf xval ex_three /\ bshape (shape xval ex_one) (shape xval ex_three) = Some [3] /\
  bcast_ok xval ex_one ex_three = false /\
  exists r n, pt_binary xval xadd (XF 0) 2 ex_one ex_three = Ok (r, n) /\ shape xval r = [1].
Proof. exact expansion_nonunit_size1_refuted. Qed.
Print Assumptions C06_expansion_nonunit_size1_refuted.

(** * operations that rebuild the pattern *)

(** [__post_init__] (size-1 physical axes become [unitAxis], the storage is squeezed): always
    succeeds, the result satisfies the representation invariant and denotes the same tensor *)
Theorem C06_post_init_total : forall (V : Type) (t : ptensor V), exists t', post_init V t = Ok t'.
Proof. exact post_init_total. Qed.
Print Assumptions C06_post_init_total.

Theorem C06_post_init : forall (V : Type) (t t' : ptensor V), wf V t -> post_init V t = Ok t' ->
  repr_ok V t' /\ shape V t' = shape V t /\ default t' = default t /\
  forall idx, length idx = length (vaxes t) -> denote V t' idx = denote V t idx.
Proof. exact post_init_refines. Qed.
Print Assumptions C06_post_init.

(** [PatternedTensor(dense, default=d)] (also [from_int], [full]) *)
Theorem C06_of_dense : forall (V : Type) shp (f : list nat -> V) d next,
  let r := fst (pt_of_dense V shp f d next) in
  repr_ok V r /\ shape V r = shp /\ default r = d /\
  (forall k, In k (map fst (paxes r)) -> (next <= k)%positive /\ (k < snd (pt_of_dense V shp f d next))%positive) /\
  forall idx, in_bounds shp idx -> denote V r idx = f idx.
Proof. exact of_dense_refines. Qed.
Print Assumptions C06_of_dense.

Theorem C06_full : forall (V : Type) shp (d : V) next,
  let r := fst (pt_full V shp d next) in
  repr_ok V r /\ shape V r = shp /\ forall idx, in_bounds shp idx -> denote V r idx = d.
Proof. exact full_refines. Qed.
Print Assumptions C06_full.

Theorem C06_default_to : forall (V : Type) (veqb : V -> V -> bool) d next (t : ptensor V), wf V t ->
  let r := fst (pt_default_to V veqb d next t) in
  wf V r /\ shape V r = shape V t /\ (no1 (paxes t) -> no1 (paxes r)) /\
  (default r = d \/ veqb (default t) d = true /\ default r = default t) /\
  forall idx, in_bounds (shape V t) idx -> denote V r idx = denote V t idx.
Proof. exact default_to_refines. Qed.
Print Assumptions C06_default_to.

(** [__getitem__] with a full or partial tuple of integers: the sub-tensor; an in-range index never raises *)
Theorem C06_getitem : forall (V : Type) vis next (t r : ptensor V) nx,
  wf V t -> length vis <= length (vaxes t) ->
  pt_getitem V vis next t = Ok (r, nx) ->
  wf V r /\ shape V r = skipn (length vis) (shape V t) /\ default r = default t /\
  forall idx', in_bounds (shape V r) idx' -> denote V r idx' = denote V t (vis ++ idx').
Proof. exact getitem_refines. Qed.
Print Assumptions C06_getitem.

Theorem C06_getitem_total : forall (V : Type) vis next (t : ptensor V),
  Forall2 lt vis (firstn (length vis) (shape V t)) -> exists r nx, pt_getitem V vis next t = Ok (r, nx).
Proof. exact getitem_total. Qed.
Print Assumptions C06_getitem_total.

(** [clone] / [detach] / [freshen] *)
Theorem C06_freshen : forall (V : Type) (t : ptensor V) next, wf V t ->
  forall idx, length idx = length (vaxes t) -> denote V (fst (pt_freshen V next t)) idx = denote V t idx.
Proof. exact pt_freshen_denote. Qed.
Print Assumptions C06_freshen.

(** [copy_]: afterwards the destination denotes what the source denotes; [to(dtype)] converts every element *)
Theorem C06_copy : forall (V : Type) next (src : ptensor V), repr_ok V src ->
  let dst := fst (pt_copy V next src) in
  repr_ok V dst /\ shape V dst = shape V src /\ default dst = default src /\
  (forall k, In k (map fst (paxes dst)) -> (next <= k)%positive) /\
  forall idx, length idx = length (vaxes src) -> denote V dst idx = denote V src idx.
Proof. exact copy_refines. Qed.
Print Assumptions C06_copy.

Theorem C06_to : forall (V : Type) (cvt : V -> V) (t : ptensor V) idx,
  denote V (pt_to V cvt t) idx = cvt (denote V t idx).
Proof. exact to_refines. Qed.
Print Assumptions C06_to.

(** * C06_repr_inv: the constructors preserve the representation invariant
      ([repr_ok]: [wf] and no size-1 physical axis; equivalent to the monitor's oracle [repr_inv_b]) *)
Theorem C06_repr_ok_iff_oracle : forall (V : Type) (t : ptensor V),
  (repr_ok V t -> repr_inv_b (map snd (paxes t)) (paxes t) (vaxes t) = true) /\
  (forall psize, repr_inv_b psize (paxes t) (vaxes t) = true -> repr_ok V t).
Proof. exact (fun V t => conj (repr_ok_inv_b V t) (repr_inv_b_ok V t)). Qed.
Print Assumptions C06_repr_ok_iff_oracle.

Theorem C06_repr_inv_views : forall (V : Type) (t : ptensor V), repr_ok V t ->
  (forall dims t', pt_permute V dims t = Some t' -> repr_ok V t') /\
  (forall d0 d1 t', pt_transpose V d0 d1 t = Some t' -> repr_ok V t') /\
  repr_ok V (pt_T V t) /\ (forall dim, repr_ok V (pt_unsqueeze V dim t)) /\ repr_ok V (pt_flatten V t) /\
  (forall next, repr_ok V (fst (pt_freshen V next t))) /\ (forall cvt, repr_ok V (pt_to V cvt t)).
Proof.
  exact (fun V t R => conj (fun dims t' => permute_repr_ok V t t' dims R)
        (conj (fun d0 d1 t' => transpose_repr_ok V t t' d0 d1 R)
        (conj (T_repr_ok V t R) (conj (fun dim => unsqueeze_repr_ok V t dim R)
        (conj (flatten_repr_ok V t R) (conj (fun next => freshen_repr_ok V t next R) (fun cvt => to_repr_ok V cvt t R))))))).
Qed.
Print Assumptions C06_repr_inv_views.

Theorem C06_repr_inv_expand : forall (V : Type) (t t' t'' : ptensor V) sizes next next',
  wf V t -> (forall e, In e (vaxes t) -> below next e) ->
  pt_expand V sizes next t = Some (t', next') -> post_init V t' = Ok t'' -> repr_ok V t''.
Proof. exact expand_repr_ok. Qed.
Print Assumptions C06_repr_inv_expand.

Theorem C06_eye : forall (V : Type) n (one zero : V) next,
  let r := fst (pt_eye V n one zero next) in
  repr_ok V r /\ shape V r = [n; n] /\
  forall i j, i < n -> j < n -> denote V r [i; j] = if Nat.eqb i j then one else zero.
Proof. exact eye_refines. Qed.
Print Assumptions C06_eye.

Theorem C06_from_int : forall (V : Type) (x d : V) next,
  let r := fst (pt_of_dense V [] (fun _ => x) d next) in repr_ok V r /\ denote V r [] = x.
Proof. exact from_int_repr_ok. Qed.
Print Assumptions C06_from_int.

(** the smart constructor [productAxis] establishes the invariants of its docstring (no one-factor
    product, no product directly inside a product), hereditarily, and keeps size and meaning *)
Theorem C06_productAxis_normal : forall l, forallb pnormal l = true -> pnormal (productAxis l) = true.
Proof. exact productAxis_normal. Qed.
Print Assumptions C06_productAxis_normal.

Theorem C06_productAxis_sem : forall rho l,
  eval rho (productAxis l) = evalL rho l /\ numel (productAxis l) = prodn l.
Proof. exact productAxis_sem. Qed.
Print Assumptions C06_productAxis_sem.

(** * any(dim, keepdim): both code paths (the all-ones shortcut, by the pigeonhole principle; [physical.any] over
    the axes that occur only in the reduced dimension, which index it bijectively when their product equals its
    length).  Guard: the reduced dimension is not empty or the default is false -- [C06_any_empty_dim_refuted]
    is the witness that the code differs from torch.any over an empty dimension with a true default. *)
Theorem C06_any : forall (V : Type) (truth : V -> bool) (ofb : bool -> V), (forall b, truth (ofb b) = b) ->
  forall dim keepdim (t r : ptensor V) ed,
  wf V t -> nth_error (vaxes t) dim = Some ed ->
  (0 < numel ed \/ truth (default t) = false) ->
  pt_any V truth ofb dim keepdim t = Ok r ->
  wf V r /\ default r = default t /\
  forall idx', length idx' + 1 = length (vaxes t) ->
    truth (denote V r (if keepdim then firstn dim idx' ++ [0] ++ skipn dim idx' else idx')) =
    existsb (fun i => truth (denote V t (firstn dim idx' ++ i :: skipn dim idx'))) (seq 0 (numel ed)).
Proof. exact any_refines. Qed.
Print Assumptions C06_any.

Theorem C06_any_empty_dim_refuted :
  let t := mkPT (fun _ : list nat => false) [(1%positive, 0); (2%positive, 2)] [Phys 1 0; Sum 0 (Phys 2 2) 1] true in
  exists r, pt_any bool (fun b => b) (fun b => b) 0 false t = Ok r /\ wf bool t /\
            denote bool r [2] = true /\ existsb (fun i => denote bool t [i; 2]) (seq 0 (numel (Phys 1 0))) = false.
Proof. exact any_empty_dim_refuted. Qed.
Print Assumptions C06_any_empty_dim_refuted.

(** * dim_to_dense(dim): the same dense tensor, well formed, and dimension [dim] is [unitAxis] or a physical axis
    that occurs in no other dimension ([dense_dim]).  Covers the early return and the general path ([freshen] of
    the other dimensions from the empty rename dict, [new_full], strided [copy_] through the low-level [project]).
    Guard: a size-1 dimension is [unitAxis] (the [squeeze_(-1)] branch needs F24's one-element sum types). *)
Theorem C06_dim_to_dense : forall (V : Type) dim next (t r : ptensor V) nx ed,
  wf V t -> vars_below V next t -> nth_error (vaxes t) dim = Some ed ->
  (is_unit ed = true \/ numel ed <> 1) ->
  pt_dim_to_dense V dim next t = Ok (r, nx) ->
  wf V r /\ shape V r = shape V t /\ default r = default t /\ dense_dim V r dim /\
  forall idx, in_bounds (shape V t) idx -> denote V r idx = denote V t idx.
Proof. exact dim_to_dense_refines. Qed.
Print Assumptions C06_dim_to_dense.

(** * reshape / view

    Full statement: for every well-typed tensor, [reshape_or_view] either raises RuntimeError or returns
    a tensor denoting the reshaped dense tensor, and it returns when the target merges adjacent dimensions
    or inserts / removes size-1 dimensions.
    Proved: (1) when the call returns (general branch, i.e. more than one element) the result denotes the
    reshaped tensor, under explicit premises about the unifier computed inside the call -- completeness of
    that call ([complete_for]: the conclusion of agent-UNIFY's [C_unify]), solved form ([solvable]:
    [model_exists]), size preservation of the bindings ([size_preserving]: [wts_ty] + [ty_numel]) -- and
    well-formedness of the result (checked by the run-time monitor); (2) the unification cannot return
    False on a target with the right number of elements when it is complete for that call, because a
    coincidence of the two products always exists (so RuntimeError is only raised together with the "index
    type mismatch" warning, which typed targets -- adjacent merges, size-1 insertion / removal -- exclude
    by agent-UNIFY's totality theorem).  The premises are discharged after merging that branch. *)
Theorem C06_reshape_refines_partial : forall (V : Type) inferred s next (t r : ptensor V) nx',
  wf V t -> vars_below V next t -> forallb pos_sizes (vaxes t) = true ->
  (Nat.eqb (prodl' (shape V t)) (pnumel (paxes t)) && (prodl' (shape V t) <=? 1)) = false ->
  pt_reshape V inferred s next t = Ok (r, nx') ->
  wf V r ->
  (forall s' goals nx st', (inferred = 0 -> s' = s) -> goal_axes s' next = (goals, nx) ->
     unify (rs_fuel V goals t) (productAxis goals) (productAxis (vaxes t)) (ustate0 nx) = Ok (true, st') ->
     (next <= nx)%positive -> (forall e, In e goals -> below nx e) ->
     complete_for nx (productAxis goals) (productAxis (vaxes t)) (us_subst st') /\
     solvable (us_subst st') /\
     size_preserving (us_subst st') (goals ++ paxes_axes' (paxes t))) ->
  prodl' (shape V r) = prodl' (shape V t) /\ default r = default t /\
  forall idx', in_bounds (shape V r) idx' ->
    denote V r idx' = denote V t (unflat (shape V t) (flat_offset (shape V r) idx')).
Proof. exact reshape_refines_partial. Qed.
Print Assumptions C06_reshape_refines_partial.

Theorem C06_reshape_unify_succeeds : forall (V : Type) s next (t : ptensor V) goals nx b st',
  wf V t -> vars_below V next t ->
  prodl' (shape V t) = prodl' s -> (exists rho, Forall (inrange rho) (vaxes t)) ->
  goal_axes s next = (goals, nx) ->
  unify (rs_fuel V goals t) (productAxis goals) (productAxis (vaxes t)) (ustate0 nx) = Ok (b, st') ->
  (forall rho, inrange rho (productAxis goals) -> inrange rho (productAxis (vaxes t)) ->
     eval rho (productAxis goals) = eval rho (productAxis (vaxes t)) -> b = true) ->
  b = true.
Proof. exact reshape_unify_succeeds. Qed.
Print Assumptions C06_reshape_unify_succeeds.

(** * reshape / view on TYPED tensors: the unifier premises are theorems, and the "always succeeds" half

    [typed_target pss s]: the primes of the tensor's dimension types [pss] regroup, in order, into one group
    per target dimension of the sizes [s] (what makes [productAxis goals] and [productAxis self.vaxes] axes of one
    type).  For such targets [complete_for], [solvable] and [size_preserving] hold (completeness of [unify] on
    typed axes, [model_exists], [wts_ty] + [ty_numel]); the only premise left is well-formedness of the result
    (checked by the run-time monitor on every construction). *)
Require Import Fggs.Proofs.PTensor_reshape_typed Fggs.Proofs.PTensor_reshape_ok.

Theorem C06_reshape_premises_typed : forall (V : Type) G next pss (t : ptensor V) s' goals nx st',
  wf V t -> ctx_good G -> ctx_below G next -> tys G (vaxes t) pss -> Forall gprimes pss ->
  typed_target pss s' -> goal_axes s' next = (goals, nx) ->
  unify (rs_fuel V goals t) (productAxis goals) (productAxis (vaxes t)) (ustate0 nx) = Ok (true, st') ->
  complete_for nx (productAxis goals) (productAxis (vaxes t)) (us_subst st') /\
  solvable (us_subst st') /\
  size_preserving (us_subst st') (goals ++ paxes_axes' (paxes t)).
Proof. exact reshape_premises. Qed.
Print Assumptions C06_reshape_premises_typed.

Theorem C06_reshape_refines_typed : forall (V : Type) G pss inferred s next (t r : ptensor V) nx',
  wf V t -> ctx_good G -> ctx_below G next -> tys G (vaxes t) pss -> Forall gprimes pss ->
  (Nat.eqb (prodl' (shape V t)) (pnumel (paxes t)) && (prodl' (shape V t) <=? 1)) = false ->
  pt_reshape V inferred s next t = Ok (r, nx') ->
  wf V r ->
  typed_target pss (shape V r) ->
  prodl' (shape V r) = prodl' (shape V t) /\ default r = default t /\
  forall idx', in_bounds (shape V r) idx' ->
    denote V r idx' = denote V t (unflat (shape V t) (flat_offset (shape V r) idx')).
Proof. exact reshape_refines_typed. Qed.
Print Assumptions C06_reshape_refines_typed.

(** [clone(subst)] terminates on every well-typed acyclic substitution within (size of the axis + total size
    of the bindings) steps: along a chain of nested calls every binding is entered at most once *)
Theorem C06_clone_total_typed : forall G sigma, wts G sigma ->
  forall fuel e, asize e + asize_list (map snd sigma) <= fuel -> exists c, clone fuel sigma e = Ok c.
Proof. exact clone_total_typed. Qed.
Print Assumptions C06_clone_total_typed.

(** "always succeeds when merging adjacent dimensions or inserting / removing size-1 dimensions": for every typed
    tensor and every explicit target ([-1] not used) that replaces consecutive groups of dimensions (possibly
    empty: a new size-1 dimension) by their products, the model of [reshape_or_view] returns -- with the fuel the
    model uses: the unification binds or splits target axes only, [prime_factors] of every physical axis of
    [self] is the axis itself, [clone] terminates and keeps the sizes, so all asserts hold.
    Open: targets containing [-1] (checked at run time through the [must_succeed] flag, verdict 5). *)
Theorem C06_reshape_merge_succeeds : forall (V : Type) G pss s next (t : ptensor V),
  wf V t -> ctx_good G -> ctx_below G next -> tys G (vaxes t) pss -> Forall gprimes pss ->
  merges (shape V t) s ->
  exists r nx', pt_reshape V 0 s next t = Ok (r, nx').
Proof. exact reshape_merge_succeeds. Qed.
Print Assumptions C06_reshape_merge_succeeds.

Theorem C06_reshape_unit_dims_succeed : forall (V : Type) G pss s next (t : ptensor V),
  wf V t -> ctx_good G -> ctx_below G next -> tys G (vaxes t) pss -> Forall gprimes pss ->
  nonunit (shape V t) = nonunit s ->
  exists r nx', pt_reshape V 0 s next t = Ok (r, nx').
Proof. exact reshape_unit_dims_succeed. Qed.
Print Assumptions C06_reshape_unit_dims_succeed.

(** a merge target is a typed target, so the two theorems compose: the reshape succeeds and (given [wf] of the
    result) denotes the reshaped tensor *)
Theorem C06_merges_typed_target : forall G shp s, merges shp s -> forall vs pss, map numel vs = shp -> tys G vs pss ->
  Forall gprimes pss -> typed_target pss s.
Proof. exact merges_typed_target. Qed.
Print Assumptions C06_merges_typed_target.

(** * project(paxes, vaxes) on typed pairs: the dense tensor returned, indexed according to [paxes], is [self]
    indexed according to [vaxes].  [u] carries the target pattern ([paxes u], [vaxes u]; its storage is not
    used); [typed_pair]: both well formed and typed alike in one context.  Covers the freshening of a target that
    shares axes with [self], [new_full(default)], the unification (a missed coincidence would leave the
    [new_full] value visible: completeness of [unify] on typed axes), the two low-level [project] calls under
    the unifier with their free-axes check, and the strided [copy_]; any fuel. *)
Require Import Fggs.Model.PTEqual Fggs.Proofs.PTEqual_typed_main Fggs.Proofs.PTensor_project.

Theorem C06_project_refines : forall (V : Type) (t u : ptensor V) G next pss,
  typed_pair V G next pss t u ->
  forall shp st, pt_project V (paxes u) (vaxes u) next t = Ok (shp, st) ->
  shp = map snd (paxes u) /\
  forall c, in_bounds shp c ->
    st (flat_offset shp c) = denote V t (evals (env_of (combine (map fst (paxes u)) c)) (vaxes u)).
Proof. exact project_refines. Qed.
Print Assumptions C06_project_refines.

(** * where(t, c, u)

    Full statement: for well-formed operands whose shapes broadcast, the result denotes [torch.where] of the
    (broadcast) denotations.  Proved: the three operands have ONE typed shape (no broadcasting between them):
    swap on [c.default], freshening of [t], [broadcast()] (the identity), unification of [c]'s pattern with [t]'s
    (completeness: a missed coincidence would make the [masked_fill_] value [t.default] visible where [t] stores
    an element), the fullness test (if the unifier left [c]'s physical axes free and distinct, every element of
    [c] is matched, so skipping [masked_fill_] is sound), anti-unification of [c] with [u], densification of the
    expanded [u], [masked_fill_], the strided [copy_] under the unifier.  Open: broadcasting between the three
    operands (model + correspondence). *)
Require Import Fggs.Proofs.PTensor_where_main.

Theorem C06_where_refines_partial : forall (V : Type) (truth : V -> bool) G next pss,
  ctx_good G -> ctx_below G next -> Forall gprimes pss ->
  forall (t c u r : ptensor V) nx',
  wf V t -> wf V c -> wf V u ->
  tys G (vaxes t) pss -> tys G (vaxes c) pss -> tys G (vaxes u) pss ->
  pt_where V truth next t c u = Ok (r, nx') ->
  wf V r /\ shape V r = shape V c /\
  forall idx, in_bounds (shape V c) idx ->
    denote V r idx = if truth (denote V c idx) then denote V t idx else denote V u idx.
Proof. exact where_refines_partial. Qed.
Print Assumptions C06_where_refines_partial.

(** * __iter__: [dim_to_dense(0)], then the slices along the leading dimension, in order.  The branch for a
    [unitAxis] leading dimension yields ONE tensor that keeps the storage, the physical axes and the default.
    Guard as for [dim_to_dense]: a size-1 leading dimension is [unitAxis]. *)
Require Import Fggs.Proofs.PTensor_iter.

Theorem C06_iter : forall (V : Type) next (t : ptensor V) l ed,
  wf V t -> vars_below V next t -> nth_error (vaxes t) 0 = Some ed ->
  (is_unit ed = true \/ numel ed <> 1) ->
  pt_iter V next t = Ok l ->
  length l = numel ed /\
  forall j s, nth_error l j = Some s ->
    wf V s /\ shape V s = tl (shape V t) /\ default s = default t /\
    forall idx', in_bounds (tl (shape V t)) idx' -> denote V s idx' = denote V t (j :: idx').
Proof. exact iter_refines. Qed.
Print Assumptions C06_iter.

(** * The storage layout of the physical tensor (Model/Storage.v): torch reads a tensor as a strided view
    (offset, strides) of a flat buffer; strides may be 0 ([expand()]), permuted, sliced or overlapping.  The
    tensor-level model takes [physical] as a function of the coordinates, so all theorems above hold for every
    layout; these make the step explicit and record which stride-based shortcut is sound. *)
Require Import Fggs.Model.Storage Fggs.Proofs.Storage_layout.

(** an elementwise map over the storage = the elementwise map of the logical contents, for every layout *)
Theorem C06_storage_map_values : forall (V : Type) (f : V -> V) dv (v : sview V) sizes,
  view_values V (f dv) (view_map V f v) sizes = map f (view_values V dv v sizes).
Proof. exact view_map_values. Qed.
Print Assumptions C06_storage_map_values.

(** the coordinate along a dimension of stride 0 is irrelevant *)
Theorem C06_storage_stride0 : forall (V : Type) dv buf off strides i j, length i = length j ->
  (forall k, nth k strides 0 = 0 \/ nth k i 0 = nth k j 0) ->
  view_read V dv (buf, off, strides) i = view_read V dv (buf, off, strides) j.
Proof. exact view_read_stride0. Qed.
Print Assumptions C06_storage_stride0.

(** two views with the same logical contents give patterned tensors with the same denotation *)
Theorem C06_storage_layout_irrelevant : forall (V : Type) dv1 dv2 (v1 v2 : sview V) ps vs d,
  (forall c, view_read V dv1 v1 c = view_read V dv2 v2 c) ->
  forall idx, denote V (pt_of_view V dv1 v1 ps vs d) idx = denote V (pt_of_view V dv2 v2 ps vs d) idx.
Proof. exact pt_of_view_layout_irrelevant. Qed.
Print Assumptions C06_storage_layout_irrelevant.

(** a unary map (scalar add / mul, abs, ...) of a patterned tensor over a view = the tensor over the mapped storage *)
Theorem C06_storage_pt_map : forall (V : Type) (f : V -> V) fd dv (v : sview V) ps vs d idx,
  denote V (pt_map V f fd (pt_of_view V dv v ps vs d)) idx =
  denote V (pt_of_view V (f dv) (view_map V f v) ps vs fd) idx.
Proof. exact pt_map_of_view. Qed.
Print Assumptions C06_storage_pt_map.

(** "operate on the repeated cell of an expanded constant and expand again" is sound when ALL strides are 0 ... *)
Theorem C06_map_expanded_all_zero : forall (V : Type) (f : V -> V) dv (v : sview V) idx,
  view_read V (f dv) (map_expanded V all_zero f dv v) idx = f (view_read V dv v idx).
Proof. exact map_expanded_all_zero. Qed.
Print Assumptions C06_map_expanded_all_zero.

(** ... and not when it fires as soon as SOME stride is 0 (a partially expanded view) *)
Theorem C06_map_expanded_some_zero_refuted :
  exists (f : nat -> nat) dv (v : sview nat) idx,
    view_in_range 2 0 [0; 1] [2; 2] = true /\ v = ([1; 2], 0, [0; 1]) /\
    view_read nat (f dv) (map_expanded nat some_zero f dv v) idx <> f (view_read nat dv v idx).
Proof. exact map_expanded_some_zero_refuted. Qed.
Print Assumptions C06_map_expanded_some_zero_refuted.
