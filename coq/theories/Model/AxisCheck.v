(** Check functions (model side of the correspondence) for the axis algebra, and the
    executable specifications (brute-force oracles) they use.  Each check function takes one
    tuple holding the input and the implementation's observed output and returns a verdict:
    0 = oracle accepts and implementation = model; 1..9 = a specification oracle rejects the
    implementation's output; 10.. = implementation and model differ. *)
From Coq Require Import List Arith Lia PeanoNat Bool PArith.
Import ListNotations.
Require Import Fggs.Model.Axis.

Fixpoint list_eqb {A} (eqb : A -> A -> bool) (l l' : list A) : bool :=
  match l, l' with
  | [], [] => true
  | x :: l, y :: l' => eqb x y && list_eqb eqb l l'
  | _, _ => false
  end.
Definition pn_eqb (a b : pn) : bool := Pos.eqb (fst a) (fst b) && Nat.eqb (snd a) (snd b).
Definition memb {A} (eqb : A -> A -> bool) (x : A) (l : list A) : bool := existsb (eqb x) l.
Definition subset {A} (eqb : A -> A -> bool) (l l' : list A) : bool := forallb (fun x => memb eqb x l') l.
Definition seteq {A} (eqb : A -> A -> bool) (l l' : list A) : bool := subset eqb l l' && subset eqb l' l.
Definition nat_list_eqb := list_eqb Nat.eqb.

(** the same physical axis always has the same size *)
Fixpoint sizes_consistent (l : list pn) : bool :=
  match l with
  | [] => true
  | (k, n) :: l => forallb (fun kn => negb (Pos.eqb (fst kn) k) || Nat.eqb (snd kn) n) l && sizes_consistent l
  end.

Definition big_fuel (es : list axis) : nat := 4 * asize_list es + 8.

(** * numel / stride / fv / prime_factors *)
Definition stride_ok (e : axis) (o : nat) (s : lin) : bool :=
  forallb (fun pi => Nat.eqb (eval (env_of pi) e) (o + lin_eval (env_of pi) s)) (all_envs (fvn_list [e])).

Definition axis_basic_check (x : axis * nat * (nat * list pn) * list pn * list axis) : nat :=
  let '(e, i_numel, (i_o, i_s), i_fv, i_pf) := x in
  if negb (Nat.eqb i_numel (numel e)) then 1
  else if negb (stride_ok e i_o i_s) then 2
  else if negb (seteq pn_eqb i_fv (fvn_list [e])) then 3
  else
    match stride (S (asize e)) [] e, fv_list (S (asize e)) [] [e], prime_factors (S (asize e)) [] e with
    | Ok (o, s), Ok f, Ok pf =>
        if negb (Nat.eqb o i_o && list_eqb pn_eqb s i_s) then 10
        else if negb (list_eqb pn_eqb f i_fv) then 11
        else if negb (list_eqb axis_eqb pf i_pf) then 12
        else 0
    | _, _, _ => 13
    end.

(** impl result: tag 0 = occupied with these bindings, 1 = unoccupied, 2 = IndexError *)
Definition index_case_ok (es : list axis) (c : list nat * (nat * list pn)) : nat :=
  let '(vs, (tag, pi)) := c in
  let inb := forallb (fun ev => snd ev <? numel (fst ev)) (combine es vs) in
  let oracle :=
    if negb inb then 0       (* out of range: only compared with the model *)
    else match tag with
    | 0 => if nat_list_eqb (evals (env_of pi) es) vs
              && forallb (inrangeb (env_of pi)) es
              && seteq Pos.eqb (map fst pi) (map fst (fvn_list es)) then 0 else 1
    | 1 => if existsb (fun rho => nat_list_eqb (evals (env_of rho) es) vs) (all_envs (fvn_list es)) then 2 else 0
    | _ => 3                 (* an exception although the index is in range *)
    end in
  if negb (Nat.eqb oracle 0) then oracle
  else match index_list es [] vs, tag with
       | IOk pi', 0 => if list_eqb pn_eqb pi pi' then 0 else 10
       | IEmpty, 1 => 0
       | IErr, 2 => 0
       | _, _ => 11
       end.

Definition first_nonzero (l : list nat) : nat :=
  fold_left (fun acc c => if Nat.eqb acc 0 then c else acc) l 0.

Definition axis_index_check (x : list axis * list (list nat * (nat * list pn))) : nat :=
  let '(es, cases) := x in first_nonzero (map (index_case_ok es) cases).

(** * evaluation through a substitution (used to compute what a unifier denotes) *)
Fixpoint eval_s (fuel : nat) (sigma : subst) (rho : env) (e : axis) : option nat :=
  match fuel with O => None | S fuel =>
    match e with
    | Phys k _ => match assoc k sigma with Some e' => eval_s fuel sigma rho e' | None => Some (rho k) end
    | Prod l => fold_left (fun acc x => match acc, eval_s fuel sigma rho x with
                                        | Some a, Some v => Some (a * numel x + v)
                                        | _, _ => None end) l (Some 0)
    | Sum b t _ => match eval_s fuel sigma rho t with Some v => Some (b + v) | None => None end
    end
  end.

Fixpoint sequence {A} (l : list (option A)) : option (list A) :=
  match l with
  | [] => Some []
  | None :: _ => None
  | Some x :: l => match sequence l with Some r => Some (x :: r) | None => None end
  end.

(** all tuples of values of [vars] allowed by [sigma]: enumerate the unbound variables *)
Definition denotation (fuel : nat) (sigma : subst) (vars : list pn) : option (list (list nat)) :=
  let allv := dedup [] (vars ++ flat_map (fun ke => fvn (snd ke)) sigma) in
  let unbound := filter (fun kn => match assoc (fst kn) sigma with None => true | Some _ => false end) allv in
  sequence (map (fun pi => sequence (map (fun kn => eval_s fuel sigma (env_of pi) (Phys (fst kn) (snd kn))) vars))
                (all_envs unbound)).

(** specification: the coincidence set of two patterns *)
Definition coincidences (es fs : list axis) (vars : list pn) : list (list nat) :=
  map (fun pi => map (fun kn => env_of pi (fst kn)) vars)
      (filter (fun pi => nat_list_eqb (evals (env_of pi) es) (evals (env_of pi) fs)) (all_envs vars)).

(** Fuel for [unify_list] (an artefact of the model: the Python code has no fuel).

    The former formula [unify_fuel_old] -- linear in the number of nodes of the two patterns -- does
    NOT suffice on all typed patterns: for [a.X = X.a'] ([X] a physical axis of size [2^w] shared by
    the two patterns, [a], [a'] of size 2) the unifier discovers [X = a^w] one factor at a time and
    the recursion is [3 w + 1] deep, while the patterns have 6 nodes whatever [w]
    ([unify_fuel_old_refuted], Proofs/Axis_fuel_suffices.v; notes/UNIFY.md).  The depth is governed by
    the number of primes of the index type, which the sizes bound ([log2]), and by the number of
    sum types crossed, which the [Sum] nodes bound:

      3 * ((number of Sum nodes of both patterns + 1) * (log2 (largest dimension) + 1))

    suffices for every typed pair ([unify_model_fuel_total], same file).  The old term is kept as a
    summand so that the fuel only grows (more fuel never changes an answer, [unify_list_mono]) --
    in particular on the untyped (malformed) stream of the checks. *)
Fixpoint nsum (e : axis) : nat :=
  match e with
  | Phys _ _ => 0
  | Prod l => fold_right (fun e acc => nsum e + acc) 0 l
  | Sum _ t _ => S (nsum t)
  end.
Definition nsum_list (l : list axis) : nat := fold_right (fun e acc => nsum e + acc) 0 l.
Definition maxnumel (l : list axis) : nat := fold_right (fun e acc => Nat.max (numel e) acc) 0 l.

Definition unify_fuel_old (es fs : list axis) : nat := 6 * (asize_list es + asize_list fs) + 10.
Definition unify_fuel (es fs : list axis) : nat :=
  unify_fuel_old es fs + 3 * ((nsum_list es + nsum_list fs + 1) * (Nat.log2 (maxnumel (es ++ fs)) + 1)).

(** (es, fs, next uid, typed?, impl: success, warned, denoted tuples over [vars]) *)
Definition axis_unify_check
  (x : list axis * list axis * positive * bool * (bool * bool * list (list nat))) : nat :=
  let '(es, fs, next, typed, (i_ok, i_warn, i_den)) := x in
  let vars := fvn_list (es ++ fs) in
  let spec := coincidences es fs vars in
  let oracle :=
    if negb typed then 0      (* malformed stream: only agreement with the model is required *)
    else if i_ok then (if seteq nat_list_eqb i_den spec then 0 else 1)
    else if typed && nonempty spec then 2
    else if typed && i_warn then 3
    else 0 in
  if negb (Nat.eqb oracle 0) then oracle
  else
    let fuel := unify_fuel es fs in
    match unify_list fuel es fs {| us_subst := []; us_next := next; us_warn := false |} with
    | Ok (ok, st) =>
        if negb (Bool.eqb ok i_ok) then 10
        else if negb (Bool.eqb (us_warn st) i_warn) then 11
        else if negb ok then 0
        else match denotation (fuel + length (us_subst st) + 2) (us_subst st) vars with
             | Some d => if seteq nat_list_eqb d i_den then 0 else 12
             | None => 13
             end
    | Fail _ => 14
    end.

(** * antiunify *)
Definition aentry_eqb (a b : aentry) : bool :=
  let '(k, n, e, f) := a in let '(k', n', e', f') := b in
  Pos.eqb k k' && Nat.eqb n n' && axis_eqb e e' && axis_eqb f f'.

(** bindings of the new variables by one side, dropping the trivial [k |-> k] of [expansion] *)
Definition side_subst (first : bool) (l : list aentry) : subst :=
  flat_map (fun en => let '(k, _, e, f) := en in
                      let t := if first then e else f in
                      match t with Phys k' _ => if Pos.eqb k k' then [] else [(k, t)] | _ => [(k, t)] end) l.

Definition generalises_b (first : bool) (gs es : list axis) (entries : list aentry) : bool :=
  let sigma := side_subst first entries in
  let vars := filter (fun kn => match assoc (fst kn) sigma with None => true | Some _ => false end)
                     (fvn_list (es ++ gs)) in
  list_eqb Nat.eqb (map numel gs) (map numel es) &&
  forallb (fun pi =>
             list_eqb (fun a b => match a, b with Some v, Some w => Nat.eqb v w | _, _ => false end)
                      (map (eval_s (asize_list gs + asize_list es + length entries + 4) sigma (env_of pi)) gs)
                      (map Some (evals (env_of pi) es)))
          (all_envs vars).

Definition axis_antiunify_check
  (x : list axis * list axis * positive * (list axis * list aentry * bool)) : nat :=
  let '(es, fs, next, (i_gs, i_entries, i_warn)) := x in
  if negb (generalises_b true i_gs es i_entries) then 1
  else if negb (generalises_b false i_gs fs i_entries) then 2
  else
    match antiunify_list (big_fuel (es ++ fs)) es fs {| as_list := []; as_next := next; as_warn := false |} with
    | Ok (gs, st) =>
        if negb (list_eqb axis_eqb gs i_gs) then 10
        else if negb (list_eqb aentry_eqb (as_list st) i_entries) then 11
        else if negb (Bool.eqb (as_warn st) i_warn) then 12
        else 0
    | Fail _ => 13
    end.

(** * freshen / alpha / clone / productAxis *)
Definition rename_fresh (next : positive) (r : rename) : bool :=
  (* new names are distinct and not below [next] *)
  let news := map (fun x => fst (snd x)) r in
  forallb (fun k => negb (Pos.ltb k next)) news &&
  (fix nodup (l : list positive) : bool :=
     match l with [] => true | k :: l => negb (existsb (Pos.eqb k) l) && nodup l end) news.

(** (es, next, impl: freshened es, rename in dict order) *)
Definition axis_freshen_check (x : list axis * positive * (list axis * list (positive * pn))) : nat :=
  let '(es, next, (i_es, i_rename)) := x in
  if negb (list_eqb (fun e f => alpha e f i_rename) es i_es && rename_fresh next i_rename
           && list_eqb Nat.eqb (map numel es) (map numel i_es)) then 1
  else
    let '(m_es, st) := freshen_list es {| fs_rename := []; fs_next := next |} in
    if negb (list_eqb axis_eqb m_es i_es) then 10
    else if negb (list_eqb (fun a b => Pos.eqb (fst a) (fst b) && pn_eqb (snd a) (snd b)) (fs_rename st) i_rename) then 11
    else 0.

(** (e, f, rename, impl verdict of e.alpha(f, rename)) *)
Definition axis_alpha_check (x : axis * axis * list (positive * pn) * bool) : nat :=
  let '(e, f, r, i_b) := x in if Bool.eqb (alpha e f r) i_b then 0 else 10.

(** (e, subst, impl e.clone(subst)) -- oracle: the clone evaluates like [e] under the substitution *)
Definition axis_clone_check (x : axis * list (positive * axis) * axis) : nat :=
  let '(e, sigma, i_c) := x in
  let fuel := asize e + asize_list (map snd sigma) + length sigma + 4 in
  let vars := filter (fun kn => match assoc (fst kn) sigma with None => true | Some _ => false end)
                     (fvn_list (e :: i_c :: map snd sigma)) in
  if negb (forallb (fun pi => match eval_s fuel sigma (env_of pi) e with
                              | Some v => Nat.eqb v (eval (env_of pi) i_c)
                              | None => false end) (all_envs vars)) then 1
  else match clone fuel sigma e with
       | Ok c => if axis_eqb c i_c then 0 else 10
       | Fail _ => 13
       end.

(** (factors, impl productAxis(factors)) *)
Definition axis_product_check (x : list axis * axis) : nat :=
  let '(fs, i_p) := x in
  if negb (Nat.eqb (numel i_p) (prodn fs)
           && forallb (fun pi => Nat.eqb (eval (env_of pi) i_p) (eval (env_of pi) (Prod fs))) (all_envs (fvn_list fs)))
  then 1
  else if axis_eqb (productAxis fs) i_p then 0 else 10.

(** * typing (run by the harness on every generated "typed" input) *)
Fixpoint ity_of_code (fuel : nat) (c : list nat) : option (ity * list nat) :=
  (* prefix code: 0 n = atom n; 1 m t1..tm = product; 2 m t1..tm = sum *)
  match fuel with O => None | S fuel =>
    match c with
    | 0 :: n :: c => Some (TAtom n, c)
    | tag :: m :: c =>
        let fix many (m : nat) (c : list nat) : option (list ity * list nat) :=
          match m with
          | O => Some ([], c)
          | S m => match ity_of_code fuel c with
                   | Some (t, c) => match many m c with Some (ts, c) => Some (t :: ts, c) | None => None end
                   | None => None
                   end
          end in
        match many m c with
        | Some (ts, c) => if Nat.eqb tag 1 then Some (TProd ts, c) else if Nat.eqb tag 2 then Some (TSum ts, c) else None
        | None => None
        end
    | _ => None
    end
  end.

(** (axes, type codes): 0 iff every axis has its type and sizes are consistent *)
Definition axis_typed_check (x : list axis * list (list nat)) : nat :=
  let '(es, codes) := x in
  if negb (Nat.eqb (length es) (length codes)) then 3
  else if negb (sizes_consistent (flat_map fvn es)) then 2
  else if forallb (fun ec => match ity_of_code (S (length (snd ec))) (snd ec) with
                             | Some (t, []) => has_type (fst ec) t
                             | _ => false end) (combine es codes) then 0 else 1.

(** * the representation invariant of PatternedTensor *)
Fixpoint nodup_pos (l : list positive) : bool :=
  match l with [] => true | k :: l => negb (existsb (Pos.eqb k) l) && nodup_pos l end.

(** sizes agree, paxes distinct and equal to the free axes of vaxes, no size-1 physical axis *)
Definition repr_inv_b (psize : list nat) (paxes : list pn) (vaxes : list axis) : bool :=
  list_eqb Nat.eqb psize (map snd paxes)
  && nodup_pos (map fst paxes)
  && seteq pn_eqb paxes (fvn_list vaxes)
  && sizes_consistent (paxes ++ flat_map fvn vaxes)
  && forallb (fun kn => negb (Nat.eqb (snd kn) 1)) paxes.

(** brute-force injectivity of the index map (what [repr_inv_b] guarantees by theorem
    [C06_at_most_one_backing]; evaluated as well when the tensor is small) *)
Fixpoint nodup_tuples (l : list (list nat)) : bool :=
  match l with [] => true | x :: l => negb (memb nat_list_eqb x l) && nodup_tuples l end.
Definition injective_b (paxes : list pn) (vaxes : list axis) : bool :=
  nodup_tuples (map (fun pi => evals (env_of pi) vaxes) (all_envs paxes)).

Definition repr_inv_check (x : list nat * list pn * list axis) : nat :=
  let '(psize, paxes, vaxes) := x in
  if negb (repr_inv_b psize paxes vaxes) then 1
  else if (fold_right Nat.mul 1 (map snd paxes) <=? 64) && negb (injective_b paxes vaxes) then 2
  else 0.
