(** Check function for the tensor operations that have a Coq model (Model/PTensor.v), over the
    concrete carrier [xval].  Input: operation code, integer arguments, scalar arguments, operand
    tensors, and the implementation's result (dense); verdict: 0 = the result equals both the
    dense specification applied to the operands' denotations and the model's result;
    1..9 = the specification rejects the implementation's result; 10.. = model and implementation
    differ. *)
From Coq Require Import List Arith Lia PeanoNat Bool PArith QArith Qcanon.
Import ListNotations.
Require Import Fggs.Model.Axis Fggs.Model.AxisCheck Fggs.Model.XVal Fggs.Model.PTensor.
Local Open Scope nat_scope.

Definition wx := (nat * Q)%type.
Definition wtensor := (list pn * list axis * wx * list wx)%type.
Definition wresult := (nat * list nat * list wx)%type.     (* tag 0 value / 1 ZeroDivisionError / 2 other *)
Definition pt := ptensor xval.

Definition of_wire (w : wtensor) : pt :=
  let '(ps, vs, d, flat) := w in
  let vals := map xval_of flat in
  mkPT (fun idx => nth (flat_offset (map snd ps) idx) vals (xval_of d)) ps vs (xval_of d).

Definition wire_ok (w : wtensor) : bool :=
  let '(ps, vs, d, flat) := w in
  Nat.eqb (length flat) (fold_right Nat.mul 1 (map snd ps)) && repr_inv_b (map snd ps) ps vs.

Fixpoint all_idx (shp : list nat) : list (list nat) :=
  match shp with
  | [] => [[]]
  | n :: shp => flat_map (fun i => map (cons i) (all_idx shp)) (seq 0 n)
  end.

(** the denotation by definition (brute force): the unique in-range environment that evaluates
    to the index, if any *)
Definition dspec (t : pt) (idx : list nat) : xval :=
  match find (fun pi => list_eqb Nat.eqb (evals (env_of pi) (vaxes t)) idx) (all_envs (paxes t)) with
  | Some pi => pget xval t (env_of pi)
  | None => default t
  end.

(** tolerant comparison (division only): relative error 1e-12 *)
Definition qcabs (q : Qc) : Qc := match Qccompare q 0%Qc with Lt => Qcopp q | _ => q end.
Definition xclose (tol : bool) (a b : xval) : bool :=
  xeqb a b ||
  (tol && match a, b with
          | XF p, XF q => Qle_bool (this (Qcmult (qcabs (Qcminus p q)) (Q2Qc (Qmake 1000000000000 1)))) (this (qcabs q))
          | _, _ => false
          end).

(** Python's [max(a, b)] / [min(a, b)]: [a] unless [b] compares greater / smaller *)
Definition py_max (a b : xval) : xval := if xltb a b then b else a.
Definition py_min (a b : xval) : xval := if xltb b a then b else a.

(** * dense specifications *)
Inductive outcome := OVal (shp : list nat) (f : list nat -> xval) | OZeroDiv | OBad.

Fixpoint index_of (j : nat) (l : list nat) : nat :=
  match l with [] => 0 | x :: l => if Nat.eqb x j then 0 else S (index_of j l) end.

Fixpoint bshape_rev (a b : list nat) : option (list nat) :=
  match a, b with
  | [], l | l, [] => Some l
  | x :: a', y :: b' =>
      match bshape_rev a' b' with
      | Some r => if Nat.eqb x y then Some (x :: r) else if Nat.eqb x 1 then Some (y :: r)
                  else if Nat.eqb y 1 then Some (x :: r) else None
      | None => None
      end
  end.
Definition bshape (a b : list nat) : option (list nat) :=
  match bshape_rev (rev a) (rev b) with Some r => Some (rev r) | None => None end.
Definition bidx (shp idx : list nat) : list nat :=
  map (fun ni => if Nat.eqb (fst ni) 1 then 0 else snd ni) (combine shp (skipn (length idx - length shp) idx)).

Definition unary_fn (op : nat) (sc : list xval) : option (xval -> xval) :=
  let s := nth 0 sc XNaN in
  match op with
  | 10 => Some xabs
  | 11 => Some xneg
  | 12 => Some xrelu
  | 13 => Some (fun x => xmax x s)
  | 14 => Some (fun x => xmin x s)
  | 15 => Some (fun x => xadd x s)
  | 16 => Some (fun x => xsub x s)
  | 17 => Some (fun x => xmul x s)
  | 18 => Some (fun x => xdiv x s)
  | 19 => Some (fun x => xbool (xltb x s))
  | 20 => Some (fun x => xbool (xleb x s))
  | 21 => Some (fun x => xbool (xltb s x))
  | 22 => Some (fun x => xbool (xleb s x))
  | 23 => Some (fun x => xbool (xeq_num x s))
  | _ => None
  end.

Definition binary_fn (op : nat) : option (xval -> xval -> xval) :=
  match op with
  | 30 => Some xadd | 31 => Some xsub | 32 => Some xmul | 33 => Some xdiv | 34 => Some xmax
  | 35 => Some (fun a b => xbool (xltb a b)) | 36 => Some (fun a b => xbool (xleb a b))
  | 37 => Some (fun a b => xbool (xltb b a)) | 38 => Some (fun a b => xbool (xleb b a))
  | 39 => Some (fun a b => xbool (xeq_num a b))
  | 40 => Some xor_ | 41 => Some xand_
  | _ => None
  end.

Definition opt_of_flag (flag : nat) (v : xval) : option xval := if Nat.eqb flag 0 then None else Some v.

Definition swap_dims {A} (a b : nat) (l : list A) : list A :=
  firstn a l ++ firstn 1 (skipn b l) ++ firstn (b - a - 1) (skipn (a + 1) l) ++ firstn 1 (skipn a l) ++ skipn (b + 1) l.

Definition spec_op (op : nat) (na : list nat) (sc : list xval) (ts : list pt) : outcome :=
  match ts with
  | [] => OBad
  | t :: rest =>
      let shp := shape xval t in
      let D := dspec t in
      match op with
      | 0 | 8 | 9 => OVal shp D
      | 1 => match select na shp with
             | Some shp' => if is_perm na (length shp)
                            then OVal shp' (fun idx' => D (map (fun j => nth (index_of j na) idx' 0) (seq 0 (length shp))))
                            else OBad
             | None => OBad
             end
      | 2 => let d0 := nth 0 na 0 in let d1 := nth 1 na 0 in
             if Nat.eqb d0 d1 then OVal shp D
             else let a := Nat.min d0 d1 in let b := Nat.max d0 d1 in
                  if b <? length shp then OVal (swap_dims a b shp) (fun idx' => D (swap_dims a b idx')) else OBad
      | 3 => OVal (rev shp) (fun idx' => D (rev idx'))
      | 4 => OVal [fold_right Nat.mul 1 shp]
                  (fun idx' => match idx' with
                               | [i] => D ((fix unflat (shp : list nat) (i : nat) : list nat :=
                                              match shp with
                                              | [] => []
                                              | _ :: shp' => let p := fold_right Nat.mul 1 shp' in (i / p) :: unflat shp' (i mod p)
                                              end) shp i)
                               | _ => XNaN end)
      | 5 => let d := nth 0 na 0 in
             OVal (firstn d shp ++ [1] ++ skipn d shp) (fun idx' => D (firstn d idx' ++ skipn (S d) idx'))
      | 6 => if (length shp <=? length na) &&
                forallb (fun sn => Nat.eqb (fst sn) (snd sn) || Nat.eqb (fst sn) 1) (combine (rev shp) (rev na))
             then OVal na (fun idx' => D (bidx shp idx')) else OBad
      | 7 => if (length na <=? length shp) && forallb (fun vn => fst vn <? snd vn) (combine na shp)
             then OVal (skipn (length na) shp) (fun idx' => D (na ++ idx')) else OBad
      | 24 => let f := xnan_to_num (nth 0 sc XNaN) (opt_of_flag (nth 0 na 0) (nth 1 sc XNaN)) (opt_of_flag (nth 1 na 0) (nth 2 sc XNaN)) in
              OVal shp (fun idx => f (D idx))
      | _ =>
          match unary_fn op sc with
          | Some f => OVal shp (fun idx => f (D idx))
          | None =>
              match binary_fn op, rest with
              | Some f, u :: _ =>
                  match bshape shp (shape xval u) with
                  | Some shp' => OVal shp' (fun idx => f (D (bidx shp idx)) (dspec u (bidx (shape xval u) idx)))
                  | None => OBad
                  end
              | _, _ => OBad
              end
          end
      end
  end.

(** * the model *)
Definition lift {A} (o : option A) : res A := match o with Some a => Ok a | None => Fail OtherError end.

Definition is0 (x : xval) : bool := xeqb x (XF 0).

Definition model_op (op : nat) (na : list nat) (sc : list xval) (ts : list pt) (next : positive) : res pt :=
  match ts with
  | [] => Fail OtherError
  | t :: rest =>
      let s := nth 0 sc XNaN in
      let d := default t in
      match op with
      | 0 => Ok t
      | 1 => lift (pt_permute xval na t)
      | 2 => lift (pt_transpose xval (nth 0 na 0) (nth 1 na 0) t)
      | 3 => Ok (pt_T xval t)
      | 4 => Ok (pt_flatten xval t)
      | 5 => Ok (pt_unsqueeze xval (nth 0 na 0) t)
      | 6 => r <- lift (pt_expand xval na next t) ;; post_init xval (fst r)
      | 7 => r <- pt_getitem xval na next t ;; post_init xval (fst r)
      | 8 => Ok (fst (pt_default_to xval (fun a b => xeqb a b) s next t))
      | 9 => Ok (fst (pt_freshen xval next t))
      | 10 => Ok (pt_map xval xabs (xabs d) t)
      | 11 => Ok (pt_map xval xneg (xneg d) t)
      | 12 => Ok (pt_map xval xrelu (xrelu d) t)           (* new_tensor(default).relu().item() *)
      | 13 => Ok (pt_map xval (fun x => xmax x s) (py_max d s) t)
      | 14 => Ok (pt_map xval (fun x => xmin x s) (py_min d s) t)
      | 15 => Ok (pt_map xval (fun x => xadd x s) (xadd d s) t)
      | 16 => Ok (pt_map xval (fun x => xsub x s) (xsub d s) t)
      | 17 => Ok (pt_map xval (fun x => xmul x s) (xmul d s) t)
      | 18 => Ok (pt_map xval (fun x => xdiv x s) (xdiv d s) t)     (* new_tensor(default).div(other).item() *)
      | 19 => Ok (pt_map xval (fun x => xbool (xltb x s)) (xbool (xltb d s)) t)
      | 20 => Ok (pt_map xval (fun x => xbool (xleb x s)) (xbool (xleb d s)) t)
      | 21 => Ok (pt_map xval (fun x => xbool (xltb s x)) (xbool (xltb s d)) t)
      | 22 => Ok (pt_map xval (fun x => xbool (xleb s x)) (xbool (xleb s d)) t)
      | 23 => Ok (pt_map xval (fun x => xbool (xeq_num x s)) (xbool (xeq_num d s)) t)
      | 24 => let po := opt_of_flag (nth 0 na 0) (nth 1 sc XNaN) in
              let no := opt_of_flag (nth 1 na 0) (nth 2 sc XNaN) in
              Ok (pt_map xval (xnan_to_num s po no) (xnan_to_num s po no d) t)
      | _ =>
          match rest with
          | [] => Fail OtherError
          | u :: _ =>
              let du := default u in
              let eqb := fun a b => xeqb a b in
              r <- match op with
                   | 30 => pt_commutative xval eqb xadd (XF 0) (xadd d du) next t u
                   | 31 => pt_sub_like xval eqb xsub xneg xadd (XF 0) (xsub d du) next t u
                   | 32 => pt_commutative xval eqb xmul (XF 1) (xmul d du) next t u
                   | 33 => pt_sub_like xval eqb xdiv (fun x => xdiv (XF 1) x) xmul (XF 1) (xdiv d du) next t u
                   | 34 => pt_commutative xval eqb xmax XNInf (xmax d du) next t u     (* torch.maximum of the defaults *)
                   | 35 => pt_binary xval (fun a b => xbool (xltb a b)) (xbool (xltb d du)) next t u
                   | 36 => pt_binary xval (fun a b => xbool (xleb a b)) (xbool (xleb d du)) next t u
                   | 37 => pt_binary xval (fun a b => xbool (xltb b a)) (xbool (xltb du d)) next t u
                   | 38 => pt_binary xval (fun a b => xbool (xleb b a)) (xbool (xleb du d)) next t u
                   | 39 => pt_binary xval (fun a b => xbool (xeq_num a b)) (xbool (xeq_num d du)) next t u
                   | 40 => pt_commutative xval eqb xor_ (XF 0) (xor_ d du) next t u
                   | 41 => pt_commutative xval eqb xand_ (XF 1) (xand_ d du) next t u
                   | _ => Fail OtherError
                   end ;;
              post_init xval (fst r)
          end
      end
  end.

Definition max_uid (ts : list wtensor) : positive :=
  fold_left (fun m w => let '(ps, vs, _, _) := w in
                        fold_left (fun m kn => Pos.max m (fst kn)) (ps ++ flat_map fvn vs) m) ts 1%positive.

(** the model's result, densified by the strided writes of [to_dense] *)
Definition model_dense (r : pt) : option (list xval) :=
  match to_dense_store xval r with
  | Ok st => Some (map (fun idx => st (flat_offset (shape xval r) idx)) (all_idx (shape xval r)))
  | Fail _ => None
  end.

Definition tol_op (op : nat) : bool := Nat.eqb op 18 || Nat.eqb op 33.

Definition pt_check (x : nat * list nat * list wx * list wtensor * wresult) : nat :=
  let '(op, na, sc, wts, (tag, i_shp, i_flat)) := x in
  if negb (forallb wire_ok wts) then 20
  else
    let ts := map of_wire wts in
    let scv := map xval_of sc in
    let i_vals := map xval_of i_flat in
    let oracle :=
      match spec_op op na scv ts with
      | OBad => 0                       (* outside the specified domain: only compared with the model *)
      | OZeroDiv => 0
      | OVal shp f =>
          match tag with
          | 0 => if negb (list_eqb Nat.eqb shp i_shp) then 1
                 else if list_eqb (xclose (tol_op op)) (map f (all_idx shp)) i_vals then 0 else 2
          | 1 => 3                      (* ZeroDivisionError where the dense operation is defined *)
          | _ => 4
          end
      end in
    if negb (Nat.eqb oracle 0) then oracle
    else
      match model_op op na scv ts (Pos.succ (max_uid wts)), tag with
      | Ok r, 0 =>
          if negb (list_eqb Nat.eqb (shape xval r) i_shp) then 10
          else match model_dense r with
               | Some vals => if list_eqb (xclose (tol_op op)) vals i_vals then 0 else 11
               | None => 12
               end
      | Fail ZeroDivisionError, 1 => 0
      | Fail _, 0 => 13
      | Ok _, _ => 14
      | Fail _, _ => 0
      end.
