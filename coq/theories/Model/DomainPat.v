(** C20 -- FiniteFactor whose weights are a PatternedTensor given by its REPRESENTATION
    (physical tensor, paxes, vaxes, default), not by a dense tensor.

    [Model.Domain] takes a patterned weight as the dense tensor it denotes; the harness used to
    obtain that dense tensor from the library ([to_dense()]).  Here the dense denotation is
    computed inside Coq from the observed representation, with the model of [Axis.index] that
    C06 proves correct: the element at a virtual position is the stored element if every
    vaxis decodes the position ([IOk]), and the tensor's [default] if some vaxis says the position
    is off the pattern ([IEmpty]: off the diagonal, in the padding of a SumAxis, ...).
    [FiniteFactor.apply] is then judged by [Domain.fac_check] against that denotation -- at
    stored and unstored positions alike. *)
From Coq Require Import List Arith ZArith QArith Bool PArith Lia.
Import ListNotations.
Require Import Fggs.Model.Axis Fggs.Model.Domain.
Local Open Scope nat_scope.

(** (paxes with their sizes, physical data row-major over the paxes, vaxes, default) *)
Definition pattern := (list (positive * nat) * list Q * list axis * Q)%type.
Definition pat_vaxes (p : pattern) : list axis := let '(_, _, vs, _) := p in vs.
Definition pat_default (p : pattern) : Q := let '(_, _, _, d) := p in d.
Definition pat_shape (p : pattern) : list nat := map Axis.numel (pat_vaxes p).

(** row-major offset into the physical data of the coordinates that [pi] gives to the paxes *)
Fixpoint phys_offset (ps : list (positive * nat)) (pi : list (positive * nat)) (acc : nat) : option nat :=
  match ps with
  | [] => Some acc
  | (k, n) :: ps' =>
    match Axis.assoc k pi with
    | Some i => if i <? n then phys_offset ps' pi (acc * n + i) else None
    | None => None
    end
  end.

(** the element the patterned tensor denotes at a complete virtual index *)
Definition pat_at (p : pattern) (idx : list nat) : option Q :=
  let '(ps, data, vs, d) := p in
  match Axis.index_list vs [] idx with
  | IOk pi => match phys_offset ps pi 0 with Some off => nth_error data off | None => None end
  | IEmpty => Some d
  | IErr => None
  end.

(** every index tuple of a shape, in row-major order *)
Fixpoint all_idx (sh : list nat) : list (list nat) :=
  match sh with
  | [] => [[]]
  | n :: sh' => flat_map (fun i => map (cons i) (all_idx sh')) (seq 0 n)
  end.

Fixpoint mapO {A B} (f : A -> option B) (l : list A) : option (list B) :=
  match l with
  | [] => Some []
  | a :: l' => match f a, mapO f l' with Some b, Some bs => Some (b :: bs) | _, _ => None end
  end.

(** the dense tensor denoted by the representation ([None]: ill-formed representation) *)
Definition pat_dense (p : pattern) : option tensor :=
  match mapO (pat_at p) (all_idx (pat_shape p)) with
  | Some data => Some (pat_shape p, data)
  | None => None
  end.

Definition pn_eqb (a b : positive * nat) : bool := Pos.eqb (fst a) (fst b) && Nat.eqb (snd a) (snd b).
Definition pat_eqb (p q : pattern) : bool :=
  let '(ps, data, vs, d) := p in
  let '(ps', data', vs', d') := q in
  list_eqb pn_eqb ps ps' && list_eqb q_eqb data data' && list_eqb axis_eqb vs vs' && q_eqb d d'.

(** One case: the domains, the representation of the weights as observed BEFORE the factor was
    built (or re-assigned, or updated in place), the representation observed AFTER all the
    applies and comparisons, and the implementation's answers as in [Domain.fac_case].
    Verdicts: those of [Domain.fac_check] with the dense denotation computed here (0 ok; 1 a verified
    oracle rejects; 10/11 differs from the model); 2 the representation is ill-formed; 12 apply / ==
    changed the representation of the weights. *)
Definition facp_case :=
  (list domain * pattern * pattern * result factor * list (list value * result tensor) * list (factor * bool))%type.

Definition facp_check (x : facp_case) : nat :=
  let '(doms, p, p_after, ictor, iapps, ieqs) := x in
  match pat_dense p with
  | None => 2
  | Some (sh, data) =>
    let c := fac_check (CFiniteF doms (WPatterned sh data), ictor, iapps, ieqs) in
    if negb (Nat.eqb c 0) then c
    else if pat_eqb p p_after then 0 else 12
  end.
