(** String literals for the generated case files of the harness: [sl "abc"] is the list of code
    points [[97; 98; 99]].  (Only used to keep the in-kernel re-evaluation files small; the models
    themselves never mention [string].) *)
From Coq Require Export String.
From Coq Require Import Ascii List.
Definition sl (s : string) : list nat := List.map nat_of_ascii (list_ascii_of_string s).
