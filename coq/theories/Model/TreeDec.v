(** Model of fggs/factorize.py (graph helpers, [min_fill], [minor_min_width], [quickbb],
    [connected_components], [acb], [acb_connected], [tree_decomposition_from_order],
    [tree_decomposition]) and the executable specification used as oracle
    ([td_ok], [width], [elim_width], [tw_perm]).  Definitions only; proofs are in
    Proofs/TreeDec_*.v.

    Conventions (see AGENT_GUIDE.md):
    - a Python [dict[node, set[node]]] is an association list in *insertion order*
      ([graph]); [min(graph, key=...)] and [for v in graph] follow that order
      (ties: first).
    - a Python [set]/[frozenset] of nodes is a list; where the code *iterates* a set
      (or takes [min] over one, or [pop]s one) the model uses ASCENDING order of the
      node numbers: every set the model builds is kept sorted ([ins]) provided the
      adjacency lists of the input are sorted, which the harness guarantees.  (For
      CPython this is the actual iteration order of a set of ints < 8; the harness
      numbers the vertices 0..n-1.)  The theorems about validity hold for every
      graph whatever the order of its adjacency lists.
    - a tree decomposition [dict[frozenset, set[frozenset]]] is modelled as [td] =
      (bags = dict keys in insertion order, edges = set of unordered pairs of bag
      indices, kept duplicate-free, in order of creation).
    - loops are structural or carry fuel and return [option] ([None] = out of fuel
      or a Python exception: KeyError/IndexError/AssertionError). *)
From Coq Require Import List Arith Bool PeanoNat.
Import ListNotations.

Definition graph := list (nat * list nat).
Definition bag := list nat.
Definition td := (list bag * list (nat * nat))%type.

(** * finite sets of naturals as lists *)
Definition mem (x : nat) (l : list nat) : bool := existsb (Nat.eqb x) l.
Fixpoint ins (x : nat) (l : list nat) : list nat :=
  match l with
  | [] => [x]
  | y :: l' => if x <? y then x :: l else y :: ins x l'
  end.
Definition set_add (x : nat) (l : list nat) : list nat := if mem x l then l else ins x l.
Definition set_remove (x : nat) (l : list nat) : list nat := filter (fun y => negb (y =? x)) l.
Definition subset (a b : list nat) : bool := forallb (fun x => mem x b) a.
Definition set_eqb (a b : list nat) : bool := subset a b && subset b a.
Definition set_union (a b : list nat) : list nat := fold_left (fun acc x => set_add x acc) b a.
Definition set_diff (a b : list nat) : list nat := filter (fun x => negb (mem x b)) a.
Definition set_inter (a b : list nat) : list nat := filter (fun x => mem x b) a.
Definition sort_set (l : list nat) : list nat := set_union [] l.
Fixpoint nodupb (l : list nat) : bool :=
  match l with [] => true | x :: l' => negb (mem x l') && nodupb l' end.

(** * graphs: [dict[node, set[node]]] *)
Definition gverts (g : graph) : list nat := map fst g.
Fixpoint nbrs (g : graph) (v : nat) : list nat :=
  match g with
  | [] => []
  | p :: g' => if fst p =? v then snd p else nbrs g' v
  end.
Definition has_key (g : graph) (v : nat) : bool := mem v (gverts g).
Definition deg (g : graph) (v : nat) : nat := length (nbrs g v).

(** simple undirected graph: distinct keys, neighbour sets duplicate-free, irreflexive,
    closed (every neighbour is a key) and symmetric *)
Definition wf_graphb (g : graph) : bool :=
  nodupb (gverts g) &&
  forallb (fun p => nodupb (snd p) && negb (mem (fst p) (snd p)) &&
                    forallb (fun w => has_key g w && mem (fst p) (nbrs g w)) (snd p)) g.

(** [graph[u].add(v); graph[v].add(u)] *)
Definition add_edge (g : graph) (u v : nat) : graph :=
  map (fun p => (fst p,
                 let ns := if fst p =? u then set_add v (snd p) else snd p in
                 if fst p =? v then set_add u ns else ns)) g.

(** [for u in graph[v]: graph[u].discard(v)]; [del graph[v]] *)
Definition remove_node (g : graph) (v : nat) : graph :=
  let nv := nbrs g v in
  map (fun p => (fst p, if mem (fst p) nv then set_remove v (snd p) else snd p))
      (filter (fun p => negb (fst p =? v)) g).

(** [for vn in graph[v]: if vn != u: add_edge(graph, u, vn)]; [remove_node(graph, v)] *)
Definition contract_edge (g : graph) (u v : nat) : graph :=
  remove_node (fold_left (fun g vn => if vn =? u then g else add_edge g u vn) (nbrs g v) g) v.

(** [for v1 in nodes: for v2 in nodes: if v1 != v2: add_edge(graph, v1, v2)] *)
Definition make_clique (g : graph) (nodes : list nat) : graph :=
  fold_left (fun g v1 => fold_left (fun g v2 => if v1 =? v2 then g else add_edge g v1 v2) nodes g) nodes g.

Definition count_fillin (g : graph) (u : nat) : nat :=
  let ns := nbrs g u in
  Nat.div2 (fold_left (fun c v1 =>
              fold_left (fun c v2 => if negb (v1 =? v2) && negb (mem v2 (nbrs g v1)) then S c else c) ns c) ns 0).

Definition is_clique (g : graph) (vs : list nat) : bool :=
  forallb (fun v1 => forallb (fun v2 => (v1 =? v2) || mem v2 (nbrs g v1)) vs) vs.
Definition simplicial (g : graph) (v : nat) : bool := is_clique g (nbrs g v).
Definition almost_simplicial (g : graph) (v : nat) : bool :=
  existsb (fun u => is_clique g (set_remove u (nbrs g v))) (nbrs g v).

(** [make_clique(graph, graph[v]); remove_node(graph, v)] (the KeyError test is made by the callers' models) *)
Definition eliminate_node (g : graph) (v : nat) : graph :=
  remove_node (make_clique g (nbrs g v)) v.

(** [min(l, key=key)]: the first element with the least key *)
Fixpoint argmin_from (key : nat -> nat) (l : list nat) (b kb : nat) : nat :=
  match l with
  | [] => b
  | x :: l' => if key x <? kb then argmin_from key l' x (key x) else argmin_from key l' b kb
  end.
Definition argmin (key : nat -> nat) (l : list nat) : option nat :=
  match l with [] => None | x :: l' => Some (argmin_from key l' x (key x)) end.

(** * min_fill: returns (dmax, order) *)
Fixpoint min_fill_loop (fuel : nat) (g : graph) (dmax : nat) (order : list nat) : option (nat * list nat) :=
  match argmin (count_fillin g) (gverts g) with
  | None => Some (dmax, order)                      (* len(graph) == 0 *)
  | Some u =>
    match fuel with
    | 0 => None
    | S fuel' => min_fill_loop fuel' (eliminate_node g u) (Nat.max dmax (deg g u)) (order ++ [u])
    end
  end.
Definition min_fill (g : graph) : option (nat * list nat) := min_fill_loop (length g) g 0 [].

(** * minor_min_width (least-c) *)
Fixpoint mmw_loop (fuel : nat) (g : graph) (dmax : nat) : option nat :=
  match argmin (deg g) (gverts g) with
  | None => Some dmax
  | Some v =>
    let dmax := Nat.max dmax (deg g v) in
    let nb := nbrs g v in
    match argmin (fun u => length (set_inter (nbrs g u) nb)) nb with
    | None => Some dmax                              (* degree zero: break *)
    | Some u =>
      match fuel with
      | 0 => None
      | S fuel' => mmw_loop fuel' (contract_edge g u v) dmax
      end
    end
  end.
Definition minor_min_width (g : graph) : option nat := mmw_loop (length g) g 0.

(** * quickbb *)
(** "Make into an undirected graph without self-loops" *)
Definition normalize (g : graph) : graph :=
  fold_left (fun g1 p => fold_left (fun g1 v => if fst p =? v then g1 else add_edge g1 (fst p) v) (snd p) g1)
            g (map (fun p => (fst p, @nil nat)) g).

Fixpoint candidates (g : graph) (lb : nat) (sep keys acc : list nat) : list nat :=
  match keys with
  | [] => acc
  | v :: ks =>
    if simplicial g v || (almost_simplicial g v && (deg g v <=? lb)) then [v]
    else candidates g lb sep ks (if mem v sep then acc else acc ++ [v])
  end.

(** [bb]; the incumbent (best_ub, best_order) is threaded through; [None] = out of fuel
    or [assert f == g] fails *)
Fixpoint bb (fuel lb : nat) (g : graph) (order sep : list nat) (f gg : nat) (best : nat * list nat)
  : option (nat * list nat) :=
  match fuel with
  | 0 => None
  | S fuel' =>
    if length g <? 2 then
      if f <? fst best then (if f =? gg then Some (f, order ++ gverts g) else None) else Some best
    else
      fold_left (fun (ob : option (nat * list nat)) v =>
                   match ob with
                   | None => None
                   | Some best =>
                     let g1 := eliminate_node g v in
                     let gg1 := Nat.max gg (deg g v) in
                     match minor_min_width g1 with
                     | None => None
                     | Some l1 =>
                       let f1 := Nat.max gg l1 in
                       if f1 <? fst best then bb fuel' lb g1 (order ++ [v]) (nbrs g v) f1 gg1 best
                       else Some best
                     end
                   end)
                (candidates g lb sep (gverts g) []) (Some best)
  end.

Definition quickbb (g0 : graph) : option (nat * list nat) :=
  let g := normalize g0 in
  match min_fill g, minor_min_width g with
  | Some best, Some lb => if lb <? fst best then bb (S (length g)) lb g [] [] lb 0 best else Some best
  | _, _ => None
  end.

(** * tree decompositions as [td] *)
Fixpoint bag_index (bs : list bag) (b : bag) : option nat :=
  match bs with
  | [] => None
  | c :: bs' => if set_eqb c b then Some 0 else option_map S (bag_index bs' b)
  end.
Definition has_edge (es : list (nat * nat)) (i j : nat) : bool :=
  existsb (fun e => ((fst e =? i) && (snd e =? j)) || ((fst e =? j) && (snd e =? i))) es.
(** [add_node(tree, b)] *)
Definition t_add_node (t : td) (b : bag) : td :=
  match bag_index (fst t) b with Some _ => t | None => (fst t ++ [b], snd t) end.
(** [add_edge(tree, a, b)]; [None] = KeyError *)
Definition t_add_edge (t : td) (a b : bag) : option td :=
  match bag_index (fst t) a, bag_index (fst t) b with
  | Some i, Some j => Some (if has_edge (snd t) i j then t else (fst t, snd t ++ [(i, j)]))
  | _, _ => None
  end.
(** [for tv in tree: if clique.issubset(tv): break] *)
Fixpoint find_super (c : list nat) (bs : list bag) : option bag :=
  match bs with
  | [] => None
  | b :: bs' => if subset c b then Some b else find_super c bs'
  end.

(** * tree_decomposition_from_order *)
Fixpoint td_build (g : graph) (order : list nat) : option td :=
  match order with
  | [] => None                                        (* order[0]: IndexError *)
  | v :: rest =>
    if negb (has_key g v) then None                   (* graph[v]: KeyError *)
    else
      let clique := nbrs g v in
      let g' := eliminate_node g v in
      let tnew := set_add v clique in
      if length clique <? length g' then
        match td_build g' rest with
        | None => None
        | Some t =>
          match find_super clique (fst t) with
          | None => None                              (* assert False *)
          | Some tv => t_add_edge (t_add_node t tnew) tv tnew
          end
        end
      else Some ([tnew], [])
  end.
Definition tdfo (g : graph) (order : list nat) : option td :=
  match order with
  | [] => Some ([[]], [])
  | _ => td_build g order
  end.

(** * connected_components(g, s): components of g \ s, each sorted, in order of least element.
    [nodes.pop()] / [agenda.pop()] are modelled as "take the least element" (the resulting sets
    do not depend on the choice inside a component) *)
Fixpoint cc_inner (fuel : nat) (g : graph) (s comp agenda : list nat) : option (list nat) :=
  match agenda with
  | [] => Some comp
  | v :: rest =>
    match fuel with
    | 0 => None
    | S fuel' =>
      let comp' := set_add v comp in
      cc_inner fuel' g s comp' (set_union rest (set_diff (set_diff (nbrs g v) comp') s))
    end
  end.
Fixpoint cc_outer (fuel : nat) (g : graph) (s nodes : list nat) (comps : list (list nat)) : option (list (list nat)) :=
  match nodes with
  | [] => Some comps
  | v0 :: _ =>
    match fuel with
    | 0 => None
    | S fuel' =>
      match cc_inner (S (length g)) g s [] [v0] with
      | None => None
      | Some comp => cc_outer fuel' g s (set_diff nodes comp) (comps ++ [comp])
      end
    end
  end.
Definition connected_components (g : graph) (s : list nat) : option (list (list nat)) :=
  cc_outer (length g) g s (set_diff (sort_set (gverts g)) s) [].

(** * acb_connected *)
Inductive rtree := RNode : bag -> list rtree -> rtree.
Definition root_bag (t : rtree) : bag := match t with RNode b _ => b end.
(** chart cell: [None] = Python None (undecided), [Some None] = False, [Some (Some t)] = certificate *)
Definition cell := option (option rtree).
Definition chart_t := list (bag * list (bag * cell)).
Definition cell_yes (c : cell) : option rtree := match c with Some (Some t) => Some t | _ => None end.

Fixpoint combinations (l : list nat) (k : nat) {struct l} : list (list nat) :=
  match k with
  | 0 => [[]]
  | S k' => match l with
            | [] => []
            | x :: l' => map (cons x) (combinations l' k') ++ combinations l' k
            end
  end.

Fixpoint chart_get (ch : chart_t) (i : bag) : option (list (bag * cell)) :=
  match ch with
  | [] => None
  | p :: ch' => if set_eqb (fst p) i then Some (snd p) else chart_get ch' i
  end.
Definition row_set (row : list (bag * cell)) (j : bag) (c : cell) : list (bag * cell) :=
  map (fun q => if set_eqb (fst q) j then (fst q, c) else q) row.
Definition chart_set (ch : chart_t) (i j : bag) (c : cell) : chart_t :=
  map (fun p => if set_eqb (fst p) i then (fst p, row_set (snd p) j c) else p) ch.

Definition build_chart (g : graph) (k : nat) : option chart_t :=
  fold_left (fun och i =>
               match och with
               | None => None
               | Some ch =>
                 match connected_components g i with
                 | None => None
                 | Some comps =>
                   if 1 <? length comps
                   then Some (ch ++ [(i, map (fun c => (set_union c i, @None (option rtree))) comps)])
                   else Some ch
                 end
               end)
            (combinations (gverts g) k) (Some []).

(** [sorted((len(j), i, j) ...)]: frozensets of equal size are never [<], so this is a stable sort by size *)
Definition entry := (nat * bag * bag)%type.
Definition entries (ch : chart_t) : list entry :=
  flat_map (fun p => map (fun q => (length (fst q), fst p, fst q)) (snd p)) ch.
Fixpoint insert_by (e : entry) (l : list entry) : list entry :=
  match l with
  | [] => [e]
  | x :: l' => if fst (fst e) <=? fst (fst x) then e :: l else x :: insert_by e l'
  end.
Definition bysize (ch : chart_t) : list entry := fold_right insert_by [] (entries ch).

(** the body of [for l in chart[m]]; state = (union, children); [None] = assert fails *)
Definition try_l (jb m : bag) (st : option (list nat * list rtree)) (q : bag * cell)
  : option (list nat * list rtree) :=
  match st with
  | None => None
  | Some (union, children) =>
    let lm := set_diff (fst q) m in
    match cell_yes (snd q) with
    | Some t =>
      if subset lm jb then
        if length (set_inter lm union) =? 0 then Some (set_union union lm, children ++ [t])
        else if subset lm union then Some (union, children) else None
      else Some (union, children)
    | None => Some (union, children)
    end
  end.

(** [for v in j - i]: [None] = assertion failure, [Some None] = no answer set, [Some (Some t)] = YES *)
Fixpoint try_vs (ch : chart_t) (i j : bag) (vs : list nat) : option (option rtree) :=
  match vs with
  | [] => Some None
  | v :: vs' =>
    let bg := set_add v i in
    let jb := set_diff j bg in
    let st := fold_left (fun st u =>
                           let m := set_remove u bg in
                           match chart_get ch m with
                           | Some row => fold_left (try_l jb m) row st
                           | None => st
                           end) i (Some ([], [])) in
    match st with
    | None => None
    | Some (union, children) =>
      if set_eqb union jb then Some (Some (RNode bg children)) else try_vs ch i j vs'
    end
  end.

Inductive acb_res := AFalse | ATree (t : rtree) | AError.

Definition dead_add (i : bag) (dead : list bag) : list bag :=
  if existsb (set_eqb i) dead then dead else dead ++ [i].

Fixpoint acb_main (ch : chart_t) (dead : list bag) (es : list entry) (k : nat) : acb_res :=
  match es with
  | [] => AError                                       (* assert False *)
  | (h, i, j) :: es' =>
    let r := if h <=? k + 1 then Some (Some (RNode j [])) else try_vs ch i j (set_diff j i) in
    match r with
    | None => AError
    | Some ans =>
      let ch1 := chart_set ch i j (match ans with Some t => Some (Some t) | None => Some None end) in
      let dead1 := match ans with None => dead_add i dead | Some _ => dead end in
      if length dead1 =? length ch1 then AFalse
      else match chart_get ch1 i with
           | None => AError
           | Some row =>
             match fold_right (fun q acc => match cell_yes (snd q), acc with
                                            | Some t, Some ts => Some (t :: ts)
                                            | _, _ => None end) (Some []) row with
             | Some ts => ATree (RNode i ts)
             | None => acb_main ch1 dead1 es' k
             end
           end
    end
  end.

Definition acb_connected (g : graph) (k : nat) : acb_res :=
  match connected_components g [] with
  | Some [_] =>
    if length g <=? k + 1 then ATree (RNode (sort_set (gverts g)) [])
    else match build_chart g k with
         | None => AError
         | Some ch => if length ch =? 0 then AFalse else acb_main ch [] (bysize ch) k
         end
  | _ => AError                                         (* assert len(connected_components(g)) == 1 *)
  end.

(** * acb *)
(** [{v: g[v] for v in c}] *)
Definition restrict (g : graph) (c : list nat) : graph := map (fun v => (v, nbrs g v)) c.

(** [for k in range(1, ub+1)]: [n] = number of values still to try *)
Fixpoint acb_try_k (c : graph) (n k : nat) : acb_res :=
  match n with
  | 0 => AError                                         (* for/else: assert False *)
  | S n' => match acb_connected c k with
            | AFalse => acb_try_k c n' (S k)
            | r => r
            end
  end.

(** un-root: [build(node)] *)
Fixpoint unroot (t : rtree) (u : option td) : option td :=
  match t with
  | RNode b children =>
    (fix go (cs : list rtree) (u : option td) : option td :=
       match cs with
       | [] => u
       | c :: cs' =>
         go cs' (match unroot c u with
                 | None => None
                 | Some u2 => t_add_edge u2 b (root_bag c)
                 end)
       end) children (option_map (fun u => t_add_node u b) u)
  end.

(** the loop [for c in connected_components(g)] (as of /repo 96ab4c3: a single-vertex component,
    [ub == 0], contributes the one-bag tree and the loop continues) *)
Fixpoint acb_loop (g : graph) (comps : list (list nat)) (comptrees : list rtree)
  : option (list rtree) :=
  match comps with
  | [] => Some comptrees
  | c :: comps' =>
    let cg := restrict g c in
    match min_fill cg with
    | None => None
    | Some (ub, _) =>
      if ub =? 0 then acb_loop g comps' (comptrees ++ [RNode (sort_set (gverts cg)) []])
      else match acb_try_k cg ub 1 with
           | ATree t => acb_loop g comps' (comptrees ++ [t])
           | _ => None
           end
    end
  end.

Definition acb (g : graph) : option td :=
  match connected_components g [] with
  | None => None
  | Some comps =>
    match acb_loop g comps [] with
    | None => None
    | Some [t] => unroot t (Some ([], []))
    | Some ts => unroot (RNode [] ts) (Some ([], []))
    end
  end.

(** * tree_decomposition(graph, method): 0 = min_fill, 1 = quickbb, otherwise acb *)
Definition tree_decomposition (m : nat) (g : graph) : option td :=
  match m with
  | 0 => match min_fill g with Some (_, order) => tdfo g order | None => None end
  | 1 => match quickbb g with Some (_, order) => tdfo g order | None => None end
  | _ => acb g
  end.

(** * Executable specification *)
(** ** trees by leaf peeling *)
Definition incident (v : nat) (e : nat * nat) : bool := (fst e =? v) || (snd e =? v).
Definition other_end (v : nat) (e : nat * nat) : nat := if fst e =? v then snd e else fst e.
Fixpoint peel (fuel : nat) (ns : list nat) (es : list (nat * nat)) : bool :=
  match fuel with
  | 0 => false
  | S fuel' =>
    match ns with
    | [] => false
    | [_] => match es with [] => true | _ => false end
    | _ =>
      match find (fun v => length (filter (incident v) es) =? 1) ns with
      | None => false
      | Some v =>
        match filter (incident v) es with
        | [e] => let u := other_end v e in
                 negb (u =? v) && mem u ns &&
                 peel fuel' (set_remove v ns) (filter (fun e => negb (incident v e)) es)
        | _ => false
        end
      end
    end
  end.
Definition tree_ok (ns : list nat) (es : list (nat * nat)) : bool := nodupb ns && peel (length ns) ns es.

(** indices of the bags containing x *)
Definition bags_with (bags : list bag) (x : nat) : list nat :=
  map fst (filter (fun p => mem x (snd p)) (combine (seq 0 (length bags)) bags)).
Definition edges_within (s : list nat) (es : list (nat * nat)) : list (nat * nat) :=
  filter (fun e => mem (fst e) s && mem (snd e) s) es.

Definition td_ok (g : graph) (t : td) : bool :=
  let bags := fst t in
  let es := snd t in
  tree_ok (seq 0 (length bags)) es
  && forallb (fun b => nodupb b && forallb (fun x => mem x (gverts g)) b) bags
  && forallb (fun x => existsb (mem x) bags) (gverts g)
  && forallb (fun p => forallb (fun y => existsb (fun b => mem (fst p) b && mem y b) bags) (snd p)) g
  && forallb (fun x => let s := bags_with bags x in
                       match s with [] => true | _ => tree_ok s (edges_within s es) end) (gverts g).

(** [max(len(b) for b in t) - 1] (0 for the one empty bag of the empty graph, where Python has -1) *)
Definition max_bag (t : td) : nat := fold_right Nat.max 0 (map (@length nat) (fst t)).
Definition width (t : td) : nat := pred (max_bag t).

(** ** elimination width and treewidth by enumeration of all elimination orders *)
Fixpoint elim_width (g : graph) (order : list nat) : nat :=
  match order with
  | [] => 0
  | v :: rest => Nat.max (deg g v) (elim_width (eliminate_node g v) rest)
  end.
Fixpoint insert_all (x : nat) (l : list nat) : list (list nat) :=
  match l with
  | [] => [[x]]
  | y :: l' => (x :: l) :: map (cons y) (insert_all x l')
  end.
Fixpoint perms (l : list nat) : list (list nat) :=
  match l with [] => [[]] | x :: l' => flat_map (insert_all x) (perms l') end.
Definition tw_perm (g : graph) : nat :=
  match map (elim_width g) (perms (gverts g)) with
  | [] => 0
  | w :: ws => fold_left Nat.min ws w
  end.
(** decision "some elimination order has width < k" by depth-first search with pruning:
    [tw_below (length g) g k = true <-> tw_perm g < k] (Proofs/TreeDec_tw.v); this is what the
    check functions run (same verdicts as comparing with [tw_perm], far fewer elimination runs) *)
Fixpoint tw_below (fuel : nat) (g : graph) (k : nat) : bool :=
  match g with
  | [] => 0 <? k
  | _ :: _ =>
    match fuel with
    | 0 => false
    | S fuel' =>
      (fix go (vs : list nat) : bool :=
         match vs with
         | [] => false
         | v :: vs' =>
           if deg g v <? k
           then (if tw_below fuel' (eliminate_node g v) k then true else go vs')
           else go vs'
         end) (gverts g)
    end
  end.
(** [tw_is g w = true <-> tw_perm g = w] *)
Definition tw_is (g : graph) (w : nat) : bool :=
  if tw_below (length g) g w then false else tw_below (length g) g (S w).
(** [tw_gt g w = true <-> w < tw_perm g] *)
Definition tw_gt (g : graph) (w : nat) : bool := negb (tw_below (length g) g (S w)).

Definition is_perm (a b : list nat) : bool :=
  nodupb a && (length a =? length b) && subset a b.

(** * Check functions (model side of the correspondence) *)
Definition list_eqb (a b : list nat) : bool :=
  (length a =? length b) && forallb (fun p => fst p =? snd p) (combine a b).
Definition td_sameb (a b : td) : bool :=
  (length (fst a) =? length (fst b))
  && forallb (fun p => set_eqb (fst p) (snd p)) (combine (fst a) (fst b))
  && forallb (fun e => has_edge (snd b) (fst e) (snd e)) (snd a)
  && forallb (fun e => has_edge (snd a) (fst e) (snd e)) (snd b).

Definition exact_method (m : nat) : bool := negb (m =? 0).

Definition flag_model (mode : nat) : bool := Nat.odd mode.
Definition flag_tw (mode : nat) : bool := Nat.odd (Nat.div2 mode).

(** input: graph, method, mode (bit 0: compare with the model; bit 1: compare with [tw_perm]),
    optional externally known treewidth, implementation result ([None] = it raised).
    verdict: 0 ok; 2 input is not a simple undirected graph (harness error);
    1 [td_ok] rejects the implementation's tree; 3 exact method, width <> treewidth;
    4 width below the treewidth (impossible for a valid decomposition; oracle inconsistency);
    5 the implementation raised an exception; 6 width contradicts the externally known treewidth;
    10 (valid?, width) differs from the model's; 11 the model raises/out of fuel *)
Definition td_check (x : graph * nat * nat * option nat * option td) : nat :=
  let '(g, m, mode, expect, impl) := x in
  if negb (wf_graphb g) then 2
  else match impl with
       | None => 5
       | Some t =>
         if negb (td_ok g t) then 1
         else
           let w := width t in
           (* [if .. then .. else false] rather than [&&]: the right operand is expensive and
              vm_compute is call-by-value *)
           if (if flag_tw mode then (if exact_method m then negb (tw_is g w) else false) else false) then 3
           else if (if flag_tw mode then tw_gt g w else false) then 4
           else if match expect with
                   | Some e => if exact_method m then negb (w =? e) else w <? e
                   | None => false end then 6
           else if flag_model mode then
             match tree_decomposition m g with
             | None => 11
             | Some tm => if td_ok g tm && (width tm =? w) then 0 else 10
             end
           else 0
       end.

(** measure only (not a verdict): 0 iff the implementation's tree is the model's tree
    (same bags in the same insertion order, same edge set) *)
Definition td_exact (x : graph * nat * td) : nat :=
  let '(g, m, t) := x in
  match tree_decomposition m g with
  | Some tm => if td_sameb tm t then 0 else 1
  | None => 2
  end.

(** [min_fill(graph)] (which = 0) / [quickbb(graph)] (which = 1) called directly: (reported width, order).
    verdict: 0 ok; 2 bad input; 1 order is not a permutation of the vertices;
    3 reported width is not the elimination width of the order; 4 quickbb: reported <> treewidth,
    min_fill: reported < treewidth; 6 contradicts the externally known treewidth;
    10 reported width differs from the model's; 11 model fails *)
Definition order_check (x : graph * nat * nat * option nat * (nat * list nat)) : nat :=
  let '(g, which, mode, expect, (w, order)) := x in
  if negb (wf_graphb g) then 2
  else if negb (is_perm order (gverts g)) then 1
  else if negb (elim_width g order =? w) then 3
  else if (if flag_tw mode then (if which =? 0 then tw_gt g w else negb (tw_is g w)) else false) then 4
  else if match expect with
          | Some e => if which =? 0 then w <? e else negb (w =? e)
          | None => false end then 6
  else if flag_model mode then
    match (if which =? 0 then min_fill g else quickbb g) with
    | None => 11
    | Some (wm, om) => if wm =? w then 0 else 10
    end
  else 0.

(** measure only: 0 iff the implementation's order is the model's order *)
Definition order_exact (x : graph * nat * list nat) : nat :=
  let '(g, which, order) := x in
  match (if which =? 0 then min_fill g else quickbb g) with
  | Some (_, om) => if list_eqb om order then 0 else 1
  | None => 2
  end.

(** [minor_min_width(graph)]: verdict 0 ok; 2 bad input; 1 result exceeds the treewidth (bit 1);
    6 exceeds the externally known treewidth; 10 differs from the model (bit 0); 11 model fails *)
Definition mmw_check (x : graph * nat * option nat * nat) : nat :=
  let '(g, mode, expect, lb) := x in
  if negb (wf_graphb g) then 2
  else if (if flag_tw mode then tw_below (length g) g lb else false) then 1
  else if match expect with Some e => e <? lb | None => false end then 6
  else if flag_model mode then
    match minor_min_width g with
    | None => 11
    | Some l => if l =? lb then 0 else 10
    end
  else 0.
