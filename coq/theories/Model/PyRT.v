(** Run-time library of the Python -> Gallina translator (harness/translate/py2gallina.py).

    The generated file [Fggs.Generated.SCC_gen] contains only definitions built from these
    operations, [match] on [option] (the error/fuel monad: [None] = a Python exception such as
    KeyError / IndexError, or fuel exhausted), [if], [let], and record get/set.
    This file is TRUSTED as the meaning of the Python container operations:

    - [dict]  : association list in insertion order, keys canonicalised to [nat].
                [d[k]] = [py_dget] ([None] = KeyError); [d[k] = v] = [py_dset] (overwrite in
                place, or append at the END = insertion order); [k in d] = [py_dmem];
                iteration = [py_keys].
    - a dict all of whose values are [None] (an ordered set, e.g. [comp[w] = None]) is a
      [list nat] of its keys in insertion order: [py_kadd] (append at the end unless present).
    - [list]  : a Coq list in the SAME order as the Python list (index 0 first; the END of the
                Coq list is the top): [l.append(x)] = [l ++ [x]]; [l.pop()] = [py_pop]
                (removes and returns the LAST element; [None] = IndexError on the empty list);
                [l[i]] = [py_nth] ([None] = IndexError).
    - [set]   : duplicate-free [list nat] (order irrelevant: only [in], [add], [remove] are
                supported, never iteration): [py_sadd]; [s.remove(x)] = [py_sremove]
                ([None] = KeyError when absent).
    - [for x in xs: body] = [py_for body xs st]; [while c: body] = [py_while fuel c body st]
      ([None] when the fuel runs out). *)
From Coq Require Import List Arith Bool PeanoNat.
Import ListNotations.

Fixpoint py_dget {V : Type} (m : list (nat * V)) (k : nat) : option V :=
  match m with [] => None | (a, b) :: m => if Nat.eqb a k then Some b else py_dget m k end.

Fixpoint py_dmem {V : Type} (m : list (nat * V)) (k : nat) : bool :=
  match m with [] => false | (a, _) :: m => if Nat.eqb a k then true else py_dmem m k end.

Fixpoint py_dset {V : Type} (m : list (nat * V)) (k : nat) (v : V) : list (nat * V) :=
  match m with
  | [] => [(k, v)]
  | (a, b) :: m => if Nat.eqb a k then (a, v) :: m else (a, b) :: py_dset m k v
  end.

Definition py_keys {V : Type} (m : list (nat * V)) : list nat := map fst m.

(** membership in a list / set / key-set *)
Fixpoint py_mem (l : list nat) (x : nat) : bool :=
  match l with [] => false | y :: l => if Nat.eqb y x then true else py_mem l x end.

Definition py_kadd (l : list nat) (x : nat) : list nat := if py_mem l x then l else l ++ [x].
Definition py_sadd (l : list nat) (x : nat) : list nat := if py_mem l x then l else l ++ [x].

Fixpoint py_sremove (l : list nat) (x : nat) : option (list nat) :=
  match l with
  | [] => None
  | y :: l => if Nat.eqb y x then Some l
              else match py_sremove l x with None => None | Some l' => Some (y :: l') end
  end.

(** [l.pop()]: (remaining list, popped last element) *)
Fixpoint py_pop {A : Type} (l : list A) : option (list A * A) :=
  match l with
  | [] => None
  | x :: l' => match py_pop l' with
               | None => Some ([], x)
               | Some (r, y) => Some (x :: r, y)
               end
  end.

Definition py_nth {A : Type} (l : list A) (i : nat) : option A := nth_error l i.

Fixpoint py_for {T ST : Type} (body : T -> ST -> option ST) (xs : list T) (st : ST) : option ST :=
  match xs with
  | [] => Some st
  | x :: xs => match body x st with None => None | Some st => py_for body xs st end
  end.

Fixpoint py_while {ST : Type} (fuel : nat) (cond : ST -> option bool) (body : ST -> option ST)
         (st : ST) : option ST :=
  match fuel with
  | 0 => None
  | S fuel =>
    match cond st with
    | None => None
    | Some true => match body st with None => None | Some st => py_while fuel cond body st end
    | Some false => Some st
    end
  end.
