(** L3, continued -- the operations of PatternedTensor (fggs/indices.py) that read or write
    strided views ([project], [dim_to_dense], [stack], [where]), reduce ([any]), re-factor the
    storage ([reshape] / [view]) or only concern the storage ([copy_], [to], [eye]).

    Conventions as in Model/PTensor.v.  A dense buffer is a flat store [nat -> V] addressed by
    row-major offsets, exactly what [as_strided] computes from [Axis.stride]; reading a physical
    tensor through a view is modelled at the level of its coordinates.  Sets (Python
    [frozenset]) whose iteration order the code depends on only for the layout of an intermediate
    view are modelled as sub-lists of an ordered container (the writes of a [copy_] through an
    injective view commute).  [RuntimeError], [ValueError], [AssertionError], [AttributeError] are
    all [Fail OtherError]. *)
From Coq Require Import List Arith Lia PeanoNat Bool PArith.
Import ListNotations.
Require Import Fggs.Model.Axis Fggs.Model.PTensor.

Definition pmem (k : positive) (l : list positive) : bool := existsb (Pos.eqb k) l.
Definition prodl' (l : list nat) : nat := fold_right Nat.mul 1 l.

(** the virtual index an axis denotes under a substitution, from [Axis.stride(subst)] *)
Definition at_axis (fuel : nat) (sigma : subst) (rho : env) (e : axis) : res nat :=
  r <- stride fuel sigma e ;; Ok (fst r + lin_eval rho (snd r)).
Definition at_axes (fuel : nat) (sigma : subst) (rho : env) (es : list axis) : res (list nat) :=
  mapM (at_axis fuel sigma rho) es.
Definition paxes_axes' (ps : list pn) : list axis := map (fun kn => Phys (fst kn) (snd kn)) ps.

(** [fold] of strided writes: for every environment of [vars], write [val] at [off] *)
Definition write_all {V : Type} (vars : list pn) (off : env -> res nat) (val : env -> res (option V))
                     (st0 : nat -> V) : res (nat -> V) :=
  fold_left (fun acc pi => st <- acc ;; o <- off (env_of pi) ;; v <- val (env_of pi) ;;
                           match v with Some x => Ok (write V st o x) | None => Ok st end)
            (all_envs vars) (Ok st0).

Section Ops.
Variable V : Type.
Notation ptensor := (ptensor V).

(** * [eye(size, semiring)] *)
Definition pt_eye (n : nat) (one zero : V) (next : positive) : ptensor * positive :=
  if Nat.eqb n 1 then (mkPT (fun _ => one) [] [unitAxis; unitAxis] zero, next)
  else (mkPT (fun _ => one) [(next, n)] [Phys next n; Phys next n] zero, Pos.succ next).

(** * [to(dtype)]: the conversion is applied to the storage and, through a 0-dim tensor, to the default *)
Definition pt_to (cvt : V -> V) (t : ptensor) : ptensor := pt_map V cvt (cvt (default t)) t.

(** * [copy_(src)]: value semantics (self becomes a freshened copy of src) and the storage re-use rule *)
Definition pt_copy (next : positive) (src : ptensor) : ptensor * positive := pt_freshen V next src.

(** torch's [is_contiguous] on (size, stride) pairs listed from the outermost dimension *)
Definition contiguous_b (dims : list (nat * nat)) : bool :=
  existsb (fun d => Nat.eqb (fst d) 0) dims ||
  snd (fold_right (fun d acc => let '(expect, ok) := acc in
                                if Nat.eqb (fst d) 1 then (expect, ok)
                                else (expect * fst d, ok && Nat.eqb (snd d) expect)) (1, true) dims).

(** stable insertion sort by descending stride ([l.sort(reverse=True, key=stride)]: equal keys keep
    their original order) *)
Fixpoint insert_desc (d : nat * nat) (l : list (nat * nat)) : list (nat * nat) :=
  match l with
  | [] => [d]
  | x :: l' => if snd x <=? snd d then d :: l else x :: insert_desc d l'
  end.
Definition sort_desc (l : list (nat * nat)) : list (nat * nat) := fold_right insert_desc [] l.

(** does [copy_] write into the existing storage of [self]?  [dims] = sizes and strides of
    [self.physical] *)
Definition copy_reuses (dims : list (nat * nat)) (src_numel : nat) (same_dtype : bool) : bool :=
  Nat.eqb (prodl' (map fst dims)) src_numel && same_dtype && contiguous_b (sort_desc dims).

(** * [any(dim, keepdim)] *)
Fixpoint remove_nth {A} (n : nat) (l : list A) : list A :=
  match n, l with
  | _, [] => []
  | O, _ :: l' => l'
  | S n', x :: l' => x :: remove_nth n' l'
  end.
Fixpoint replace_nth {A} (n : nat) (a : A) (l : list A) : list A :=
  match n, l with
  | _, [] => []
  | O, _ :: l' => a :: l'
  | S n', x :: l' => x :: replace_nth n' a l'
  end.

(** coordinates over [ps]: the axes in [ks] take their value from [rho], the others from [idx] in order *)
Fixpoint merge_coords (ps : list pn) (ks : list positive) (rho : env) (idx : list nat) : list nat :=
  match ps with
  | [] => []
  | (k, _) :: ps' =>
      if pmem k ks then rho k :: merge_coords ps' ks rho idx
      else match idx with i :: idx' => i :: merge_coords ps' ks rho idx' | [] => 0 :: merge_coords ps' ks rho [] end
  end.

Definition pt_any (truth : V -> bool) (ofb : bool -> V) (dim : nat) (keepdim : bool) (t : ptensor) : res ptensor :=
  match nth_error (vaxes t) dim with
  | None => Fail IndexError
  | Some ed =>
      let vs := if keepdim then replace_nth dim unitAxis (vaxes t) else remove_nth dim (vaxes t) in
      let others := flat_map fv vs in
      let ks := filter (fun kn => pmem (fst kn) (fv ed) && negb (pmem (fst kn) others)) (paxes t) in
      let kk := map fst ks in
      let ps := filter (fun kn => negb (pmem (fst kn) kk)) (paxes t) in
      if truth (default t) && (pnumel ks <? numel ed) then
        Ok (mkPT (fun _ => ofb true) ps vs (default t))
      else
        Ok (mkPT (fun idx => ofb (existsb (fun pi => truth (physical t (merge_coords (paxes t) kk (env_of pi) idx)))
                                          (all_envs ks)))
                 ps vs (default t))
  end.

(** * [dim_to_dense(dim)] *)
Fixpoint insert_nth {A} (n : nat) (a : A) (l : list A) : list A :=
  match n, l with
  | O, _ => a :: l
  | S n', x :: l' => x :: insert_nth n' a l'
  | S _, [] => [a]
  end.

Definition rename_keys (r : rename) : list pn := map (fun x => (fst x, snd (snd x))) r.
Definition rename_vals (r : rename) : list pn := map snd r.

Definition pt_dim_to_dense (dim : nat) (next : positive) (t : ptensor) : res (ptensor * positive) :=
  match nth_error (vaxes t) dim with
  | None => Fail IndexError
  | Some ed =>
      let '(vs, st) := freshen_list (remove_nth dim (vaxes t)) {| fs_rename := []; fs_next := next |} in
      if is_unit ed || (match ed with Phys k _ => negb (pmem k (map fst (fs_rename st))) | _ => false end)
      then Ok (t, next)
      else
        let fvs := rename_keys (fs_rename st) in
        let fv0 := rename_vals (fs_rename st) in
        let n := numel ed in
        let shp := map snd fv0 ++ [n] in
        let fuel := S (asize ed) in
        (* project(physical, self.paxes, fv + (e_dense,), {}): the stride dict must have exactly self.paxes as keys *)
        if negb (forallb (fun kn => pmem (fst kn) (map fst fvs ++ fv ed)) (paxes t)
                 && forallb (fun k => pmem k (map fst (paxes t))) (map fst fvs ++ fv ed))
        then Fail OtherError
        else
          st' <- write_all (paxes t)
                   (fun rho => offs <- at_axes fuel [] rho (paxes_axes' fvs ++ [ed]) ;; Ok (flat_offset shp offs))
                   (fun rho => Ok (Some (pget V t rho)))
                   (fun _ => default t) ;;
          if Nat.eqb n 1 then
            Ok (mkPT (fun idx => st' (flat_offset shp (idx ++ [0]))) fv0 (insert_nth dim unitAxis vs) (default t), fs_next st)
          else
            let k := fs_next st in
            Ok (mkPT (fun idx => st' (flat_offset shp idx)) (fv0 ++ [(k, n)]) (insert_nth dim (Phys k n) vs) (default t),
                Pos.succ k)
  end.

(** * [__iter__]: [dim_to_dense(0)], then one tensor per index of the leading dimension.
    Leading axis physical: the slices [self.physical.permute((i, ...))[j]] over the remaining physical axes;
    leading axis [unitAxis]: ONE tensor with the same storage, physical axes and default (the default is kept). *)
Fixpoint pindex (k : positive) (ps : list pn) : option nat :=
  match ps with
  | [] => None
  | (k', _) :: ps' => if Pos.eqb k' k then Some 0 else option_map S (pindex k ps')
  end.

Definition pt_iter (next : positive) (t : ptensor) : res (list ptensor) :=
  r <- pt_dim_to_dense 0 next t ;;                        (* a 0-dim tensor: [vaxes.pop(0)] raises IndexError *)
  let t' := fst r in
  match vaxes t' with
  | [] => Fail IndexError
  | Phys k n :: vs =>
      match pindex k (paxes t') with
      | None => Fail OtherError                            (* [paxes.index(k)]: ValueError *)
      | Some i => Ok (map (fun j => mkPT (fun idx => physical t' (insert_nth i j idx)) (remove_nth i (paxes t')) vs (default t'))
                          (seq 0 n))
      end
  | e :: vs => if is_unit e then Ok [mkPT (physical t') (paxes t') vs (default t')] else Fail OtherError   (* assert *)
  end.

(** * the method [project(paxes, vaxes)]: a dense tensor over [paxes] *)
Definition pt_project (pax : list pn) (vax : list axis) (next : positive) (t : ptensor)
  : res (list nat * (nat -> V)) :=
  let '(pax, vax) :=
    if existsb (fun kn => pmem (fst kn) (map fst (paxes t))) pax
    then let '(ps, st1) := freshen_list (paxes_axes' pax) {| fs_rename := []; fs_next := next |} in
         let '(vs, _) := freshen_list vax st1 in (flat_map fvn ps, vs)
    else (pax, vax) in
  let shp := map snd pax in
  let fuel := 6 * (asize_list (vaxes t) + asize_list vax) + 10 in
  let st0 := {| us_subst := []; us_next := Pos.succ (fold_left Pos.max (map fst pax ++ flat_map fv vax ++ map fst (paxes t)) next);
                us_warn := false |} in
  r <- unify_list fuel (vaxes t) vax st0 ;;
  if negb (fst r) then Ok (shp, fun _ => default t)
  else
    let sigma := us_subst (snd r) in
    let f2 := fuel + length sigma + 2 in
    sub <- fv_list f2 sigma (paxes_axes' pax) ;;
    selfv <- fv_list f2 sigma (paxes_axes' (paxes t)) ;;
    (* the second low-level project requires the same set of free axes *)
    if negb (forallb (fun kn => pmem (fst kn) (map fst selfv)) sub && forallb (fun kn => pmem (fst kn) (map fst sub)) selfv)
    then Fail OtherError
    else
      st' <- write_all sub
               (fun rho => offs <- at_axes f2 sigma rho (paxes_axes' pax) ;; Ok (flat_offset shp offs))
               (fun rho => c <- at_axes f2 sigma rho (paxes_axes' (paxes t)) ;; Ok (Some (physical t c)))
               (fun _ => default t) ;;
      Ok (shp, st').

(** * [stack(tensors, dim)] *)
Fixpoint stack_lggs (fuel : nat) (lggs : list axis) (tail : list ptensor) (next : positive) (last : list aentry)
  : res (list axis * list aentry * positive) :=
  match tail with
  | [] => Ok (lggs, last, next)
  | t :: tail' =>
      r <- antiunify_list fuel lggs (vaxes t) {| as_list := []; as_next := next; as_warn := false |} ;;
      stack_lggs fuel (fst r) tail' (as_next (snd r)) (as_list (snd r))
  end.

Definition lookup_pn (fuel : nat) (sigma : subst) (kn : pn) : res pn :=
  e <- lookup fuel sigma (Phys (fst kn) (snd kn)) ;;
  match e with Phys k n => Ok (k, n) | _ => Fail OtherError end.     (* cast(PhysicalAxis, ...): k._numel *)

Fixpoint list_eq_nat (a b : list nat) {struct a} : bool :=
  match a, b with
  | [], [] => true
  | x :: a', y :: b' => Nat.eqb x y && list_eq_nat a' b'
  | _, _ => false
  end.

Definition same_keys (a b : list pn) : bool :=
  forallb (fun kn => pmem (fst kn) (map fst b)) a && forallb (fun kn => pmem (fst kn) (map fst a)) b.

Fixpoint stack_copies (fuel : nat) (lggs : list axis) (ks : list pn) (inner : nat) (i : nat) (ts : list ptensor)
                      (next : positive) (st : nat -> V) : res (nat -> V) :=
  match ts with
  | [] => Ok st
  | t :: ts' =>
      r <- unify_list fuel lggs (vaxes t) {| us_subst := []; us_next := next; us_warn := false |} ;;
      if negb (fst r) then Fail OtherError                     (* raise AssertionError *)
      else
        let sigma := us_subst (snd r) in
        let f2 := fuel + length sigma + 2 in
        px <- mapM (lookup_pn (S (length sigma)) sigma) (paxes t) ;;
        sub <- fv_list f2 sigma (paxes_axes' ks) ;;
        if negb (same_keys sub px && list_eq_nat (map snd px) (map snd (paxes t)))
        then Fail OtherError
        else
          st' <- write_all px
                   (fun rho => offs <- at_axes f2 sigma rho (paxes_axes' ks) ;; Ok (i * inner + flat_offset (map snd ks) offs))
                   (fun rho => Ok (Some (physical t (pcoords px rho))))
                   st ;;
          stack_copies fuel lggs ks inner (S i) ts' next st'
  end.

Definition pt_stack (veqb : V -> V -> bool) (dim : nat) (next : positive) (ts : list ptensor) : res (ptensor * positive) :=
  match ts with
  | [] => Fail OtherError
  | [h] => Ok (mkPT (physical h) (paxes h) (insert_nth dim unitAxis (vaxes h)) (default h), next)
  | h :: tail =>
      if negb (forallb (fun t => list_eq_nat (shape V t) (shape V h) && veqb (default t) (default h)) tail)
      then Fail OtherError                                       (* assert *)
      else
        let fuel := 6 * (fold_right (fun t acc => asize_list (vaxes t) + acc) 0 ts) + 10 in
        r <- stack_lggs fuel (vaxes h) tail next [] ;;
        let '(lggs, last, nx) := r in
        let k := nx in
        let n := length ts in
        let ks := map (fun en => match en with (g, m, _, _) => (g, m) end) last in
        let inner := prodl' (map snd ks) in
        st <- stack_copies fuel lggs ks inner 0 ts (Pos.succ k) (fun _ => default h) ;;
        Ok (mkPT (fun idx => st (flat_offset (n :: map snd ks) idx)) ((k, n) :: ks) (insert_nth dim (Phys k n) lggs) (default h),
            Pos.succ k)
  end.

(** * [broadcast(vaxess)] for three operands, and [where(t, c, u)] *)
Definition hd_unit (l : list axis) : axis := match l with [] => unitAxis | x :: _ => x end.
Fixpoint zip_rows (n : nat) (ls : list (list axis)) : list (list axis) :=
  match n with O => [] | S n' => map hd_unit ls :: zip_rows n' (map (@tl axis) ls) end.

(** one aligned position: every operand whose size differs from [N] gets a fresh axis *)
Fixpoint bc_row (es : list axis) (N : nat) (next : positive) : list (axis * option pn) * positive :=
  match es with
  | [] => ([], next)
  | e :: es' =>
      if Nat.eqb (numel e) N then let '(r, nx) := bc_row es' N next in ((e, None) :: r, nx)
      else let k := Phys next N in
           let e' := if is_unit e then k else productAxis [e; k] in
           let '(r, nx) := bc_row es' N (Pos.succ next) in ((e', Some (next, N)) :: r, nx)
  end.

Definition row_size (ns : list nat) : option nat :=
  match filter (fun n => negb (Nat.eqb n 1)) ns with
  | [] => Some 1
  | N :: rest => if forallb (Nat.eqb N) rest then Some N else None
  end.

(** accumulators: per operand (vaxes', new paxes), both built with [insert(0, _)] *)
Fixpoint bc_rows (rows : list (list axis)) (acc : list (list axis * list pn)) (next : positive)
  : res (list (list axis * list pn) * positive) :=
  match rows with
  | [] => Ok (acc, next)
  | es :: rows' =>
      match row_size (map numel es) with
      | None => Fail OtherError                                   (* RuntimeError: Size mismatch *)
      | Some N =>
          let '(r, nx) := bc_row es N next in
          bc_rows rows' (map (fun ae => let '((vs, ps), (e, k)) := ae in
                                        (e :: vs, match k with Some kn => kn :: ps | None => ps end))
                             (combine acc r)) nx
      end
  end.

Definition broadcast_model (vss : list (list axis)) (next : positive) : res (list (list axis * list pn) * positive) :=
  let n := fold_right (fun l acc => Nat.max (length l) acc) 0 vss in
  bc_rows (zip_rows n (map (@rev axis) vss)) (map (fun _ => ([], [])) vss) next.

Definition disjoint_b (a b : list pn) : bool := negb (existsb (fun kn => pmem (fst kn) (map fst b)) a).

Definition pt_where (truth : V -> bool) (next : positive) (t c u : ptensor) : res (ptensor * positive) :=
  let cd := truth (default c) in
  let '(t, u) := if cd then (u, t) else (t, u) in
  let '(t, next) := if disjoint_b (paxes t) (paxes c) then (t, next) else pt_freshen V next t in
  b <- broadcast_model [vaxes t; vaxes c; vaxes u] next ;;
  match b with
  | ([(t_vaxes, _); (c_vaxes, c_new); (u_vaxes, u_new)], next) =>
      let c_paxes := c_new ++ paxes c in
      let u_paxes := u_new ++ paxes u in
      let fuel := 6 * (asize_list t_vaxes + asize_list c_vaxes + asize_list u_vaxes) + 10 in
      r <- unify_list fuel c_vaxes t_vaxes {| us_subst := []; us_next := next; us_warn := false |} ;;
      let success := fst r in
      let sigma := us_subst (snd r) in
      let next := us_next (snd r) in
      let f2 := fuel + length sigma + 2 in
      (* the free axes of c's (extended) paxes under the unifier, and the fullness test *)
      ksc <- (if success then fv_list f2 sigma (paxes_axes' (paxes c)) else Ok []) ;;
      ksn <- (if success then fv_list f2 sigma (paxes_axes' c_new) else Ok []) ;;
      let ks := dedup [] (ksc ++ ksn) in
      looks <- (if success then mapM (fun kn => lookup (S (length sigma)) sigma (Phys (fst kn) (snd kn))) c_paxes else Ok []) ;;
      let full := success && forallb is_phys looks
                  && Nat.eqb (length (dedup [] (flat_map fvn looks))) (length c_paxes) in
      kst <- (if success then fv_list f2 sigma (paxes_axes' (paxes t)) else Ok []) ;;
      (* project(t.physical, ks restricted to kst, t.paxes, subst): the free axes of t must all be among ks *)
      if success && negb (forallb (fun kn => pmem (fst kn) (map fst ks)) kst) then Fail OtherError else
      (* expand u to c *)
      a <- antiunify_list fuel c_vaxes u_vaxes {| as_list := []; as_next := next; as_warn := false |} ;;
      let '(lggs, ast) := a in
      let gs := map (fun en => match en with (g, m, _, _) => (g, m) end) (as_list ast) in
      let ecs := map (fun en => match en with (_, _, e, _) => e end) (as_list ast) in
      let eus := map (fun en => match en with (_, _, _, f) => f end) (as_list ast) in
      let shp := map snd gs in
      let U1 := expanded V (length u_new) u_paxes eus u in
      ud <- to_dense_store V U1 ;;
      let cnd := fun v => xorb (truth v) cd in
      let fa := S (asize_list ecs) in
      eks0 <- fv_list fa [] ecs ;;
      eks <- (if success then fv_list f2 sigma ecs else Ok []) ;;
      (* project(ud, c_paxes, ecs, {}) and project(ud, ks, ecs, subst) check the free axes of ecs *)
      if (negb full && negb (same_keys eks0 c_paxes)) || (success && negb (same_keys eks ks)) then Fail OtherError else
      (* fill with t.default where c selects t, unless the region of t covers that of c *)
      ud <- (if full then Ok ud
             else write_all c_paxes
                    (fun rho => offs <- at_axes fa [] rho ecs ;; Ok (flat_offset shp offs))
                    (fun rho => Ok (if cnd (physical c (pcoords (paxes c) rho)) then Some (default t) else None))
                    ud) ;;
      (* copy the matched part of t *)
      ud <- (if success
             then write_all ks
                    (fun rho => offs <- at_axes f2 sigma rho ecs ;; Ok (flat_offset shp offs))
                    (fun rho => cc <- at_axes f2 sigma rho (paxes_axes' (paxes c)) ;;
                                tc <- at_axes f2 sigma rho (paxes_axes' (paxes t)) ;;
                                Ok (if cnd (physical c cc) then Some (physical t tc) else None))
                    ud
             else Ok ud) ;;
      Ok (mkPT (fun g => ud (flat_offset shp g)) gs lggs (default u), as_next ast)
  | _ => Fail OtherError
  end.

(** * [reshape_or_view] *)
Fixpoint goal_axes (s : list nat) (next : positive) : list axis * positive :=
  match s with
  | [] => ([], next)
  | g :: s' => if Nat.eqb g 1 then let '(r, nx) := goal_axes s' next in (unitAxis :: r, nx)
               else let '(r, nx) := goal_axes s' (Pos.succ next) in (Phys next g :: r, nx)
  end.

Definition phys_pn (e : axis) : res pn := match e with Phys k n => Ok (k, n) | _ => Fail OtherError end.

(** coordinates of the old storage from those of the re-factored one: each old axis is the mixed
    radix number of its prime factors *)
Fixpoint regroup (groups : list (list pn)) (idx : list nat) : list nat :=
  match groups with
  | [] => []
  | g :: groups' =>
      fold_left (fun acc ni => acc * fst ni + snd ni) (combine (map snd g) (firstn (length g) idx)) 0
      :: regroup groups' (skipn (length g) idx)
  end.

(** [inferred]: position of a [-1] entry plus one, or 0 *)
Definition pt_reshape (inferred : nat) (s : list nat) (next : positive) (t : ptensor) : res (ptensor * positive) :=
  let nel := prodl' (shape V t) in
  if Nat.eqb nel (pnumel (paxes t)) && (nel <=? 1) then
    s <- (match inferred with
          | O => if Nat.eqb (prodl' s) nel then Ok s else Fail OtherError            (* torch: invalid shape *)
          | S i => let others := prodl' (remove_nth i s) in
                   if Nat.eqb others 0 || negb (Nat.eqb (nel mod others) 0) then Fail OtherError
                   else Ok (replace_nth i (nel / others) s)
          end) ;;
    Ok (pt_of_dense V s (fun _ => physical t (map (fun _ => 0) (paxes t))) (default t) next)
  else
    s <- (match inferred with
          | O => Ok s
          | S i => let others := prodl' (remove_nth i s) in
                   if Nat.eqb others 0 then Fail ZeroDivisionError else Ok (replace_nth i (nel / others) s)
          end) ;;
    if negb (Nat.eqb nel (prodl' s)) then Fail OtherError                           (* assert *)
    else
      let '(goals, nx) := goal_axes s next in
      let fuel := 6 * (asize_list goals + asize_list (vaxes t)) + 12 in
      r <- unify fuel (productAxis goals) (productAxis (vaxes t)) {| us_subst := []; us_next := nx; us_warn := false |} ;;
      if negb (fst r) then Fail OtherError                                            (* RuntimeError *)
      else
        let sigma := us_subst (snd r) in
        let f2 := fuel + length sigma + 2 in
        groups <- mapM (fun kn => pf <- prime_factors f2 sigma (Phys (fst kn) (snd kn)) ;; mapM phys_pn pf) (paxes t) ;;
        vs <- mapM (clone f2 sigma) goals ;;
        if negb (list_eq_nat (map numel vs) s)                                         (* assert *)
           || negb (list_eq_nat (map (fun g => prodl' (map snd g)) groups) (map snd (paxes t)))   (* torch: reshape *)
        then Fail OtherError
        else Ok (mkPT (fun idx => physical t (regroup groups idx)) (concat groups) vs (default t), us_next (snd r)).

End Ops.
