(** Check function for the operations modelled in Model/PTensorOps.v, over the carrier [xval]
    (same wire format and verdict convention as [PTensorCheck.pt_check]):
      50 where(t, c, u)      51 stack(ts, dim)        52 any(dim, keepdim)   53 dim_to_dense(dim)
      54 project(paxes, vaxes) (the target pattern is the last wire tensor, without values)
      55 reshape / 56 view   (na = must_succeed :: inferred :: sizes)
      57 copy_ (ts = [dst; src]; na = same_dtype :: reused_storage :: ndim :: sizes ++ strides of dst.physical)
      58 to(dtype)           (na = [0] float, [1] bool)
      59 __iter__            (result = the slices stacked along a new leading dimension)
    result tag: 0 value, 1 ZeroDivisionError, 2 RuntimeError, 3 any other exception. *)
From Coq Require Import List Arith Lia PeanoNat Bool PArith QArith Qcanon.
Import ListNotations.
Require Import Fggs.Model.Axis Fggs.Model.AxisCheck Fggs.Model.XVal Fggs.Model.PTensor Fggs.Model.PTensorCheck Fggs.Model.PTensorOps.
Local Open Scope nat_scope.

(** Python's [==] on the defaults ([assert default == t.default] in [stack]): NaN differs from itself *)
Definition xeq_py (a b : xval) : bool := xeq_num a b.

Definition cvt_of (code : nat) : xval -> xval :=
  match code with O => (fun x => x) | _ => (fun x => xbool (xtruth x)) end.

Fixpoint unflat (shp : list nat) (i : nat) : list nat :=
  match shp with
  | [] => []
  | _ :: shp' => let p := fold_right Nat.mul 1 shp' in (i / p) :: unflat shp' (i mod p)
  end.

Definition infer_shape (inferred : nat) (s : list nat) (numel : nat) : option (list nat) :=
  match inferred with
  | O => Some s
  | S i => let others := fold_right Nat.mul 1 (remove_nth i s) in
           if Nat.eqb others 0 then None else Some (replace_nth i (numel / others) s)
  end.

Definition same_shapes (ts : list pt) : bool :=
  match ts with [] => true | h :: tl => forallb (fun t => list_eqb Nat.eqb (shape xval t) (shape xval h)) tl end.

Definition spec_op2 (op : nat) (na : list nat) (ts : list pt) (tgt : list pn * list axis) : outcome :=
  match ts with
  | [] => OBad
  | t :: rest =>
      let shp := shape xval t in
      let D := dspec t in
      match op with
      | 50 => match rest with
              | [c; u] =>
                  match bshape shp (shape xval c) with
                  | Some s1 =>
                      match bshape s1 (shape xval u) with
                      | Some s2 => OVal s2 (fun idx => if xtruth (dspec c (bidx (shape xval c) idx)) then D (bidx shp idx)
                                                       else dspec u (bidx (shape xval u) idx))
                      | None => OBad
                      end
                  | None => OBad
                  end
              | _ => OBad
              end
      | 51 => let dim := nth 0 na 0 in
              if same_shapes ts && (dim <=? length shp)
              then OVal (insert_nth dim (length ts) shp)
                        (fun idx => match nth_error ts (nth dim idx 0) with Some ti => dspec ti (remove_nth dim idx) | None => XNaN end)
              else OBad
      | 52 => let dim := nth 0 na 0 in let keep := negb (Nat.eqb (nth 1 na 0) 0) in
              if dim <? length shp then
                let n := nth dim shp 0 in
                OVal (if keep then replace_nth dim 1 shp else remove_nth dim shp)
                     (fun idx' => xbool (existsb (fun i => xtruth (D (if keep then replace_nth dim i idx' else insert_nth dim i idx')))
                                                 (seq 0 n)))
              else OBad
      | 53 => if nth 0 na 0 <? length shp then OVal shp D else OBad
      | 54 => let '(pax, vax) := tgt in
              if Nat.eqb (length vax) (length shp) && list_eqb Nat.eqb (map numel vax) shp
              then OVal (map snd pax) (fun kappa => D (evals (env_of (combine (map fst pax) kappa)) vax))
              else OBad
      | 55 | 56 =>
          let numel := fold_right Nat.mul 1 shp in
          match infer_shape (nth 1 na 0) (skipn 2 na) numel with
          | Some s => if Nat.eqb (fold_right Nat.mul 1 s) numel
                      then OVal s (fun idx' => D (unflat shp (flat_offset s idx'))) else OBad
          | None => OBad
          end
      | 57 => match rest with src :: _ => OVal (shape xval src) (dspec src) | [] => OBad end
      | 58 => OVal shp (fun idx => cvt_of (nth 0 na 0) (D idx))
      | 59 => match shp with [] => OBad | _ => OVal shp D end
      | _ => OBad
      end
  end.

Definition dense_of (r : pt) : res (list nat * list xval) :=
  match model_dense r with Some vals => Ok (shape xval r, vals) | None => Fail OutOfFuel end.

Definition model_op2 (op : nat) (na : list nat) (ts : list pt) (tgt : list pn * list axis) (next : positive)
  : res (list nat * list xval) :=
  match ts with
  | [] => Fail OtherError
  | t :: rest =>
      match op with
      | 50 => match rest with
              | [c; u] => r <- pt_where xval xtruth next t c u ;; r' <- post_init xval (fst r) ;; dense_of r'
              | _ => Fail OtherError
              end
      | 51 => r <- pt_stack xval xeq_py (nth 0 na 0) next ts ;; r' <- post_init xval (fst r) ;; dense_of r'
      | 52 => r <- pt_any xval xtruth xbool (nth 0 na 0) (negb (Nat.eqb (nth 1 na 0) 0)) t ;; r' <- post_init xval r ;; dense_of r'
      | 53 => r <- pt_dim_to_dense xval (nth 0 na 0) next t ;; r' <- post_init xval (fst r) ;; dense_of r'
      | 54 => r <- pt_project xval (fst tgt) (snd tgt) next t ;;
              Ok (fst r, map (fun idx => snd r (flat_offset (fst r) idx)) (all_idx (fst r)))
      | 55 | 56 => r <- pt_reshape xval (nth 1 na 0) (skipn 2 na) next t ;; r' <- post_init xval (fst r) ;; dense_of r'
      | 57 => match rest with src :: _ => dense_of (fst (pt_copy xval next src)) | [] => Fail OtherError end
      | 58 => dense_of (pt_to xval (cvt_of (nth 0 na 0)) t)
      | 59 => l <- pt_iter xval next t ;;
              ds <- mapM (fun r => r' <- post_init xval r ;; dense_of r') l ;;
              Ok (length l :: match ds with d :: _ => fst d | [] => tl (shape xval t) end, concat (map snd ds))
      | _ => Fail OtherError
      end
  end.

(** the storage re-use rule of [copy_], from the sizes and strides of the destination *)
Definition copy_flag_ok (na : list nat) (src : pt) : bool :=
  let nd := nth 2 na 0 in
  let sizes := firstn nd (skipn 3 na) in
  let strides := firstn nd (skipn (3 + nd) na) in
  Bool.eqb (copy_reuses (combine sizes strides) (pnumel (paxes src)) (negb (Nat.eqb (nth 0 na 0) 0)))
           (negb (Nat.eqb (nth 1 na 0) 0)).

Definition split_last {A} (l : list A) : list A * option A :=
  match rev l with [] => ([], None) | x :: r => (rev r, Some x) end.

Definition pt_check2 (x : nat * list nat * list wx * list wtensor * wresult) : nat :=
  let '(op, na, sc, wts, (tag, i_shp, i_flat)) := x in
  let '(ops, tgt) :=
    if Nat.eqb op 54 then match split_last wts with
                          | (l, Some (ps, vs, _, _)) => (l, (ps, vs))
                          | (l, None) => (l, ([], []))
                          end
    else (wts, ([], [])) in
  if negb (forallb wire_ok ops) then 20
  else
    let ts := map of_wire ops in
    let i_vals := map xval_of i_flat in
    let is_reshape := Nat.eqb op 55 || Nat.eqb op 56 in
    let oracle :=
      match spec_op2 op na ts tgt with
      | OVal shp f =>
          match tag with
          | 0 => if negb (list_eqb Nat.eqb shp i_shp) then 1
                 else if list_eqb (xclose false) (map f (all_idx shp)) i_vals then 0 else 2
          | 1 => 3
          | 2 => if is_reshape then (if Nat.eqb (nth 0 na 0) 0 then 0 else 5) else 4
          | _ => 4
          end
      | _ => 0
      end in
    if negb (Nat.eqb oracle 0) then oracle
    else
      match model_op2 op na ts tgt (Pos.succ (max_uid wts)), tag with
      | Ok (shp, vals), 0 =>
          if negb (list_eqb Nat.eqb shp i_shp) then 10
          else if negb (list_eqb (xclose false) vals i_vals) then 11
          else if Nat.eqb op 57 && negb (match ts with _ :: src :: _ => copy_flag_ok na src | _ => false end) then 15
          else 0
      | Fail ZeroDivisionError, 1 => 0
      | Fail OutOfFuel, _ => 12
      | Fail _, 0 => 13
      | Ok _, _ => 14
      | Fail _, _ => 0
      end.

(** one check function per group of operations (verdict 21: operation not in the group) *)
Definition in_group (ops : list nat) (x : nat * list nat * list wx * list wtensor * wresult) : bool :=
  let '(op, _, _, _, _) := x in existsb (Nat.eqb op) ops.
Definition pt_check_select (x : nat * list nat * list wx * list wtensor * wresult) : nat :=
  if in_group [50; 51] x then pt_check2 x else 21.
Definition pt_check_reduce (x : nat * list nat * list wx * list wtensor * wresult) : nat :=
  if in_group [52; 53; 54; 59] x then pt_check2 x else 21.
Definition pt_check_reshape (x : nat * list nat * list wx * list wtensor * wresult) : nat :=
  if in_group [55; 56] x then pt_check2 x else 21.
Definition pt_check_storage (x : nat * list nat * list wx * list wtensor * wresult) : nat :=
  if in_group [57; 58] x then pt_check2 x else 21.
