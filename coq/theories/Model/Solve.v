(** C09 -- model of the dense linear solvers of fggs/semirings.py
    ([Semiring.solve] = [Semiring.solve_thunks] on clones, [RealSemiring.solve_thunks])
    and the executable oracles that judge an implementation output.
    Definitions only; proofs are in Proofs/Solve*.v.

    Vectors and matrices are lists (of lists) read through total accessors
    [get1]/[get2] (default: the semiring zero) and written by tabulation
    [tab1]/[tab2] over the index range [0, n): every whole-array statement of the
    Python loop is one tabulated assignment.  Lemmas [get1_tab1]/[get2_tab2]
    (Proofs/SolveRefine.v) show that the default is never read for in-range
    indices. *)
From Coq Require Import List Arith Bool PeanoNat QArith Qcanon.
Import ListNotations.
Require Import Fggs.Model.Semiring Fggs.Model.EReal Fggs.Model.Trop.
Local Open Scope nat_scope.

(** the same semiring with another star (used to run the model with the star the code has) *)
Definition with_star {S} (o : sr_ops S) (st : S -> S) : sr_ops S :=
  {| zero := zero o; one := one o; add := add o; mul := mul o; star := st; le := le o |}.

Section Dense.
Context {S : Type} (o : sr_ops S).

Definition vec := list S.
Definition mat := list (list S).
Definition get1 (v : vec) (i : nat) : S := nth i v (zero o).
Definition get2 (A : mat) (i j : nat) : S := nth j (nth i A []) (zero o).
Definition tab1 (n : nat) (f : nat -> S) : vec := map f (seq 0 n).
Definition tab2 (n m : nat) (f : nat -> nat -> S) : mat :=
  map (fun i => map (f i) (seq 0 m)) (seq 0 n).
Definition sum_n (n : nat) (f : nat -> S) : S := sum_list o (map f (seq 0 n)).
Definition col (n : nat) (X : mat) (c : nat) : vec := tab1 n (fun i => get2 X i c).

(** * [Semiring.solve_thunks]: one pass [k] of [for k in range(a.shape[0])] *)
(** [a[:,k] = self.mul(a[:,k], self.star(a[k,k]))] *)
Definition gj_scale (n k : nat) (A : mat) : mat :=
  let s := star o (get2 A k k) in
  tab2 n n (fun i j => if Nat.eqb j k then mul o (get2 A i k) s else get2 A i j).
(** [self.add_(a[:,k+1:], self.mul(a[:,k,None], a[k,k+1:]))]; the product is a fresh tensor,
    so every read sees the matrix as it was before this statement *)
Definition gj_rank1 (n k : nat) (A : mat) : mat :=
  tab2 n n (fun i j => if Nat.ltb k j
                       then add o (get2 A i j) (mul o (get2 A i k) (get2 A k j))
                       else get2 A i j).
(** [x.ndim == 1]: [self.add_(x, self.mul(a[:,k], x[k]))] *)
Definition gj_xvec (n k : nat) (A : mat) (x : vec) : vec :=
  tab1 n (fun i => add o (get1 x i) (mul o (get2 A i k) (get1 x k))).
(** [x.ndim == 2]: [self.add_(x, self.mul(a[:,k,None], x[k]))] *)
Definition gj_xmat (n m k : nat) (A : mat) (X : mat) : mat :=
  tab2 n m (fun i c => add o (get2 X i c) (mul o (get2 A i k) (get2 X k c))).

Definition gj_astep (n k : nat) (A : mat) : mat := gj_rank1 n k (gj_scale n k A).
Definition gj_step_vec (n : nat) (st : mat * vec) (k : nat) : mat * vec :=
  let A2 := gj_astep n k (fst st) in (A2, gj_xvec n k A2 (snd st)).
Definition gj_step_mat (n m : nat) (st : mat * mat) (k : nat) : mat * mat :=
  let A2 := gj_astep n k (fst st) in (A2, gj_xmat n m k A2 (snd st)).

Definition solve_model (n : nat) (A : mat) (b : vec) : vec :=
  snd (fold_left (gj_step_vec n) (seq 0 n) (A, b)).
Definition solve_model_mat (n m : nat) (A : mat) (B : mat) : mat :=
  snd (fold_left (gj_step_mat n m) (seq 0 n) (A, B)).

(** the pivots [a[k,k]] on which [star] is called, in order (guard of finding F2) *)
Fixpoint gj_pivots (n : nat) (ks : list nat) (A : mat) : list S :=
  match ks with
  | [] => []
  | k :: ks => get2 A k k :: gj_pivots n ks (gj_astep n k A)
  end.

(** * products, the map x |-> A x + b, the series sum_{k<=N} A^k b *)
(** [Semiring.mv]: [sum(mul(a, b), dim=1)] *)
Definition mv_model (n m : nat) (A : mat) (x : vec) : vec :=
  tab1 n (fun i => sum_n m (fun j => mul o (get2 A i j) (get1 x j))).
Definition mm_model (p q r : nat) (A B : mat) : mat :=
  tab2 p r (fun i k => sum_n q (fun j => mul o (get2 A i j) (get2 B j k))).
Definition transpose_model (p q : nat) (A : mat) : mat := tab2 q p (fun i j => get2 A j i).
Definition vadd_model (n : nat) (u v : vec) : vec := tab1 n (fun i => add o (get1 u i) (get1 v i)).
Definition madd_model (n m : nat) (U V : mat) : mat := tab2 n m (fun i j => add o (get2 U i j) (get2 V i j)).

Definition affine (n : nat) (A : mat) (b x : vec) : vec :=
  tab1 n (fun i => add o (sum_n n (fun j => mul o (get2 A i j) (get1 x j))) (get1 b i)).
(** Horner form of sum_{k<=N} A^k b: s_0 = b, s_{N+1} = A s_N + b *)
Fixpoint series (n : nat) (A : mat) (b : vec) (N : nat) : vec :=
  match N with 0 => tab1 n (get1 b) | Datatypes.S N => affine n A b (series n A b N) end.
(** the literal power sum, for reference: p_0 = b, p_{k+1} = A p_k, sum of p_0..p_N *)
Fixpoint power_term (n : nat) (A : mat) (b : vec) (k : nat) : vec :=
  match k with 0 => tab1 n (get1 b) | Datatypes.S k => mv_model n n A (power_term n A b k) end.
Fixpoint power_sum (n : nat) (A : mat) (b : vec) (N : nat) : vec :=
  match N with
  | 0 => power_term n A b 0
  | Datatypes.S N => vadd_model n (power_sum n A b N) (power_term n A b (Datatypes.S N))
  end.

(** * executable oracles (exact carriers): [eqb]/[leb] decide equality and the order *)
Variables (eqb leb : S -> S -> bool).
Definition vec_all2 (r : S -> S -> bool) (n : nat) (x y : vec) : bool :=
  forallb (fun i => r (get1 x i) (get1 y i)) (seq 0 n).
(** x = A x + b, exactly *)
Definition is_solution_b (n : nat) (A : mat) (b x : vec) : bool :=
  vec_all2 eqb n x (affine n A b x).
(** lower bound: sum_{k<=N} A^k b <= x *)
Definition series_le_b (n : nat) (A : mat) (b : vec) (N : nat) (x : vec) : bool :=
  vec_all2 leb n (series n A b N) x.
(** [u] is a pre-solution: A u + b <= u *)
Definition presol_b (n : nat) (A : mat) (b u : vec) : bool :=
  vec_all2 leb n (affine n A b u) u.
(** upper-bound certificate: if [u] is a pre-solution, the least solution is below it;
    [true] when the certificate is not a pre-solution (nothing is claimed then) *)
Definition cert_le_b (n : nat) (A : mat) (b u x : vec) : bool :=
  negb (presol_b n A b u) || vec_all2 leb n x u.
(** [x] is the least solution: a solution that is below the model's answer *)
Definition is_least_solution_b (n : nat) (A : mat) (b x : vec) : bool :=
  is_solution_b n A b x && vec_all2 leb n x (solve_model n A b).

End Dense.

Arguments vec S : clear implicits.
Arguments mat S : clear implicits.

(** * The verdict of one dense case on an exact carrier.
    [oc] = the operations as coded (its star may be wrong), [ot] = the semiring proper.
    Input: (n, m, A, B, X, U): [m = 0] means a vector right-hand side (then B, X, U are
    n x 1 and column 0 is the vector), otherwise n x m matrices.  X = implementation output,
    U = a candidate pre-solution supplied by the harness (upper-bound certificate).
    Codes: 0 ok; 1 X is not a solution of x = A x + b; 2 the N-step series is not below X;
    3 X is not below the certified pre-solution U; 4 X is a solution but not the least one;
    6 as 4, X equals the model run with the star of the code, and a pivot is exactly the
    semiring one (finding F2: ViterbiSemiring.star(0) = inf); 10 X is the least solution
    but differs from the model run with the star of the code; 12 internal: shape. *)
Section ExactCheck.
Context {S : Type} (oc ot : sr_ops S) (eqb leb : S -> S -> bool).

Definition shape_ok (n m : nat) (X : mat S) : bool :=
  Nat.eqb (length X) n && forallb (fun r => Nat.eqb (length r) m) X.

Definition col_verdict (n : nat) (A : mat S) (b x u xcode : vec S) (pivot_one : bool) : nat :=
  if negb (is_solution_b ot eqb n A b x) then 1
  else if negb (series_le_b ot leb n A b (Datatypes.S n) x) then 2
  else
    let cert_ok := cert_le_b ot leb n A b u x in
    if negb cert_ok || negb (vec_all2 ot leb n x (solve_model ot n A b))
    then (if pivot_one && vec_all2 ot eqb n x xcode then 6 else if cert_ok then 4 else 3)
    else if negb (vec_all2 ot eqb n x xcode) then 10
    else 0.

Fixpoint first_nonzero (l : list nat) : nat :=
  match l with [] => 0 | 0 :: l => first_nonzero l | c :: _ => c end.

Definition dense_check_exact (x : nat * nat * mat S * mat S * mat S * mat S) : nat :=
  let '(n, m, A, B, X, U) := x in
  let m' := Nat.max m 1 in
  if negb (shape_ok n n A && shape_ok n m' B && shape_ok n m' X && shape_ok n m' U) then 12
  else
    let pivot_one := existsb (fun p => eqb p (one ot)) (gj_pivots oc n (seq 0 n) A) in
    let Xcode := if Nat.eqb m 0
                 then tab2 n 1 (fun i _ => get1 ot (solve_model oc n A (col ot n B 0)) i)
                 else solve_model_mat oc n m A B in
    first_nonzero (map (fun c => col_verdict n A (col ot n B c) (col ot n X c) (col ot n U c)
                                             (col ot n Xcode c) pivot_one)
                       (seq 0 m')).
End ExactCheck.

(** * carriers *)
(** ViterbiSemiring.star as it was coded before /repo commit d2ec7af ("fix: ViterbiSemiring.star(0)
    is 0, not inf"): [torch.where(x >= 0, inf, 0.)] (finding F2: at x = 0 the correct value is
    0).  The current code, [torch.where(x > 0, inf, 0.)], is [Trop.tstar]; the correspondence
    runs the model with [trop_ops].  The former star is kept for the theorems that document F2
    (Proofs/SolveCarriers.v). *)
Definition tstar_code (x : trop) : trop :=
  match x with
  | NInf => TFin 0%Qc
  | TFin a => if Qle_bool 0%Q (this a) then TPInf else TFin 0%Qc
  | TPInf => TPInf
  end.
Definition trop_code_ops : sr_ops trop := with_star trop_ops tstar_code.
Definition bool_leb (a b : bool) : bool := implb a b.

Definition dense_check_trop (x : nat * nat * list (list (nat * Q)) * list (list (nat * Q))
                                 * list (list (nat * Q)) * list (list (nat * Q))) : nat :=
  let '(n, m, A, B, X, U) := x in
  let f := map (map trop_of) in
  dense_check_exact trop_ops trop_ops teqb tleb (n, m, f A, f B, f X, f U).

Definition dense_check_bool (x : nat * nat * list (list bool) * list (list bool)
                                 * list (list bool) * list (list bool)) : nat :=
  dense_check_exact bool_ops bool_ops Bool.eqb bool_leb x.

(** * approximate carrier (Real, and Log read through exp): the implementation's entries
    are floats; the harness passes each as (tag, value, tol) with tag 0 = finite (exact
    rational value of the float, absolute tolerance), 1 = +inf, anything else = nan/-inf/negative
    (not a value of the carrier). *)
Definition obs := (nat * Q * Q)%type.
Definition obs_val (e : obs) : option ereal :=
  let '(t, v, _) := e in
  match t with
  | 0 => if Qle_bool 0%Q v then Some (Fin (nn_of_Q v)) else None
  | 1 => Some PInf
  | _ => None
  end.
(** the exact value [x] lies within [k] tolerances of the observation *)
Definition obs_near (k : Q) (e : obs) (x : ereal) : bool :=
  let '(t, v, tol) := e in
  match t with
  | 0 => ereal_within x (v - k * tol)%Q (Some (v + k * tol)%Q)
  | 1 => match x with PInf => true | Fin _ => false end
  | _ => false
  end.
(** [x <= e + k tol] and [e - k tol <= x] *)
Definition obs_ge (k : Q) (e : obs) (x : ereal) : bool :=
  let '(t, v, tol) := e in
  match t with
  | 0 => match x with Fin a => Qle_bool (this (qv a)) (v + k * tol)%Q | PInf => false end
  | 1 => true
  | _ => false
  end.
Definition obs_le (k : Q) (e : obs) (x : ereal) : bool :=
  let '(t, v, tol) := e in
  match t with
  | 0 => match x with Fin a => Qle_bool (v - k * tol)%Q (this (qv a)) | PInf => true end
  | 1 => match x with PInf => true | Fin _ => false end
  | _ => false
  end.

Definition is_inf (x : ereal) : bool := match x with PInf => true | Fin _ => false end.
(** a finite observation of at least 10^12 (float evaluation of a divergent system) *)
Definition obs_huge (e : obs) : bool :=
  let '(t, v, _) := e in
  match t with 0 => Qle_bool (1000000000000 # 1) v | _ => false end.

Definition obs_vec (n : nat) (X : list (list obs)) (c : nat) : option (vec ereal) :=
  let l := map (fun i => obs_val (nth c (nth i X []) (2, 0%Q, 0%Q))) (seq 0 n) in
  if forallb (fun v => match v with Some _ => true | None => false end) l
  then Some (map (fun v => match v with Some x => x | None => PInf end) l) else None.
Definition obs_at (X : list (list obs)) (i c : nat) : obs := nth c (nth i X []) (2, 0%Q, 0%Q).

(** codes as [dense_check_exact], with tolerances: 1 also covers "not a carrier value";
    4 = some entry exceeds the least solution by more than the tolerance; 10 = some entry is
    below the least solution by more than the tolerance (cannot be a solution); 8 = as 10, but
    every such entry is finite and >= 10^12 where the least solution is +inf (the series
    diverges and the float computation returned a rounding residue instead of +inf) *)
Definition col_verdict_ereal (n : nat) (A : mat ereal) (b u : vec ereal) (X : list (list obs)) (c : nat) : nat :=
  match obs_vec n X c with
  | None => 1
  | Some x =>
    let r := affine ereal_ops n A b x in
    if negb (forallb (fun i => obs_near 4%Q (obs_at X i c) (get1 ereal_ops r i)) (seq 0 n)) then 1
    else
    let s := series ereal_ops n A b (S n) in
    if negb (forallb (fun i => obs_ge 1%Q (obs_at X i c) (get1 ereal_ops s i)) (seq 0 n)) then 2
    else if presol_b ereal_ops eleb n A b u
            && negb (forallb (fun i => obs_le 1%Q (obs_at X i c) (get1 ereal_ops u i)) (seq 0 n)) then 3
    else
    let mu := solve_model ereal_ops n A b in
    if negb (forallb (fun i => obs_le 1%Q (obs_at X i c) (get1 ereal_ops mu i)) (seq 0 n)) then 4
    else if negb (forallb (fun i => obs_near 1%Q (obs_at X i c) (get1 ereal_ops mu i)) (seq 0 n))
    then (if forallb (fun i => obs_near 1%Q (obs_at X i c) (get1 ereal_ops mu i)
                               || (is_inf (get1 ereal_ops mu i) && obs_huge (obs_at X i c))) (seq 0 n)
          then 8 else 10)
    else 0
  end.

Definition emat_of (A : list (list (option Q))) : mat ereal := map (map ereal_of) A.

Definition dense_check_ereal (x : nat * nat * list (list (option Q)) * list (list (option Q))
                                  * list (list obs) * list (list (option Q))) : nat :=
  let '(n, m, A, B, X, U) := x in
  let m' := Nat.max m 1 in
  let A := emat_of A in let B := emat_of B in let U := emat_of U in
  if negb (shape_ok n n A && shape_ok n m' B && shape_ok n m' U
           && Nat.eqb (length X) n && forallb (fun r => Nat.eqb (length r) m') X) then 12
  else
    (* the matrix code path and the vector code path of the model must agree column by column *)
    let Xm := if Nat.eqb m 0 then tab2 n 1 (fun i _ => get1 ereal_ops (solve_model ereal_ops n A (col ereal_ops n B 0)) i)
              else solve_model_mat ereal_ops n m A B in
    if negb (forallb (fun c => vec_all2 ereal_ops eeqb n (col ereal_ops n Xm c)
                                        (solve_model ereal_ops n A (col ereal_ops n B c))) (seq 0 m')) then 13
    else first_nonzero (map (fun c => col_verdict_ereal n A (col ereal_ops n B c) (col ereal_ops n U c) X c)
                            (seq 0 m')).

(** * [RealSemiring.solve_thunks]: the LU fast path.
    The LU routine ([torch.linalg.solve] on [I - a]) is an oracle argument; its entries may be
    any float ([LNan], infinities, negative numbers).  *)
Inductive luval : Type := LNan | LNegInf | LFin (q : Qc) | LPosInf.
(** [x >= 0.] on one entry *)
Definition lu_nonneg (v : luval) : bool :=
  match v with LFin q => Qle_bool 0%Q (this q) | LPosInf => true | _ => false end.
Definition lu_to_ereal (v : luval) : ereal :=
  match v with LFin q => Fin (nn_of_Qc q) | _ => PInf end.

(** [if not any(isinf(a))]: [x = linalg.solve(I - a, b)]; [if all(x >= 0): return x];
    a RuntimeError of the LU routine is [None]; in every other case the generic routine
    runs on fresh copies *)
Definition real_solve_model (lu : mat ereal -> vec ereal -> option (list luval))
                            (n : nat) (A : mat ereal) (b : vec ereal) : vec ereal :=
  if existsb is_inf (concat A) then solve_model ereal_ops n A b
  else match lu A b with
       | Some x => if forallb lu_nonneg x then map lu_to_ereal x else solve_model ereal_ops n A b
       | None => solve_model ereal_ops n A b
       end.

Definition luval_of (x : nat * Q) : luval :=
  match fst x with 0 => LNan | 1 => LFin (Q2Qc (snd x)) | 2 => LPosInf | _ => LNegInf end.

(** verdict for one call of RealSemiring.solve with a vector right-hand side, the answer
    [lu] of torch.linalg.solve observed by the harness ([None]: not called or raised):
    0 ok; 10 the output is not what [real_solve_model] predicts from the observed LU answer
    (accepted: the LU answer; otherwise the generic answer); 7 the LU answer was accepted
    although it is not the least solution within tolerance (the property fails on this input);
    8 the output differs from the least solution only where that is +inf and the output is
    finite >= 10^12 (divergent system evaluated in floating point; reported by the dense check
    of the same case); 12 shapes *)
Definition real_lu_check (x : nat * list (list (option Q)) * list (option Q)
                              * option (list (nat * Q)) * list obs) : nat :=
  let '(n, A, b, lu, X) := x in
  let A := emat_of A in let b := map ereal_of b in
  if negb (shape_ok n n A && Nat.eqb (length b) n && Nat.eqb (length X) n) then 12
  else
    let lu := match lu with Some l => Some (map luval_of l) | None => None end in
    let pred := real_solve_model (fun _ _ => lu) n A b in
    let mu := solve_model ereal_ops n A b in
    let near v := forallb (fun i => obs_near 1%Q (nth i X (2, 0%Q, 0%Q)) (get1 ereal_ops v i)) (seq 0 n) in
    let accepted := negb (existsb is_inf (concat A))
                    && match lu with Some l => forallb lu_nonneg l | None => false end in
    (* the float evaluation of a divergent system: finite values >= 10^12 where mu = +inf *)
    let huge := forallb (fun i => obs_near 1%Q (nth i X (2, 0%Q, 0%Q)) (get1 ereal_ops mu i)
                                  || (is_inf (get1 ereal_ops mu i) && obs_huge (nth i X (2, 0%Q, 0%Q))))
                        (seq 0 n) in
    if accepted
    then (if negb (near pred) then 10 else if near mu then 0 else if huge then 8 else 7)
    else (if near mu then 0 else if huge then 8 else 10).
