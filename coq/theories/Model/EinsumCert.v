(** The decidable premises of C07_patterned_eq_dense, as one executable certificate about a run
    of the einsum model ([einsum_run]).  The harness evaluates it on every case, so the evidence
    records for how many explored cases the theorem applies.

    What is certified is "plumbing" about the substitution computed by [unify] on the case at
    hand -- it is functional (no key twice), acyclic (every bound axis resolves to unbound axes
    within the fuel), size-preserving (a bound axis has the size of its binding), the strides
    computed by [Axis.stride] only mention unbound axes of the view -- plus well-formedness of the
    operands and of the result, and (for equality, not for the soundness half) the counting
    criterion for completeness of the unifier: there are no more coincidences of the co-indexed
    axes than physical index tuples of the result.  The mathematical content (re-indexing of the
    sum, annihilation by the zero default, soundness of unify, the stride lemma, injectivity of
    the parametrisation) is proved in Proofs/Einsum_*.v. *)
From Coq Require Import List Arith Lia PeanoNat Bool PArith QArith Qcanon.
Import ListNotations.
Require Import Fggs.Model.Semiring Fggs.Model.SumProduct Fggs.Model.EReal Fggs.Model.Trop.
Require Import Fggs.Model.Axis Fggs.Model.PTensor Fggs.Model.AxisCheck Fggs.Model.Einsum Fggs.Model.EinsumCheck.
Local Open Scope nat_scope.

(** * full resolution of an axis through a substitution (no smart constructor: structure kept) *)
Fixpoint resolve (fuel : nat) (sigma : subst) (e : axis) : axis :=
  match fuel with O => e | S fuel =>
    match e with
    | Phys k _ => match assoc k sigma with Some e' => resolve fuel sigma e' | None => e end
    | Prod l => Prod (map (resolve fuel sigma) l)
    | Sum b t a => Sum b (resolve fuel sigma t) a
    end
  end.

Definition unbound (sigma : subst) (k : positive) : bool :=
  match assoc k sigma with None => true | Some _ => false end.

(** no bound variable is left *)
Definition closed (sigma : subst) (e : axis) : bool := forallb (unbound sigma) (fv e).

Fixpoint pos_sizes_b (e : axis) : bool :=
  match e with
  | Phys _ n => negb (Nat.eqb n 0)
  | Prod l => forallb pos_sizes_b l
  | Sum _ t _ => pos_sizes_b t
  end.

(** every occurrence of a bound axis has the size of its binding *)
Definition sized (sigma : subst) (e : axis) : bool :=
  forallb (fun kn => match assoc (fst kn) sigma with Some e' => Nat.eqb (numel e') (snd kn) | None => true end) (fvn e).

Definition pn_mem (kn : pn) (l : list pn) : bool := existsb (pn_eqb kn) l.
Definition key_mem (k : positive) (l : list pn) : bool := existsb (fun kn => Pos.eqb (fst kn) k) l.

Section Cert.
Context {R : Type} (o : sr_ops R) (veqb : R -> R -> bool).

(** all (label, axis) occurrences, in order *)
Definition occurrences (ts : list (ptensor R)) (inputs : list (list nat)) : list (nat * axis) :=
  flat_map (fun ti => combine (snd ti) (vaxes (fst ti))) (combine ts inputs).

(** the value of a label under an environment: its first axis *)
Definition lv (i2v : list (nat * axis)) (rho : env) (l : nat) : nat :=
  match lassoc l i2v with Some e => eval rho e | None => 0 end.

(** all co-indexed axes agree *)
Definition coinc_b (i2v : list (nat * axis)) (occ : list (nat * axis)) (rho : env) : bool :=
  forallb (fun le => Nat.eqb (eval rho (snd le)) (lv i2v rho (fst le))) occ.

Definition cert_fuel (sigma : subst) : nat := asize_list (map snd sigma) + length sigma + 2.

Definition all_vars (ts : list (ptensor R)) : list pn := flat_map (@paxes R) ts.

(** the physical index variables of the result: output axes, then the summed-out ones *)
Definition kvars (r : erun (R:=R)) : list pn := er_outp r ++ summed_vars (er_views r) (er_outp r).

(** premises shared by all exits: the operands *)
Definition cert_operands (r : erun (R:=R)) (inputs : list (list nat)) (output : list nat) : bool :=
  let ts := map st_pt (er_ts r) in
  let occ := occurrences ts inputs in
  let i2v := er_i2v r in
  Nat.eqb (length ts) (length inputs)
  && forallb (fun ti => Nat.eqb (length (vaxes (fst ti))) (length (snd ti))) (combine ts inputs)
  && forallb (fun t => veqb (default t) (Semiring.zero o)) ts
  && forallb (fun t => repr_inv_b (map snd (paxes t)) (paxes t) (vaxes t)) ts
  && nodup_pos (map fst (all_vars ts))
  && forallb (fun l => match lassoc l i2v with Some _ => true | None => false end) output
  && forallb (fun le => existsb (fun le' => Nat.eqb (fst le) (fst le') && axis_eqb (snd le) (snd le')) occ) i2v
  && forallb (fun le => match lassoc (fst le) i2v with Some e => Nat.eqb (numel e) (numel (snd le)) | None => false end) occ.

(** premises of the soundness half on the normal exit *)
Definition cert_subst (r : erun (R:=R)) : bool :=
  let ts := map st_pt (er_ts r) in
  let sigma := er_sigma r in
  let F := cert_fuel sigma in
  let V := all_vars ts in
  let K := kvars r in
  let RV := map (resolve F sigma) (phys_axes V) in
  forallb (fun t => forallb pos_sizes_b (vaxes t)) ts
  && nodup_pos (map fst sigma)
  && forallb (fun ke => closed sigma (resolve F sigma (Phys (fst ke) 0))) sigma
  && forallb (fun ke => sized sigma (snd ke)) sigma
  && forallb (sized sigma) (phys_axes V)
  && nodup_pos (map fst K)
  && forallb (fun kn => unbound sigma (fst kn)) K
  && forallb (fun e => forallb (fun kn => pn_mem kn K) (fvn e)) RV
  && forallb (fun kn => existsb (Pos.eqb (fst kn)) (flat_map fv RV)) K.

(** the views: the strides mention only unbound axes of the view; the labels and sizes the dense
    einsum derives from the equation are the summed-out physical variables *)
Definition cert_views (r : erun (R:=R)) : bool :=
  let sigma := er_sigma r in
  let views := er_views r in
  let outp := er_outp r in
  let sv := summed_vars views outp in
  Nat.eqb (length views) (length (er_ts r))
  && forallb (fun tv =>
                let ps := paxes (st_pt (fst tv)) in
                match mapM (stride (sfuel sigma (phys_axes ps)) sigma) (phys_axes ps) with
                | Ok strs => forallb (fun os => forallb (fun kc => unbound sigma (fst kc) && key_mem (fst kc) (vw_vars (snd tv))) (snd os)) strs
                | Fail _ => false
                end && nodup_pos (map fst (vw_vars (snd tv))))
             (combine (er_ts r) views)
  && leqb (map plabel sv)
          (summed_labels (map (fun v => map plabel (vw_vars v)) views) (map plabel outp))
  && leqb (map snd sv)
          (map (lval (label_sizes (map (fun v => map snd (vw_vars v)) views) (map (fun v => map plabel (vw_vars v)) views))) (map plabel sv))
  && forallb (fun v => forallb (fun kn => pn_mem kn (kvars r)) (vw_vars v)) views
  && forallb (fun kn => key_mem (fst kn) (flat_map (@vw_vars R) views)) outp
  && repr_inv_b (map snd outp) outp (er_outv r)
  && forallb (fun e => closed sigma e) (er_outv r).

(** the counting criterion: no more coincidences than physical index tuples *)
Definition count_coinc (r : erun (R:=R)) (inputs : list (list nat)) : nat :=
  let ts := map st_pt (er_ts r) in
  length (filter (fun pi => coinc_b (er_i2v r) (occurrences ts inputs) (env_of pi)) (all_envs (all_vars ts))).

Definition cert_complete (r : erun (R:=R)) (inputs : list (list nat)) : bool :=
  if er_failed r || er_zero_axis r then Nat.eqb (count_coinc r inputs) 0
  else count_coinc r inputs <=? fold_right Nat.mul 1 (map snd (kvars r)).

(** 0 = all premises of the equality theorem hold; 1 = those of the soundness half only;
    2 = the operand premises fail; 3 = the substitution premises fail; 4 = the view premises fail
    (6, in [einsum_cert]: the re-defaulted / freshened operands do not denote the given ones) *)
Definition cert_verdict (r : erun (R:=R)) (inputs : list (list nat)) (output : list nat) : nat :=
  if negb (cert_operands r inputs output) then 2
  else if er_failed r || er_zero_axis r then (if cert_complete r inputs then 0 else 1)
  else if negb (cert_subst r) then 3
  else if negb (cert_views r) then 4
  else if cert_complete r inputs then 0 else 1.

(** the operands the algorithm works on ([default_to(zero)], [freshen]) denote the given operands:
    same shapes, same brute-force denotation at every index tuple inside the shape *)
Definition cert_pre (r : erun (R:=R)) (ts0 : list (ptensor R)) : bool :=
  let ts := map st_pt (er_ts r) in
  Nat.eqb (length ts0) (length ts)
  && forallb (fun t0 => repr_inv_b (map snd (paxes t0)) (paxes t0) (vaxes t0)) ts0
  && forallb (fun tt => leqb (shape R (fst tt)) (shape R (snd tt))
                        && forallb (fun idx => veqb (dspec (fst tt) idx) (dspec (snd tt) idx)) (all_assts (shape R (fst tt))))
             (combine ts0 ts).

(** premises of the pointer theorem (C07_argmax): the summed-out einsum indices left in
    index_to_vaxis are the summed labels of the specification, in its order; the strides of
    their axes mention only unbound axes *)
Definition cert_viterbi (r : erun (R:=R)) (inputs : list (list nat)) (output : list nat) : bool :=
  match pop_all output (er_i2v r) with
  | None => false
  | Some rest =>
      leqb (map fst rest) (summed_labels inputs output)
      && forallb (fun le => match lassoc (fst le) (er_i2v r) with Some e => axis_eqb e (snd le) | None => false end) rest
      && forallb (fun le => match stride (sfuel (er_sigma r) [snd le]) (er_sigma r) (snd le) with
                            | Ok os => forallb (fun kc => unbound (er_sigma r) (fst kc)) (snd os)
                            | Fail _ => false
                            end) rest
  end.

Context {W : Type} (ofw : W -> R).

(** as [einsum_cert], plus the pointer premises: 5 = they fail *)
Definition viterbi_cert (x : list (wten (W:=W)) * list (list nat) * list nat * positive) : nat :=
  let '(wts, inputs, output, next) := x in
  let ts := map (st_of_wire ofw) wts in
  match einsum_run o veqb false next ts inputs output with
  | Ok r => let c := if cert_pre r (map st_pt ts) then cert_verdict r inputs output else 6 in
            if negb (Nat.eqb c 0) then c
            else if er_failed r || er_zero_axis r then 0
            else if cert_viterbi r inputs output then 0 else 5
  | Fail _ => 9
  end.

Definition einsum_cert (x : list (wten (W:=W)) * list (list nat) * list nat * positive) : nat :=
  let '(wts, inputs, output, next) := x in
  let ts := map (st_of_wire ofw) wts in
  match einsum_run o veqb false next ts inputs output with
  | Ok r => if cert_pre r (map st_pt ts) then cert_verdict r inputs output else 6
  | Fail _ => 9
  end.
End Cert.

Definition einsum_cert_real := einsum_cert (W:=option Q) ereal_ops eeqb ereal_of.
Definition einsum_cert_trop := einsum_cert (W:=nat * Q) trop_ops teqb trop_of.
Definition viterbi_cert_trop := viterbi_cert (W:=nat * Q) trop_ops teqb trop_of.
Definition einsum_cert_bool := einsum_cert (W:=bool) bool_ops Bool.eqb (fun b => b).
