(** Model of fggs/sum_product.py for non-recursive evaluation (C01) and of the Kleene
    iteration (C02): positional grammars, the mathematical definition of the sum-product
    (sum over derivation trees and assignments), the code-shaped [sum_product_edges],
    [F], and the SCC-ordered driver.  Generic over [sr_ops].  Definitions only. *)
From Coq Require Import List Arith Bool PeanoNat.
Import ListNotations.
Require Import Fggs.Model.Semiring Fggs.Model.SCC.

(** * Positional grammars *)
(** node labels, edge labels, nodes of a rule are natural numbers (positions) *)
Record rule : Type := {
  r_lhs : nat;                         (* nonterminal rewritten *)
  r_nodes : list nat;                  (* node label of every node of the rhs *)
  r_edges : list (nat * list nat);     (* (edge label, attachment nodes) in edge order *)
  r_ext : list nat;                    (* external nodes, in order *)
}.
Record grammar : Type := {
  g_doms : list nat;                   (* domain size of every node label *)
  g_labels : list (bool * list nat);   (* per edge label: (is_terminal, type) *)
  g_rules : list rule;                 (* all_rules order *)
  g_start : nat;
}.

Definition dom (G : grammar) (nl : nat) : nat := nth nl (g_doms G) 0.
Definition is_term (G : grammar) (l : nat) : bool := fst (nth l (g_labels G) (true, [])).
Definition ltype (G : grammar) (l : nat) : list nat := snd (nth l (g_labels G) (true, [])).
Definition node_sizes (G : grammar) (r : rule) : list nat := map (dom G) (r_nodes r).
Definition lshape (G : grammar) (l : nat) : list nat := map (dom G) (ltype G l).

Definition nat_list_eqb (a b : list nat) : bool := list_eqb a b.

(** well-formedness (boolean; the harness evaluates it on every generated grammar) *)
Definition wf_rule (G : grammar) (r : rule) : bool :=
  (r_lhs r <? length (g_labels G))
  && negb (is_term G (r_lhs r))
  && forallb (fun nl => nl <? length (g_doms G)) (r_nodes r)
  && forallb (fun e => (fst e <? length (g_labels G))
                       && forallb (fun i => i <? length (r_nodes r)) (snd e)
                       && nat_list_eqb (map (fun i => nth i (r_nodes r) 0) (snd e)) (ltype G (fst e))) (r_edges r)
  && forallb (fun i => i <? length (r_nodes r)) (r_ext r)
  && nat_list_eqb (map (fun i => nth i (r_nodes r) 0) (r_ext r)) (ltype G (r_lhs r)).
Definition wf_grammar (G : grammar) : bool :=
  forallb (wf_rule G) (g_rules G)
  && forallb (fun p => forallb (fun nl => nl <? length (g_doms G)) (snd p)) (g_labels G)
  && (g_start G <? length (g_labels G)) && negb (is_term G (g_start G)).

(** * Finite sums and products *)
Section Generic.
Context {R : Type} (o : sr_ops R).

Definition sumS {A} (l : list A) (f : A -> R) : R := sum_list o (map f l).
Definition prodS {A} (l : list A) (f : A -> R) : R := prod_list o (map f l).

(** all index tuples of a given shape, lexicographic (row-major) order *)
Fixpoint all_assts (sizes : list nat) : list (list nat) :=
  match sizes with
  | [] => [[]]
  | n :: rest => flat_map (fun i => map (cons i) (all_assts rest)) (seq 0 n)
  end.

(** restriction of an assignment to a list of positions *)
Definition sel (a : list nat) (idxs : list nat) : list nat := map (fun i => nth i a 0) idxs.

(** an environment gives every edge label a tensor (a function of the index tuple) *)
Definition env := nat -> list nat -> R.

(** * The mathematical definition *)
(** value of one rule at external assignment [xi]: sum over all assignments to ALL nodes
    of the rhs that agree with [xi] on the external nodes, of the product of the edge values *)
Definition rule_val (G : grammar) (e : env) (r : rule) (xi : list nat) : R :=
  sumS (filter (fun a => nat_list_eqb (sel a (r_ext r)) xi) (all_assts (node_sizes G r)))
       (fun a => prodS (r_edges r) (fun ed => e (fst ed) (sel a (snd ed)))).

Definition rules_of (G : grammar) (X : nat) : list rule :=
  filter (fun r => Nat.eqb (r_lhs r) X) (g_rules G).

(** one application of the grammar's equations; terminals read their weights [w] *)
Definition step (G : grammar) (w : env) (x : env) : env :=
  fun X xi => if is_term G X then w X xi
              else sumS (rules_of G X) (fun r => rule_val G (fun l => if is_term G l then w l else x l) r xi).

Definition zero_env : env := fun _ _ => zero o.

(** [Zk k]: the k-th Kleene iterate = sum over derivation trees of depth <= k (theorem) *)
Fixpoint Zk (G : grammar) (w : env) (k : nat) : env :=
  match k with 0 => zero_env | S k => step G w (Zk G w k) end.

(** derivation trees: rule (index into g_rules), assignment to all nodes of its rhs, one child per edge
    (children of terminal edges are ignored: [None]) *)
Inductive dtree : Type := DT (ri : nat) (a : list nat) (children : list (option dtree)).

Definition dummy_rule : rule := {| r_lhs := 0; r_nodes := []; r_edges := []; r_ext := [] |}.
Definition get_rule (G : grammar) (ri : nat) : rule := nth ri (g_rules G) dummy_rule.

Fixpoint weight (G : grammar) (w : env) (t : dtree) : R :=
  match t with
  | DT ri a ch =>
    let r := get_rule G ri in
    (fix go (ch : list (option dtree)) (es : list (nat * list nat)) {struct ch} : R :=
       match ch, es with
       | c :: ch, ed :: es =>
         mul o (match c with
                | None => w (fst ed) (sel a (snd ed))
                | Some t' => weight G w t'
                end) (go ch es)
       | _, _ => one o
       end) ch (r_edges r)
  end.

(** all well-formed derivation trees of depth <= k for nonterminal X with external assignment xi *)
Fixpoint choices {A} (ls : list (list A)) : list (list A) :=
  match ls with
  | [] => [[]]
  | l :: ls => flat_map (fun x => map (cons x) (choices ls)) l
  end.

Fixpoint enum_trees (G : grammar) (k : nat) (X : nat) (xi : list nat) : list dtree :=
  match k with
  | 0 => []
  | S k =>
    flat_map (fun ri =>
      let r := get_rule G ri in
      if Nat.eqb (r_lhs r) X then
        flat_map (fun a =>
          map (DT ri a)
              (choices (map (fun ed => if is_term G (fst ed) then [None]
                                       else map Some (enum_trees G k (fst ed) (sel a (snd ed))))
                            (r_edges r))))
          (filter (fun a => nat_list_eqb (sel a (r_ext r)) xi) (all_assts (node_sizes G r)))
      else [])
      (seq 0 (length (g_rules G)))
  end.

Definition tree_sum (G : grammar) (w : env) (k : nat) (X : nat) (xi : list nat) : R :=
  sumS (enum_trees G k X xi) (weight G w).

(** * The code: sum_product_edges *)
(** [rename_duplicate_nodes]: a repeated external node is replaced by a fresh node
    (numbered from [n0] on) tied to the original by an identity factor.  Returns
    (new ext, list of (original, copy) pairs, next fresh) *)
Fixpoint rename_dups (ext : list nat) (seen : list nat) (fresh : nat) : list nat * list (nat * nat) :=
  match ext with
  | [] => ([], [])
  | n :: rest =>
    if mem seen n
    then let '(e', ps) := rename_dups rest (seen ++ [fresh]) (S fresh) in (fresh :: e', (n, fresh) :: ps)
    else let '(e', ps) := rename_dups rest (seen ++ [n]) fresh in (n :: e', ps)
  end.

Definition eye (i j : nat) : R := if Nat.eqb i j then one o else zero o.

(** nodes in order of first appearance *)
Definition dedup (l : list nat) : list nat := fold_left add_new l [].

(** dense einsum over the [connected] nodes: sum over all assignments to the connected nodes
    that are not outputs, of the product of the operands; [sizes] gives every node's size;
    the assignment is a total list over node numbers 0..n-1, unconnected positions stay 0 *)
Fixpoint assts_over (sizes : list nat) (vars : list nat) (base : list nat) : list (list nat) :=
  match vars with
  | [] => [base]
  | v :: vars =>
    flat_map (fun i => assts_over sizes vars (firstn v base ++ [i] ++ skipn (S v) base)) (seq 0 (nth v sizes 0))
  end.

Definition put (outs : list nat) (xi : list nat) (base : list nat) : list nat :=
  fold_left (fun b p => firstn (fst p) b ++ [snd p] ++ skipn (S (fst p)) b) (combine outs xi) base.

(** [sum_product_edges(fgg, nodes, edges, ext, *inputses)] for a rule whose nodes have sizes
    [sizes0]; [e l = None] iff label l has no value in any of the inputs.  Result [None] = zero. *)
Definition spe (sizes0 : list nat) (e : nat -> option (list nat -> R))
           (edges : list (nat * list nat)) (ext : list nat) : option (list nat -> R) :=
  let n0 := length sizes0 in
  let '(ext', pairs) := rename_dups ext [] n0 in
  let sizes := sizes0 ++ map (fun p => nth (fst p) sizes0 0) pairs in
  if forallb (fun ed => match e (fst ed) with Some _ => true | None => false end) edges then
    let connected := dedup (flat_map (fun p => [fst p; snd p]) pairs ++ flat_map snd edges) in
    let outputs := filter (mem connected) ext' in
    let summed := filter (fun v => negb (mem outputs v)) connected in
    let mult_n := fold_left Nat.mul (map (fun v => nth v sizes 0)
                                 (filter (fun v => negb (mem connected v) && negb (mem ext' v)) (seq 0 n0))) 1 in
    Some (fun xi =>
      (* xi indexes ext' (all of it); only the coordinates of connected externals are read *)
      let base := put ext' xi (repeat 0 (length sizes)) in
      let v := sumS (assts_over sizes summed base)
                    (fun a => mul o (prodS pairs (fun p => eye (nth (fst p) a 0) (nth (snd p) a 0)))
                                    (prodS edges (fun ed => match e (fst ed) with
                                                            | Some f => f (sel a (snd ed))
                                                            | None => zero o end))) in
      (* multiply_in_disconnected_internals: only if the multiplier is not 1 *)
      if Nat.eqb mult_n 1 then v else mul o v (from_nat o mult_n))
  else None.

(** multi-tensor of values: absent key = zero *)
Definition mt := list (nat * (list nat -> R)).
Fixpoint mt_get (m : mt) (k : nat) : option (list nat -> R) :=
  match m with [] => None | (a, f) :: m => if Nat.eqb a k then Some f else mt_get m k end.
Definition mt_add_single (m : mt) (k : nat) (f : list nat -> R) : mt :=
  match mt_get m k with
  | None => m ++ [(k, f)]
  | Some g =>
    (fix upd (m : mt) : mt :=
       match m with
       | [] => []
       | (a, h) :: m => if Nat.eqb a k then (a, fun xi => add o (h xi) (f xi)) :: m else (a, h) :: upd m
       end) m
  end.
Definition mt_val (m : mt) (k : nat) : list nat -> R :=
  match mt_get m k with Some f => f | None => fun _ => zero o end.

(** [F(fgg, x, inputs)]: for each nonterminal of the component, add the rules' sum-products;
    [x] first then [inputs] in the lookup, as in [get_weight] *)
Definition lookup2 (x inputs : mt) (l : nat) : option (list nat -> R) :=
  match mt_get x l with Some f => Some f | None => mt_get inputs l end.

Definition F_model (G : grammar) (comp : list nat) (x inputs : mt) : mt :=
  fold_left (fun acc n =>
    fold_left (fun acc r =>
      match spe (node_sizes G r) (lookup2 x inputs) (r_edges r) (r_ext r) with
      | Some f => mt_add_single acc n f
      | None => acc
      end) (rules_of G n) acc) comp [].

(** force a function on a finite shape into a table and back (so that iteration does not
    recompute): row-major list of values *)
Definition tabulate (shape : list nat) (f : list nat -> R) : list (list nat * R) :=
  map (fun xi => (xi, f xi)) (all_assts shape).
Fixpoint tab_get (t : list (list nat * R)) (xi : list nat) : R :=
  match t with [] => zero o | (k, v) :: t => if nat_list_eqb k xi then v else tab_get t xi end.
Definition freeze (shape : list nat) (f : list nat -> R) : list nat -> R :=
  let t := tabulate shape f in tab_get t.
(** values stored as data (tables) so that later components do not recompute earlier ones *)
Definition table := list (list nat * R).
Definition tmt := list (nat * table).
Definition mt_of (t : tmt) : mt := map (fun p => (fst p, tab_get (snd p))) t.

(** labels a component needs from outside: every non-component label used by its rules *)
Definition comp_inputs (G : grammar) (comp : list nat) (all : mt) : mt :=
  fold_left (fun acc n =>
    fold_left (fun acc r =>
      fold_left (fun acc ed =>
        if mem comp (fst ed) then acc
        else match mt_get acc (fst ed), mt_get all (fst ed) with
             | None, Some f => acc ++ [(fst ed, f)]
             | _, _ => acc
             end) (r_edges r) acc) (rules_of G n) acc) comp [].

Definition max_rhs (G : grammar) (comp : list nat) : nat :=
  fold_left (fun m n => fold_left (fun m r => Nat.max m (length (filter (fun ed => mem comp (fst ed)) (r_edges r))))
                                  (rules_of G n) m) comp 0.

(** the driver for components evaluated in one step (every component of a non-recursive
    grammar): [all] starts with the terminals' weights; components in the order given *)
Definition one_step_comp (G : grammar) (all : tmt) (comp : list nat) : tmt :=
  let inputs := comp_inputs G comp (mt_of all) in
  let out := F_model G comp [] inputs in
  all ++ map (fun n => (n, tabulate (lshape G n) (mt_val out n))) comp.

Definition nonterminals (G : grammar) : list nat :=
  filter (fun l => negb (is_term G l)) (seq 0 (length (g_labels G))).
Definition terminals (G : grammar) : list nat :=
  filter (is_term G) (seq 0 (length (g_labels G))).

Definition nt_graph (G : grammar) : graph :=
  ntgraph (nonterminals G) (map (fun r => (r_lhs r, map (fun ed => (fst ed, negb (is_term G (fst ed)))) (r_edges r))) (g_rules G)).

(** non-recursive = every SCC is a single nonterminal without a self-loop *)
Definition nonrecursive_order (G : grammar) (order : list (list nat)) : bool :=
  forallb (fun c => match c with [x] => Nat.eqb (max_rhs G [x]) 0 | _ => false end) order.

Definition sum_products_nonrec (G : grammar) (w : tmt) (order : list (list nat)) : tmt :=
  fold_left (one_step_comp G) order w.

(** the specification evaluated level by level on tables *)
Definition env_of (t : tmt) : env :=
  fun X xi => match (fix get (t : tmt) := match t with [] => None | (a, tb) :: t => if Nat.eqb a X then Some tb else get t end) t with
              | Some tb => tab_get tb xi
              | None => zero o
              end.
Fixpoint Ztab (G : grammar) (w : env) (k : nat) : tmt :=
  match k with
  | 0 => []
  | S k => let prev := Ztab G w k in
           map (fun X => (X, tabulate (lshape G X) (step G w (env_of prev) X))) (nonterminals G)
  end.

End Generic.
