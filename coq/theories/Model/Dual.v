(** C03: gradients of the sum-product.

    The exact derivative is obtained by running the SAME definitions ([rule_val], [step], [Zk],
    [Ztab], Kleene iteration on tables) over the dual numbers [R[eps]/(eps^2)] of the semiring:
    [dual_ops o : sr_ops (R * R)].  The first component of every dual quantity is the ordinary
    quantity, the second (epsilon) component its formal derivative in the direction given by the
    epsilon parts of the terminal weights (Proofs/Dual_*.v).

    This file also contains the code-shaped model of [J] (leave one edge out, externals = rule
    externals ++ the nodes of that edge), of [multi_mv] applied to it (both orientations), of the
    backward pass of a component evaluated in one step and of the reverse accumulation over the
    components of a non-recursive grammar (what autograd does), of [J_log] in the exp reading,
    a certified enclosure of the least fixed point that also works at the dual carrier
    ([encl2]: Kleene from below, a verified m-step pre-fixed point from above), and the check
    function [grad_check_real].  Definitions only. *)
From Coq Require Import QArith Qcanon Qround Qabs List Arith Bool PeanoNat.
Import ListNotations.
Require Import Fggs.Model.Semiring Fggs.Model.SCC Fggs.Model.SumProduct Fggs.Model.SumProductCheck
               Fggs.Model.EReal Fggs.Model.Kleene.
Local Open Scope nat_scope.

(** all ways of singling out one element of a list: [l = l1 ++ x :: l2] *)
Fixpoint splits {A} (l : list A) : list (list A * A * list A) :=
  match l with
  | [] => []
  | x :: l => ([], x, l) :: map (fun s => (x :: fst (fst s), snd (fst s), snd s)) (splits l)
  end.

Fixpoint iter_n {A} (f : A -> A) (n : nat) (x : A) : A :=
  match n with 0 => x | S n => f (iter_n f n x) end.

Section Dual.
Context {R : Type} (o : sr_ops R).

(** * the dual numbers over a semiring *)
Definition dual_ops : sr_ops (R * R) :=
  {| zero := (zero o, zero o);
     one := (one o, zero o);
     add := fun p q => (add o (fst p) (fst q), add o (snd p) (snd q));
     mul := fun p q => (mul o (fst p) (fst q), add o (mul o (fst p) (snd q)) (mul o (snd p) (fst q)));
     star := fun p => let s := star o (fst p) in (s, mul o (mul o s (snd p)) s);
     le := fun p q => le o (fst p) (fst q) /\ le o (snd p) (snd q) |}.

(** environments: value part, epsilon part, pairing *)
Definition denv (x d : env (R:=R)) : env (R:=R * R) := fun l xi => (x l xi, d l xi).
Definition penv (y : env (R:=R * R)) : env (R:=R) := fun l xi => fst (y l xi).
Definition eenv (y : env (R:=R * R)) : env (R:=R) := fun l xi => snd (y l xi).

(** the direction "one entry of one weight tensor" *)
Definition delta_env (l0 : nat) (i0 : list nat) : env (R:=R) :=
  fun l xi => if Nat.eqb l l0 && nat_list_eqb xi i0 then one o else zero o.

(** [grad_model G w l0 i0 k X xi] = d (Zk G w k X xi) / d (w l0 i0): the derivative of the k-th
    Kleene iterate (= the sum over derivations of depth <= k) of every cell of every nonterminal
    with respect to one weight entry.  Non-recursive grammars: k = number of nonterminals gives
    the derivative of the sum-product; recursive ones: see [encl2] below. *)
Definition grad_model (G : grammar) (w : env (R:=R)) (l0 : nat) (i0 : list nat) (k : nat) : env (R:=R) :=
  eenv (Zk dual_ops G (denv w (delta_env l0 i0)) k).

(** * Leibniz: the epsilon part of a product *)
(** [leib l p d] = sum over the positions i of l of d(l_i) * prod_{j <> i} p(l_j) *)
Fixpoint leib {A} (l : list A) (p d : A -> R) : R :=
  match l with
  | [] => zero o
  | x :: l => add o (mul o (d x) (prodS o l p)) (mul o (p x) (leib l p d))
  end.

(** * the code: J *)
(** one entry per (component nonterminal n, rule of n, edge of the rule) whose leave-one-out
    product is not None, in the order of the code's three nested loops; [with_inputs] = a
    [J_inputs] accumulator was passed (backward pass), otherwise edges whose label is outside the
    component are skipped.  [Jx] collects the entries whose label is in the component, [J_inputs]
    the others; [add_single] adds entries with equal keys. *)
Definition J_contribs (G : grammar) (comp : list nat) (e : nat -> option (list nat -> R)) (with_inputs : bool)
  : list (nat * nat * (list nat -> R)) :=
  flat_map (fun n =>
    flat_map (fun r =>
      flat_map (fun s =>
        let ed := snd (fst s) in
        if negb (mem comp (fst ed)) && negb with_inputs then []
        else match spe o (node_sizes G r) e (fst (fst s) ++ snd s) (r_ext r ++ snd ed) with
             | Some f => [(n, fst ed, f)]
             | None => []
             end) (splits (r_edges r))) (rules_of G n)) comp.

Definition Jx_of (comp : list nat) (J : list (nat * nat * (list nat -> R))) := filter (fun c => mem comp (snd (fst c))) J.
Definition Jin_of (comp : list nat) (J : list (nat * nat * (list nat -> R))) := filter (fun c => negb (mem comp (snd (fst c)))) J.

(** the block with key (n, l) after all [add_single]s *)
Definition J_val (J : list (nat * nat * (list nat -> R))) (n l : nat) (idx : list nat) : R :=
  sumS o (filter (fun c => Nat.eqb (fst (fst c)) n && Nat.eqb (snd (fst c)) l) J) (fun c => snd c idx).

(** [multi_mv(J, d)]: out[n][xi] = sum over the blocks (n, l) and the cells yi of l of J[n,l][xi,yi] * d[l][yi] *)
Definition J_mv (G : grammar) (J : list (nat * nat * (list nat -> R))) (d : env (R:=R)) (n : nat) (xi : list nat) : R :=
  sumS o J (fun c => if Nat.eqb (fst (fst c)) n
                     then sumS o (all_assts (lshape G (snd (fst c)))) (fun yi => mul o (snd c (xi ++ yi)) (d (snd (fst c)) yi))
                     else zero o).
(** [multi_mv(J, g, transpose=True)]: out[l][yi] = sum over the blocks (n, l) and the cells xi of n of J[n,l][xi,yi] * g[n][xi] *)
Definition J_vjp (G : grammar) (J : list (nat * nat * (list nat -> R))) (g : env (R:=R)) (l : nat) (yi : list nat) : R :=
  sumS o J (fun c => if Nat.eqb (snd (fst c)) l
                     then sumS o (all_assts (lshape G (fst (fst c)))) (fun xi => mul o (snd c (xi ++ yi)) (g (fst (fst c)) xi))
                     else zero o).

(** * the backward pass of a component evaluated in one step *)
(** [SumProduct.backward] with method one-step: [jf] has no block (no rule of the component has
    an edge labelled by the component), so [multi_solve(jf, f, transpose=True) = f], and the
    gradient of input l is [multi_mv(jf_inputs, f, transpose=True)[l]].  [all]: the values of all
    labels computed so far (terminals and earlier nonterminals), [X]: the component. *)
Definition onestep_J (G : grammar) (all : tmt (R:=R)) (X : nat) : list (nat * nat * (list nat -> R)) :=
  let inputs := comp_inputs G [X] (mt_of o all) in
  let x := match tmt_get all X with Some tb => [(X, tab_get o tb)] | None => [] end in
  Jin_of [X] (J_contribs G [X] (lookup2 x inputs) true).

Definition backward_onestep (G : grammar) (all : tmt (R:=R)) (X : nat) (g : env (R:=R)) (l : nat) (yi : list nat) : R :=
  J_vjp G (onestep_J G all X) g l yi.

(** reverse accumulation over the components of a non-recursive grammar (autograd): [gbar] holds
    the cotangent of every label; processing X adds X's input gradients *)
Definition back_step (G : grammar) (all : tmt (R:=R)) (gbar : tmt (R:=R)) (X : nat) : tmt (R:=R) :=
  let J := onestep_J G all X in
  let g := env_of o gbar in
  map (fun l => (l, tabulate (lshape G l) (fun yi => add o (g l yi) (J_vjp G J g l yi))))
      (seq 0 (length (g_labels G))).

Definition backward_nonrec (G : grammar) (w : tmt (R:=R)) (order : list (list nat)) (cot : list R) : tmt (R:=R) :=
  let all := sum_products_nonrec o G w order in
  let gbar0 := [(g_start G, combine (all_assts (lshape G (g_start G))) cot)] in
  fold_left (back_step G all) (rev (concat order)) gbar0.

(** * J_log in the exp reading *)
(** [dv a b] stands for a / b, [None] for nan.  For nonterminal n: the rules whose sum-product is not None are
    stacked and soft-maxed over the rule axis: share r xi = tau_r xi / sum_r' tau_r' xi; for each
    edge the FULL product with externals ext ++ edge nodes is soft-maxed over the edge's cells
    (divided by its sum over those cells) and multiplied by the share. *)
Context (dv : R -> R -> option R).      (* dv a b = a / b; None = nan (0/0, inf/inf) *)
Definition omul (a b : option R) : option R :=
  match a, b with Some x, Some y => Some (mul o x y) | _, _ => None end.
Definition oadd (a b : option R) : option R :=
  match a, b with Some x, Some y => Some (add o x y) | _, _ => None end.
Definition osum (l : list (option R)) : option R := fold_right oadd (Some (zero o)) l.
(** what einsum / multi_mv in the Real semiring make of a nan *)
Definition nan_to_zero (x : option R) : R := match x with Some v => v | None => zero o end.

Definition J_log_old_contribs (G : grammar) (comp : list nat) (e : nat -> option (list nat -> R)) (with_inputs : bool)
  : list (nat * nat * (list nat -> option R)) :=
  flat_map (fun n =>
    let taus := flat_map (fun r => match spe o (node_sizes G r) e (r_edges r) (r_ext r) with
                                   | Some f => [(r, f)] | None => [] end) (rules_of G n) in
    let total := fun xi => sumS o taus (fun rf => snd rf xi) in
    flat_map (fun rf =>
      let r := fst rf in
      flat_map (fun s =>
        let ed := snd (fst s) in
        if negb (mem comp (fst ed)) && negb with_inputs then []
        else match spe o (node_sizes G r) e (r_edges r) (r_ext r ++ snd ed) with
             | Some f =>
               [(n, fst ed,
                 fun idx =>
                   let xi := firstn (length (r_ext r)) idx in
                   let rowsum := sumS o (all_assts (lshape G (fst ed))) (fun yi => f (xi ++ yi)) in
                   omul (dv (f idx) rowsum) (dv (snd rf xi) (total xi)))]
             | None => []
             end) (splits (r_edges r))) taus) comp.

(** the block with key (n, l) after all [add_single]s: one nan poisons the cell *)
Definition J_log_old_val (J : list (nat * nat * (list nat -> option R))) (n l : nat) (idx : list nat) : option R :=
  osum (map (fun c => snd c idx) (filter (fun c => Nat.eqb (fst (fst c)) n && Nat.eqb (snd (fst c)) l) J)).

(** the code as it is now (b84d904): [nan_to_num_(nan=0, posinf=inf)] is applied to every
    (rule, edge) tensor after [exp], BEFORE it is added into its block: a rule whose sum-product is
    zero (0/0) contributes nothing.  The blocks are then ordinary sums ([J_val]). *)
Definition J_log_contribs (G : grammar) (comp : list nat) (e : nat -> option (list nat -> R)) (with_inputs : bool)
  : list (nat * nat * (list nat -> R)) :=
  map (fun c => (fst c, fun idx => nan_to_zero (snd c idx))) (J_log_old_contribs G comp e with_inputs).

(** the backward pass in the Log semiring for components evaluated in one step, and reverse
    accumulation over a non-recursive grammar: as [backward_nonrec] with [J_log] in place of [J]
    (values read through exp, cotangents are derivatives w.r.t. the log-values) *)
Definition onestep_J_log (G : grammar) (all : tmt (R:=R)) (X : nat) : list (nat * nat * (list nat -> R)) :=
  let inputs := comp_inputs G [X] (mt_of o all) in
  let x := match tmt_get all X with Some tb => [(X, tab_get o tb)] | None => [] end in
  Jin_of [X] (J_log_contribs G [X] (lookup2 x inputs) true).
Definition back_step_log (G : grammar) (all : tmt (R:=R)) (gbar : tmt (R:=R)) (X : nat) : tmt (R:=R) :=
  let J := onestep_J_log G all X in
  let g := env_of o gbar in
  map (fun l => (l, tabulate (lshape G l) (fun yi => add o (g l yi) (J_vjp G J g l yi))))
      (seq 0 (length (g_labels G))).
Definition backward_nonrec_log (G : grammar) (w : tmt (R:=R)) (order : list (list nat)) (cot : list R) : tmt (R:=R) :=
  let all := sum_products_nonrec o G w order in
  let gbar0 := [(g_start G, combine (all_assts (lshape G (g_start G))) cot)] in
  fold_left (back_step_log G all) (rev (concat order)) gbar0.

(** * certified enclosures of the least fixed point that work at any ordered carrier *)
(** [rd x <= x <= ru x]; [leb] decides the order; [close lo v] = the enclosure is tight *)
Context (rd ru infl : R -> R) (leb close : R -> R -> bool).

Definition tab_rel (rel : R -> R -> bool) (a b : tmt (R:=R)) : bool :=
  Nat.eqb (length a) (length b)
  && forallb (fun p => Nat.eqb (fst (fst p)) (fst (snd p))
                       && Nat.eqb (length (snd (fst p))) (length (snd (snd p)))
                       && forallb (fun c => nat_list_eqb (fst (fst c)) (fst (snd c)) && rel (snd (fst c)) (snd (snd c)))
                                  (combine (snd (fst p)) (snd (snd p))))
             (combine a b).

Definition Kdn (G : grammar) (w : env (R:=R)) := Kstep o rd G w.
Definition Kup (G : grammar) (w : env (R:=R)) := Kstep o ru G w.

(** iterate from above in chunks of 8 until the iterate is below the starting point [u]
    (then, by monotonicity, every Kleene iterate is below [u] and below every later iterate) *)
Fixpoint try_up (G : grammar) (w : env (R:=R)) (u um : tmt (R:=R)) (chunks : nat) : option (tmt (R:=R)) :=
  match chunks with
  | 0 => None
  | S c => let um' := iter_n (Kup G w) 8 um in
           if tab_rel leb um' u then Some um' else try_up G w u um' c
  end.
Fixpoint tighten (G : grammar) (w : env (R:=R)) (lo v : tmt (R:=R)) (chunks : nat) : option (tmt (R:=R) * tmt (R:=R)) :=
  if tab_rel close lo v then Some (lo, v)
  else match chunks with
       | 0 => None
       | S c => tighten G w (iter_n (Kdn G w) 8 lo) (iter_n (Kup G w) 8 v) c
       end.
Fixpoint encl2_from (G : grammar) (w : env (R:=R)) (rounds : nat) (lo : tmt (R:=R)) : option (tmt (R:=R) * tmt (R:=R)) :=
  match try_up G w (inflate infl lo) (inflate infl lo) 12 with
  | Some v => tighten G w lo v 16
  | None => match rounds with
            | 0 => None
            | S r => encl2_from G w r (iter_n (Kdn G w) 32 lo)
            end
  end.
Definition encl2 (G : grammar) (w : env (R:=R)) (rounds : nat) : option (tmt (R:=R) * tmt (R:=R)) :=
  encl2_from G w rounds (iter_n (Kdn G w) 24 (Ktab o rd G w 0)).
End Dual.

(** * instance: Real (and Log read through exp) *)
Local Open Scope Q_scope.
Definition D := (ereal * ereal)%type.
Definition dops : sr_ops D := dual_ops ereal_ops.

(** grid 2^-64; values >= 2^30 are capped (down) / sent to +inf (up) *)
Definition fgrid : Q := 18446744073709551616 # 1.
Definition big : Q := 1073741824 # 1.
Definition rd_f (x : ereal) : ereal :=
  match x with
  | Fin a => let q := this (qv a) in
             Fin (nn_of_Q (if Qle_bool big q then big else (Qfloor (q * fgrid) # 1) / fgrid))
  | PInf => PInf
  end.
Definition ru_f (x : ereal) : ereal :=
  match x with
  | Fin a => let q := this (qv a) in
             if Qle_bool big q then PInf else Fin (nn_of_Q ((Qceiling (q * fgrid) # 1) / fgrid))
  | PInf => PInf
  end.
(** inflate: a * (1 + 2^-12) + 2^-24 *)
Definition infl_f (x : ereal) : ereal :=
  match x with
  | Fin a => Fin (nn_of_Q (this (qv a) * (1 + (1 # 4096)) + (1 # 16777216)))
  | PInf => PInf
  end.
(** tight: v <= lo * (1 + 2^-27) + 2^-40 *)
Definition close_f (lo v : ereal) : bool :=
  match lo, v with
  | Fin a, Fin b => Qle_bool (this (qv b)) (this (qv a) * (1 + (1 # 134217728)) + (1 # 1099511627776))
  | _, _ => false
  end.
Definition pair_map (f : ereal -> ereal) (x : D) : D := (f (fst x), f (snd x)).
Definition pair_rel (r : ereal -> ereal -> bool) (x y : D) : bool := r (fst x) (fst y) && r (snd x) (snd y).

Definition encl2_dual := encl2 dops (pair_map rd_f) (pair_map ru_f) (pair_map infl_f) (pair_rel eleb) (pair_rel close_f).

(** division on [0, inf] as the floats do it: 0/0 and inf/inf are nan *)
Definition ediv (x y : ereal) : option ereal :=
  match x, y with
  | Fin a, Fin b => if is0 b then (if is0 a then None else Some PInf)
                    else Some (Fin (nn_of_Q (this (qv a) / this (qv b))))
  | Fin _, PInf => Some (Fin nn0)
  | PInf, Fin _ => Some PInf
  | PInf, PInf => None
  end.

Local Open Scope nat_scope.
(** terminal weights as duals with epsilon part 1 at entry (l0, i0) *)
Definition dual_weights (G : grammar) (ws : list (nat * list (option Q))) (l0 : nat) (i0 : list nat) : tmt (R:=D) :=
  map (fun p => (fst p, map (fun c => (fst c, (ereal_of (snd c),
                                                if Nat.eqb (fst p) l0 && nat_list_eqb (fst c) i0 then one ereal_ops else zero ereal_ops)))
                            (combine (all_assts (lshape G (fst p))) (snd p)))) ws.

Local Open Scope Q_scope.
Definition fin_q (x : ereal) : option Q := match x with Fin a => Some (this (qv a)) | PInf => None end.

(** interval of sum_i c_i * g_i for g_i in [lo_i, hi_i] (signed c) *)
Fixpoint contract (cs : list Q) (los his : list Q) : Q * Q :=
  match cs, los, his with
  | c :: cs, l :: los, h :: his =>
    let '(a, b) := contract cs los his in
    if Qle_bool 0 c then (c * l + a, c * h + b) else (c * h + a, c * l + b)
  | _, _, _ => (0, 0)
  end.

(** per-cell interval of the quantity whose contraction with the cotangent is observed:
    Real: dZ in [dlo, dv];  Log: w * dZ / Z in [w * dlo / zv, w * dv / zlo].
    None = inconclusive (an infinite bound); [Some None] = log Z = -inf at that cell *)
Definition cell_interval (is_log : bool) (wq : Q) (lo v : D) : option (option (Q * Q)) :=
  match fin_q (fst lo), fin_q (snd lo), fin_q (fst v), fin_q (snd v) with
  | Some zlo, Some dlo, Some zv, Some dv =>
    if is_log then
      if Qle_bool zv 0 then Some None
      else if Qle_bool zlo 0 then None
      else Some (Some (wq * dlo / zv, wq * dv / zlo))
    else Some (Some (dlo, dv))
  | _, _, _, _ => None
  end.

(** the cells of the start symbol in row-major order, each looked up in both tables *)
Fixpoint cells_intervals (is_log : bool) (wq : Q) (cells : list (list nat)) (lo v : table (R:=D)) : option (option (list Q * list Q)) :=
  match cells with
  | [] => Some (Some ([], []))
  | xi :: cells =>
    match cell_interval is_log wq (tab_get dops lo xi) (tab_get dops v xi), cells_intervals is_log wq cells lo v with
    | Some (Some (l, h)), Some (Some (ls, hs)) => Some (Some (l :: ls, h :: hs))
    | None, _ | _, None => None
    | _, _ => Some None
    end
  end.

Definition meets (a b : Q * Q) : bool := Qle_bool (fst a) (snd b) && Qle_bool (fst b) (snd a).

Local Open Scope nat_scope.
Definition wq_of (x : option Q) : Q := match x with Some q => q | None => 0%Q end.

(** split a signed cotangent into its positive and negative parts (both in the carrier) *)
Definition pos_part (c : Q) : ereal := Fin (nn_of_Q c).
Definition neg_part (c : Q) : ereal := Fin (nn_of_Q (- c)).

(** input: grammar, terminal weights, (log?, rounds of the enclosure search), cotangent (row-major
    over the start symbol's shape), observed gradient of every weight entry as an interval.
    verdicts: 0 ok; 1 an observed gradient entry misses the certified interval of the true
    derivative; 2 ill-formed input; 3 scc out of fuel; 4 an observation is missing or has the
    wrong size; 20 the code-shaped backward model differs from the dual-number derivative
    (non-recursive cases; framework bug); 30 no certified tight enclosure (discarded);
    31 log Z = -inf at some start cell (derivative undefined; discarded) *)
Definition verdict_of (codes : list nat) : nat :=
  if existsb (Nat.eqb 1) codes then 1
  else if existsb (Nat.eqb 20) codes then 20
  else if existsb (Nat.eqb 4) codes then 4
  else fold_left Nat.max codes 0.

(** certified bounds of the start symbol's dual cells (value, derivative w.r.t. entry (l, i0)):
    exact for non-recursive grammars (lo = v = Kleene iterate number #nonterminals) *)
Definition start_bounds (G : grammar) (ws : list (nat * list (option Q))) (rounds : nat) (nonrec : bool)
           (l : nat) (i0 : list nat) : option (table (R:=D) * table (R:=D)) :=
  let wd := dual_weights G ws l i0 in
  if nonrec then
    match tmt_get (Ztab dops G (env_of dops wd) (length (nonterminals G))) (g_start G) with
    | Some t => Some (t, t) | None => None end
  else match encl2_dual G (env_of dops wd) rounds with
       | Some (lo, v) => match tmt_get lo (g_start G), tmt_get v (g_start G) with
                         | Some a, Some b => Some (a, b) | _, _ => None end
       | None => None
       end.

(** the interval the observed gradient entry is compared with *)
Definition entry_interval (G : grammar) (ws : list (nat * list (option Q))) (is_log : bool) (rounds : nat) (nonrec : bool)
           (cot : list Q) (l : nat) (i0 : list nat) (wv : option Q) : option (option (Q * Q)) :=
  match start_bounds G ws rounds nonrec l i0 with
  | None => None
  | Some (tlo, tv) =>
    match cells_intervals is_log (wq_of wv) (all_assts (lshape G (g_start G))) tlo tv with
    | None => None
    | Some None => Some None
    | Some (Some (los, his)) => Some (Some (contract cot los his))
    end
  end.

(** [bpv]: the value of the code-shaped backward model for this entry, if computed *)
Definition entry_verdict (iv : option (option (Q * Q))) (ob1 : Q * Q) (bpv : option (option Q)) : nat :=
  match iv with
  | None => 30
  | Some None => 31
  | Some (Some iv) =>
    if negb (meets iv ob1) then 1
    else match bpv with
         | None => 0
         | Some (Some m) => if Qeq_bool m (fst iv) && Qeq_bool m (snd iv) then 0 else 20
         | Some None => 20
         end
  end.

Definition grad_check_real (x : grammar_w * list (nat * list (option Q)) * (bool * nat) * list Q
                                * list (nat * list (Q * Q))) : nat :=
  let '(gw, ws, (is_log, rounds), cot, obs) := x in
  let G := grammar_of_w gw in
  if negb (wf_grammar G) then 2 else
  if negb (Nat.eqb (length cot) (length (all_assts (lshape G (g_start G))))) then 2 else
  match scc (nt_graph G) with
  | None => 3
  | Some order =>
    let nonrec := nonrecursive_order G order in
    (* the code-shaped backward pass, once per case (Real, non-recursive only) *)
    let w0 := weights_tmt ereal_of G ws in
    let bp := if nonrec
              then if is_log
                   then Some (backward_nonrec_log ereal_ops ediv G w0 order (map pos_part cot),
                              backward_nonrec_log ereal_ops ediv G w0 order (map neg_part cot))
                   else Some (backward_nonrec ereal_ops G w0 order (map pos_part cot),
                              backward_nonrec ereal_ops G w0 order (map neg_part cot))
              else None in
    verdict_of (flat_map (fun p =>
      let l := fst p in
      match obs_get obs l with
      | None => []      (* this factor's gradient was not observed (bin/sum_product.py -g prints one factor) *)
      | Some ob =>
        let cells := all_assts (lshape G l) in
        if negb (Nat.eqb (length ob) (length cells) && Nat.eqb (length (snd p)) (length cells)) then [4] else
        map (fun c =>
          let '(i0, wv, ob1) := c in
          entry_verdict (entry_interval G ws is_log rounds nonrec cot l i0 wv) ob1
            (match bp with
             | None => None
             | Some (bpos, bneg) =>
               Some (match fin_q (env_of ereal_ops bpos l i0), fin_q (env_of ereal_ops bneg l i0) with
                     | Some a, Some b => Some (a - b)%Q
                     | _, _ => None
                     end)
             end)) (combine (combine cells (snd p)) ob)
      end) ws)
  end.
