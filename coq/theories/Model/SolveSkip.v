(** C02 / C09 -- "skip a zero pivot row" shortcuts in the matrix right-hand-side pass of
    [Semiring.solve_thunks] ([x.ndim == 2]: [self.add_(x, self.mul(a[:,k,None], x[k]))]).
    The pass may be skipped when the WHOLE pivot row [x[k]] is zero ([torch.all(x[k] == zero)]);
    testing for SOME zero entry ([torch.any]) is the same thing for a single column (a vector
    right-hand side or an (n,1) matrix) and wrong from two columns on.  Definitions only;
    theorems in Proofs/SolveSkip_proofs.v. *)
From Coq Require Import List Arith Bool PeanoNat.
Import ListNotations.
Require Import Fggs.Model.Semiring Fggs.Model.Solve.
Local Open Scope nat_scope.

Section Skip.
Context {S : Type} (o : sr_ops S) (eqb : S -> S -> bool).

(** [torch.all(x[k] == zero)] / [torch.any(x[k] == zero)] on an (n, m) matrix *)
Definition row_all_zero (m k : nat) (X : mat S) : bool :=
  forallb (fun c => eqb (get2 o X k c) (zero o)) (seq 0 m).
Definition row_some_zero (m k : nat) (X : mat S) : bool :=
  existsb (fun c => eqb (get2 o X k c) (zero o)) (seq 0 m).

(** one pass of the loop with the shortcut [if test(x[k]): continue] placed after the updates of [a] *)
Definition gj_step_mat_skip (test : nat -> nat -> mat S -> bool) (n m : nat)
           (st : mat S * mat S) (k : nat) : mat S * mat S :=
  let A2 := gj_astep o n k (fst st) in
  (A2, if test m k (snd st) then snd st else gj_xmat o n m k A2 (snd st)).
Definition solve_model_mat_skip (test : nat -> nat -> mat S -> bool) (n m : nat)
           (A B : mat S) : mat S :=
  snd (fold_left (gj_step_mat_skip test n m) (seq 0 n) (A, B)).

(** an (n, m) matrix in the list representation: equal to its own tabulation *)
Definition shaped (n m : nat) (X : mat S) : Prop := X = tab2 n m (get2 o X).
End Skip.
