(** L3 -- PatternedTensor of fggs/indices.py.  A patterned tensor is
      (physical : physical index tuple -> value, paxes, vaxes, default);
    its meaning is [denote] (what [__getitem__] with a full index tuple returns); [to_dense_store]
    models [to_dense] as coded (strided writes into a flat buffer filled with the default).
    The operations follow the code; proofs are in Proofs/PTensor_*.v. *)
From Coq Require Import List Arith Lia PeanoNat Bool PArith.
Import ListNotations.
Require Import Fggs.Model.Axis.

Section PT.
Variable V : Type.

Record ptensor : Type := mkPT {
  physical : list nat -> V;      (* indexed by one coordinate per element of [paxes] *)
  paxes : list pn;
  vaxes : list axis;
  default : V }.

Definition pcoords (ps : list pn) (rho : env) : list nat := map (fun kn => rho (fst kn)) ps.
Definition pget (t : ptensor) (rho : env) : V := physical t (pcoords (paxes t) rho).
Definition shape (t : ptensor) : list nat := map numel (vaxes t).

(** the element at a full index tuple *)
Definition denote (t : ptensor) (idx : list nat) : V :=
  match index_list (vaxes t) [] idx with
  | IOk pi => pget t (env_of pi)
  | _ => default t
  end.

(** * [to_dense] as coded: [new_full(size, default)], then [project(...).copy_(physical)] *)
Definition flat_offset (shp idx : list nat) : nat :=
  fold_left (fun acc ni => acc * fst ni + snd ni) (combine shp idx) 0.

(** row-major strides of a contiguous tensor *)
Fixpoint dstrides (shp : list nat) : list nat :=
  match shp with
  | [] => []
  | _ :: shp' => fold_right Nat.mul 1 shp' :: dstrides shp'
  end.

(** offset of the physical element [rho] inside the view built by [project]:
    [offset = sum_i o_i * n_i], [stride[k] = sum_i s_i[k] * n_i] *)
Definition proj_offset (fuel : nat) (vs : list axis) (dstr : list nat) (rho : env) : res nat :=
  fold_left (fun acc ed => a <- acc ;; r <- stride fuel [] (fst ed) ;;
                           Ok (a + (fst r + lin_eval rho (snd r)) * snd ed))
            (combine vs dstr) (Ok 0).

Definition write (st : nat -> V) (off : nat) (v : V) : nat -> V :=
  fun o => if Nat.eqb o off then v else st o.

Definition to_dense_store (t : ptensor) : res (nat -> V) :=
  let fuel := S (asize_list (vaxes t)) in
  fold_left (fun acc pi => st <- acc ;; off <- proj_offset fuel (vaxes t) (dstrides (shape t)) (env_of pi) ;;
                           Ok (write st off (pget t (env_of pi))))
            (all_envs (paxes t)) (Ok (fun _ => default t)).

(** * [__post_init__]: size-1 physical axes are replaced by [unitAxis] and squeezed *)
Fixpoint unsqueeze_coords (ps : list pn) (idx : list nat) : list nat :=
  match ps with
  | [] => []
  | (_, n) :: ps => if Nat.eqb n 1 then 0 :: unsqueeze_coords ps idx
                    else match idx with i :: idx' => i :: unsqueeze_coords ps idx' | [] => 0 :: unsqueeze_coords ps [] end
  end.

Definition post_init (t : ptensor) : res ptensor :=
  let ones := filter (fun kn => Nat.eqb (snd kn) 1) (paxes t) in
  match ones with
  | [] => Ok t
  | _ =>
      let sigma := map (fun kn => (fst kn, unitAxis)) ones in
      vs <- mapM (fun e => clone (asize e + 2) sigma e) (vaxes t) ;;   (* the values are unitAxis *)
      Ok (mkPT (fun idx => physical t (unsqueeze_coords (paxes t) idx))
               (filter (fun kn => negb (Nat.eqb (snd kn) 1)) (paxes t)) vs (default t))
  end.

(** * views *)
Definition with_vaxes (t : ptensor) (vs : list axis) : ptensor :=
  mkPT (physical t) (paxes t) vs (default t).

Fixpoint select {A} (dims : list nat) (l : list A) : option (list A) :=
  match dims with
  | [] => Some []
  | d :: dims => match nth_error l d, select dims l with
                 | Some x, Some r => Some (x :: r)
                 | _, _ => None
                 end
  end.

Definition is_perm (dims : list nat) (n : nat) : bool :=
  Nat.eqb (length dims) n && forallb (fun j => existsb (Nat.eqb j) dims) (seq 0 n).

(** [permute]: asserts that [dims] is a permutation of [range(len(vaxes))] *)
Definition pt_permute (dims : list nat) (t : ptensor) : option ptensor :=
  if is_perm dims (length (vaxes t))
  then match select dims (vaxes t) with Some vs => Some (with_vaxes t vs) | None => None end
  else None.

(** [transpose], with the slices as coded *)
Definition pt_transpose (d0 d1 : nat) (t : ptensor) : option ptensor :=
  if Nat.eqb d0 d1 then Some t else
  let a := Nat.min d0 d1 in let b := Nat.max d0 d1 in
  let v := vaxes t in
  if b <? length v
  then Some (with_vaxes t (firstn a v ++ firstn 1 (skipn b v) ++ firstn (b - a - 1) (skipn (a + 1) v)
                           ++ firstn 1 (skipn a v) ++ skipn (b + 1) v))
  else None.

Definition pt_T (t : ptensor) : ptensor := with_vaxes t (rev (vaxes t)).

Definition pt_t (t : ptensor) : option ptensor :=
  match vaxes t with
  | [] | [_] => Some t
  | [_; _] => pt_transpose 0 1 t
  | _ => None
  end.

Definition pt_flatten (t : ptensor) : ptensor :=
  match vaxes t with
  | [_] => t
  | vs => with_vaxes t [productAxis vs]
  end.

(** [unsqueeze] ([list.insert] clamps the position) *)
Definition pt_unsqueeze (dim : nat) (t : ptensor) : ptensor :=
  with_vaxes t (firstn dim (vaxes t) ++ [unitAxis] ++ skipn dim (vaxes t)).

(** * unary maps: [physical.f()], default given separately *)
Definition pt_map (f : V -> V) (fd : V) (t : ptensor) : ptensor :=
  mkPT (fun idx => f (physical t idx)) (paxes t) (vaxes t) fd.

(** * [freshen] / [clone]: the same renaming for [paxes] and [vaxes] *)
Definition pt_freshen (next : positive) (t : ptensor) : ptensor * positive :=
  let '(ps, st1) := freshen_list (map (fun kn => Phys (fst kn) (snd kn)) (paxes t))
                                 {| fs_rename := []; fs_next := next |} in
  let '(vs, st2) := freshen_list (vaxes t) st1 in
  (mkPT (physical t) (flat_map fvn ps) vs (default t), fs_next st2).

(** * [expand] *)
Fixpoint expand_loop (evs : list axis) (ns : list nat) (next : positive)
                     (news : list pn) (acc : list axis) : option (list pn * list axis * positive) :=
  (* [evs], [ns]: reversed vaxes and reversed sizes *)
  match evs, ns with
  | [], [] => Some (news, acc, next)
  | _ :: _, [] => None                                         (* RuntimeError: too few sizes *)
  | [], n :: ns' =>
      expand_loop [] ns' (Pos.succ next) ((next, n) :: news) (Phys next n :: acc)
  | e :: evs', n :: ns' =>
      if Nat.eqb (numel e) 1 && negb (Nat.eqb n 1) then
        let k := Phys next n in
        let e' := if is_unit e then k else productAxis [e; k] in
        if Nat.eqb (numel e') n then expand_loop evs' ns' (Pos.succ next) ((next, n) :: news) (e' :: acc) else None
      else if Nat.eqb (numel e) n then expand_loop evs' ns' next news (e :: acc) else None
  end.

Definition pt_expand (sizes : list nat) (next : positive) (t : ptensor) : option (ptensor * positive) :=
  match expand_loop (rev (vaxes t)) (rev sizes) next [] [] with
  | Some (news, vs, next') =>
      Some (mkPT (fun idx => physical t (skipn (length news) idx)) (news ++ paxes t) vs (default t), next')
  | None => None
  end.

(** * dense tensors as patterned tensors: [PatternedTensor(tensor, default=d)] *)
Fixpoint dense_axes (shp : list nat) (next : positive) : list axis * positive :=
  match shp with
  | [] => ([], next)
  | n :: shp' =>
      if Nat.eqb n 1 then let '(r, nx) := dense_axes shp' next in (unitAxis :: r, nx)
      else let '(r, nx) := dense_axes shp' (Pos.succ next) in (Phys next n :: r, nx)
  end.

(** coordinates of the squeezed tensor -> full index tuple *)
Fixpoint unsqueeze_idx (shp : list nat) (idx : list nat) : list nat :=
  match shp with
  | [] => []
  | n :: shp' => if Nat.eqb n 1 then 0 :: unsqueeze_idx shp' idx
                 else match idx with i :: idx' => i :: unsqueeze_idx shp' idx' | [] => 0 :: unsqueeze_idx shp' [] end
  end.

Definition pt_of_dense (shp : list nat) (f : list nat -> V) (d : V) (next : positive) : ptensor * positive :=
  let '(vs, nx) := dense_axes shp next in
  (mkPT (fun idx => f (unsqueeze_idx shp idx)) (flat_map fvn vs) vs d, nx).

(** [default_to]: [self] if the default is already [d], else densify *)
Definition pt_default_to (veqb : V -> V -> bool) (d : V) (next : positive) (t : ptensor) : ptensor * positive :=
  if veqb (default t) d then (t, next) else pt_of_dense (shape t) (denote t) d next.

(** [full(size, fill)] *)
Definition pt_full (shp : list nat) (d : V) (next : positive) : ptensor * positive :=
  pt_of_dense shp (fun _ => d) d next.

(** * [__getitem__] with a tuple of integers *)
Definition pt_getitem (vis : list nat) (next : positive) (t : ptensor) : res (ptensor * positive) :=
  let rest := skipn (length vis) (vaxes t) in
  match index_list (firstn (length vis) (vaxes t)) [] vis with
  | IErr => Fail IndexError
  | IEmpty => Ok (pt_full (map numel rest) (default t) next)
  | IOk pi =>
      let sigma := map (fun ki => (fst ki,
                                   Sum (snd ki) unitAxis
                                       (match assoc (fst ki) (paxes t) with Some n => n - snd ki - 1 | None => 0 end))) pi in
      vs <- mapM (fun e => clone (asize e + 3) sigma e) rest ;;
      let ps := filter (fun kn => match assoc (fst kn) pi with Some _ => false | None => true end) (paxes t) in
      Ok (mkPT (fun idx => physical t
                   ((fix fill (ps : list pn) (idx : list nat) : list nat :=
                       match ps with
                       | [] => []
                       | (k, _) :: ps' =>
                           match assoc k pi with
                           | Some i => i :: fill ps' idx
                           | None => match idx with j :: idx' => j :: fill ps' idx' | [] => 0 :: fill ps' [] end
                           end
                       end) (paxes t) idx))
               ps vs (default t), next)
  end.

(** * binary operations through [expansion] *)

(** [zip_longest(reversed(t.vaxes), reversed(u.vaxes), fillvalue=unitAxis)] *)
Fixpoint zip_longest_unit (es fs : list axis) : list (axis * axis) :=
  match es with
  | [] => map (fun f => (unitAxis, f)) fs
  | e :: es' =>
      match fs with
      | [] => map (fun e => (e, unitAxis)) es
      | f :: fs' => (e, f) :: zip_longest_unit es' fs'
      end
  end.

Record expansion_t := mkExp {
  ex_gs : list pn; ex_lggs : list axis;
  ex_paxes1 : list pn; ex_es : list axis;
  ex_paxes2 : list pn; ex_fs : list axis;
  ex_new1 : nat; ex_new2 : nat;          (* number of broadcast axes prepended to paxes1 / paxes2 *)
  ex_next : positive; ex_warn : bool }.

Fixpoint expansion_loop (fuel : nat) (pairs : list (axis * axis)) (st : astate)
                        (new1 new2 : list pn) (lggs : list axis)
  : res (astate * list pn * list pn * list axis) :=
  match pairs with
  | [] => Ok (st, new1, new2, lggs)
  | (e, f) :: pairs' =>
      if is_unit e && negb (is_unit f) then
        let k := as_next st in let n := numel f in
        let st' := {| as_list := as_list st ++ [(k, n, Phys k n, f)]; as_next := Pos.succ k; as_warn := as_warn st |} in
        expansion_loop fuel pairs' st' ((k, n) :: new1) new2 (Phys k n :: lggs)
      else if is_unit f && negb (is_unit e) then
        let k := as_next st in let n := numel e in
        let st' := {| as_list := as_list st ++ [(k, n, e, Phys k n)]; as_next := Pos.succ k; as_warn := as_warn st |} in
        expansion_loop fuel pairs' st' new1 ((k, n) :: new2) (Phys k n :: lggs)
      else
        r <- antiunify fuel e f st ;;
        expansion_loop fuel pairs' (snd r) new1 new2 (fst r :: lggs)
  end.

Definition expansion (next : positive) (t u : ptensor) : res expansion_t :=
  let fuel := 4 * (asize_list (vaxes t) + asize_list (vaxes u)) + 8 in
  r <- expansion_loop fuel (zip_longest_unit (rev (vaxes t)) (rev (vaxes u)))
                      {| as_list := []; as_next := next; as_warn := false |} [] [] [] ;;
  let '(st, new1, new2, lggs) := r in
  Ok {| ex_gs := map (fun en => match en with (k, n, _, _) => (k, n) end) (as_list st);
        ex_lggs := lggs;
        ex_paxes1 := new1 ++ paxes t;
        ex_es := map (fun en => match en with (_, _, e, _) => e end) (as_list st);
        ex_paxes2 := new2 ++ paxes u;
        ex_fs := map (fun en => match en with (_, _, _, f) => f end) (as_list st);
        ex_new1 := length new1; ex_new2 := length new2;
        ex_next := as_next st; ex_warn := as_warn st |}.

(** [PatternedTensor(t.physical.expand(sizes of paxes1), paxes1, es, t.default)]: the operand
    re-indexed by the generalised variables (densified by [to_dense] in the code) *)
Definition expanded (new : nat) (ps : list pn) (es : list axis) (t : ptensor) : ptensor :=
  mkPT (fun idx => physical t (skipn new idx)) ps es (default t).

Definition pnumel (ps : list pn) : nat := fold_right (fun kn acc => snd kn * acc) 1 ps.

(** [binary]: densify both operands to the generalised pattern, apply the operation *)
Definition pt_binary (op : V -> V -> V) (dflt : V) (next : positive) (t u : ptensor) : res (ptensor * positive) :=
  x <- expansion next t u ;;
  let T1 := expanded (ex_new1 x) (ex_paxes1 x) (ex_es x) t in
  let U1 := expanded (ex_new2 x) (ex_paxes2 x) (ex_fs x) u in
  Ok (mkPT (fun g => op (denote T1 g) (denote U1 g)) (ex_gs x) (ex_lggs x) dflt, ex_next x).

(** [commutative]: the three code paths *)
Definition pt_commutative (veqb : V -> V -> bool) (op : V -> V -> V) (identity dflt : V)
                          (next : positive) (t u : ptensor) : res (ptensor * positive) :=
  x <- expansion next t u ;;
  let T1 := expanded (ex_new1 x) (ex_paxes1 x) (ex_es x) t in
  let U1 := expanded (ex_new2 x) (ex_paxes2 x) (ex_fs x) u in
  if negb (veqb (default t) identity)
     || negb (Nat.eqb (length (ex_paxes1 x)) (length (paxes t)))
     || (Nat.eqb (length (ex_paxes2 x)) (length (paxes u)) && (pnumel (paxes u) <=? pnumel (paxes t)))
  then
    if veqb (default u) identity
    then (* operate in place on the strided sub-view of [td] that [u] covers *)
      Ok (mkPT (fun g => match index_list (ex_fs x) [] g with
                         | IOk pi => op (denote T1 g) (pget U1 (env_of pi))
                         | _ => denote T1 g
                         end) (ex_gs x) (ex_lggs x) dflt, ex_next x)
    else Ok (mkPT (fun g => op (denote T1 g) (denote U1 g)) (ex_gs x) (ex_lggs x) dflt, ex_next x)
  else
    Ok (mkPT (fun g => match index_list (ex_es x) [] g with
                       | IOk pi => op (denote U1 g) (pget T1 (env_of pi))
                       | _ => denote U1 g
                       end) (ex_gs x) (ex_lggs x) dflt, ex_next x).

(** [sub] (and [div] with [inv] = reciprocal, [op'] = mul): the third path computes
    [op' (inv u) t] *)
Definition pt_sub_like (veqb : V -> V -> bool) (op : V -> V -> V) (inv : V -> V) (op' : V -> V -> V)
                       (identity dflt : V) (next : positive) (t u : ptensor) : res (ptensor * positive) :=
  x <- expansion next t u ;;
  let T1 := expanded (ex_new1 x) (ex_paxes1 x) (ex_es x) t in
  if negb (veqb (default t) identity)
     || negb (Nat.eqb (length (ex_paxes1 x)) (length (paxes t)))
     || (Nat.eqb (length (ex_paxes2 x)) (length (paxes u)) && (pnumel (paxes u) <=? pnumel (paxes t)))
  then
    let U1 := expanded (ex_new2 x) (ex_paxes2 x) (ex_fs x) u in
    if veqb (default u) identity
    then
      Ok (mkPT (fun g => match index_list (ex_fs x) [] g with
                         | IOk pi => op (denote T1 g) (pget U1 (env_of pi))
                         | _ => denote T1 g
                         end) (ex_gs x) (ex_lggs x) dflt, ex_next x)
    else Ok (mkPT (fun g => op (denote T1 g) (denote U1 g)) (ex_gs x) (ex_lggs x) dflt, ex_next x)
  else
    let U1 := expanded (ex_new2 x) (ex_paxes2 x) (ex_fs x)
                       (mkPT (fun idx => inv (physical u idx)) (paxes u) (vaxes u) (inv (default u))) in
    Ok (mkPT (fun g => match index_list (ex_es x) [] g with
                       | IOk pi => op' (denote U1 g) (pget T1 (env_of pi))
                       | _ => denote U1 g
                       end) (ex_gs x) (ex_lggs x) dflt, ex_next x).

End PT.

Arguments mkPT {V}.
Arguments physical {V}.
Arguments paxes {V}.
Arguments vaxes {V}.
Arguments default {V}.
