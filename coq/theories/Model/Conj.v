(** Model of fggs/conjunction.py ([check_namespace_collisions], [nonterminal_pairs],
    [conjoinable], [conjoin_rules], [conjoin_hrgs]) and of fggs/utils.py:[unique_label_name],
    with self-contained graph / grammar types, derivation trees, an executable enumerator of
    derivations up to a depth, [pair]/[unpair] on derivation trees, the executable
    specifications (oracles) and the check functions of property C17.
    Definitions only; proofs are in Proofs/Conj*.v.

    Conventions (see notes/C17.md):
    - label *names* are Python strings = lists of code points ([str]); the pairing
      f"<{x},{y}>" and the suffix f"{name}_{i}" are real concatenations, so the clash
      "X"+"Y,Z" vs "X,Y"+"Z" exists in the model exactly as in the code;
    - node labels carry only a name, numbered by the harness ([nat]);
    - node and edge ids are numbered by the harness: an *even* code is an implicit id
      (a Python [int], [id(self)]), an *odd* code an explicit id (a Python [str]); among
      codes of the same parity the numeric order is Python's order on the ids;
    - Python [dict] = association list in insertion order; exceptions = [Err]. *)
From Coq Require Import List Arith Bool PeanoNat NArith Decimal DecimalNat.
Import ListNotations.

(** * Errors *)
Inductive err := ValueErr | TypeErr | KeyErr | OtherErr | FuelErr.
Inductive result (A : Type) := Ok (a : A) | Err (e : err).
Arguments Ok {A} a.
Arguments Err {A} e.

Definition bind {A B} (x : result A) (f : A -> result B) : result B :=
  match x with Ok a => f a | Err e => Err e end.
Notation "x <- e1 ;; e2" := (bind e1 (fun x => e2)) (at level 61, e1 at next level, right associativity).

(** a [for] loop that may raise *)
Fixpoint mfold {A S} (f : S -> A -> result S) (l : list A) (s : S) : result S :=
  match l with
  | [] => Ok s
  | x :: l => match f s x with Ok s' => mfold f l s' | Err e => Err e end
  end.

(** * Data *)
Fixpoint leqb {A} (eqb : A -> A -> bool) (a b : list A) : bool :=
  match a, b with
  | [], [] => true
  | x :: a, y :: b => eqb x y && leqb eqb a b
  | _, _ => false
  end.

Definition str := list nat.
Definition str_eqb : str -> str -> bool := leqb Nat.eqb.
Definition nats_eqb : list nat -> list nat -> bool := leqb Nat.eqb.

(** [EdgeLabel(name, node_labels, is_terminal)]: a frozen dataclass, [==] is structural *)
Record elabel := { el_name : str; el_type : list nat; el_term : bool }.
Definition elabel_eqb (a b : elabel) : bool :=
  str_eqb (el_name a) (el_name b) && nats_eqb (el_type a) (el_type b) && Bool.eqb (el_term a) (el_term b).

(** [Node(label, id)] ([persist_id] is determined by the kind of the id) *)
Record node := { n_id : nat; n_lab : nat }.
Definition node_eqb (a b : node) : bool := Nat.eqb (n_id a) (n_id b) && Nat.eqb (n_lab a) (n_lab b).

(** [Edge(label, nodes, id)]: the attachment is a tuple of Node *values* *)
Record edge := { e_id : nat; e_lab : elabel; e_att : list node }.
Definition edge_eqb (a b : edge) : bool :=
  Nat.eqb (e_id a) (e_id b) && elabel_eqb (e_lab a) (e_lab b) && leqb node_eqb (e_att a) (e_att b).

(** [Graph]: [_nodes], [_edges] (dicts keyed by id, insertion ordered), [_ext].  The graph's own
    label tables are not modelled: they are not observed by C17, and under [wf_hrg_b] and the
    terminal-conflict check [Graph.add_edge_label] cannot raise (notes/C17.md). *)
Record graph := { g_nodes : list node; g_edges : list edge; g_ext : list node }.
Definition graph_eqb (a b : graph) : bool :=
  leqb node_eqb (g_nodes a) (g_nodes b) && leqb edge_eqb (g_edges a) (g_edges b) && leqb node_eqb (g_ext a) (g_ext b).

Record rule := { r_lhs : elabel; r_rhs : graph }.
Definition rule_eqb (a b : rule) : bool := elabel_eqb (r_lhs a) (r_lhs b) && graph_eqb (r_rhs a) (r_rhs b).

(** [HRG]: node-label table, edge-label table (dicts keyed by name), start, [_rules : lhs -> [rule]] *)
Record hrg := { h_nlabels : list nat; h_elabels : list elabel; h_start : elabel;
                h_rules : list (elabel * list rule) }.

Definition all_rules (h : hrg) : list rule := concat (map snd (h_rules h)).
Definition is_nt (l : elabel) : bool := negb (el_term l).
Definition nonterminals (h : hrg) : list elabel := filter is_nt (h_elabels h).
Definition find_label (name : str) (t : list elabel) : option elabel :=
  find (fun l => str_eqb (el_name l) name) t.
Definition mem_label (l : elabel) (t : list elabel) : bool := existsb (elabel_eqb l) t.

Definition is_int_id (i : nat) : bool := Nat.even i.

Definition nt_edges (g : graph) : list edge := filter (fun e => is_nt (e_lab e)) (g_edges g).
Definition t_edges (g : graph) : list edge := filter (fun e => el_term (e_lab e)) (g_edges g).

(** * fggs/utils.py: unique_label_name *)
Fixpoint uint_codes (u : Decimal.uint) : str :=
  match u with
  | Nil => []
  | D0 u => 48 :: uint_codes u | D1 u => 49 :: uint_codes u | D2 u => 50 :: uint_codes u
  | D3 u => 51 :: uint_codes u | D4 u => 52 :: uint_codes u | D5 u => 53 :: uint_codes u
  | D6 u => 54 :: uint_codes u | D7 u => 55 :: uint_codes u | D8 u => 56 :: uint_codes u
  | D9 u => 57 :: uint_codes u
  end.
(** [str(i)] *)
Definition dec (n : nat) : str := uint_codes (Nat.to_uint n).

Definition smem (x : str) (l : list str) : bool := existsb (str_eqb x) l.
(** f'{name}_{i}' *)
Definition suffixed (name : str) (i : nat) : str := name ++ 95 :: dec i.

(** the [while new_name in names] loop, entered with [new_name = name_i] *)
Fixpoint uniq_loop (fuel i : nat) (name : str) (names : list str) : option str :=
  match fuel with
  | 0 => None
  | S f => if smem (suffixed name i) names then uniq_loop f (S i) name names
           else Some (suffixed name i)
  end.
Definition unique_name_fuel (fuel : nat) (name : str) (names : list str) : option str :=
  if smem name names then uniq_loop fuel 1 name names else Some name.
(** [None] = out of fuel; impossible (Proofs/ConjNames.v: [length names + 1] probes suffice) *)
Definition unique_name (name : str) (names : list str) : option str :=
  unique_name_fuel (length names) name names.
Definition unique_label_name_model (name : str) (labs : list elabel) : option str :=
  unique_name name (map el_name labs).

(** * fggs/conjunction.py *)
(** ** nonterminal_pairs *)
Definition ntmap := list ((elabel * elabel) * elabel).
Definition key_eqb (a b : elabel * elabel) : bool := elabel_eqb (fst a) (fst b) && elabel_eqb (snd a) (snd b).
Fixpoint nt_get (m : ntmap) (k : elabel * elabel) : option elabel :=
  match m with
  | [] => None
  | (k', v) :: m => if key_eqb k' k then Some v else nt_get m k
  end.
Fixpoint nt_set (m : ntmap) (k : elabel * elabel) (v : elabel) : ntmap :=
  match m with
  | [] => [(k, v)]
  | (k', v') :: m => if key_eqb k' k then (k', v) :: m else (k', v') :: nt_set m k v
  end.

(** f'<{a},{b}>' *)
Definition pair_name (a b : str) : str := 60 :: a ++ 44 :: b ++ [62].

(** one iteration of the inner loop; the state is (nt_map, labels); [labels] is a Python set
    used only through [name in names], so its order is immaterial ([unique_name_ext]) *)
Definition ntp_step (el1 : elabel) (st : ntmap * list elabel) (el2 : elabel) : result (ntmap * list elabel) :=
  match unique_label_name_model (pair_name (el_name el1) (el_name el2)) (snd st) with
  | None => Err FuelErr
  | Some nm =>
    let new_nt := {| el_name := nm; el_type := el_type el1; el_term := false |} in
    Ok (nt_set (fst st) (el1, el2) new_nt, new_nt :: snd st)
  end.
Definition ntp_outer (nts2 : list elabel) (st : ntmap * list elabel) (el1 : elabel) :=
  mfold (ntp_step el1) nts2 st.
Definition nonterminal_pairs_state (h1 h2 : hrg) : result (ntmap * list elabel) :=
  mfold (ntp_outer (nonterminals h2)) (nonterminals h1) ([], h_elabels h1 ++ h_elabels h2).
Definition nonterminal_pairs_model (h1 h2 : hrg) : result ntmap :=
  st <- nonterminal_pairs_state h1 h2 ;; Ok (fst st).

(** ** check_namespace_collisions *)
(** a NodeLabel is only a name, so [nl1 != nl2] never holds for equal names; the loop is kept *)
Definition check_namespace_collisions_model (h1 h2 : hrg) : list (nat * nat) * list (elabel * elabel) :=
  (flat_map (fun nl1 => match find (Nat.eqb nl1) (h_nlabels h2) with
                        | Some nl2 => if Nat.eqb nl1 nl2 then [] else [(nl1, nl2)]
                        | None => []
                        end) (h_nlabels h1),
   flat_map (fun el1 => match find_label (el_name el1) (h_elabels h2) with
                        | Some el2 => if elabel_eqb el1 el2 then [] else [(el1, el2)]
                        | None => []
                        end) (h_elabels h1)).

(** ** conjoinable *)
Definition set_eqb {A} (eqb : A -> A -> bool) (l1 l2 : list A) : bool :=
  forallb (fun x => existsb (eqb x) l2) l1 && forallb (fun y => existsb (eqb y) l1) l2.
Definition sig_eqb (a b : nat * list nat) : bool := Nat.eqb (fst a) (fst b) && nats_eqb (snd a) (snd b).
(** [(edge.id, tuple(node.id for node in edge.nodes))] over the nonterminal edges *)
Definition nt_sig (g : graph) : list (nat * list nat) :=
  map (fun e => (e_id e, map n_id (e_att e))) (nt_edges g).
Definition conjoinable_model (r1 r2 : rule) : bool :=
  if negb (set_eqb node_eqb (g_nodes (r_rhs r1)) (g_nodes (r_rhs r2))) then false
  else if negb (set_eqb sig_eqb (nt_sig (r_rhs r1)) (nt_sig (r_rhs r2))) then false
  else if negb (nats_eqb (map n_id (g_ext (r_rhs r1))) (map n_id (g_ext (r_rhs r2)))) then false
  else true.

(** ** conjoin_rules *)
(** [sorted(edges, key=lambda edge: (isinstance(edge.id, str), edge.id))]: stable; implicit (int)
    ids come before explicit (str) ones, ids of the same kind are compared *)
Definition id_leb (a b : nat) : bool :=
  if Nat.even a then (if Nat.even b then Nat.leb a b else true)
  else (if Nat.even b then false else Nat.leb a b).
Fixpoint insert_edge (x : edge) (l : list edge) : list edge :=
  match l with
  | [] => [x]
  | y :: l' => if id_leb (e_id x) (e_id y) then x :: l else y :: insert_edge x l'
  end.
Definition sort_edges (l : list edge) : list edge := fold_right insert_edge [] l.

Definition empty_graph : graph := {| g_nodes := []; g_edges := []; g_ext := [] |}.
Definition has_node_id (g : graph) (i : nat) : bool := existsb (fun m => Nat.eqb (n_id m) i) (g_nodes g).
Definition has_edge_id (g : graph) (i : nat) : bool := existsb (fun e => Nat.eqb (e_id e) i) (g_edges g).
Definition add_node (g : graph) (n : node) : result graph :=
  if has_node_id g (n_id n) then Err ValueErr
  else Ok {| g_nodes := g_nodes g ++ [n]; g_edges := g_edges g; g_ext := g_ext g |}.
(** [Graph._check_new_nodes]: the nodes to be added, ValueError if an id is already used by a
    different node ([old = self._nodes.get(node.id, new.get(node.id))]) *)
Definition find_node (i : nat) (l : list node) : option node := find (fun m => Nat.eqb (n_id m) i) l.
Fixpoint check_new_nodes (existing new ns : list node) : result (list node) :=
  match ns with
  | [] => Ok new
  | n :: ns =>
    match (match find_node (n_id n) existing with Some o => Some o | None => find_node (n_id n) new end) with
    | None => check_new_nodes existing (new ++ [n]) ns
    | Some old => if node_eqb old n then check_new_nodes existing new ns else Err ValueErr
    end
  end.
(** [for node in self._check_new_nodes(nodes): self.add_node(node)] *)
Definition add_new_nodes (g : graph) (ns : list node) : result graph :=
  new <- check_new_nodes (g_nodes g) [] ns ;; mfold add_node new g.
Definition set_ext (g : graph) (ns : list node) : result graph :=
  g' <- add_new_nodes g ns ;;
  Ok {| g_nodes := g_nodes g'; g_edges := g_edges g'; g_ext := ns |}.
Definition add_edge (g : graph) (e : edge) : result graph :=
  if has_edge_id g (e_id e) then Err ValueErr
  else g' <- add_new_nodes g (e_att e) ;;
       Ok {| g_nodes := g_nodes g'; g_edges := g_edges g' ++ [e]; g_ext := g_ext g' |}.
(** [Edge(label, nodes, id)]; the id is an explicit [str] id or [None] (then the caller supplies
    the fresh implicit id) *)
Definition mk_edge (lab : elabel) (ns : list node) (i : nat) : result edge :=
  if negb (nats_eqb (el_type lab) (map n_lab ns)) then Err ValueErr
  else Ok {| e_id := i; e_lab := lab; e_att := ns |}.
(** the id of an edge created without id ([id(self)]): some int distinct from every id in use.
    The harness renumbers the ids invented by the implementation, per rule and in order of
    creation, by this very function: the least even number above [base] (an upper bound of the ids
    of both input grammars) and above the ids of the edges already in the graph. *)
Definition fresh_eid (base : nat) (g : graph) : nat :=
  2 + 2 * Nat.div2 (fold_right Nat.max base (map e_id (g_edges g))).
(** [HRGRule(lhs, rhs)] raises a bare [Exception] *)
Definition mk_rule (lhs : elabel) (rhs : graph) : result rule :=
  if el_term lhs then Err OtherErr
  else if negb (nats_eqb (el_type lhs) (map n_lab (g_ext rhs))) then Err OtherErr
  else Ok {| r_lhs := lhs; r_rhs := rhs |}.

(** [Edge(label=nt_map[..], nodes=edge1.nodes, id=edge1.id if isinstance(edge1.id, str) else None)] *)
Definition conj_nt_edge (m : ntmap) (base : nat) (g : graph) (p : edge * edge) : result graph :=
  match nt_get m (e_lab (fst p), e_lab (snd p)) with
  | None => Err KeyErr
  | Some lab =>
    e <- mk_edge lab (e_att (fst p))
                 (if is_int_id (e_id (fst p)) then fresh_eid base g else e_id (fst p)) ;;
    add_edge g e
  end.
(** [if new_rhs.has_edge_id(edge.id): edge = Edge(edge.label, edge.nodes)]; [new_rhs.add_edge(edge)] *)
Definition add_t2_edge (base : nat) (g : graph) (e : edge) : result graph :=
  if has_edge_id g (e_id e)
  then e' <- mk_edge (e_lab e) (e_att e) (fresh_eid base g) ;; add_edge g e'
  else add_edge g e.

Definition conjoin_rules_model (base : nat) (r1 r2 : rule) (m : ntmap) : result rule :=
  match nt_get m (r_lhs r1, r_lhs r2) with
  | None => Err KeyErr
  | Some new_lhs =>
    g0 <- mfold add_node (g_nodes (r_rhs r1)) empty_graph ;;
    g1 <- set_ext g0 (g_ext (r_rhs r1)) ;;
    g2 <- mfold (conj_nt_edge m base)
                (combine (sort_edges (nt_edges (r_rhs r1))) (sort_edges (nt_edges (r_rhs r2)))) g1 ;;
    g3 <- mfold add_edge (t_edges (r_rhs r1)) g2 ;;
    g4 <- mfold (add_t2_edge base) (t_edges (r_rhs r2)) g3 ;;
    mk_rule new_lhs g4
  end.

(** ** conjoin_hrgs *)
(** [LabelingMixin.add_edge_label] on the HRG's table *)
Definition add_elabel (t : list elabel) (l : elabel) : result (list elabel) :=
  match find_label (el_name l) t with
  | Some l' => if elabel_eqb l' l then Ok t else Err ValueErr
  | None => Ok (t ++ [l])
  end.
Definition add_nlabel (t : list nat) (l : nat) : list nat :=
  if existsb (Nat.eqb l) t then t else t ++ [l].

(** [_rules.setdefault(lhs, []).append(x)], polymorphic in the payload so that the same code
    carries the provenance tags used by [unpair] *)
Fixpoint store_add {X} (s : list (elabel * list X)) (k : elabel) (x : X) : list (elabel * list X) :=
  match s with
  | [] => [(k, [x])]
  | (k', xs) :: s' => if elabel_eqb k' k then (k', xs ++ [x]) :: s' else (k', xs) :: store_add s' k x
  end.

(** a rule of the conjunction tagged with its provenance (index in all_rules of g1, of g2) *)
Definition trule := (rule * (nat * nat))%type.
Record hstate := { s_nl : list nat; s_el : list elabel; s_rules : list (elabel * list trule) }.

(** [HRG.add_rule]: the pre-check over [seen] (lhs, then the edge labels) followed by the
    insertions has the same outcome as inserting one by one: ValueError or the extended table *)
Definition add_rule_model (st : hstate) (x : trule) : result hstate :=
  let r := fst x in
  t1 <- add_elabel (s_el st) (r_lhs r) ;;
  t2 <- mfold add_elabel (map e_lab (g_edges (r_rhs r))) t1 ;;
  Ok {| s_nl := fold_left add_nlabel (map n_lab (g_nodes (r_rhs r))) (s_nl st);
        s_el := t2;
        s_rules := store_add (s_rules st) (r_lhs r) x |}.

Definition indexed {A} (l : list A) : list (nat * A) := combine (seq 0 (length l)) l.

(** the pairs visited by [for rule1 in all_rules1: for rule2 in all_rules2: if conjoinable] *)
Definition cpairs (h1 h2 : hrg) : list ((nat * nat) * (rule * rule)) :=
  flat_map (fun ir1 => flat_map (fun jr2 =>
       if conjoinable_model (snd ir1) (snd jr2) then [((fst ir1, fst jr2), (snd ir1, snd jr2))] else [])
     (indexed (all_rules h2))) (indexed (all_rules h1)).

Definition conj_step (m : ntmap) (base : nat) (st : hstate) (p : (nat * nat) * (rule * rule)) : result hstate :=
  r <- conjoin_rules_model base (fst (snd p)) (snd (snd p)) m ;; add_rule_model st (r, fst p).

(** an upper bound of all node and edge ids of the two grammars (see [fresh_eid]) *)
Definition graph_max_id (g : graph) : nat :=
  fold_right Nat.max (fold_right Nat.max 0 (map n_id (g_nodes g))) (map e_id (g_edges g)).
Definition hrg_max_id (h : hrg) : nat :=
  fold_right Nat.max 0 (map (fun r => graph_max_id (r_rhs r)) (all_rules h)).
Definition id_bound (h1 h2 : hrg) : nat := Nat.max (hrg_max_id h1) (hrg_max_id h2).

Definition tt_conflict (p : elabel * elabel) : bool := el_term (fst p) && el_term (snd p).

Definition conjoin_hrgs_tagged (h1 h2 : hrg) : result (elabel * hstate) :=
  let (n_col, e_col) := check_namespace_collisions_model h1 h2 in
  match n_col with
  | _ :: _ => Err ValueErr
  | [] =>
    if existsb tt_conflict e_col then Err ValueErr
    else
      m <- nonterminal_pairs_model h1 h2 ;;
      match nt_get m (h_start h1, h_start h2) with
      | None => Err KeyErr
      | Some s =>
        (* HRG(start): the start setter *)
        if el_term s then Err ValueErr
        else
          st <- mfold (conj_step m (id_bound h1 h2)) (cpairs h1 h2) {| s_nl := []; s_el := [s]; s_rules := [] |} ;;
          Ok (s, st)
      end
  end.

Definition untag (x : elabel * hstate) : hrg :=
  {| h_nlabels := s_nl (snd x); h_elabels := s_el (snd x); h_start := fst x;
     h_rules := map (fun kr => (fst kr, map fst (snd kr))) (s_rules (snd x)) |}.
Definition conjoin_hrgs_model (h1 h2 : hrg) : result hrg :=
  x <- conjoin_hrgs_tagged h1 h2 ;; Ok (untag x).
(** provenance of the rules of the conjunction, in its [all_rules] order *)
Definition prov_of (x : elabel * hstate) : list (nat * nat) :=
  map snd (concat (map snd (s_rules (snd x)))).
Definition conj_prov (h1 h2 : hrg) : list (nat * nat) :=
  match conjoin_hrgs_tagged h1 h2 with Ok x => prov_of x | Err _ => [] end.

(** * Well-formedness (the invariants the fggs API maintains; guards of the theorems) *)
Fixpoint nodup_nat (l : list nat) : bool :=
  match l with [] => true | x :: l => negb (existsb (Nat.eqb x) l) && nodup_nat l end.
Fixpoint nodup_str (l : list str) : bool :=
  match l with [] => true | x :: l => negb (smem x l) && nodup_str l end.
Fixpoint nodup_label (l : list elabel) : bool :=
  match l with [] => true | x :: l => negb (mem_label x l) && nodup_label l end.
Definition mem_node (n : node) (l : list node) : bool := existsb (node_eqb n) l.

Definition wf_graph_b (g : graph) : bool :=
  nodup_nat (map n_id (g_nodes g)) && nodup_nat (map e_id (g_edges g))
  && forallb (fun n => mem_node n (g_nodes g)) (g_ext g)
  && forallb (fun e => forallb (fun n => mem_node n (g_nodes g)) (e_att e)
                       && nats_eqb (el_type (e_lab e)) (map n_lab (e_att e))) (g_edges g).
Definition wf_rule_b (r : rule) : bool :=
  is_nt (r_lhs r) && nats_eqb (el_type (r_lhs r)) (map n_lab (g_ext (r_rhs r))) && wf_graph_b (r_rhs r).
Definition rule_labels_in (t : list elabel) (nl : list nat) (r : rule) : bool :=
  mem_label (r_lhs r) t && forallb (fun e => mem_label (e_lab e) t) (g_edges (r_rhs r))
  && forallb (fun n => existsb (Nat.eqb (n_lab n)) nl) (g_nodes (r_rhs r)).
Definition wf_hrg_b (h : hrg) : bool :=
  nodup_str (map el_name (h_elabels h)) && nodup_nat (h_nlabels h)
  && is_nt (h_start h) && mem_label (h_start h) (h_elabels h)
  && nodup_label (map fst (h_rules h))
  && forallb (fun kr => match snd kr with [] => false | _ => true end
                        && forallb (fun r => elabel_eqb (r_lhs r) (fst kr) && wf_rule_b r
                                             && rule_labels_in (h_elabels h) (h_nlabels h) r) (snd kr))
             (h_rules h).

(** * Derivation trees *)
(** a derivation tree: the index of a rule in [all_rules] (a rule occurrence) and one child
    per nonterminal edge of its right-hand side, in the order of the edges sorted by id *)
Inductive dtree := DNode (r : nat) (cs : list dtree).

Definition nt_sorted (r : rule) : list edge := sort_edges (nt_edges (r_rhs r)).

Fixpoint depth (t : dtree) : nat :=
  match t with DNode _ cs => S (fold_right Nat.max 0 (map depth cs)) end.

(** all lists picking one element of each list *)
Fixpoint prod_all {A} (ls : list (list A)) : list (list A) :=
  match ls with
  | [] => [[]]
  | l :: ls => flat_map (fun x => map (cons x) (prod_all ls)) l
  end.

(** all derivation trees of depth <= d rooted in nonterminal X *)
Fixpoint enum (h : hrg) (d : nat) (X : elabel) {struct d} : list dtree :=
  match d with
  | 0 => []
  | S d' =>
    flat_map (fun kr => if elabel_eqb (r_lhs (snd kr)) X
                        then map (DNode (fst kr)) (prod_all (map (fun e => enum h d' (e_lab e)) (nt_sorted (snd kr))))
                        else [])
             (indexed (all_rules h))
  end.

(** boolean well-formedness of a derivation tree rooted in X *)
Fixpoint wf_dtree_b (h : hrg) (X : elabel) (t : dtree) : bool :=
  match t with
  | DNode k cs =>
    match nth_error (all_rules h) k with
    | None => false
    | Some r =>
      elabel_eqb (r_lhs r) X &&
      (fix go (ls : list elabel) (cs : list dtree) {struct cs} : bool :=
         match ls, cs with
         | [], [] => true
         | l :: ls, c :: cs => wf_dtree_b h l c && go ls cs
         | _, _ => false
         end) (map e_lab (nt_sorted r)) cs
    end
  end.

(** same shape and conjoinable rules at every position *)
Fixpoint pairable_b (h1 h2 : hrg) (t1 t2 : dtree) : bool :=
  match t1, t2 with
  | DNode i cs1, DNode j cs2 =>
    match nth_error (all_rules h1) i, nth_error (all_rules h2) j with
    | Some r1, Some r2 =>
      conjoinable_model r1 r2 &&
      (fix go (l1 l2 : list dtree) : bool :=
         match l1, l2 with
         | [], [] => true
         | a :: l1, b :: l2 => pairable_b h1 h2 a b && go l1 l2
         | _, _ => false
         end) cs1 cs2
    | _, _ => false
    end
  end.

Fixpoint find_index {A} (p : A -> bool) (l : list A) : option nat :=
  match l with
  | [] => None
  | x :: l => if p x then Some 0 else option_map S (find_index p l)
  end.
Definition ij_eqb (i j : nat) (p : nat * nat) : bool := Nat.eqb (fst p) i && Nat.eqb (snd p) j.

(** [pair]: defined when the two trees have the same shape and at every position the pair of
    rule occurrences is a rule of the conjunction *)
Fixpoint pair_tree (prov : list (nat * nat)) (t1 t2 : dtree) : option dtree :=
  match t1, t2 with
  | DNode i cs1, DNode j cs2 =>
    match find_index (ij_eqb i j) prov with
    | None => None
    | Some k =>
      match (fix go (l1 l2 : list dtree) : option (list dtree) :=
               match l1, l2 with
               | [], [] => Some []
               | a :: l1, b :: l2 =>
                 match pair_tree prov a b, go l1 l2 with
                 | Some c, Some cs => Some (c :: cs)
                 | _, _ => None
                 end
               | _, _ => None
               end) cs1 cs2 with
      | Some cs => Some (DNode k cs)
      | None => None
      end
    end
  end.

(** [unpair]; the default of [nth] is unreachable for well-formed trees ([unpair_index_in_range]) *)
Fixpoint unpair_tree (prov : list (nat * nat)) (t : dtree) : dtree * dtree :=
  match t with
  | DNode k cs =>
    let ij := nth k prov (0, 0) in
    let ps := map (unpair_tree prov) cs in
    (DNode (fst ij) (map fst ps), DNode (snd ij) (map snd ps))
  end.

(** * Executable specifications (oracles) *)
(** ** names *)
(** [out] is the first of name, name_1, name_2, ... not among [names] *)
Fixpoint all_before (name : str) (names : list str) (i : nat) : bool :=
  (* name_1 .. name_i are all taken *)
  match i with 0 => true | S i' => smem (suffixed name i) names && all_before name names i' end.
Fixpoint find_suffix (name out : str) (n i : nat) : option nat :=
  (* the least j in [i, i+n) with out = name_j *)
  match n with
  | 0 => None
  | S n' => if str_eqb out (suffixed name i) then Some i else find_suffix name out n' (S i)
  end.
Definition unique_ok (name : str) (names : list str) (out : str) : bool :=
  negb (smem out names) &&
  (if str_eqb out name then true
   else smem name names &&
        match find_suffix name out (S (length names)) 1 with
        | Some j => all_before name names (pred j)
        | None => false
        end).

Definition all_pairs (h1 h2 : hrg) : list (elabel * elabel) :=
  flat_map (fun a => map (fun b => (a, b)) (nonterminals h2)) (nonterminals h1).
(** nt_map: keys = all pairs of nonterminals (each once), values nonterminal, typed like the
    first component, names fresh w.r.t. both grammars and pairwise distinct *)
Definition ntmap_ok (h1 h2 : hrg) (m : ntmap) : bool :=
  let keys := map fst m in
  let names := map (fun kv => el_name (snd kv)) m in
  forallb (fun k => existsb (key_eqb k) keys) (all_pairs h1 h2)
  && forallb (fun k => existsb (key_eqb k) (all_pairs h1 h2)) keys
  && Nat.eqb (length m) (length (all_pairs h1 h2))
  && nodup_str names
  && forallb (fun kv => is_nt (snd kv) && nats_eqb (el_type (snd kv)) (el_type (fst (fst kv)))
                        && negb (smem (el_name (snd kv)) (map el_name (h_elabels h1 ++ h_elabels h2)))) m.

(** a genuine terminal/terminal label conflict *)
Definition has_tt_conflict (h1 h2 : hrg) : bool :=
  existsb (fun a => existsb (fun b => str_eqb (el_name a) (el_name b) && negb (elabel_eqb a b)
                                      && el_term a && el_term b) (h_elabels h2)) (h_elabels h1).

(** ** rules *)
Fixpoint remove_first {A} (p : A -> bool) (l : list A) : option (list A) :=
  match l with
  | [] => None
  | x :: l => if p x then Some l else option_map (cons x) (remove_first p l)
  end.
(** every element of [xs] is matched with a distinct element of [todo], and all of [todo] is used *)
Fixpoint match_list {A B} (p : A -> B -> bool) (todo : list A) (xs : list B) : bool :=
  match xs with
  | [] => match todo with [] => true | _ => false end
  | x :: xs =>
    match remove_first (fun a => p a x) todo with
    | None => false
    | Some todo' => match_list p todo' xs
    end
  end.

(** the new nonterminal edge for the shared edge [(e1, e2)]: paired label, attachment of [e1],
    the id of [e1] if it is explicit, some implicit id otherwise *)
Definition nt_edge_ok (m : ntmap) (p : edge * edge) (e : edge) : bool :=
  match nt_get m (e_lab (fst p), e_lab (snd p)) with
  | Some l => elabel_eqb (e_lab e) l
  | None => false
  end
  && leqb node_eqb (e_att e) (e_att (fst p))
  && (if is_int_id (e_id (fst p)) then is_int_id (e_id e) else Nat.eqb (e_id e) (e_id (fst p))).
(** a terminal edge of rule 1 is kept; one of rule 2 is kept or re-created under an implicit id *)
Definition t_edge_ok (x : bool * edge) (e : edge) : bool :=
  if fst x then edge_eqb e (snd x)
  else elabel_eqb (e_lab e) (e_lab (snd x)) && leqb node_eqb (e_att e) (e_att (snd x))
       && (Nat.eqb (e_id e) (e_id (snd x)) || is_int_id (e_id e)).
Definition t_todo (r1 r2 : rule) : list (bool * edge) :=
  map (pair true) (t_edges (r_rhs r1)) ++ map (pair false) (t_edges (r_rhs r2)).

(** [r] is a conjunction of [r1] and [r2] under [m] (order-insensitive on nodes and edges); the
    shared nonterminal edges are the pairs of the id-sorted nonterminal edges of both rules
    (Proofs/ConjRule.v: [shared_pairs]) *)
Definition conj_rule_ok (r1 r2 : rule) (m : ntmap) (r : rule) : bool :=
  let g1 := r_rhs r1 in let g2 := r_rhs r2 in let g := r_rhs r in
  match nt_get m (r_lhs r1, r_lhs r2) with
  | None => false
  | Some l => elabel_eqb (r_lhs r) l
  end
  && set_eqb node_eqb (g_nodes g) (g_nodes g1) && set_eqb node_eqb (g_nodes g) (g_nodes g2)
  && leqb node_eqb (g_ext g) (g_ext g1) && nats_eqb (map n_id (g_ext g)) (map n_id (g_ext g2))
  (* one nonterminal edge per shared edge: paired label, shared attachment *)
  && match_list (nt_edge_ok m) (combine (nt_sorted r1) (nt_sorted r2)) (nt_edges g)
  (* the terminal edges of both *)
  && match_list t_edge_ok (t_todo r1 r2) (t_edges g)
  && wf_rule_b r.

(** ** grammar: every rule of [g] is the conjunction of a conjoinable pair, each pair used once *)
Definition match_rules (m : ntmap) (todo : list ((nat * nat) * (rule * rule))) (rs : list rule) : bool :=
  match_list (fun p r => conj_rule_ok (fst (snd p)) (snd (snd p)) m r) todo rs.

Definition conj_hrg_ok (h1 h2 : hrg) (m : ntmap) (g : hrg) : bool :=
  match nt_get m (h_start h1, h_start h2) with
  | Some s => elabel_eqb (h_start g) s
  | None => false
  end
  && match_rules m (cpairs h1 h2) (all_rules g)
  && wf_hrg_b g.

(** * Wire decoding and check functions *)
(** code points travel as binary numbers ([N]) to keep the case files small *)
Definition d_str (x : list N) : str := map N.to_nat x.
Definition w_el := (list N * list nat * bool)%type.
Definition w_node := (nat * nat)%type.
Definition w_edge := (nat * w_el * list w_node)%type.
Definition w_graph := (list w_node * list w_edge * list w_node)%type.
Definition w_rule := (w_el * w_graph)%type.
Definition w_hrg := (list nat * list w_el * w_el * list (w_el * list w_rule))%type.

Definition d_el (x : w_el) : elabel := let '(n, t, b) := x in {| el_name := d_str n; el_type := t; el_term := b |}.
Definition d_node (x : w_node) : node := {| n_id := fst x; n_lab := snd x |}.
Definition d_edge (x : w_edge) : edge :=
  let '(i, l, ns) := x in {| e_id := i; e_lab := d_el l; e_att := map d_node ns |}.
Definition d_graph (x : w_graph) : graph :=
  let '(ns, es, ext) := x in {| g_nodes := map d_node ns; g_edges := map d_edge es; g_ext := map d_node ext |}.
Definition d_rule (x : w_rule) : rule := {| r_lhs := d_el (fst x); r_rhs := d_graph (snd x) |}.
Definition d_hrg (x : w_hrg) : hrg :=
  let '(nl, els, s, rs) := x in
  {| h_nlabels := nl; h_elabels := map d_el els; h_start := d_el s;
     h_rules := map (fun kr => (d_el (fst kr), map d_rule (snd kr))) rs |}.
Definition d_ntmap (x : list (w_el * w_el * w_el)) : ntmap :=
  map (fun t => let '(a, b, c) := t in ((d_el a, d_el b), d_el c)) x.

Definition err_code (e : err) : nat :=
  match e with ValueErr => 1 | TypeErr => 2 | KeyErr => 3 | OtherErr => 4 | FuelErr => 5 end.

(** unique_label_name: (name, names, output).  0 ok; 1 oracle rejects; 10 differs from model *)
Definition uln_check (x : list N * list (list N) * list N) : nat :=
  let '(name, names, out) := x in
  let name := d_str name in let names := map d_str names in let out := d_str out in
  if negb (unique_ok name names out) then 1
  else match unique_name name names with
       | Some o => if str_eqb o out then 0 else 10
       | None => 11
       end.

Definition ntmap_eqb (a b : ntmap) : bool :=
  leqb (fun x y => key_eqb (fst x) (fst y) && elabel_eqb (snd x) (snd y)) a b.
Definition hrg_eqb (a b : hrg) : bool :=
  nats_eqb (h_nlabels a) (h_nlabels b) && leqb elabel_eqb (h_elabels a) (h_elabels b)
  && elabel_eqb (h_start a) (h_start b)
  && leqb (fun x y => elabel_eqb (fst x) (fst y) && leqb rule_eqb (snd x) (snd y)) (h_rules a) (h_rules b).

(** nonterminal_pairs: (g1, g2, nt_map of the implementation).
    0 ok; 1 oracle [ntmap_ok] rejects; 10 differs from the model; 20 input not well-formed *)
Definition ntp_check (x : w_hrg * w_hrg * list (w_el * w_el * w_el)) : nat :=
  let '(a, b, m) := x in
  let h1 := d_hrg a in let h2 := d_hrg b in let m := d_ntmap m in
  if negb (wf_hrg_b h1 && wf_hrg_b h2) then 20
  else if negb (ntmap_ok h1 h2 m) then 1
  else match nonterminal_pairs_model h1 h2 with
       | Ok m' => if ntmap_eqb m' m then 0 else 10
       | Err _ => 11
       end.

(** conjoin_hrgs: (g1, g2, nt_map of the implementation, error code, output grammar).
    error code 0 = returned normally (then the grammar is [Some]), else [err_code].
    0  ok
    1  a terminal/terminal conflict exists but no ValueError / ValueError without one (spec)
    2  an exception although there is no terminal conflict
    3  oracle [conj_hrg_ok] rejects the output grammar
    4  oracle [ntmap_ok] rejects nt_map
    10 output differs from the model's although the oracles accept it
    11 the error class differs from the model's
    20 input not well-formed (harness) *)
Definition conj_check (x : w_hrg * w_hrg * list (w_el * w_el * w_el) * nat * option w_hrg) : nat :=
  let '(a, b, m, code, out) := x in
  let h1 := d_hrg a in let h2 := d_hrg b in let m := d_ntmap m in
  if negb (wf_hrg_b h1 && wf_hrg_b h2) then 20
  else if has_tt_conflict h1 h2 then
    (if Nat.eqb code 1 then
       match conjoin_hrgs_model h1 h2 with Err ValueErr => 0 | _ => 11 end
     else 1)
  else if negb (ntmap_ok h1 h2 m) then 4
  else match out with
       | None =>
         if Nat.eqb code 0 then 20 else 2
       | Some g =>
         let g := d_hrg g in
         if negb (Nat.eqb code 0) then 20
         else if negb (conj_hrg_ok h1 h2 m g) then 3
         else match conjoin_hrgs_model h1 h2 with
              | Ok g' => if hrg_eqb g' g then 0 else 10
              | Err _ => 11
              end
       end.

(** derivation counts: (g1, g2, output grammar of the implementation, depth, cap).
    The derivations of the *implementation's* grammar up to the depth are enumerated and
    counted against the pairable pairs of derivations of g1 and g2, for every depth up to [d].
    0 ok; 7 counts differ; 30 skipped (more than [cap] trees on one side); 20 malformed *)
Definition count_pairable (h1 h2 : hrg) (l1 l2 : list dtree) : nat :=
  fold_left (fun acc t1 => acc + length (filter (pairable_b h1 h2 t1) l2)) l1 0.
Fixpoint count_upto (h1 h2 g : hrg) (cap d : nat) : nat :=
  match d with
  | 0 => 0
  | S d' =>
    match count_upto h1 h2 g cap d' with
    | 0 =>
      let l1 := enum h1 d (h_start h1) in
      let l2 := enum h2 d (h_start h2) in
      let l := enum g d (h_start g) in
      if (cap <? length l1) || (cap <? length l2) || (cap <? length l) then 30
      else if Nat.eqb (length l) (count_pairable h1 h2 l1 l2)
              && forallb (wf_dtree_b g (h_start g)) l then 0 else 7
    | c => c
    end
  end.
Definition count_check (x : w_hrg * w_hrg * w_hrg * nat * nat) : nat :=
  let '(a, b, g, d, cap) := x in
  let h1 := d_hrg a in let h2 := d_hrg b in let g := d_hrg g in
  if negb (wf_hrg_b h1 && wf_hrg_b h2 && wf_hrg_b g) then 20
  else count_upto h1 h2 g cap d.
