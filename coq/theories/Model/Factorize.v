(** Model of fggs/factorize.py: [factorize_rule] (with its recursive [visit]), [factorize_hrg],
    [factorize_fgg], of the parts of fggs/fggs.py they use ([Graph.add_edge]'s label-table test,
    [HRG.__init__], [HRG.add_rule], [FGG.from_hrg]), the executable specifications used as
    oracles ([inline_ok], [fresh_ok], [nodes_ok], [glue_ok]) and the translation of these
    id-based grammars to the positional grammars of Model/SumProduct.v.  Definitions only;
    proofs are in Proofs/Fz_*.v.  [unique_label_name] is the model of Model/Conj.v.

    Conventions (AGENT_GUIDE.md):
    - a [Node] is its id, numbered by the harness in [rhs.nodes()] order; its label is looked up
      in the original rule ([nlabel]); the code shares the [Node] objects between the original
      and the new rules, so ids are preserved;
    - an [Edge] is (id, label, attachment ids); original edges are numbered 1.. by the harness,
      the edges [Edge(child_lhs, child_ext)] created by [visit] get id 0 (Python: a fresh
      [id(self)], not observable);
    - an [EdgeLabel] is [Conj.elabel] (name = list of code points, type, is_terminal);
    - the tree decomposition [t : dict[frozenset, set[frozenset]]] that the implementation
      actually used is an argument ([ftd]): per bag, in [dict] order, its elements in the
      observed iteration order of the frozenset (this is the node order of the new rule) and
      the indices of its neighbours in the observed iteration order of [t[bag]];
    - [list(bag & parent)] iterates a new set: its order is the explicit oracle [ords]
      (indexed by bag); the model checks that it is an order of [bag & parent]
      ([TypeErr] otherwise -- a harness error, not a Python exception);
    - [labels] is a Python set of EdgeLabels, used only through [name in names]: a list here
      (its order is immaterial, Proofs/ConjNames.v: [unique_name_ext]);
    - exceptions are [Err]: [ValueErr] = ValueError (label-table conflict), [OtherErr] =
      AssertionError (no bag contains all externals), [FuelErr] = the recursion does not
      terminate (the decomposition has a cycle: RecursionError) *)
From Coq Require Import List Arith Bool PeanoNat.
Import ListNotations.
Require Import Fggs.Model.Conj.
Require Import Fggs.Model.TreeDec.
Require Fggs.Model.SumProduct.

(** * Data *)
Record fedge := { fe_id : nat; fe_lab : elabel; fe_att : list nat }.
Record frule := { fr_lhs : elabel; fr_nodes : list (nat * nat);   (* (id, node label) in [_nodes] order *)
                  fr_edges : list fedge; fr_ext : list nat }.
(** per bag: (elements in iteration order, neighbour indices in iteration order) *)
Definition ftd := list (list nat * list nat).

Definition fr_ids (r : frule) : list nat := map fst (fr_nodes r).
(** [v.label]; the default is unreachable for a node of the rule (Proofs/Fz_inline.v: [nlabel_In]) *)
Fixpoint nlabel (ns : list (nat * nat)) (v : nat) : nat :=
  match ns with
  | [] => 0
  | p :: ns' => if fst p =? v then snd p else nlabel ns' v
  end.

Definition fedge_eqb (a b : fedge) : bool :=
  (fe_id a =? fe_id b) && elabel_eqb (fe_lab a) (fe_lab b) && list_eqb (fe_att a) (fe_att b).
Definition pair_eqb (a b : nat * nat) : bool := (fst a =? fst b) && (snd a =? snd b).
Definition frule_eqb (a b : frule) : bool :=
  elabel_eqb (fr_lhs a) (fr_lhs b) && leqb pair_eqb (fr_nodes a) (fr_nodes b)
  && leqb fedge_eqb (fr_edges a) (fr_edges b) && list_eqb (fr_ext a) (fr_ext b).

Definition bag_of (t : ftd) (i : nat) : list nat := fst (nth i t ([], [])).
Definition nbrs_of (t : ftd) (i : nat) : list nat := snd (nth i t ([], [])).

(** the same decomposition in the representation of Model/TreeDec.v *)
Definition ftd_edges (t : ftd) : list (nat * nat) :=
  flat_map (fun p => map (fun j => (fst p, j)) (filter (fun j => fst p <? j) (snd p)))
           (combine (seq 0 (length t)) (map snd t)).
Definition td_of_ftd (t : ftd) : td := (map fst t, ftd_edges t).
(** adjacency well formed: neighbour lists duplicate-free, irreflexive, in range, symmetric *)
Definition ftd_wfb (t : ftd) : bool :=
  forallb (fun p => nodupb (snd p) && negb (mem (fst p) (snd p))
                    && forallb (fun j => (j <? length t) && mem (fst p) (nbrs_of t j)) (snd p))
          (combine (seq 0 (length t)) (map snd t)).

(** * factorize_rule *)
(** the primal graph: [g[v] = set()] for every node, then every edge's nodes and the externals
    are made cliques *)
Definition primal (r : frule) : graph :=
  fold_left make_clique (map fe_att (fr_edges r) ++ [fr_ext r]) (map (fun v => (v, [])) (fr_ids r)).

(** [for bag in t: if ext.issubset(bag): root = bag; break] *)
Fixpoint find_root (ext : list nat) (t : ftd) (i : nat) : option nat :=
  match t with
  | [] => None
  | p :: t' => if subset ext (fst p) then Some i else find_root ext t' (S i)
  end.

(** [bag.issuperset(e.nodes) and (parent is None or not parent.issuperset(e.nodes))], in
    [rule.rhs.edges()] order *)
Definition place_edges (r : frule) (b : list nat) (pb : option (list nat)) : list fedge :=
  filter (fun e => subset (fe_att e) b
                   && match pb with None => true | Some p => negb (subset (fe_att e) p) end)
         (fr_edges r).

(** [Graph.add_edge_label]: a label of the same name that is a different label *)
Definition name_conflict (l : elabel) (es : list fedge) : bool :=
  existsb (fun e => str_eqb (el_name (fe_lab e)) (el_name l) && negb (elabel_eqb (fe_lab e) l)) es.

Definition fstate := (list elabel * list frule)%type.       (* (labels, newrules) *)
Definition new_edge (l : elabel) (att : list nat) : fedge := {| fe_id := 0; fe_lab := l; fe_att := att |}.
Definition mk_rule (r : frule) (lhs : elabel) (b : list nat) (es : list fedge) (ext : list nat) : frule :=
  {| fr_lhs := lhs; fr_nodes := map (fun v => (v, nlabel (fr_nodes r) v)) b; fr_edges := es; fr_ext := ext |}.

(** "lhs and external nodes" of [visit]: returns (labels, lhs, ext) *)
Definition visit_head (r : frule) (t : ftd) (ords : list (list nat)) (i : nat) (parent : option nat)
           (labels : list elabel) : result (list elabel * elabel * list nat) :=
  match parent with
  | None => Ok (labels, fr_lhs r, fr_ext r)
  | Some p =>
    let ext := nth i ords [] in
    if negb (is_perm ext (set_inter (bag_of t i) (bag_of t p))) then Err TypeErr
    else match unique_name (el_name (fr_lhs r)) (map el_name labels) with
         | None => Err FuelErr
         | Some nm =>
           let lhs := {| el_name := nm; el_type := map (nlabel (fr_nodes r)) ext; el_term := false |} in
           Ok (lhs :: labels, lhs, ext)
         end
  end.

Definition is_parent (parent : option nat) (n : nat) : bool :=
  match parent with Some p => n =? p | None => false end.

(** [visit(bag, parent)]; the fuel bounds the recursion depth *)
Fixpoint visit (fuel : nat) (r : frule) (t : ftd) (ords : list (list nat)) (i : nat) (parent : option nat)
         (st : fstate) : result (fstate * (elabel * list nat)) :=
  match fuel with
  | 0 => Err FuelErr
  | S f =>
    hd <- visit_head r t ords i parent (fst st) ;;
    let '(labels, lhs, ext) := hd in
    let es0 := place_edges r (bag_of t i) (option_map (bag_of t) parent) in
    res <- mfold (fun (acc : fstate * list fedge) n =>
                    if is_parent parent n then Ok acc
                    else
                      c <- visit f r t ords n (Some i) (fst acc) ;;
                      if name_conflict (fst (snd c)) (snd acc) then Err ValueErr
                      else Ok (fst c, snd acc ++ [new_edge (fst (snd c)) (snd (snd c))]))
                 (nbrs_of t i) ((labels, snd st), es0) ;;
    Ok ((fst (fst res), snd (fst res) ++ [mk_rule r lhs (bag_of t i) (snd res) ext]), (lhs, ext))
  end.

Definition is_ntl (l : elabel) : bool := negb (el_term l).
(** [labels.add(rule.lhs); labels.update(rule.rhs.edge_labels())] (as of /repo 211579c) *)
Definition init_labels (r : frule) (labels : list elabel) : list elabel :=
  map fe_lab (fr_edges r) ++ fr_lhs r :: labels.
(** before 211579c: [labels.update(rule.rhs.nonterminals())] (finding F22) *)
Definition init_labels_old (r : frule) (labels : list elabel) : list elabel :=
  filter is_ntl (map fe_lab (fr_edges r)) ++ fr_lhs r :: labels.

(** the rest of [factorize_rule], from the label set [labels1] on *)
Definition factorize_rule_from (r : frule) (labels1 : list elabel) (t : ftd) (ords : list (list nat))
  : result (list frule * list elabel) :=
  match find_root (fr_ext r) t 0 with
  | None => Err OtherErr
  | Some root =>
    x <- visit (length t) r t ords root None (labels1, []) ;;
    Ok (snd (fst x), fst (fst x))
  end.
(** [factorize_rule(rule, method, labels)] given the decomposition [t] that
    [tree_decomposition(g, method)] returned: (newrules, labels afterwards) *)
Definition factorize_rule_model (r : frule) (labels : list elabel) (t : ftd) (ords : list (list nat))
  : result (list frule * list elabel) :=
  factorize_rule_from r (init_labels r labels) t ords.
Definition factorize_rule_old_model (r : frule) (labels : list elabel) (t : ftd) (ords : list (list nat))
  : result (list frule * list elabel) :=
  factorize_rule_from r (init_labels_old r labels) t ords.

(** * HRG / FGG *)
Record fhrg := { fh_nlabels : list nat; fh_elabels : list elabel; fh_start : elabel;
                 fh_rules : list (elabel * list frule) }.
Definition fh_all_rules (h : fhrg) : list frule := concat (map snd (fh_rules h)).

(** [add_edge_label] *)
Definition add_elabel (tbl : list elabel) (l : elabel) : result (list elabel) :=
  match find (fun x => str_eqb (el_name x) (el_name l)) tbl with
  | Some x => if elabel_eqb x l then Ok tbl else Err ValueErr
  | None => Ok (tbl ++ [l])
  end.
Definition add_nlabel (tbl : list nat) (l : nat) : list nat := if mem l tbl then tbl else tbl ++ [l].
(** [self._rules.setdefault(lhs, []).append(rule)] *)
Fixpoint rules_append (rs : list (elabel * list frule)) (r : frule) : list (elabel * list frule) :=
  match rs with
  | [] => [(fr_lhs r, [r])]
  | p :: rs' => if elabel_eqb (fst p) (fr_lhs r) then (fst p, snd p ++ [r]) :: rs'
                else p :: rules_append rs' r
  end.
(** [HRG.add_rule] *)
Definition hrg_add_rule (h : fhrg) (r : frule) : result fhrg :=
  els <- add_elabel (fh_elabels h) (fr_lhs r) ;;
  els' <- mfold add_elabel (map fe_lab (fr_edges r)) els ;;
  Ok {| fh_nlabels := fold_left add_nlabel (map snd (fr_nodes r)) (fh_nlabels h);
        fh_elabels := els'; fh_start := fh_start h; fh_rules := rules_append (fh_rules h) r |}.
(** [HRG(start)] *)
Definition hrg_new (start : elabel) : fhrg :=
  {| fh_nlabels := []; fh_elabels := [start]; fh_start := start; fh_rules := [] |}.

Definition rule_oracle := (ftd * list (list nat))%type.

(** [factorize_hrg(g, method)]: [orc] gives, per rule in [all_rules()] order, the decomposition
    returned by [tree_decomposition(., method)] and the observed orders; [gnew0] is the new
    grammar before the first rule is added *)
Definition factorize_hrg_from (g gnew0 : fhrg) (orc : list rule_oracle) : result fhrg :=
  x <- mfold (fun (acc : fhrg * list elabel) (p : frule * rule_oracle) =>
                y <- factorize_rule_model (fst p) (snd acc) (fst (snd p)) (snd (snd p)) ;;
                gn <- mfold hrg_add_rule (fst y) (fst acc) ;;
                Ok (gn, snd y))
             (combine (fh_all_rules g) orc) (gnew0, fh_elabels g) ;;
  Ok (fst x).
(** as of /repo 833be06: [gnew = HRG(g.start)] with the label tables of [g] copied *)
Definition factorize_hrg_with (g : fhrg) (orc : list rule_oracle) : result fhrg :=
  factorize_hrg_from g {| fh_nlabels := fh_nlabels g; fh_elabels := fh_elabels g; fh_start := fh_start g; fh_rules := [] |} orc.
(** before 833be06: the tables were rebuilt from the rules only (finding F20) *)
Definition factorize_hrg_old_with (g : fhrg) (orc : list rule_oracle) : result fhrg :=
  factorize_hrg_from g (hrg_new (fh_start g)) orc.
(** methods: 0 = min_fill, 1 = quickbb, 2 = acb (as in Model/TreeDec.v) *)
Definition factorize_hrg_model (m : nat) (g : fhrg) (orc : nat -> list rule_oracle) : result fhrg :=
  factorize_hrg_with g (orc m).

Record ffgg := { ff_hrg : fhrg; ff_domains : list (nat * nat);       (* node label -> domain (size) *)
                 ff_factors : list (str * nat) }.                     (* label name -> factor (an id) *)
(** [FGG.from_hrg] (as of /repo 450bcaa): [FGG(hrg.start)], the label tables of [hrg] are copied,
    then every rule is added *)
Definition from_hrg_model (h : fhrg) : result fhrg :=
  mfold hrg_add_rule (fh_all_rules h)
        {| fh_nlabels := fh_nlabels h; fh_elabels := fh_elabels h; fh_start := fh_start h; fh_rules := [] |}.
(** [factorize_fgg(g, method)] (as of /repo 207a206: [factorize_hrg(g, method=method)]) *)
Definition factorize_fgg_model (m : nat) (g : ffgg) (orc : nat -> list rule_oracle) : result ffgg :=
  h <- factorize_hrg_model m (ff_hrg g) orc ;;
  h' <- from_hrg_model h ;;
  Ok {| ff_hrg := h'; ff_domains := ff_domains g; ff_factors := ff_factors g |}.
(** the code before 207a206: [factorize_hrg(g)] was called without [method] (finding F7) *)
Definition factorize_fgg_old_model (m : nat) (g : ffgg) (orc : nat -> list rule_oracle) : result ffgg :=
  h <- factorize_hrg_model 0 (ff_hrg g) orc ;;
  h' <- from_hrg_model h ;;
  Ok {| ff_hrg := h'; ff_domains := ff_domains g; ff_factors := ff_factors g |}.

(** the decomposition of Model/TreeDec.v with canonical (ascending) iteration orders *)
Definition canon_ftd (t : td) : ftd :=
  map (fun i => (nth i (fst t) [],
                 filter (fun j => has_edge (snd t) i j) (seq 0 (length (fst t)))))
      (seq 0 (length (fst t))).
(** * Executable specifications (oracles), run on the IMPLEMENTATION's output *)
Fixpoint remove_first {A} (eqb : A -> A -> bool) (x : A) (l : list A) : option (list A) :=
  match l with
  | [] => None
  | y :: l' => if eqb x y then Some l'
               else match remove_first eqb x l' with Some l'' => Some (y :: l'') | None => None end
  end.
(** multiset equality *)
Fixpoint perm_b {A} (eqb : A -> A -> bool) (a b : list A) : bool :=
  match a with
  | [] => match b with [] => true | _ => false end
  | x :: a' => match remove_first eqb x b with Some b' => perm_b eqb a' b' | None => false end
  end.

Definition union_nodes (a b : list (nat * nat)) : list (nat * nat) :=
  fold_left (fun acc p => if existsb (pair_eqb p) acc then acc else acc ++ [p]) b a.

(** replace every edge whose label is the lhs of a rule of [tbl] by that rule's right-hand
    side, recursively: (nodes, edges) *)
Fixpoint expand (fuel : nat) (tbl : list frule) (c : frule) : option (list (nat * nat) * list fedge) :=
  match fuel with
  | 0 => None
  | S f =>
    fold_left (fun acc e =>
                 match acc with
                 | None => None
                 | Some (ns, es) =>
                   match filter (fun d => elabel_eqb (fr_lhs d) (fe_lab e)) tbl with
                   | [] => Some (ns, es ++ [e])
                   | [d] => if list_eqb (fe_att e) (fr_ext d)
                            then match expand f tbl d with
                                 | Some (ns', es') => Some (union_nodes ns ns', es ++ es')
                                 | None => None
                                 end
                            else None
                   | _ => None
                   end
                 end) (fr_edges c) (Some (fr_nodes c, []))
  end.

Definition split_last {A} (l : list A) : option (list A * A) :=
  match rev l with [] => None | x :: r => Some (rev r, x) end.

(** inlining the fresh nonterminals of [rs] (all rules but the last) into the last rule gives
    back [r]: same lhs, same ext, same node set (ids with labels, each id once), same edge
    multiset (id, label, attachment) *)
Definition inline_ok (r : frule) (rs : list frule) : bool :=
  match split_last rs with
  | None => false
  | Some (tbl, root) =>
    elabel_eqb (fr_lhs root) (fr_lhs r) && list_eqb (fr_ext root) (fr_ext r)
    && match expand (S (length rs)) tbl root with
       | Some (ns, es) => perm_b pair_eqb ns (fr_nodes r) && perm_b fedge_eqb es (fr_edges r)
       | None => false
       end
  end.

Fixpoint snodup (l : list str) : bool :=
  match l with [] => true | x :: l' => negb (smem x l') && snodup l' end.
Definition count_label (l : elabel) (rs : list frule) : nat :=
  length (filter (fun e => elabel_eqb (fe_lab e) l) (flat_map fr_edges rs)).

(** [existing] = the names of the labels that existed before (the [labels] argument, the rule's
    lhs and every edge label of the rule): the fresh left-hand sides are nonterminals whose
    names are pairwise distinct and not among [existing]; each labels exactly one edge of the
    new rules (and, their names being distinct, has exactly one rule) *)
Definition fresh_ok (existing : list str) (rs : list frule) : bool :=
  match split_last rs with
  | None => false
  | Some (tbl, _) =>
    let fresh := map fr_lhs tbl in
    snodup (map el_name fresh)
    && forallb (fun l => negb (smem (el_name l) existing) && negb (el_term l)
                         && (count_label l rs =? 1)) fresh
  end.

(** no new rule has more nodes than the original; every new rule's node set is a bag of the
    decomposition used, its nodes are nodes of the original rule with their labels *)
Definition nodes_ok (r : frule) (t : ftd) (rs : list frule) : bool :=
  forallb (fun c => (length (fr_nodes c) <=? length (fr_nodes r))
                    && nodupb (fr_ids c)
                    && existsb (fun p => set_eqb (fr_ids c) (fst p)) t
                    && forallb (fun p => existsb (pair_eqb p) (fr_nodes r)) (fr_nodes c)) rs.

(** * Translation to the positional grammars of Model/SumProduct.v *)
Fixpoint index_by {A} (p : A -> bool) (l : list A) : nat :=
  match l with [] => 0 | x :: l' => if p x then 0 else S (index_by p l') end.
Definition pos_of (ids : list nat) (v : nat) : nat := index_by (Nat.eqb v) ids.
Definition lab_idx (tbl : list elabel) (l : elabel) : nat := index_by (elabel_eqb l) tbl.

Definition to_sp_rule (tbl : list elabel) (r : frule) : SumProduct.rule :=
  {| SumProduct.r_lhs := lab_idx tbl (fr_lhs r);
     SumProduct.r_nodes := map snd (fr_nodes r);
     SumProduct.r_edges := map (fun e => (lab_idx tbl (fe_lab e), map (pos_of (fr_ids r)) (fe_att e))) (fr_edges r);
     SumProduct.r_ext := map (pos_of (fr_ids r)) (fr_ext r) |}.
(** [doms]: domain size of node label 0, 1, ... *)
Definition to_sp_grammar (doms : list nat) (h : fhrg) : SumProduct.grammar :=
  {| SumProduct.g_doms := doms;
     SumProduct.g_labels := map (fun l => (el_term l, el_type l)) (fh_elabels h);
     SumProduct.g_rules := map (to_sp_rule (fh_elabels h)) (fh_all_rules h);
     SumProduct.g_start := lab_idx (fh_elabels h) (fh_start h) |}.
