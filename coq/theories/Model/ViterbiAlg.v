(** C04: a code-shaped model of fggs/viterbi.py (after the repairs e387aa6, d7248ed, b0c8a1c,
    b171ddf): [sum_product_edges] with the arg-max einsum, [F_viterbi] with its back-pointer
    tables, the per-component fixed-point loop with the pointer merge, [reconstruct].
    Definitions only; theorems in Proofs/ViterbiAlg_*.v.

    Representation.  Every tensor operation of F_viterbi and of the merge is cell-wise
    ([gt], [masked_fill_into], [maximum], [fill_], [torch.where]), so the model computes, for
    every nonterminal n and every external assignment xi, ONE cell
        (value, lhs_pointer, [rhs_pointer of rule 0; rhs_pointer of rule 1; ...])
    by running the code's loop over the rules of n at that cell; the three tensors of the code
    are the projections [val_table], [lhs_table], [rhs_table] of the table of cells (array of
    structs instead of struct of arrays).  "n in Fx" (a MultiTensor key) is the flag
    [nr_present]; an absent key reads as -inf ([MultiTensor.__getitem__]).

    What is NOT modelled (contract only, see the task brief): the inside of
    [log_viterbi_einsum_forward].  Its contract is: per output cell the maximum over the
    summed-out indices of the product (= sum of log-weights) of the operands, and per summed-out
    index, in order of first appearance over the operands, an index value attaining it.
    TIE-BREAKING: the model takes the FIRST maximiser in the row-major enumeration [all_assts]
    of the rule's nodes (node order); torch_semiring_einsum's choice among maximisers may
    differ, so derivations are compared up to ties (same weight) by [vit_alg_check]. *)
From Coq Require Import QArith Qcanon Qabs List Arith Bool PeanoNat.
Import ListNotations.
Require Import Fggs.Model.Semiring Fggs.Model.SCC Fggs.Model.SumProduct Fggs.Model.SumProductCheck
               Fggs.Model.Kleene Fggs.Model.EReal Fggs.Model.Trop Fggs.Model.Viterbi.
Local Open Scope nat_scope.

(** * tables and dictionaries *)
(** a dense tensor indexed by tuples: row-major list of (index tuple, cell) *)
Fixpoint tget {A} (d : A) (t : list (list nat * A)) (xi : list nat) : A :=
  match t with [] => d | (k, v) :: t => if nat_list_eqb k xi then v else tget d t xi end.
Definition ttab {A} (shape : list nat) (f : list nat -> A) : list (list nat * A) :=
  map (fun xi => (xi, f xi)) (all_assts shape).
(** a Python dict keyed by labels: first binding wins (keys are distinct in every use) *)
Fixpoint aget {A} (l : list (nat * A)) (k : nat) : option A :=
  match l with [] => None | (a, v) :: l => if Nat.eqb a k then Some v else aget l k end.

Definition tgtb (x y : trop) : bool := negb (tleb x y).          (* torch [gt] / [>] *)

(** * nodes of a rule *)
(** [connected]: nodes attached to some edge, in order of first appearance over the edges *)
Definition attached (r : rule) : list nat := dedup (flat_map snd (r_edges r)).
(** the summed-out einsum indices: attached nodes that are not external, in order of first
    appearance (= the order of the columns of the pointer tensor) *)
Definition summed (r : rule) : list nat := filter (fun v => negb (mem (r_ext r) v)) (attached r).

Fixpoint index_of (v : nat) (l : list nat) : option nat :=
  match l with
  | [] => None
  | x :: l => if Nat.eqb x v then Some 0 else match index_of v l with Some j => Some (S j) | None => None end
  end.

(** what [reconstruct]'s [rhs_asst] amounts to (closed form used in the theorems; the loop
    itself is [rhs_asst_code] below): externals from the parent's assignment, then the
    non-external nodes in order of first appearance over the edges from the pointer row, then 0
    for nodes with no edges (repair b0c8a1c). *)
Definition node_val (r : rule) (xi ptr : list nat) (v : nat) : nat :=
  match index_of v (r_ext r) with
  | Some j => nth j xi 0
  | None => match index_of v (summed r) with Some j => nth j ptr 0 | None => 0 end
  end.
Definition rebuild (r : rule) (xi ptr : list nat) : list nat :=
  map (node_val r xi ptr) (seq 0 (length (r_nodes r))).

(** the same, statement by statement as in [reconstruct]: [rhs_asst] is a dict (association list
    in insertion order; a later binding of a key overrides an earlier one),
      rhs_asst = dict(zip(rule.rhs.ext, nt_asst)); ii = 0
      for e in edges: for v in e.nodes: if v not in rhs_asst: rhs_asst[v] = pointer_row[ii]; ii += 1
      assert ii == len(pointer_row)
      for v in nodes: if v not in rhs_asst: rhs_asst[v] = 0
    ([None]: the IndexError of [pointer_row[ii]] beyond the row, or the assertion).
    Proofs/ViterbiAlg_rhsasst.v: this is [rebuild] whenever the row has the right length and
    [nt_asst] is consistent on repeated external nodes. *)
Fixpoint dget (d : list (nat * nat)) (v : nat) : option nat :=
  match d with
  | [] => None
  | (k, x) :: d => match dget d v with
                   | Some y => Some y
                   | None => if Nat.eqb k v then Some x else None
                   end
  end.
Fixpoint fill_nodes (vs : list nat) (d : list (nat * nat)) (ptr : list nat) (ii : nat) : list (nat * nat) * nat :=
  match vs with
  | [] => (d, ii)
  | v :: vs => match dget d v with
               | Some _ => fill_nodes vs d ptr ii
               | None => fill_nodes vs (d ++ [(v, nth ii ptr 0)]) ptr (S ii)
               end
  end.
Definition rhs_asst_code (r : rule) (xi ptr : list nat) : option (list nat) :=
  let '(d, ii) := fill_nodes (flat_map snd (r_edges r)) (combine (r_ext r) xi) ptr 0 in
  if Nat.eqb ii (length ptr)
  then Some (map (fun v => match dget d v with Some x => x | None => 0 end) (seq 0 (length (r_nodes r))))
  else None.

(** * the arg-max einsum of one rule *)
(** candidate assignments at external assignment xi: every node has a value of its domain,
    the externals carry xi, nodes with no edge that are not external carry 0 *)
Definition cand_ok (r : rule) (xi a : list nat) : bool :=
  nat_list_eqb (sel a (r_ext r)) xi
  && forallb (fun v => mem (r_ext r) v || mem (attached r) v || Nat.eqb (nth v a 0) 0) (seq 0 (length (r_nodes r))).
Definition cands (G : grammar) (r : rule) (xi : list nat) : list (list nat) :=
  filter (cand_ok r xi) (all_assts (node_sizes G r)).

(** first maximiser: replaced only on strict improvement *)
Fixpoint argmax_from {A} (f : A -> trop) (l : list A) (bv : trop) (ba : A) : trop * A :=
  match l with
  | [] => (bv, ba)
  | x :: l => if tgtb (f x) bv then argmax_from f l (f x) x else argmax_from f l bv ba
  end.
Definition argmax_first {A} (f : A -> trop) (l : list A) : option (trop * A) :=
  match l with [] => None | x :: l => Some (argmax_from f l (f x) x) end.

Definition edges_prod (e : env (R:=trop)) (r : rule) (a : list nat) : trop :=
  prodS trop_ops (r_edges r) (fun ed => e (fst ed) (sel a (snd ed))).

(** (value, assignment to ALL nodes of the rule).  No candidate (an empty domain, or a repeated
    external node with two different values): [zero_result()] = value -inf, pointers 0. *)
Definition argmax_rule (G : grammar) (e : env (R:=trop)) (r : rule) (xi : list nat) : trop * list nat :=
  match argmax_first (edges_prod e r) (cands G r xi) with
  | Some p => p
  | None => (NInf, rebuild r xi [])
  end.

(** * sum_product_edges *)
(** what the dictionaries [maximum] (terminals and finished components) and [x] hold *)
Definition lkup := nat -> option (list nat -> trop).
Definition lk_env (lk : lkup) : env (R:=trop) :=
  fun l xi => match lk l with Some f => f xi | None => NInf end.
Definition labels_ok (lk : lkup) (r : rule) : bool :=
  forallb (fun ed => match lk (fst ed) with Some _ => true | None => false end) (r_edges r).
(** [None]: some edge label has no entry ("one argument to einsum will be the zero tensor");
    otherwise (tau_rule[xi], pointer[xi]) -- the pointer row lists the values of [summed r] *)
Definition spe_vit (G : grammar) (lk : lkup) (r : rule) (xi : list nat) : option (trop * list nat) :=
  if labels_ok lk r
  then let '(v, a) := argmax_rule G (lk_env lk) r xi in Some (v, sel a (summed r))
  else None.

(** * F_viterbi *)
Definition vcell := (trop * nat * list (option (list nat)))%type.   (* value, lhs_pointer, rhs_pointer per rule *)
Definition fstate := (bool * trop * nat * list (option (list nat)))%type.  (* "n in Fx", then the cell *)
Definition enum {A} (l : list A) : list (nat * A) := combine (seq 0 (length l)) l.

(** one pass of [for ri, rule in enumerate(fgg.rules(n))] at cell xi *)
Definition F_rule_step (G : grammar) (lk : lkup) (xi : list nat) (st : fstate) (p : nat * rule) : fstate :=
  let '(present, v, lp, rps) := st in
  match spe_vit G lk (snd p) xi with
  | Some (tau, ptr) =>
    if present
    then (true, tmax v tau, (if tgtb tau v then fst p else lp), rps ++ [Some ptr])   (* gt / masked_fill_into; maximum *)
    else (true, tau, fst p, rps ++ [Some ptr])                                       (* fill_(ri); Fx[n] = tau_rule *)
  | None => (present, v, lp, rps ++ [None])
  end.
Definition F_cell (G : grammar) (lk : lkup) (n : nat) (xi : list nat) : fstate :=
  fold_left (F_rule_step G lk xi) (enum (rules_of G n)) (false, NInf, 0, []).
Definition cell_of (s : fstate) : vcell := let '(_, v, lp, rps) := s in (v, lp, rps).

Record ntres : Type := { nr_present : bool; nr_cells : list (list nat * vcell) }.
Definition F_nt (G : grammar) (lk : lkup) (n : nat) : ntres :=
  {| nr_present := existsb (labels_ok lk) (rules_of G n);
     nr_cells := ttab (lshape G n) (fun xi => cell_of (F_cell G lk n xi)) |}.
Definition cst := list (nat * ntres).
Definition F_viterbi_model (G : grammar) (lk : lkup) (comp : list nat) : cst :=
  map (fun n => (n, F_nt G lk n)) comp.

(** the three tensors of the code *)
Definition cell_default : vcell := (NInf, 0, []).
Definition nt_cell (nr : ntres) (xi : list nat) : vcell := tget cell_default (nr_cells nr) xi.
Definition nt_val (nr : ntres) (xi : list nat) : trop := fst (fst (nt_cell nr xi)).
Definition val_table (nr : ntres) : list (list nat * trop) := map (fun p => (fst p, fst (fst (snd p)))) (nr_cells nr).
Definition lhs_table (nr : ntres) : list (list nat * nat) := map (fun p => (fst p, snd (fst (snd p)))) (nr_cells nr).
Definition rhs_table (nr : ntres) (ri : nat) : option (list (list nat * list nat)) :=
  match nr_cells nr with
  | [] => None
  | c :: _ => match nth ri (snd (snd c)) None with
              | None => None
              | Some _ => Some (map (fun p => (fst p, match nth ri (snd (snd p)) None with Some q => q | None => [] end)) (nr_cells nr))
              end
  end.

(** * the dictionaries *)
Definition st_lk (st : cst) (l : nat) : option (list nat -> trop) :=
  match aget st l with
  | Some nr => if nr_present nr then Some (nt_val nr) else None
  | None => None
  end.
(** [for inputs in reversed(inputses)]: [maximum] first (terminals, finished components), then [x] *)
Definition lookup (G : grammar) (w : env (R:=trop)) (done : cst) (x : option cst) : lkup :=
  fun l => if is_term G l then Some (w l)
           else match st_lk done l with
                | Some f => Some f
                | None => match x with Some st => st_lk st l | None => None end
                end.
(** [x[n]]: an absent key reads as the zero tensor *)
Definition x_val (x : option cst) (n : nat) (xi : list nat) : trop :=
  match x with
  | Some st => match st_lk st n with Some f => f xi | None => NInf end
  | None => NInf
  end.

(** * the pointer merge (repair b171ddf) *)
Definition merge_rhs (improved : bool) (new old : option (list nat)) : option (list nat) :=
  match old with
  | None => new                                           (* if old is None: continue *)
  | Some o => match new with
              | None => Some o                            (* if new is None: rp1[n][ri] = old *)
              | Some nw => Some (if improved then nw else o)
              end
  end.
Fixpoint merge_rhs_list (improved : bool) (new old : list (option (list nat))) : list (option (list nat)) :=
  match new, old with
  | nw :: new, o :: old => merge_rhs improved nw o :: merge_rhs_list improved new old
  | new, _ => new                                         (* zip stops at the shorter list *)
  end.
(** [xold] = x[n][xi] (the previous value), [old] = the previous (merged) cell *)
Definition merge_cell (new : vcell) (xold : trop) (old : vcell) : vcell :=
  let '(v1, lp1, rp1) := new in
  let '(_, lp0, rp0) := old in
  let improved := tgtb v1 xold in
  (v1, (if improved then lp1 else lp0), merge_rhs_list improved rp1 rp0).
Definition merge_nt (n : nat) (new : ntres) (old : cst) : ntres :=
  if nr_present new                                       (* if n not in x1: continue *)
  then match aget old n with
       | Some o => {| nr_present := true;
                      nr_cells := map (fun p => (fst p, merge_cell (snd p) (x_val (Some old) n (fst p)) (nt_cell o (fst p)))) (nr_cells new) |}
       | None => new
       end
  else new.
Definition merge_comp (new old : cst) : cst := map (fun p => (fst p, merge_nt (fst p) (snd p) old)) new.

(** * the stop test: MultiTensor.allclose(x, x1, tol) with rtol = 0 *)
Definition tclose (tol : Q) (a b : trop) : bool :=
  match a, b with
  | NInf, NInf | TPInf, TPInf => true
  | TFin p, TFin q => Qle_bool (Qabs (this p - this q)) tol
  | _, _ => false
  end.
Definition all_close (G : grammar) (tol : Q) (comp : list nat) (x : option cst) (x1 : cst) : bool :=
  forallb (fun n => forallb (fun xi => tclose tol (x_val x n xi) (x_val (Some x1) n xi)) (all_assts (lshape G n))) comp.
Definition all_equal (G : grammar) (comp : list nat) (x : option cst) (x1 : cst) : bool :=
  forallb (fun n => forallb (fun xi => teqb (x_val x n xi) (x_val (Some x1) n xi)) (all_assts (lshape G n))) comp.

Section Loop.
Variables (G : grammar) (w : env (R:=trop)) (tol : Q) (done : cst) (comp : list nat).

(** one pass of the body of [for k in range(kmax)]: evaluate, merge unless this is the first
    pass ([lp0 is None]) *)
Definition vstep (x : option cst) : cst :=
  let new := F_viterbi_model G (lookup G w done x) comp in
  match x with None => new | Some old => merge_comp new old end.

(** the loop.  Result: the (x1, lp1, rp1) left in the variables after the loop, and a ghost
    flag: were the last two iterates EXACTLY equal?  [None]: the body never ran (kmax = 0; the
    code then uses unbound / stale variables). *)
Fixpoint vloop (fuel : nat) (x : option cst) (last : option (cst * bool)) : option (cst * bool) :=
  match fuel with
  | 0 => last
  | S f =>
    let x1 := vstep x in
    let res := (x1, all_equal G comp x x1) in
    if all_close G tol comp x x1 then Some res else vloop f (Some x1) (Some res)
  end.

(** the PRE-repair loop: no merge, the pointers of the last evaluation win *)
Fixpoint vloop_old (fuel : nat) (x : option cst) (last : option (cst * bool)) : option (cst * bool) :=
  match fuel with
  | 0 => last
  | S f =>
    let x1 := F_viterbi_model G (lookup G w done x) comp in
    let res := (x1, all_equal G comp x x1) in
    if all_close G tol comp x x1 then Some res else vloop_old f (Some x1) (Some res)
  end.
End Loop.

(** "The component has one nonterminal and is acyclic" *)
Definition trivial_comp (G : grammar) (comp : list nat) : bool :=
  match comp with
  | [nt] => negb (existsb (fun r => existsb (fun ed => Nat.eqb (fst ed) nt) (r_edges r)) (rules_of G nt))
  | _ => false
  end.

Definition comp_model (old : bool) (G : grammar) (w : env (R:=trop)) (tol : Q) (kmax : nat) (done : cst) (comp : list nat)
  : option (cst * bool) :=
  if trivial_comp G comp then Some (F_viterbi_model G (lookup G w done None) comp, true)
  else if old then vloop_old G w tol done comp kmax None None
  else vloop G w tol done comp kmax None None.

(** all components in the order given ([maximum.update], [lhs_pointer.update],
    [rhs_pointer.update]: the components are disjoint, so appending = updating).  The flag:
    every iterated component ended with two exactly equal iterates. *)
Definition tables_gen (old : bool) (G : grammar) (w : env (R:=trop)) (order : list (list nat)) (tol : Q) (kmax : nat)
  : option (cst * bool) :=
  fold_left (fun acc comp =>
               match acc with
               | None => None
               | Some (done, ok) =>
                 match comp_model old G w tol kmax done comp with
                 | None => None
                 | Some (st, c) => Some (done ++ st, ok && c)
                 end
               end) order (Some ([], true)).
Definition viterbi_tables := tables_gen false.

(** * reconstruct *)
(** position in [g_rules] of the ri-th rule of X ([list(fgg.rules(nt))[ri]]) *)
Definition rule_idx (G : grammar) (X : nat) : list nat :=
  filter (fun i => Nat.eqb (r_lhs (get_rule G i)) X) (seq 0 (length (g_rules G))).

Fixpoint opt_all {A} (l : list (option A)) : option (list A) :=
  match l with
  | [] => Some []
  | None :: _ => None
  | Some x :: l => match opt_all l with Some r => Some (x :: r) | None => None end
  end.

(** [None]: out of fuel, or one of the code's exceptions (KeyError for a label without tables,
    IndexError for a rule index out of range, TypeError for a [None] rhs_pointer, the
    assertion [ii == len(pointer row)]) *)
Fixpoint reconstruct_model (G : grammar) (T : cst) (fuel : nat) (X : nat) (xi : list nat) : option dtree :=
  match fuel with
  | 0 => None
  | S f =>
    match aget T X with
    | None => None
    | Some nr =>
      let '(_, lp, rps) := nt_cell nr xi in
      match nth_error (rule_idx G X) lp with
      | None => None
      | Some gi =>
        let r := get_rule G gi in
        match nth lp rps None with
        | None => None
        | Some ptr =>
          match rhs_asst_code r xi ptr with
          | None => None
          | Some a =>
          match opt_all (map (fun ed => if is_term G (fst ed) then Some None
                                        else match reconstruct_model G T f (fst ed) (sel a (snd ed)) with
                                             | Some t => Some (Some t)
                                             | None => None
                                             end) (r_edges r)) with
          | Some ch => Some (DT gi a ch)
          | None => None
          end
          end
        end
      end
    end
  end.

(** recursion depth bound used by the end-to-end model (justified by
    C04_reconstruct_terminates: one level per (component, iteration)) *)
Definition fuel_bound (order : list (list nat)) (kmax : nat) : nat := length order * S kmax + 1.

Definition viterbi_gen (old : bool) (G : grammar) (w : env (R:=trop)) (order : list (list nat)) (xi : list nat)
           (tol : Q) (kmax : nat) (fuel : nat) : option dtree :=
  if negb (Nat.eqb (length xi) (length (ltype G (g_start G)))) then None      (* ValueError *)
  else match tables_gen old G w order tol kmax with
       | None => None
       | Some (T, _) => reconstruct_model G T fuel (g_start G) xi
       end.
Definition viterbi_model (G : grammar) (w : env (R:=trop)) (order : list (list nat)) (xi : list nat) (tol : Q) (kmax : nat) : option dtree :=
  viterbi_gen false G w order xi tol kmax (fuel_bound order kmax).
(** the code before b171ddf (pointers of the last evaluation only) *)
Definition viterbi_old_model (G : grammar) (w : env (R:=trop)) (order : list (list nat)) (xi : list nat) (tol : Q) (kmax : nat) (fuel : nat) : option dtree :=
  viterbi_gen true G w order xi tol kmax fuel.

(** value of a cell of the final tables (absent = -inf) *)
Definition tables_val (T : cst) (X : nat) (xi : list nat) : trop := x_val (Some T) X xi.

Fixpoint dtree_eqb (a b : dtree) {struct a} : bool :=
  match a, b with
  | DT i x c, DT j y d =>
    Nat.eqb i j && nat_list_eqb x y
    && (fix eql (c : list (option dtree)) (d : list (option dtree)) {struct c} : bool :=
          match c, d with
          | [], [] => true
          | None :: c, None :: d => eql c d
          | Some s :: c, Some u :: d => dtree_eqb s u && eql c d
          | _, _ => false
          end) c d
  end.

(** * the check function *)
(** input: grammar, terminal log-weights, start assignment, (kmax, tol), observation
    (kind, tree): kind 0 = fggs.viterbi returned this derivation, 1 = it raised.
    verdicts: 0 the implementation's derivation IS the model's; 32 they differ only by
    tie-breaking (both well formed, same weight = the model's cell value) -- accepted;
    1 the implementation raised although the model finds a derivation of finite weight;
    2 ill-formed grammar; 3 scc fuel; 5 the implementation's derivation is not well formed;
    10 the implementation's derivation has a different weight than the model's (one of them is
    not optimal: [vit_check] decides which); 12 the model finds no derivation although its
    value is finite (framework bug); 20 the model's derivation is not well formed or does not
    have the cell's value as weight (framework bug; excluded by C04_reconstruct_terminates when
    the loop converged); 31 the model's value at the start cell is not finite (outside the
    property); 33 kmax = 0; 34 the model's loop hit kmax without two equal iterates *)
Definition vit_alg_check (x : grammar_w * list (nat * list (nat * Q)) * list nat * (nat * Q) * (nat * dtree)) : nat :=
  let '(gw, ws, xi, (kmax, tol), (kind, t)) := x in
  let G := grammar_of_w gw in
  if negb (wf_grammar G) then 2 else
  match scc (nt_graph G) with
  | None => 3
  | Some order =>
    (* the order Tarjan's model returns passes the verified oracle of C19 (always, by
       tarjan_correct; re-checked here so that the soundness theorem needs no premise) *)
    if negb (scc_ok (nt_graph G) order) then 3 else
    let w := env_of trop_ops (weights_tmt trop_of G ws) in
    if negb (Nat.eqb (length xi) (length (ltype G (g_start G)))) then 2 else
    match viterbi_tables G w order tol kmax with
    | None => 33
    | Some (T, conv) =>
      let v := tables_val T (g_start G) xi in
      if negb (trop_is_fin v) then 31
      else if negb conv then 34
      else match reconstruct_model G T (fuel_bound order kmax) (g_start G) xi with
           | None => 12
           | Some tm =>
             if negb (wf_dtree_b G (g_start G) xi tm && teqb (weight trop_ops G w tm) v) then 20
             else match kind with
                  | 0 =>
                    if negb (wf_dtree_b G (g_start G) xi t) then 5
                    else if negb (teqb (weight trop_ops G w t) v) then 10
                    else if negb (teqb (weight trop_ops G w t) (weight trop_ops G w tm)) then 10
                    else if dtree_eqb t tm
                         then 0 else 32
                  | _ => 1
                  end
           end
    end
  end.
