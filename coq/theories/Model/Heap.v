(** C18 (clone clause): an executable heap model of the container layer of fggs
    (fggs/indices.py: PatternedTensor; fggs/multi.py: MultiTensor).

    What is modelled: WHICH operations allocate a new storage, WHICH share the storage of their
    argument, WHICH write cells in place, WHICH rebind the [physical] field of an object, and
    WHICH store an object reference (aliasing at the level of Python objects).

      - store: storage id -> contents (list Z); a storage id is an index into [st_store]
        (storages are never freed: the harness keeps every object alive).
      - PatternedTensor object [pt]: the storage id and the list of storage cells of its
        [physical] tensor in logical (row-major) order (= offset/stride view description,
        flattened), the pattern as an explicit layout (for every dense position the position in
        the physical tensor that backs it, or None = default), the default, a dtype tag.
        The torch Tensor object between the PatternedTensor and the storage is not a separate
        heap object: no modelled operation changes the metadata of an existing Tensor object
        (requires_grad_ is outside this model), so "same Tensor object" and "view with the same
        cells" are indistinguishable here.
      - MultiTensor object: association list key -> object reference (insertion order).
      - object references are indices into [st_objs]; two dictionary entries (or two variables of
        the harness) holding the same index are aliases.

    The pattern layer (paxes/vaxes, unification, antiunification: properties C05/C06) is NOT
    re-modelled: every operation that computes a new pattern takes the resulting layout (and, for
    __getitem__/__iter__, the selected physical positions) as a parameter; the harness computes
    these parameters from the patterns involved.  Given them, values and sharing are computed here.

    Every operation is transcribed from the code; the line comments quote it. *)
From Coq Require Import List Arith Bool PeanoNat ZArith Lia.
Import ListNotations.
Open Scope nat_scope.

Definition layout := list (option nat).

Record pt := mkpt { pt_sid : nat; pt_cells : list nat; pt_lay : layout; pt_dflt : Z; pt_dt : nat }.
Inductive obj := OPT (p : pt) | OMT (d : list (nat * nat)).
Record state := mkst { st_store : list (list Z); st_objs : list obj }.
Definition empty_state := mkst [] [].

Inductive out :=
| ONone                   (* returns None / self *)
| ORefs (l : list nat)    (* returns these objects (existing references = aliases, or new ones) *)
| OBool (b : bool)
| OErr                    (* the code raises *)
| OUnsup.                 (* outside the modelled domain (torch leaves it unspecified) *)

(** ** lists *)
Fixpoint set_nth {A} (n : nat) (l : list A) (x : A) : list A :=
  match l with
  | [] => []
  | h :: t => match n with O => x :: t | S n' => h :: set_nth n' t x end
  end.

Fixpoint nodupb (l : list nat) : bool :=
  match l with [] => true | x :: t => negb (existsb (Nat.eqb x) t) && nodupb t end.

Fixpoint list_eqb (a b : list nat) : bool :=
  match a, b with
  | [], [] => true
  | x :: a', y :: b' => (x =? y) && list_eqb a' b'
  | _, _ => false
  end.

Definition memb (x : nat) (l : list nat) : bool := existsb (Nat.eqb x) l.

(** ** reading *)
Definition get_obj (st : state) (r : nat) : option obj := nth_error (st_objs st) r.
Definition get_pt (st : state) (r : nat) : option pt :=
  match get_obj st r with Some (OPT p) => Some p | _ => None end.
Definition get_mt (st : state) (r : nat) : option (list (nat * nat)) :=
  match get_obj st r with Some (OMT d) => Some d | _ => None end.

(** a cell outside its storage reads 0; [wf_state] (below) excludes it and the correspondence
    check evaluates [wf_state] after every step *)
Definition rd (st : state) (sid c : nat) : Z :=
  match nth_error (st_store st) sid with Some s => nth c s 0%Z | None => 0%Z end.
Definition phys (st : state) (p : pt) : list Z := map (rd st (pt_sid p)) (pt_cells p).
Definition gather (lay : layout) (vals : list Z) (dflt : Z) : list Z :=
  map (fun o => match o with Some i => nth i vals dflt | None => dflt end) lay.
(** to_dense, as a value *)
Definition dense (st : state) (p : pt) : list Z := gather (pt_lay p) (phys st p) (pt_dflt p).

(** the physical tensor of a result whose dense value is [dvals] and whose pattern has layout
    [lay] and [n] physical elements: position [p] holds the dense element of the first dense
    position backed by [p] *)
Fixpoint find_pos (lay : layout) (p d : nat) : option nat :=
  match lay with
  | [] => None
  | Some i :: t => if i =? p then Some d else find_pos t p (S d)
  | None :: t => find_pos t p (S d)
  end.
Definition scatter (n : nat) (lay : layout) (dvals : list Z) (dflt : Z) : list Z :=
  map (fun p => match find_pos lay p 0 with Some d => nth d dvals dflt | None => dflt end) (seq 0 n).
Definition idlay (n : nat) : layout := map Some (seq 0 n).

(** ** primitive heap actions *)
Definition alloc (st : state) (vals : list Z) : state * nat :=
  (mkst (st_store st ++ [vals]) (st_objs st), length (st_store st)).
Definition new_obj (st : state) (o : obj) : state * nat :=
  (mkst (st_store st) (st_objs st ++ [o]), length (st_objs st)).
Definition set_obj (st : state) (r : nat) (o : obj) : state :=
  mkst (st_store st) (set_nth r (st_objs st) o).
Definition wr_cells (s : list Z) (cells : list nat) (vals : list Z) : list Z :=
  fold_left (fun s cv => set_nth (fst cv) s (snd cv)) (combine cells vals) s.
Definition write (st : state) (sid : nat) (cells : list nat) (vals : list Z) : state :=
  match nth_error (st_store st) sid with
  | Some s => mkst (set_nth sid (st_store st) (wr_cells s cells vals)) (st_objs st)
  | None => st
  end.
(** a new PatternedTensor over a new storage of [length vals] cells; [cells] (a permutation of
    0..n-1: the memory format of the new tensor; [seq 0 n] = contiguous) says in which cell each
    element (in logical order) lives *)
Definition place (vals : list Z) (cells : list nat) : list Z :=
  wr_cells (repeat 0%Z (length vals)) cells vals.
Definition mk_fresh (st : state) (vals : list Z) (cells : list nat) (lay : layout) (dflt : Z) (dt : nat) : state * nat :=
  let (st1, sid) := alloc st (place vals cells) in
  new_obj st1 (OPT (mkpt sid cells lay dflt dt)).

(** ** scalar operations (exact on the integers the harness uses) *)
Definition umap (f : nat) (v : Z) : Z :=
  match f with
  | 0 => (- v)%Z            (* neg_ *)
  | 1 => Z.abs v            (* abs_ *)
  | 2 => Z.max 0 v          (* relu_ *)
  | 3 => v                  (* nan_to_num_ on finite values *)
  | 4 => (2 * v)%Z          (* x *= 2 *)
  | 5 => (3 * v)%Z          (* x *= 3 *)
  | _ => v
  end.
Definition bop (b : nat) (x y : Z) : Z :=
  match b with
  | 0 => (x + y)%Z              (* add *)
  | 1 => Z.max 0 (x - y)        (* RealSemiring.sub = x.sub(y).relu_().nan_to_num_() *)
  | 2 => (x * y)%Z              (* mul *)
  | 3 => Z.max x y              (* maximum *)
  | 4 => (x - y)%Z              (* sub *)
  | _ => x
  end.
Definition zip_bop (b : nat) (xs ys : list Z) : list Z :=
  map (fun xy => bop b (fst xy) (snd xy)) (combine xs ys).

(** ** PatternedTensor operations *)

(** [p.permute(by descending stride).is_contiguous()] for the tensors that arise here: the cells
    are pairwise distinct and fill a range of the storage *)
Definition cells_lo (cells : list nat) : nat :=
  match cells with [] => 0 | c :: t => fold_left Nat.min t c end.
Definition cells_hi (cells : list nat) : nat :=
  match cells with [] => 0 | c :: t => fold_left Nat.max t c end.
Definition compact (cells : list nat) : bool :=
  match cells with
  | [] => true
  | _ => nodupb cells && (cells_hi cells - cells_lo cells + 1 =? length cells)
  end.

(** Tensor.clone() / Tensor.to(other dtype) (memory_format=preserve_format): a non-overlapping and
    dense tensor keeps its strides, any other becomes contiguous *)
Definition clone_cells (cells : list nat) : list nat :=
  if compact cells then map (fun c => c - cells_lo cells) cells else seq 0 (length cells).

(** PatternedTensor.copy_(self=dst, src):
      p = self.physical
      if p.numel() == src.physical.numel() and p.dtype == src.physical.dtype:
          p = p.permute(<by descending stride>)
          if p.is_contiguous(): self.physical = p.view(src.physical.size()).copy_(src.physical)
          else:                 self.physical = src.physical.clone()
      else:                     self.physical = src.physical.clone()
      self.paxes, self.vaxes = freshened src.paxes, src.vaxes;  self.default = src.default *)
Definition copy_into (st : state) (dst src : nat) : state * out :=
  match get_pt st dst, get_pt st src with
  | Some p, Some q =>
    let vals := phys st q in
    let n := length (pt_cells q) in
    if (length (pt_cells p) =? n) && (pt_dt p =? pt_dt q) && compact (pt_cells p) then
      let cells' := seq (cells_lo (pt_cells p)) n in
      if (pt_sid p =? pt_sid q) && negb (list_eqb cells' (pt_cells q)) then (st, OUnsup)  (* torch copy_ between overlapping views *)
      else
        let st1 := write st (pt_sid p) cells' vals in
        (set_obj st1 dst (OPT (mkpt (pt_sid p) cells' (pt_lay q) (pt_dflt q) (pt_dt p))), ONone)
    else
      let cells' := clone_cells (pt_cells q) in
      let (st1, sid) := alloc st (place vals cells') in
      (set_obj st1 dst (OPT (mkpt sid cells' (pt_lay q) (pt_dflt q) (pt_dt q))), ONone)
  | _, _ => (st, OErr)
  end.

(** neg_/abs_/relu_/nan_to_num_/[x *= number]:  self.default = f(self.default); self.physical.f_()
    -- in this order; torch refuses the in-place operation (RuntimeError) when two elements of
    the written tensor are the same memory cell (an expanded physical), AFTER the default was
    changed *)
Definition map_inplace (st : state) (f x : nat) : state * out :=
  match get_pt st x with
  | Some p =>
    let st1 := set_obj st x (OPT (mkpt (pt_sid p) (pt_cells p) (pt_lay p) (umap f (pt_dflt p)) (pt_dt p))) in
    if nodupb (pt_cells p) then (write st1 (pt_sid p) (pt_cells p) (map (umap f) (phys st p)), ONone)
    else (st1, OErr)
  | None => (st, OErr)
  end.

Definition sel_cells (cells sel : list nat) : list nat :=
  flat_map (fun i => match nth_error cells i with Some c => [c] | None => [] end) sel.

Definition clone_pt (st : state) (q : pt) : state * nat :=
  mk_fresh st (phys st q) (clone_cells (pt_cells q)) (pt_lay q) (pt_dflt q) (pt_dt q).

(** [prm] = (layout of the result pattern, memory format of the result's physical) *)
Definition bin_vals (st : state) (b : nat) (dv1 : list Z) (d1 : Z) (dv2 : list Z) (d2 : Z)
           (prm : layout * list nat) (dt : nat) : state * nat :=
  let d := bop b d1 d2 in
  mk_fresh st (scatter (length (snd prm)) (fst prm) (zip_bop b dv1 dv2) d) (snd prm) (fst prm) d dt.
(** add/sub/mul/maximum of two PatternedTensors: [commutative]/[sub] build the result in the
    tensor returned by [to_dense] of one operand (always a new storage) *)
Definition bin_fresh (st : state) (b : nat) (p q : pt) (prm : layout * list nat) : state * nat :=
  bin_vals st b (dense st p) (pt_dflt p) (dense st q) (pt_dflt q) prm (pt_dt p).

(** ** MultiTensor operations *)
Fixpoint lookup (k : nat) (d : list (nat * nat)) : option nat :=
  match d with [] => None | (k', r) :: t => if k' =? k then Some r else lookup k t end.
Fixpoint dset (d : list (nat * nat)) (k r : nat) : list (nat * nat) :=
  match d with
  | [] => [(k, r)]
  | (k', r') :: t => if k' =? k then (k, r) :: t else (k', r') :: dset t k r
  end.
Fixpoint ddel (d : list (nat * nat)) (k : nat) : list (nat * nat) :=
  match d with [] => [] | (k', r') :: t => if k' =? k then t else (k', r') :: ddel t k end.

(** a Python loop whose body may raise: [ONone] = continue *)
Fixpoint loop {A} (body : state -> A -> state * out) (st : state) (l : list A) : state * out :=
  match l with
  | [] => (st, ONone)
  | a :: t => let (st1, o) := body st a in
              match o with ONone => loop body st1 t | _ => (st1, o) end
  end.

Definition prm_of (prms : list (nat * (layout * list nat))) (k : nat) : layout * list nat :=
  match find (fun x => fst x =? k) prms with Some x => snd x | None => ([], []) end.

(** add_single(self=m, k, v=x):
      if k in self: self[k] = self.semiring.add(self[k], v)      (a new object)
      else:         self[k] = v                                  (the SAME object: aliasing) *)
Definition add_single (st : state) (m k x : nat) (prm : layout * list nat) : state * out :=
  match get_mt st m, get_pt st x with
  | Some d, Some q =>
    match lookup k d with
    | Some e =>
      match get_pt st e with
      | Some p => let (st1, r) := bin_fresh st 0 p q prm in (set_obj st1 m (OMT (dset d k r)), ONone)
      | None => (st, OErr)
      end
    | None => (set_obj st m (OMT (d ++ [(k, x)])), ONone)
    end
  | _, _ => (st, OErr)
  end.

(** __isub__: self[x] = self.semiring.sub(self[x], t); self[x] of a missing key is a temporary
    zero tensor of that shape *)
Definition isub_single (st : state) (m k x : nat) (prm : layout * list nat) : state * out :=
  match get_mt st m, get_pt st x with
  | Some d, Some q =>
    match lookup k d with
    | Some e =>
      match get_pt st e with
      | Some p => let (st1, r) := bin_fresh st 1 p q prm in (set_obj st1 m (OMT (dset d k r)), ONone)
      | None => (st, OErr)
      end
    | None =>
      let dq := dense st q in
      let (st1, r) := bin_vals st 1 (repeat 0%Z (length dq)) 0%Z dq (pt_dflt q) prm (pt_dt q) in
      (set_obj st1 m (OMT (d ++ [(k, r)])), ONone)
    end
  | _, _ => (st, OErr)
  end.

(** maximum_: if x in self: self[x] = self[x].maximum(t)  else: self[x] = t   (aliasing) *)
Definition max_single (st : state) (m k x : nat) (prm : layout * list nat) : state * out :=
  match get_mt st m, get_pt st x with
  | Some d, Some q =>
    match lookup k d with
    | Some e =>
      match get_pt st e with
      | Some p => let (st1, r) := bin_fresh st 3 p q prm in (set_obj st1 m (OMT (dset d k r)), ONone)
      | None => (st, OErr)
      end
    | None => (set_obj st m (OMT (d ++ [(k, x)])), ONone)
    end
  | _, _ => (st, OErr)
  end.

(** second loop of MultiTensor.copy_, one key:
      if k in self: self[k].copy_(other[k])   else: self[k] = other[k].clone() *)
Definition mcopy_body (m n : nat) (st : state) (k : nat) : state * out :=
  match get_mt st m, get_mt st n with
  | Some d, Some dn =>
    match lookup k dn with
    | None => (st, OErr)
    | Some s =>
      match lookup k d with
      | Some e => copy_into st e s
      | None =>
        match get_pt st s with
        | Some q => let (st1, r) := clone_pt st q in (set_obj st1 m (OMT (d ++ [(k, r)])), ONone)
        | None => (st, OErr)
        end
      end
    end
  | _, _ => (st, OErr)
  end.

(** MultiTensor.copy_(self=m, other=n):
      for k in self:  if k not in other: del self[k]
    -- deleting while iterating: the first such key IS deleted and the next iteration step raises
    RuntimeError("dictionary changed size during iteration") (also when it was the last key);
      for k in other: <mcopy_body> *)
Definition mcopy (st : state) (m n : nat) : state * out :=
  match get_mt st m, get_mt st n with
  | Some d, Some dn =>
    match find (fun kr => match lookup (fst kr) dn with None => true | Some _ => false end) d with
    | Some kr => (set_obj st m (OMT (ddel d (fst kr))), OErr)
    | None => loop (mcopy_body m n) st (map fst dn)
    end
  | _, _ => (st, OErr)
  end.

(** MultiTensor.clone: c = MultiTensor(self.shapes, self.semiring); c.copy_(self); return c *)
Definition mclone (st : state) (m : nat) : state * out :=
  match get_mt st m with
  | None => (st, OErr)
  | Some _ =>
    let (st1, c) := new_obj st (OMT []) in
    match mcopy st1 c m with
    | (st2, ONone) => (st2, ORefs [c])
    | (st2, o) => (st2, o)
    end
  end.

(** what the seeded change seeded/C18-d does instead:  c = MultiTensor(...); c += self
    (add_single stores the element objects themselves).  NOT used by [step]. *)
Definition mclone_shallow (st : state) (m : nat) : state * out :=
  match get_mt st m with
  | Some d =>
    let (st1, c) := new_obj st (OMT []) in
    match loop (fun st kr => add_single st c (fst kr) (snd kr) ([], [])) st1 d with
    | (st2, ONone) => (st2, ORefs [c])
    | (st2, o) => (st2, o)
    end
  | None => (st, OErr)
  end.

Definition zlist_eqb (a b : list Z) : bool :=
  (length a =? length b) && forallb (fun xy => Z.eqb (fst xy) (snd xy)) (combine a b).

(** allclose(self=m, other=n, tol=0) *)
Definition mallclose (st : state) (m n : nat) : state * out :=
  match get_mt st m, get_mt st n with
  | Some d, Some dn =>
    let side (d1 d2 : list (nat * nat)) (both : bool) :=
      loop (fun st kr =>
              match get_pt st (snd kr) with
              | None => (st, OErr)
              | Some t =>
                match lookup (fst kr) d2 with
                | Some r2 =>
                  if both then
                    match get_pt st r2 with
                    | Some u => if zlist_eqb (dense st t) (dense st u) then (st, ONone) else (st, OBool false)
                    | None => (st, OErr)
                    end
                  else (st, ONone)
                | None =>
                  if negb (Z.eqb (pt_dflt t) 0) then (st, OErr)        (* assert *)
                  else if forallb (Z.eqb (pt_dflt t)) (phys st t) then (st, ONone) else (st, OBool false)
                end
              end) st d1 in
    match side d dn true with
    | (_, ONone) => match side dn d false with (_, ONone) => (st, OBool true) | (_, o) => (st, o) end
    | (_, o) => (st, o)
    end
  | _, _ => (st, OErr)
  end.

(** ** operations *)
Inductive op :=
| ONew (vals : list Z) (cells : list nat) (lay : layout) (dflt : Z)   (* PatternedTensor(torch.tensor(...), paxes, vaxes, default) *)
| OClone (x : nat)                                               (* x.clone() *)
| OMap (f x : nat)                                               (* x.neg_() ... x *= 2 *)
| OCopy (dst src : nat)                                          (* dst.copy_(src) *)
| OView (x : nat) (lay : layout)                                 (* transpose permute T t flatten unsqueeze freshen detach *)
| OExpand (x n : nat) (lay : layout)                             (* x.expand(sizes): n = product of the new leading physical axes *)
| OGetItem (x : nat) (sel : list nat) (lay : layout)             (* x[vis], index inside the pattern: physical[pi] *)
| OFull (x n : nat)                                              (* x[vis], index outside the pattern: full(shape, default) *)
| OIter (x : nat) (fr : option (nat * layout)) (items : list (list nat * layout))  (* list(iter(x)) *)
| ODefaultTo (x : nat) (d : Z) (perm : list nat)                 (* x.default_to(d); perm = memory format of to_dense() *)
| OTo (x dt : nat)                                               (* x.to(dtype) *)
| OToDense (x : nat) (perm : list nat)                           (* PatternedTensor(x.to_dense()) *)
| OProject (x n : nat) (lay : layout)                            (* PatternedTensor(x.project(paxes, vaxes)) *)
| OBin (b x y : nat) (prm : layout * list nat)                   (* x.add(y) x.sub(y) x.mul(y) x.maximum(y) *)
| OMNew                                                          (* MultiTensor(shapes, semiring) *)
| OMSet (m k x : nat)                                            (* m[k] = x *)
| OMGet (m k n : nat)                                            (* m[k] / m.get(k) *)
| OMDel (m k : nat)                                              (* del m[k] *)
| OMAddSingle (m k x : nat) (prm : layout * list nat)            (* m.add_single(k, x) *)
| OMIadd (m n : nat) (prms : list (nat * (layout * list nat)))   (* m += n *)
| OMIsub (m n : nat) (prms : list (nat * (layout * list nat)))   (* m -= n *)
| OMMaximum (m n : nat) (prms : list (nat * (layout * list nat))) (* m.maximum_(n) *)
| OMCopy (m n : nat)                                             (* m.copy_(n) *)
| OMClone (m : nat)                                              (* m.clone() *)
| OMAllclose (m n : nat).                                        (* m.allclose(n, 0) *)

Definition ret1 (x : state * nat) : state * out := (fst x, ORefs [snd x]).

Definition add_views (st : state) (sid : nat) (base : list nat) (dflt : Z) (dt : nat)
           (items : list (list nat * layout)) : state * out :=
  (mkst (st_store st)
        (st_objs st ++ map (fun it => OPT (mkpt sid (sel_cells base (fst it)) (snd it) dflt dt)) items),
   ORefs (seq (length (st_objs st)) (length items))).

Definition step (st : state) (o : op) : state * out :=
  match o with
  | ONew vals cells lay dflt => ret1 (mk_fresh st vals cells lay dflt 0)
  | OClone x =>
    (* PatternedTensor(self.physical.clone(), freshened paxes, vaxes, self.default) *)
    match get_pt st x with Some q => ret1 (clone_pt st q) | None => (st, OErr) end
  | OMap f x => map_inplace st f x
  | OCopy dst src => copy_into st dst src
  | OView x lay =>
    (* PatternedTensor(self.physical, paxes', vaxes', self.default) *)
    match get_pt st x with
    | Some p => ret1 (new_obj st (OPT (mkpt (pt_sid p) (pt_cells p) lay (pt_dflt p) (pt_dt p))))
    | None => (st, OErr)
    end
  | OExpand x n lay =>
    (* PatternedTensor(self.physical.expand(new leading axes + old axes), ...) *)
    match get_pt st x with
    | Some p => ret1 (new_obj st (OPT (mkpt (pt_sid p) (concat (repeat (pt_cells p) n)) lay (pt_dflt p) (pt_dt p))))
    | None => (st, OErr)
    end
  | OGetItem x sel lay =>
    (* PatternedTensor(self.physical[tuple(pi.get(k, :) for k in self.paxes)], ...) *)
    match get_pt st x with
    | Some p => ret1 (new_obj st (OPT (mkpt (pt_sid p) (sel_cells (pt_cells p) sel) lay (pt_dflt p) (pt_dt p))))
    | None => (st, OErr)
    end
  | OFull x n =>
    (* PatternedTensor.full(shape, self.default, dtype): torch.as_tensor(default).expand(shape) *)
    match get_pt st x with
    | Some p =>
      let (st1, sid) := alloc st [pt_dflt p] in
      ret1 (new_obj st1 (OPT (mkpt sid (repeat 0 n) (idlay n) (pt_dflt p) (pt_dt p))))
    | None => (st, OErr)
    end
  | OIter x fr items =>
    (* self = self.dim_to_dense(0)  (self, or a new tensor);  yield views of self.physical *)
    match get_pt st x with
    | Some p =>
      match fr with
      | None => add_views st (pt_sid p) (pt_cells p) (pt_dflt p) (pt_dt p) items
      | Some (n, lay) =>
        let (st1, sid) := alloc st (scatter n lay (dense st p) (pt_dflt p)) in
        add_views st1 sid (seq 0 n) (pt_dflt p) (pt_dt p) items
      end
    | None => (st, OErr)
    end
  | ODefaultTo x d perm =>
    (* self if self.default == default else PatternedTensor(self.to_dense(), default=default) *)
    match get_pt st x with
    | Some p =>
      if Z.eqb (pt_dflt p) d then (st, ORefs [x])
      else let dv := dense st p in ret1 (mk_fresh st dv perm (idlay (length dv)) d (pt_dt p))
    | None => (st, OErr)
    end
  | OTo x dt =>
    (* PatternedTensor(self.physical.to(dtype), self.paxes, self.vaxes, default); Tensor.to returns self when the dtype is unchanged *)
    match get_pt st x with
    | Some p =>
      if pt_dt p =? dt then ret1 (new_obj st (OPT p))
      else ret1 (mk_fresh st (phys st p) (clone_cells (pt_cells p)) (pt_lay p) (pt_dflt p) dt)
    | None => (st, OErr)
    end
  | OToDense x perm =>
    (* both branches of to_dense return a new tensor (project(...).clone() / new_full + copy_) *)
    match get_pt st x with
    | Some p => let dv := dense st p in ret1 (mk_fresh st dv perm (idlay (length dv)) 0%Z (pt_dt p))
    | None => (st, OErr)
    end
  | OProject x n lay =>
    (* ret = self.physical.new_full(sizes, self.default); subret.copy_(subself); return ret *)
    match get_pt st x with
    | Some p => ret1 (mk_fresh st (scatter n lay (dense st p) (pt_dflt p)) (seq 0 n) (idlay n) 0%Z (pt_dt p))
    | None => (st, OErr)
    end
  | OBin b x y prm =>
    match get_pt st x, get_pt st y with
    | Some p, Some q => if pt_dt p =? pt_dt q then ret1 (bin_fresh st b p q prm) else (st, OUnsup)
    | _, _ => (st, OErr)
    end
  | OMNew => ret1 (new_obj st (OMT []))
  | OMSet m k x =>
    (* self._dict[key] = val *)
    match get_mt st m, get_pt st x with
    | Some d, Some _ => (set_obj st m (OMT (dset d k x)), ONone)
    | _, _ => (st, OErr)
    end
  | OMGet m k n =>
    (* self._dict[key], or PatternedTensor.from_int(0, semiring).expand(shape) for a missing key *)
    match get_mt st m with
    | Some d =>
      match lookup k d with
      | Some r => (st, ORefs [r])
      | None =>
        let (st1, sid) := alloc st [0%Z] in
        ret1 (new_obj st1 (OPT (mkpt sid (repeat 0 n) (idlay n) 0%Z 0)))
      end
    | None => (st, OErr)
    end
  | OMDel m k =>
    match get_mt st m with
    | Some d => match lookup k d with Some _ => (set_obj st m (OMT (ddel d k)), ONone) | None => (st, OErr) end
    | None => (st, OErr)
    end
  | OMAddSingle m k x prm => add_single st m k x prm
  | OMIadd m n prms =>
    (* for x, t in other.items(): self.add_single(x, t) *)
    match get_mt st n with
    | Some dn => loop (fun st kr => add_single st m (fst kr) (snd kr) (prm_of prms (fst kr))) st dn
    | None => (st, OErr)
    end
  | OMIsub m n prms =>
    match get_mt st n with
    | Some dn => loop (fun st kr => isub_single st m (fst kr) (snd kr) (prm_of prms (fst kr))) st dn
    | None => (st, OErr)
    end
  | OMMaximum m n prms =>
    match get_mt st n with
    | Some dn => loop (fun st kr => max_single st m (fst kr) (snd kr) (prm_of prms (fst kr))) st dn
    | None => (st, OErr)
    end
  | OMCopy m n => mcopy st m n
  | OMClone m => mclone st m
  | OMAllclose m n => mallclose st m n
  end.

Fixpoint run (st : state) (ops : list op) : state :=
  match ops with [] => st | o :: t => run (fst (step st o)) t end.

(** ** footprints *)
Definition mt_elems (st : state) (m : nat) : list nat :=
  match get_mt st m with Some d => map snd d | None => [] end.

(** the objects an operation may mutate (write the cells of, rebind the physical of, change the
    dictionary of), as a function of the state it starts in *)
Definition mutates (st : state) (o : op) : list nat :=
  match o with
  | OMap _ x => [x]
  | OCopy dst _ => [dst]
  | OMSet m _ _ | OMDel m _ | OMAddSingle m _ _ _ | OMIadd m _ _ | OMIsub m _ _ | OMMaximum m _ _ => [m]
  | OMCopy m _ => m :: mt_elems st m
  | _ => []
  end.
(** the objects whose storage the NEW objects made by an operation may share *)
Definition vsrcs (o : op) : list nat :=
  match o with
  | OView x _ | OExpand x _ _ | OGetItem x _ _ | OIter x _ _ | OTo x _ => [x]
  | _ => []
  end.

(** ** denotations *)
Definition dpt := (list Z * layout * Z)%type.
Definition den_pt (st : state) (p : pt) : dpt := (phys st p, pt_lay p, pt_dflt p).
Definition dense_of (d : dpt) : list Z := let '(v, l, x) := d in gather l v x.
Inductive dv := DVpt (d : dpt) | DVmt (l : list (nat * option dpt)) | DVnone.
Definition den_ref (st : state) (r : nat) : option dpt := option_map (den_pt st) (get_pt st r).
Definition den (st : state) (r : nat) : dv :=
  match get_obj st r with
  | Some (OPT p) => DVpt (den_pt st p)
  | Some (OMT d) => DVmt (map (fun kr => (fst kr, den_ref st (snd kr))) d)
  | None => DVnone
  end.

(** ** the ownership discipline of the clone clause
    [C] = the objects made by the clone and everything made afterwards, except views of objects
    outside [C].  An operation respects the discipline when everything it may mutate is in [C]. *)
Definition owned_step (C : list nat) (st : state) (o : op) : option (list nat * state) :=
  if forallb (fun r => memb r C) (mutates st o) then
    let st' := fst (step st o) in
    let nw := seq (length (st_objs st)) (length (st_objs st') - length (st_objs st)) in
    Some (if forallb (fun r => memb r C) (vsrcs o) then C ++ nw else C, st')
  else None.
Fixpoint owned_run (C : list nat) (st : state) (ops : list op) : option state :=
  match ops with
  | [] => Some st
  | o :: t => match owned_step C st o with Some (C', st') => owned_run C' st' t | None => None end
  end.

(** objects / storages below the watermark [(no, ns)] that an object refers to *)
Definition closed (no ns : nat) (st : state) (r : nat) : Prop :=
  match get_obj st r with
  | Some (OPT p) => pt_sid p < ns
  | Some (OMT d) => Forall (fun kr => snd kr < no /\ forall p, get_pt st (snd kr) = Some p -> pt_sid p < ns) d
  | None => True
  end.

(** ** well-formedness (evaluated by the correspondence check after every step) *)
Definition wf_pt (st : state) (p : pt) : bool :=
  match nth_error (st_store st) (pt_sid p) with
  | Some s => forallb (fun c => c <? length s) (pt_cells p)
              && forallb (fun o => match o with Some i => i <? length (pt_cells p) | None => true end) (pt_lay p)
  | None => false
  end.
Definition wf_state (st : state) : bool :=
  forallb (fun o => match o with
                    | OPT p => wf_pt st p
                    | OMT d => forallb (fun kr => match get_pt st (snd kr) with Some _ => true | None => false end) d
                               && nodupb (map fst d)
                    end) (st_objs st).
