(** C18: the rule table of an HRG under the read-only queries.

    [HRG._rules] is a Python dict  lhs -> list of rules  (association list in insertion order;
    labels and rules are numbers here).  Transcribed from fggs/fggs.py:

      add_rule:   self._rules.setdefault(lhs, []).append(rule)
      rules(lhs): return list(self._rules.get(lhs, []))          -- a lookup with a default: no insertion
      all_rules:  [r for lhs in self._rules for r in self._rules[lhs]]

    sum_product / sum_products / viterbi / nonterminal_graph / F / J read the grammar only through
    [rules(x)] for x ranging over nonterminals (also nonterminals that have no rule).  [query] is
    that loop; it returns the table it leaves behind together with what it read.

    [rules_dd] is the variant  list(self._rules[lhs])  on a collections.defaultdict(list): the lookup
    of a missing key inserts it.  It is here as the refuted alternative (Proofs/RuleTable_proofs.v):
    [query_dd] leaves the table unchanged iff every queried label already is a key. *)
From Coq Require Import List Arith Bool PeanoNat NArith.
Import ListNotations.

Definition table := list (N * list N).

Fixpoint tget (t : table) (k : N) : option (list N) :=
  match t with
  | [] => None
  | (k', l) :: t' => if N.eqb k' k then Some l else tget t' k
  end.

(** dict.setdefault(k, []).append(r) *)
Fixpoint add_rule (t : table) (k r : N) : table :=
  match t with
  | [] => [(k, [r])]
  | (k', l) :: t' => if N.eqb k' k then (k', l ++ [r]) :: t' else (k', l) :: add_rule t' k r
  end.

(** HRG.rules(lhs): the table afterwards and the list returned *)
Definition rules (t : table) (k : N) : table * list N :=
  (t, match tget t k with Some l => l | None => [] end).

(** the defaultdict variant: __getitem__ of a missing key inserts (k, []) at the end *)
Definition rules_dd (t : table) (k : N) : table * list N :=
  match tget t k with Some l => (t, l) | None => (t ++ [(k, [])], []) end.

Definition all_rules (t : table) : list N := concat (map snd t).

Fixpoint query_with (rl : table -> N -> table * list N) (t : table) (ks : list N) : table * list (list N) :=
  match ks with
  | [] => (t, [])
  | k :: ks' => let '(t1, l) := rl t k in let '(t2, ls) := query_with rl t1 ks' in (t2, l :: ls)
  end.
Definition query := query_with rules.
Definition query_dd := query_with rules_dd.

(** the observation level of the harness: the keys of the table in order, each with the number of
    its rules *)
Definition shape (t : table) : list (N * nat) := map (fun p => (fst p, length (snd p))) t.

Definition shape_eqb (a b : list (N * nat)) : bool :=
  Nat.eqb (length a) (length b) &&
  forallb (fun p => N.eqb (fst (fst p)) (fst (snd p)) && Nat.eqb (snd (fst p)) (snd (snd p))) (combine a b).

(** a table with the given shape (rule numbers are irrelevant to the shape) *)
Definition table_of_shape (s : list (N * nat)) : table := map (fun p => (fst p, repeat 0%N (snd p))) s.

(** check function.  Input: shape of [_rules] before the call, the labels the query looks up (the
    nonterminals of the grammar, each possibly several times), shape of [_rules] after the call, and
    the two outcomes of  g == copy taken before the call  (before / after the call).
    verdicts: 0 ok;
      2  the table after the call is not the table before it, which is what [query] leaves behind
         ([query_table_unchanged]); the call inserted / removed a key or changed a rule list;
         2 = exactly as [query_dd] would change it (a lookup of a label without rules inserted it),
         4 = in any other way;
      3  the table is unchanged but HRG.__eq__ with the copy taken before the call changed *)
Definition ruletable_check (x : list (N * nat) * list N * list (N * nat) * bool * bool) : nat :=
  let '(before, ks, after, eq0, eq1) := x in
  let t := table_of_shape before in
  let expected := shape (fst (query t ks)) in
  if shape_eqb expected after then (if Bool.eqb eq0 eq1 then 0 else 3)
  else if shape_eqb (shape (fst (query_dd t ks))) after then 2
  else 4.
