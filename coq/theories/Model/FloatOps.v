(** C08, level L0': bit-exact binary64 models (Coq primitive floats) of the scalar formulas of
    RealSemiring and ViterbiSemiring (LogSemiring.mul is the same code as ViterbiSemiring.mul)
    and of torch.nan_to_num / relu / maximum on one element.

    Conventions probed against torch 2.x on CPU (build/scratch probes, see notes/C08.md):
      relu(x)      = 0 if x < 0 else x          (so relu(-0.) = -0., relu(nan) = nan)
      maximum(x,y) = nan if either is nan, else the larger; for the pair {+0,-0} torch's scalar
                     and vectorised kernels return different signs, so results of [f_max] are
                     compared modulo the sign of zero ([same_float_mod_zero])
      nan_to_num   with posinf/neginf = None substitutes +-max float ([f_highest]/[f_lowest]).

    The check functions at the end are evaluated by vm_compute inside generated Coq files
    (primitive floats do not extract with ExtrOcamlBasic); floats travel as hexadecimal
    literals, which Coq parses exactly. *)
From Coq Require Import Floats ZArith Bool.
From Coq Require Uint63.
Local Open Scope float_scope.

Definition f_highest : float := 0x1.fffffffffffffp+1023.
Definition f_lowest : float := -0x1.fffffffffffffp+1023.

(** torch.nan_to_num(x, nan=vnan, posinf=vposinf, neginf=vneginf) *)
Definition f_nan_to_num (x vnan vposinf vneginf : float) : float :=
  if is_nan x then vnan
  else if x =? infinity then vposinf
  else if x =? neg_infinity then vneginf
  else x.
Definition f_relu (x : float) : float := if x <? 0 then 0 else x.
Definition f_max (x y : float) : float :=
  if is_nan x then x else if is_nan y then y else if x <? y then y else x.

(** RealSemiring *)
Definition freal_add (x y : float) : float := x + y.
Definition freal_mul (x y : float) : float := f_nan_to_num (x * y) 0 infinity f_lowest.
Definition freal_sub (x y : float) : float := f_nan_to_num (f_relu (x - y)) 0 infinity f_lowest.
Definition freal_star (x : float) : float :=
  let y := 1 / (1 - x) in if 1 <=? x then infinity else y.

(** ViterbiSemiring (and LogSemiring.mul) *)
Definition fvit_add (x y : float) : float := f_max x y.
Definition fvit_mul (x y : float) : float := f_nan_to_num (x + y) neg_infinity infinity neg_infinity.
Definition fvit_sub (x y : float) : float := x.
Definition fvit_star (x : float) : float := if 0 <? x then infinity else 0.   (* where(x > 0, inf, 0.) *)
(** the formula before the repair of F2 (x >= 0); not the model of the current code *)
Definition fvit_star_old (x : float) : float := if 0 <=? x then infinity else 0.
Definition fvit_from_int (n : nat) : float := if Nat.ltb 0 n then 0 else neg_infinity.
Definition freal_from_int (n : nat) : float := of_uint63 (Uint63.of_Z (Z.of_nat n)).   (* exact below 2^53 *)

(** bit equality (all NaNs are one value in Coq's floats), and equality modulo the sign of zero *)
Definition same_float (x y : float) : bool := PrimFloat.Leibniz.eqb x y.
Definition same_float_mod_zero (x y : float) : bool := same_float x y || (is_zero x && is_zero y).

(** ** check functions: (op, operands, implementation's result) |-> verdict
    0 = bit-identical to the model; 10 = differs (no oracle involved at this level) *)
Definition fbinop (op : nat) : float -> float -> float :=
  match op with
  | 0 => freal_add | 1 => freal_mul | 2 => freal_sub
  | 3 => fvit_add | 4 => fvit_mul | 5 => fvit_sub
  | _ => fun _ _ => nan
  end%nat.
Definition funop (op : nat) : float -> float :=
  match op with 0 => freal_star | 1 => fvit_star | _ => fun _ => nan end%nat.

Definition float_binop_check (c : nat * float * float * float) : nat :=
  let '(op, x, y, r) := c in
  let m := fbinop op x y in
  if (if Nat.eqb op 3 then same_float_mod_zero m r else same_float m r) then 0%nat else 10%nat.
Definition float_unop_check (c : nat * float * float) : nat :=
  let '(op, x, r) := c in
  if same_float (funop op x) r then 0%nat else 10%nat.
