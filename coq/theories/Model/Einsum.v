(** L4 -- einsum on patterned tensors (fggs/indices.py: [einsum], [log_viterbi_einsum_forward],
    [project], [PatternedTensor.mv/mm]; fggs/equation.py: [reduce_equation], [post_einsum]).

    (a) [einsum_dense]: the specification -- the semiring sum, over all values of the non-output
        indices, of the product of the operand entries.
    (b) [einsum_run] / [einsum_model]: the patterned algorithm, statement by statement.
    (c) [reduce_equation_model] / [post_einsum_model].
    (d) [viterbi_run]: the argmax variant (value = the same algorithm in the tropical semiring;
        pointers = affine image, through [Axis.stride], of the physical argmax).

    Conventions.  Einsum index labels are naturals.  A physical axis [k] used as a variable of the
    equation handed to torch_semiring_einsum is the label [Pos.to_nat k].  Definitions only; the
    proofs are in Proofs/Einsum_*.v. *)
From Coq Require Import List Arith Lia PeanoNat Bool PArith.
Import ListNotations.
Require Import Fggs.Model.Semiring Fggs.Model.SumProduct.
Require Import Fggs.Model.Axis Fggs.Model.PTensor Fggs.Model.AxisCheck.

(** * labels *)
Fixpoint lassoc {A : Type} (l : nat) (e : list (nat * A)) : option A :=
  match e with
  | [] => None
  | (l', v) :: e => if Nat.eqb l' l then Some v else lassoc l e
  end.
Definition lval (e : list (nat * nat)) (l : nat) : nat :=
  match lassoc l e with Some v => v | None => 0 end.

(** first appearances, skipping the labels in [seen] *)
Fixpoint dedup_nat (seen l : list nat) : list nat :=
  match l with
  | [] => []
  | x :: l => if existsb (Nat.eqb x) seen then dedup_nat seen l else x :: dedup_nat (x :: seen) l
  end.

(** (label, size) for every dimension of every operand, in order: the first entry of a label wins *)
Definition label_sizes (shapes inputs : list (list nat)) : list (nat * nat) :=
  flat_map (fun si => combine (snd si) (fst si)) (combine shapes inputs).

(** the summed-out labels in order of first appearance in the inputs *)
Definition summed_labels (inputs : list (list nat)) (output : list nat) : list nat :=
  dedup_nat output (concat inputs).

(** an output index tuple gives equal values to equal output labels (always true when the output
    labels are distinct) *)
Definition out_consistent (output oidx : list nat) : bool :=
  Nat.eqb (length output) (length oidx) &&
  forallb (fun lv => Nat.eqb (lval (combine output oidx) (fst lv)) (snd lv)) (combine output oidx).

Definition leqb : list nat -> list nat -> bool := AxisCheck.list_eqb Nat.eqb.
Definition dot (idx strides : list nat) : nat :=
  fold_right (fun p acc => fst p * snd p + acc) 0 (combine idx strides).

Section Einsum.
Context {R : Type} (o : sr_ops R).
Notation r0 := (Semiring.zero o).
Notation r1 := (Semiring.one o).

(** * (a) the dense specification *)
Definition operand : Type := (list nat * (list nat -> R))%type.

(** the product of the operand entries under a valuation of the labels *)
Definition einsum_term (ops : list operand) (inputs : list (list nat)) (env : list (nat * nat)) : R :=
  prodS o (combine ops inputs) (fun oi => snd (fst oi) (map (lval env) (snd oi))).

Definition einsum_dense (ops : list operand) (inputs : list (list nat)) (output : list nat)
                        (oidx : list nat) : R :=
  if out_consistent output oidx then
    let sz := label_sizes (map fst ops) inputs in
    let summed := summed_labels inputs output in
    sumS o (all_assts (map (lval sz) summed))
         (fun sv => einsum_term ops inputs (combine output oidx ++ combine summed sv))
  else r0.

Definition einsum_shape (ops : list operand) (inputs : list (list nat)) (output : list nat) : list nat :=
  map (lval (label_sizes (map fst ops) inputs)) output.

(** * operands: a patterned tensor, the torch strides of its physical tensor, requires_grad *)
Record stensor : Type := mkST { st_pt : ptensor R; st_pstr : list nat; st_rg : bool }.

(** strides of a contiguous torch tensor *)
Fixpoint cstrides (shp : list nat) : list nat :=
  match shp with
  | [] => []
  | _ :: shp' => fold_right (fun n acc => Nat.max n 1 * acc) 1 shp' :: cstrides shp'
  end.

(** [stride 0 => the physical tensor does not depend on that coordinate] (what an expanded torch
    tensor is); a hypothesis of C07_reduce_equation_sound, true by construction for wire tensors *)
Definition set_nth (i v : nat) (idx : list nat) : list nat := firstn i idx ++ v :: skipn (S i) idx.
Definition bc_ok (t : stensor) : Prop :=
  forall i idx v, nth i (st_pstr t) 1 = 0 -> i < length idx ->
    physical (st_pt t) (set_nth i v idx) = physical (st_pt t) idx.

(** [default_to(zero)]: [self], or [PatternedTensor(self.to_dense(), default=zero)] (contiguous;
    it requires grad only if grad mode is on) *)
Definition st_default_to (veqb : R -> R -> bool) (genabled : bool) (d : R) (next : positive)
                         (t : stensor) : stensor * positive :=
  if veqb (default (st_pt t)) d then (t, next)
  else let '(p, nx) := pt_of_dense R (shape R (st_pt t)) (denote R (st_pt t)) d next in
       (mkST p (cstrides (map snd (paxes p))) (st_rg t && genabled), nx).

Definition st_freshen (next : positive) (t : stensor) : stensor * positive :=
  let '(p, nx) := pt_freshen R next (st_pt t) in (mkST p (st_pstr t) (st_rg t), nx).

Fixpoint default_all (veqb : R -> R -> bool) (genabled : bool) (d : R) (next : positive)
                     (ts : list stensor) : list stensor * positive :=
  match ts with
  | [] => ([], next)
  | t :: ts' => let '(t', nx) := st_default_to veqb genabled d next t in
                let '(r, nx') := default_all veqb genabled d nx ts' in (t' :: r, nx')
  end.

(** * (b) the unification loop of [einsum] *)
Record lstate : Type := mkLS {
  ls_fv : list positive;            (* paxes_fv *)
  ls_i2v : list (nat * axis);       (* index_to_vaxis, insertion order *)
  ls_u : ustate;                    (* subst, fresh-axis counter, warning flag *)
  ls_zero : bool }.                 (* result_is_zero *)

(** [for vaxis, index in zip(tensor.vaxes, input)]; a failed unification sets the flag and the
    loop goes on (the dict has been mutated) *)
Fixpoint unify_dims (fuel : nat) (vs : list axis) (inp : list nat) (s : lstate) : res lstate :=
  match vs, inp with
  | v :: vs', l :: inp' =>
      match lassoc l (ls_i2v s) with
      | Some e =>
          r <- unify fuel e v (ls_u s) ;;
          unify_dims fuel vs' inp' (mkLS (ls_fv s) (ls_i2v s) (snd r) (ls_zero s || negb (fst r)))
      | None => unify_dims fuel vs' inp' (mkLS (ls_fv s) (ls_i2v s ++ [(l, v)]) (ls_u s) (ls_zero s))
      end
  | _, _ => Ok s
  end.

Definition with_next (u : ustate) (nx : positive) : ustate :=
  {| us_subst := us_subst u; us_next := nx; us_warn := us_warn u |}.

(** [for tensor, input in zip(tensors, inputs)]: freshen when [not tensor.isdisjoint(paxes_fv)] *)
Fixpoint eloop (fuel : nat) (ts : list stensor) (inputs : list (list nat)) (s : lstate)
               (acc : list stensor) : res (lstate * list stensor) :=
  match ts, inputs with
  | t :: ts', inp :: inputs' =>
      let disj := forallb (fun kn => negb (existsb (Pos.eqb (fst kn)) (ls_fv s))) (paxes (st_pt t)) in
      let '(t', nx) := if disj then (t, us_next (ls_u s)) else st_freshen (us_next (ls_u s)) t in
      s' <- unify_dims fuel (vaxes (st_pt t')) inp
                       (mkLS (ls_fv s ++ map fst (paxes (st_pt t'))) (ls_i2v s) (with_next (ls_u s) nx) (ls_zero s)) ;;
      eloop fuel ts' inputs' s' (acc ++ [t'])
  | _, _ => Ok (s, acc)
  end.

(** * [project(tensor.physical, None, tensor.paxes, subst)] *)
(** a strided view: its element function, and (variable, size, torch stride) per dimension *)
Record view : Type := mkView {
  vw_fn : list nat -> R;
  vw_dims : list (positive * nat * nat);
  vw_rg : bool }.
Definition vw_vars (v : view) : list pn := map fst (vw_dims v).

Definition lin_coeff (s : lin) (k : positive) : nat := match assoc k s with Some c => c | None => 0 end.
Definition phys_axes (ps : list pn) : list axis := map (fun kn => Phys (fst kn) (snd kn)) ps.

(** fuel for the functions that follow a substitution *)
Definition sfuel (sigma : subst) (es : list axis) : nat :=
  asize_list es + asize_list (map snd sigma) + length sigma + 4.

(** [offset += o * n; stride[k] += s[k] * n] for every dimension; the new axes are the keys of the
    stride dict = the free axes in order of first occurrence ([fv_list], which also knows their
    sizes: a [PhysicalAxis] carries [_numel], the model's stride dict only the uid).  The fast path
    (no substitution, distinct physical axes: the tensor itself is returned) computes the same view.
    An [as_strided] view of a tensor that requires grad requires grad as well, also under
    [torch.no_grad()]. *)
Definition project_view (sigma : subst) (t : stensor) : res view :=
  let ps := paxes (st_pt t) in
  let fuel := sfuel sigma (phys_axes ps) in
  strs <- mapM (stride fuel sigma) (phys_axes ps) ;;
  vars <- fv_list fuel sigma (phys_axes ps) ;;
  let merged := fold_left (fun acc sm => lin_merge acc (lin_scale (snd sm) (snd (fst sm))))
                          (combine strs (st_pstr t)) [] in
  Ok (mkView (fun coords =>
                let rho := env_of (combine (map fst vars) coords) in
                physical (st_pt t) (map (fun os => fst os + lin_eval rho (snd os)) strs))
             (map (fun kn => (kn, lin_coeff merged (fst kn))) vars)
             (st_rg t)).

(** * the einsum over the physical variables *)
Definition plabel (kn : pn) : nat := Pos.to_nat (fst kn).
Definition view_operand (v : view) : operand := (map snd (vw_vars v), vw_fn v).
Definition einsum_views (views : list view) (out : list pn) : list nat -> R :=
  einsum_dense (map view_operand views) (map (fun v => map plabel (vw_vars v)) views) (map plabel out).

(** * (c) [reduce_equation] / [post_einsum] *)
Definition kept (d : positive * nat * nat) : bool :=
  negb (Nat.eqb (snd d) 0 || Nat.eqb (snd (fst d)) 1).      (* not (strd == 0 or shap == 1) *)

(** coordinates of the shrunk view -> coordinates of the view (dropped dimensions read at 0) *)
Fixpoint fill_coords (dims : list (positive * nat * nat)) (coords : list nat) : list nat :=
  match dims with
  | [] => []
  | d :: dims' =>
      if kept d then match coords with
                     | c :: coords' => c :: fill_coords dims' coords'
                     | [] => 0 :: fill_coords dims' []
                     end
      else 0 :: fill_coords dims' coords
  end.

(** [torch.as_strided(t, shrunk_shape, shrunk_stride)] *)
Definition shrink_view (v : view) : view :=
  mkView (fun coords => vw_fn v (fill_coords (vw_dims v) coords)) (filter kept (vw_dims v)) (vw_rg v).

Definition pmem (k : positive) (l : list pn) : bool := existsb (fun kn => Pos.eqb (fst kn) k) l.
(** positions of [false] in a mask, ascending, starting at [off] *)
Fixpoint false_positions (m : list bool) (off : nat) : list nat :=
  match m with
  | [] => []
  | b :: m' => (if b then [] else [off]) ++ false_positions m' (S off)
  end.

Record reduced : Type := mkRed {
  rd_views : list view; rd_out : list pn; rd_unsq : list nat; rd_shape : list nat }.

(** step 2: [len(output_variables) != num_variables] -> unchanged.  Step 3's early return compares a
    tuple (the result of a starred zip) with a list and is therefore never taken; the remaining steps are
    harmless when nothing shrinks.  The variables of the reduced equation are re-lettered in the
    iteration order of a Python set: names only.  [removed_vars] is a Python set as well;
    [sorted(output_variables.index(v) for v in removed_vars)] is, whatever its iteration order, the
    ascending list of the positions of the removed variables in the output. *)
Definition reduce_equation_model (views : list view) (out : list pn) : reduced :=
  let output_shape := map snd out in
  let allvars := dedup [] (flat_map vw_vars views) in
  if negb (Nat.eqb (length out) (length allvars)) then mkRed views out [] output_shape
  else
    let shrunk := map shrink_view views in
    let shrunk_vars := flat_map vw_vars shrunk in
    let removed := filter (fun kn => negb (pmem (fst kn) shrunk_vars)) allvars in
    mkRed shrunk
          (filter (fun kn => negb (pmem (fst kn) removed)) out)
          (false_positions (map (fun kn => negb (pmem (fst kn) removed)) out) 0)
          output_shape.

(** [for v in unsqueeze_index: result = result.unsqueeze(v)] then [expand(output_shape)]: the
    inserted dimension has size 1 and is expanded, i.e. its coordinate is ignored *)
Fixpoint post_einsum_model (f : list nat -> R) (unsq : list nat) : list nat -> R :=
  match unsq with
  | [] => f
  | v :: rest => post_einsum_model (fun idx => f (firstn v idx ++ skipn (S v) idx)) rest
  end.

Definition use_reduce (views : list view) : bool := forallb (fun v => negb (vw_rg v)) views.

Definition phys_out (views : list view) (out : list pn) : list nat -> R :=
  if use_reduce views then
    let rd := reduce_equation_model views out in
    post_einsum_model (einsum_views (rd_views rd) (rd_out rd)) (rd_unsq rd)
  else einsum_views views out.

(** * [einsum] *)
Record erun : Type := mkRun {
  er_ts : list stensor;            (* re-defaulted, freshened operands *)
  er_sigma : subst;
  er_i2v : list (nat * axis);
  er_outv : list axis;             (* output_vaxes *)
  er_failed : bool;                (* result_is_zero *)
  er_views : list view;
  er_zero_axis : bool;             (* a zero-size physical axis *)
  er_outp : list pn;               (* output_paxes *)
  er_next : positive;
  er_raw : ptensor R }.            (* the result before [__post_init__] *)

Definition efuel (ts : list stensor) : nat :=
  8 * fold_right (fun t acc => asize_list (vaxes (st_pt t)) + length (paxes (st_pt t)) + acc) 0 ts + 16.

Definition einsum_run (veqb : R -> R -> bool) (genabled : bool) (next : positive)
                      (ts : list stensor) (inputs : list (list nat)) (output : list nat) : res erun :=
  let '(ts1, nx1) := default_all veqb genabled r0 next ts in
  r <- eloop (efuel ts1) ts1 inputs (mkLS [] [] {| us_subst := []; us_next := nx1; us_warn := false |} false) [] ;;
  let '(s, fts) := r in
  let sigma := us_subst (ls_u s) in
  outv <- mapM (fun l => match lassoc l (ls_i2v s) with
                         | Some e => clone (sfuel sigma [e]) sigma e
                         | None => Fail OtherError                 (* KeyError *)
                         end) output ;;
  let nx := us_next (ls_u s) in
  let zr := fst (pt_full R (map numel outv) r0 nx) in            (* zero_result() *)
  if ls_zero s then Ok (mkRun fts sigma (ls_i2v s) outv true [] false [] nx zr) else
  views <- mapM (project_view sigma) fts ;;
  if existsb (fun d => Nat.eqb (snd (fst d)) 0) (flat_map vw_dims views)
  then Ok (mkRun fts sigma (ls_i2v s) outv false views true [] nx zr) else
  outp <- fv_list (sfuel sigma outv) sigma outv ;;
  Ok (mkRun fts sigma (ls_i2v s) outv false views false outp nx
            (mkPT (phys_out views outp) outp outv r0)).

(** [einsum(tensors, inputs, output, semiring)] *)
Definition einsum_model (veqb : R -> R -> bool) (genabled : bool) (next : positive)
                        (ts : list stensor) (inputs : list (list nat)) (output : list nat) : res (ptensor R) :=
  match ts with
  | [] => Ok (fst (pt_of_dense R [] (fun _ => r1) r0 next))       (* PatternedTensor(one, default=zero) *)
  | _ => r <- einsum_run veqb genabled next ts inputs output ;; post_init R (er_raw r)
  end.

(** [PatternedTensor.mv] / [mm] *)
Definition mv_model veqb genabled next (a v : stensor) : res (ptensor R) :=
  einsum_model veqb genabled next [a; v] [[0; 1]; [1]] [0].
Definition mm_model veqb genabled next (a m : stensor) : res (ptensor R) :=
  einsum_model veqb genabled next [a; m] [[0; 1]; [1; 2]] [0; 2].

(** * (d) the argmax variant: pointers *)
(** [index_to_vaxis] after [output_vaxes = tuple(index_to_vaxis[index].clone(subst) ...)] and
    [for index in output: index_to_vaxis.pop(index, None)] (repaired in /repo 3f6a623): [None] =
    KeyError, only for an output index that does not occur in the inputs; a repeated output index
    is popped once and ignored the second time *)
Fixpoint pop_each (output : list nat) (i2v : list (nat * axis)) : list (nat * axis) :=
  match output with
  | [] => i2v
  | l :: output' => pop_each output' (filter (fun le => negb (Nat.eqb (fst le) l)) i2v)
  end.
Definition pop_all (output : list nat) (i2v : list (nat * axis)) : option (list (nat * axis)) :=
  if forallb (fun l => match lassoc l i2v with Some _ => true | None => false end) output
  then Some (pop_each output i2v) else None.

(** the code before 3f6a623 ([index_to_vaxis.pop(index)] inside the generator): KeyError also on
    the second occurrence of a repeated output index (F24); kept as a record only *)
Fixpoint pop_all_old (output : list nat) (i2v : list (nat * axis)) : option (list (nat * axis)) :=
  match output with
  | [] => Some i2v
  | l :: output' =>
      match lassoc l i2v with
      | Some _ => pop_all_old output' (filter (fun le => negb (Nat.eqb (fst le) l)) i2v)
      | None => None
      end
  end.

(** the summed-out physical variables in the order of the pointer tuple of
    torch_semiring_einsum ("ordered by first appearance in the equation") *)
Definition summed_vars (views : list view) (out : list pn) : list pn :=
  filter (fun kn => negb (pmem (fst kn) out)) (dedup [] (flat_map vw_vars views)).

(** [p = o + sum_k alpha_k * paxis_to_ptr[k]] for every summed-out einsum index, at the output
    cell whose physical coordinates are [ocoords] and whose physical argmax is [pp] *)
Definition ptr_translate (sigma : subst) (summed_axes : list axis) (outp sv : list pn)
                         (ocoords pp : list nat) : res (list nat) :=
  let rho := env_of (combine (map fst outp) ocoords ++ combine (map fst sv) pp) in
  mapM (fun e => r <- stride (sfuel sigma [e]) sigma e ;; Ok (fst r + lin_eval rho (snd r))) summed_axes.

End Einsum.

Arguments mkST {R}.
Arguments st_pt {R}.
Arguments st_pstr {R}.
Arguments st_rg {R}.
Arguments mkView {R}.
Arguments vw_fn {R}.
Arguments vw_dims {R}.
Arguments vw_rg {R}.
Arguments vw_vars {R}.

(** * (d) continued: the argmax variant as a whole *)
Section Viterbi.
Context {R : Type} (o : sr_ops R) (leb : R -> R -> bool).

(** a maximiser of [f] over [cands] (the first one in enumeration order; which of several
    maximisers torch returns is not specified, the theorems hold for every maximiser) *)
Definition first_argmax (cands : list (list nat)) (f : list nat -> R) : option (list nat) :=
  fold_left (fun best c => match best with
                           | None => Some c
                           | Some b => if leb (f c) (f b) then Some b else Some c
                           end) cands None.

(** the physical argmax of the equation over the views at one output cell *)
Definition phys_argmax (views : list view) (outp : list pn) (ocoords : list nat) : option (list nat) :=
  let sv := summed_vars views outp in
  first_argmax (all_assts (map snd sv))
               (fun pp => einsum_term o (map view_operand views) (map (fun v => map plabel (vw_vars v)) views)
                                      (combine (map plabel outp) ocoords ++ combine (map plabel sv) pp)).

(** the pointer tuple (one virtual index per summed-out einsum index, in order of first
    appearance) of the output cell [oidx]; default 0 where the cell has no backing element and on
    the [zero_result()] exits *)
Definition viterbi_ptr_model (r : erun (R:=R)) (output : list nat) (oidx : list nat) : res (list nat) :=
  match pop_all output (er_i2v r) with
  | None => Fail OtherError                                        (* KeyError *)
  | Some rest =>
      let n := length rest in
      if er_failed r || er_zero_axis r then Ok (repeat 0 n) else
      match index_list (er_outv r) [] oidx with
      | IOk pi =>
          let oc := pcoords (er_outp r) (env_of pi) in
          match phys_argmax (er_views r) (er_outp r) oc with
          | Some pp => ptr_translate (er_sigma r) (map snd rest) (er_outp r)
                                     (summed_vars (er_views r) (er_outp r)) oc pp
          | None => Fail OtherError                                (* max over an empty range: excluded by the zero-size exit *)
          end
      | _ => Ok (repeat 0 n)
      end
  end.
End Viterbi.
