(** The model of fggs/conjunction.py:[conjoin_rules] / [conjoin_hrgs] and of the Graph builder
    *as they were before* /repo commit 00f91d1 (and 349378f), kept only to state the two refuted
    claims about the old code (Props/C17.v: [C17_total_refuted_*_old]).  Every definition here is
    suffixed [_old]; the current code is modelled in Model/Conj.v. *)
From Coq Require Import List Arith Bool PeanoNat.
Import ListNotations.
Require Import Fggs.Model.Conj.

(** [sorted(edges, key=id)]: comparing an [int] id with a [str] id raised TypeError *)
Fixpoint insert_edge_old (x : edge) (l : list edge) : list edge :=
  match l with
  | [] => [x]
  | y :: l' => if Nat.leb (e_id x) (e_id y) then x :: l else y :: insert_edge_old x l'
  end.
Definition sort_edges_old (l : list edge) : list edge := fold_right insert_edge_old [] l.
Definition mixed_ids_old (l : list edge) : bool :=
  existsb (fun e => is_int_id (e_id e)) l && existsb (fun e => negb (is_int_id (e_id e))) l.
Definition sorted_by_id_old (l : list edge) : result (list edge) :=
  if mixed_ids_old l then Err TypeErr else Ok (sort_edges_old l).

(** [for node in nodes: if node.id not in self._nodes: self.add_node(node)] *)
Definition add_missing_old (g : graph) (n : node) : result graph :=
  if has_node_id g (n_id n) then Ok g else add_node g n.
Definition set_ext_old (g : graph) (ns : list node) : result graph :=
  g' <- mfold add_missing_old ns g ;;
  Ok {| g_nodes := g_nodes g'; g_edges := g_edges g'; g_ext := ns |}.
Definition add_edge_old (g : graph) (e : edge) : result graph :=
  if has_edge_id g (e_id e) then Err ValueErr
  else g' <- mfold add_missing_old (e_att e) g ;;
       Ok {| g_nodes := g_nodes g'; g_edges := g_edges g' ++ [e]; g_ext := g_ext g' |}.
(** [Edge(label, nodes, id=edge1.id)]: an explicit id had to be a [str] *)
Definition mk_edge_old (lab : elabel) (ns : list node) (i : nat) : result edge :=
  if is_int_id i then Err TypeErr
  else if negb (nats_eqb (el_type lab) (map n_lab ns)) then Err ValueErr
  else Ok {| e_id := i; e_lab := lab; e_att := ns |}.

Definition conj_nt_edge_old (m : ntmap) (g : graph) (p : edge * edge) : result graph :=
  match nt_get m (e_lab (fst p), e_lab (snd p)) with
  | None => Err KeyErr
  | Some lab => e <- mk_edge_old lab (e_att (fst p)) (e_id (fst p)) ;; add_edge_old g e
  end.

Definition conjoin_rules_model_old (r1 r2 : rule) (m : ntmap) : result rule :=
  match nt_get m (r_lhs r1, r_lhs r2) with
  | None => Err KeyErr
  | Some new_lhs =>
    g0 <- mfold add_node (g_nodes (r_rhs r1)) empty_graph ;;
    g1 <- set_ext_old g0 (g_ext (r_rhs r1)) ;;
    nts1 <- sorted_by_id_old (nt_edges (r_rhs r1)) ;;
    nts2 <- sorted_by_id_old (nt_edges (r_rhs r2)) ;;
    g2 <- mfold (conj_nt_edge_old m) (combine nts1 nts2) g1 ;;
    g3 <- mfold add_edge_old (t_edges (r_rhs r1) ++ t_edges (r_rhs r2)) g2 ;;
    mk_rule new_lhs g3
  end.

Definition conj_step_old (m : ntmap) (st : hstate) (p : (nat * nat) * (rule * rule)) : result hstate :=
  r <- conjoin_rules_model_old (fst (snd p)) (snd (snd p)) m ;; add_rule_model st (r, fst p).

Definition conjoin_hrgs_model_old (h1 h2 : hrg) : result hrg :=
  let (n_col, e_col) := check_namespace_collisions_model h1 h2 in
  match n_col with
  | _ :: _ => Err ValueErr
  | [] =>
    if existsb tt_conflict e_col then Err ValueErr
    else
      m <- nonterminal_pairs_model h1 h2 ;;
      match nt_get m (h_start h1, h_start h2) with
      | None => Err KeyErr
      | Some s =>
        if el_term s then Err ValueErr
        else
          st <- mfold (conj_step_old m) (cpairs h1 h2) {| s_nl := []; s_el := [s]; s_rules := [] |} ;;
          Ok (untag (s, st))
      end
  end.

(** the two defect classes of the old code *)
(** D1: some conjoinable pair of rules shares a terminal-edge id: [Graph.add_edge] raised ValueError *)
Definition shares_terminal_id_old (r1 r2 : rule) : bool :=
  existsb (fun e => existsb (fun e' => Nat.eqb (e_id e) (e_id e')) (t_edges (r_rhs r2))) (t_edges (r_rhs r1)).
Definition defect_shared_terminal_id_old (h1 h2 : hrg) : bool :=
  existsb (fun p => shares_terminal_id_old (fst (snd p)) (snd (snd p))) (cpairs h1 h2).
(** D2: some conjoinable pair has a nonterminal edge with an implicit (int) id: TypeError *)
Definition defect_int_nt_id_old (h1 h2 : hrg) : bool :=
  existsb (fun p => existsb (fun e => is_int_id (e_id e)) (nt_edges (r_rhs (fst (snd p))))) (cpairs h1 h2).
