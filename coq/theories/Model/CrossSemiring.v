(** C11: max-times semiring on [0,inf] (the Viterbi semiring in the exp reading) and its check
    functions; the support map.  Theorems in Proofs/Homomorphism.v. *)
From Coq Require Import QArith Qcanon List Arith Bool PeanoNat.
Import ListNotations.
Require Import Fggs.Model.Semiring Fggs.Model.SCC Fggs.Model.SumProduct Fggs.Model.SumProductCheck
               Fggs.Model.Kleene Fggs.Model.EReal.
Local Open Scope nat_scope.

Definition emax (x y : ereal) : ereal := if eleb x y then y else x.
Definition maxtimes_ops : sr_ops ereal :=
  {| zero := Fin nn0; one := Fin nn1; add := emax; mul := emul; star := fun x => x; le := ele |}.
Definition supp (x : ereal) : bool := match x with Fin a => negb (is0 a) | PInf => true end.

Definition sp_check_maxtimes := sp_check maxtimes_ops ereal_of real_within eeqb.
Definition fp_check_maxtimes := fp_check maxtimes_ops rd_real infl_real eleb far_real ereal_of compat_real.
