(** Check functions (model side of the correspondence) for C01: non-recursive sum-product. *)
From Coq Require Import QArith Qcanon List Arith Bool PeanoNat.
Local Open Scope nat_scope.
Import ListNotations.
Require Import Fggs.Model.Semiring Fggs.Model.SCC Fggs.Model.SumProduct Fggs.Model.EReal Fggs.Model.Trop.

Definition rule_w := (nat * list nat * list (nat * list nat) * list nat)%type.
Definition grammar_w := (list nat * list (bool * list nat) * list rule_w * nat)%type.

Definition rule_of_w (r : rule_w) : rule :=
  let '(l, ns, es, ex) := r in {| r_lhs := l; r_nodes := ns; r_edges := es; r_ext := ex |}.
Definition grammar_of_w (g : grammar_w) : grammar :=
  let '(d, ls, rs, s) := g in {| g_doms := d; g_labels := ls; g_rules := map rule_of_w rs; g_start := s |}.

Section Check.
Context {R W B : Type} (o : sr_ops R) (of_wire : W -> R) (within : R -> B -> bool) (eqb : R -> R -> bool).

(** terminal weights: (label, row-major values) *)
Definition weights_tmt (G : grammar) (ws : list (nat * list W)) : tmt (R:=R) :=
  map (fun p => (fst p, combine (all_assts (lshape G (fst p))) (map of_wire (snd p)))) ws.

Definition cells_ok (tb : table (R:=R)) (obs : list B) : bool :=
  Nat.eqb (length tb) (length obs) && forallb (fun p => within (snd (fst p)) (snd p)) (combine tb obs).
Definition tables_eq (a b : table (R:=R)) : bool :=
  Nat.eqb (length a) (length b) && forallb (fun p => eqb (snd (fst p)) (snd (snd p))) (combine a b).

Fixpoint tmt_get (t : tmt (R:=R)) (k : nat) : option (table (R:=R)) :=
  match t with [] => None | (a, tb) :: t => if Nat.eqb a k then Some tb else tmt_get t k end.
Fixpoint obs_get (t : list (nat * list B)) (k : nat) : option (list B) :=
  match t with [] => None | (a, tb) :: t => if Nat.eqb a k then Some tb else obs_get t k end.

Definition worst (codes : list nat) : nat :=
  if existsb (Nat.eqb 1) codes then 1 else fold_left Nat.max codes 0.

(** verdicts: 0 ok; 1 implementation differs from the mathematical definition (sum over
    derivations); 2 ill-formed grammar (harness bug); 3 grammar is recursive / scc ran out of fuel
    (harness bug); 4 an entry of sum_products is missing; 10 implementation differs from the
    code-shaped model only; 20 code-shaped model differs from the definition (framework bug) *)
Definition sp_check (x : grammar_w * list (nat * list W) * list (nat * list B)) : nat :=
  let '(gw, ws, obs) := x in
  let G := grammar_of_w gw in
  if negb (wf_grammar G) then 2 else
  match scc (nt_graph G) with
  | None => 3
  | Some order =>
    if negb (nonrecursive_order G order) then 3 else
    let w := weights_tmt G ws in
    let model := sum_products_nonrec o G w order in
    let spec := Ztab o G (env_of o w) (length (nonterminals G)) in
    worst (map (fun X =>
                  match obs_get obs X, tmt_get model X, tmt_get spec X with
                  | Some ob, Some mt, Some st =>
                    if negb (tables_eq mt st) then 20
                    else if negb (cells_ok st ob) then 1
                    else if negb (cells_ok mt ob) then 10 else 0
                  | None, _, _ => 4
                  | _, _, _ => 20
                  end) (nonterminals G))
  end.
End Check.

(** Real (and Log, read through exp): weights [None] = +inf | [Some q]; observation = interval *)
(** observation (lo, Some hi): the model value must be finite and in [lo, hi];
    (_, None): the implementation returned +inf, the model value must be +inf *)
Definition real_within (x : ereal) (b : Q * option Q) : bool :=
  match x, snd b with
  | Fin a, Some h => Qle_bool (fst b) (this (qv a)) && Qle_bool (this (qv a)) h
  | PInf, None => true
  | _, _ => false
  end.
Definition sp_check_real := sp_check ereal_ops ereal_of real_within eeqb.
(** Viterbi: weights (tag, q); observation = (lo, hi) *)
Definition sp_check_trop := sp_check trop_ops trop_of (fun x (b : (nat * Q) * (nat * Q)) => trop_within x (fst b) (snd b)) teqb.
Definition sp_check_bool := sp_check bool_ops (fun b : bool => b) Bool.eqb Bool.eqb.
