(** C19, last clause: "every nonterminal's sum-product is computed after those it depends on and
    every nonterminal receives a value".  What is observed of one call [sum_products(fgg)]:
      nts    the nonterminals of the grammar AS IT IS at the time of the call (label-table order),
      rules  its rules (lhs, rhs edge labels with their is_nonterminal flag) at that time,
      blocks the lists of nonterminals handed, one after the other, to the per-component solver
             (out_labels of SumProduct.apply_to_patterned_tensors),
      keys   the nonterminals that have a value in the returned dict.
    The check function judges the observation against the dependency graph of the CURRENT grammar
    (so an answer computed from a decomposition remembered from an earlier state of the same object
    is rejected).  Definitions only; proofs are in Proofs/SCC_order.v. *)
From Coq Require Import List Arith Bool.
Import ListNotations.
Require Import Fggs.Model.SCC.

(** verdict: 0 ok;
    1 the verified oracle [scc_ok] rejects the blocks: they are not the dependency-ordered SCC
      decomposition of the current grammar's nonterminal graph;
    2 harness bug (nonterminals not distinct, or a rule mentions a nonterminal outside [nts]);
    3 some nonterminal received no value;
    10 blocks are a correct decomposition but differ from the model's (order inside/between components);
    11 model out of fuel (impossible, C19_partition) *)
Definition sp_order_check (x : list nat * rules_t * list (list nat) * list nat) : nat :=
  let '(nts, rules, blocks, keys) := x in
  let g := ntgraph nts rules in
  if negb (closed g) then 2
  else if negb (forallb (mem keys) nts) then 3
  else if negb (scc_ok g blocks) then 1
  else match scc g with
       | Some cs => if llist_eqb cs blocks then 0 else 10
       | None => 11
       end.
