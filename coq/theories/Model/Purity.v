(** C18: an ownership model of in-place updates.  Storages are numbers; a query's execution is
    abstracted to the trace of storage events the write monitor records (first sight of a
    storage that was not reachable from the arguments = allocation; in-place / out= torch calls
    = writes).  [trace_ok] accepts a trace iff every write targets a storage allocated inside
    the call; theorem (Proofs/Purity_proofs.v): an accepted trace leaves every user-owned
    storage unchanged.  Snapshots and result digests are compared as numbers. *)
From Coq Require Import List Arith Bool PeanoNat NArith.
Import ListNotations.

Inductive ev : Type :=
| Alloc (s : N)                (* storage s first seen, not reachable from the user's arguments *)
| Write (s : N) (v : N).       (* an in-place operation writes (abstract) content v into s *)

Definition store := N -> N.
Definition upd (st : store) (s v : N) : store := fun x => if N.eqb x s then v else st x.
Definition apply_ev (st : store) (e : ev) : store :=
  match e with Alloc _ => st | Write s v => upd st s v end.
Definition run (tr : list ev) (st : store) : store := fold_left apply_ev tr st.

Definition memN (l : list N) (x : N) : bool := existsb (N.eqb x) l.

(** every write goes to a storage allocated earlier in this trace, and no allocation
    claims a user storage *)
Fixpoint trace_ok_from (user fresh : list N) (tr : list ev) : bool :=
  match tr with
  | [] => true
  | Alloc s :: tr => negb (memN user s) && trace_ok_from user (s :: fresh) tr
  | Write s _ :: tr => memN fresh s && negb (memN user s) && trace_ok_from user fresh tr
  end.
Definition trace_ok (user : list N) (tr : list ev) : bool := trace_ok_from user [] tr.

Definition listN_eqb (a b : list N) : bool :=
  Nat.eqb (length a) (length b) && forallb (fun p => N.eqb (fst p) (snd p)) (combine a b).

(** wire: events as (tag, s, v), tag 0 = Alloc, 1 = Write.
    verdicts: 0 ok; 1 a write reached a storage owned by the caller (or one not allocated in
    the call); 5 an argument's deep snapshot changed; 6 the result differs from the result of
    the same call on a fresh deep copy / from the first call *)
Definition ev_of (x : nat * N * N) : ev :=
  let '(t, s, v) := x in match t with O => Alloc s | _ => Write s v end.

Definition purity_check (x : list N * list (nat * N * N) * list N * list N * list N * list N) : nat :=
  let '(user, tr, before, after, res1, res2) := x in
  if negb (trace_ok user (map ev_of tr)) then 1
  else if negb (listN_eqb before after) then 5
  else if negb (listN_eqb res1 res2) then 6
  else 0.
