(** C08: the formulas of fggs/semirings.py *as written*, over exact numbers.

    [xr] is "IEEE arithmetic without rounding": NaN, -inf, a rational, +inf, with the IEEE
    rules for the special values (inf - inf = 0 * inf = inf / inf = 0 / 0 = NaN, NaN propagates,
    comparisons with NaN are false).  Signed zeros are not distinguished (they matter only in
    1/(1-x) at x = 1, where the code overwrites the result anyway); 1/0 is read as 1/(+0) = +inf.
    Each torch primitive used by the semiring classes is one function here, and each method of
    RealSemiring / ViterbiSemiring / BoolSemiring / LogSemiring is the same composition of
    primitives as in the Python source.  Proofs/SemiringCodeLaws.v shows that on the carriers
    (ereal embedded as [0,+inf], trop as [-inf,+inf]) these compositions coincide with the
    carrier operations of Model/EReal.v and Model/Trop.v (ViterbiSemiring.star since the repair of F2;
    the formula before the repair is kept as [viterbi_star_old]).

    LogSemiring is read through exp: a log-space value v is represented by e^v in [0,+inf]
    (log-space NaN by XNaN).  Under this reading  v + w |-> e^v * e^w,  v - w |-> e^v / e^w,
    -v |-> 1/e^v,  exp |-> identity (the result is a real-space number),  log w |-> w if w >= 0
    else NaN,  logaddexp |-> +.  The numerically motivated branch conditions (d < -1, x < -1) have
    irrational thresholds in this reading; they are an arbitrary boolean [c] and the theorems hold
    for both values: both branches denote the same number. *)
From Coq Require Import QArith Qcanon Bool.
Require Import Fggs.Model.Semiring Fggs.Model.EReal Fggs.Model.Trop.
Open Scope Qc_scope.

Inductive xr : Type := XNaN | XNInf | XFin (q : Qc) | XPInf.

Definition qsgn (q : Qc) : comparison := (this q ?= 0)%Q.   (* Lt: negative, Eq: zero, Gt: positive *)

(** torch.add / Tensor.add on one element *)
Definition xadd (x y : xr) : xr :=
  match x, y with
  | XNaN, _ | _, XNaN => XNaN
  | XPInf, XNInf | XNInf, XPInf => XNaN
  | XPInf, _ | _, XPInf => XPInf
  | XNInf, _ | _, XNInf => XNInf
  | XFin a, XFin b => XFin (a + b)
  end.
Definition xneg (x : xr) : xr :=
  match x with XNaN => XNaN | XNInf => XPInf | XPInf => XNInf | XFin a => XFin (- a) end.
Definition xsub (x y : xr) : xr := xadd x (xneg y).
(** sign-directed infinity *)
Definition xinf_of (c : comparison) : xr :=
  match c with Lt => XNInf | Eq => XNaN | Gt => XPInf end.
Definition xsgn (x : xr) : comparison :=   (* of a non-NaN value *)
  match x with XNaN => Eq | XNInf => Lt | XPInf => Gt | XFin a => qsgn a end.
Definition cmul (c d : comparison) : comparison :=
  match c, d with Eq, _ | _, Eq => Eq | Lt, Lt | Gt, Gt => Gt | _, _ => Lt end.
Definition xmul (x y : xr) : xr :=
  match x, y with
  | XNaN, _ | _, XNaN => XNaN
  | XFin a, XFin b => XFin (a * b)
  | _, _ => xinf_of (cmul (xsgn x) (xsgn y))     (* inf * 0 = NaN *)
  end.
(** x / y with y = 0 read as +0 *)
Definition xdiv (x y : xr) : xr :=
  match x, y with
  | XNaN, _ | _, XNaN => XNaN
  | XFin a, XFin b => if Qeq_bool (this b) 0 then xinf_of (qsgn a) else XFin (a / b)
  | XFin _, _ => XFin 0
  | _, XFin b => if Qeq_bool (this b) 0 then x else xinf_of (cmul (xsgn x) (qsgn b))
  | _, _ => XNaN                                 (* inf / inf *)
  end.
(** comparisons (false on NaN) *)
Definition xle (x y : xr) : bool :=
  match x, y with
  | XNaN, _ | _, XNaN => false
  | XNInf, _ | _, XPInf => true
  | XFin a, XFin b => Qle_bool (this a) (this b)
  | _, _ => false
  end.
Definition xge (x y : xr) : bool := xle y x.
Definition xlt (x y : xr) : bool :=
  match x, y with XNaN, _ | _, XNaN => false | _, _ => negb (xle y x) end.
Definition xgt (x y : xr) : bool := xlt y x.
(** torch.relu: max(0, x), NaN stays NaN *)
Definition xrelu (x : xr) : xr :=
  match x with XNaN => XNaN | _ => if xle x (XFin 0) then XFin 0 else x end.
(** torch.maximum: NaN propagates *)
Definition xmax (x y : xr) : xr :=
  match x, y with XNaN, _ | _, XNaN => XNaN | _, _ => if xle x y then y else x end.
(** torch.nan_to_num with the three replacement values given *)
Definition nan_to_num (x nan posinf neginf : xr) : xr :=
  match x with XNaN => nan | XPInf => posinf | XNInf => neginf | XFin _ => x end.

Definition xr_of_nat (n : nat) : xr := XFin (Q2Qc (inject_Z (Z.of_nat n))).

(* ------------------------------------------------------------------------- *)
(** * RealSemiring.  [lowest] stands for the value torch substitutes for -inf when no
      [neginf] is passed (-max float); no result depends on it. *)
Section Real.
  Variable lowest : xr.
  Definition real_from_int (n : nat) : xr := xr_of_nat n.                 (* as_tensor(n, dtype) *)
  Definition real_add (x y : xr) : xr := xadd x y.                         (* x.add(y) *)
  Definition real_mul (x y : xr) : xr :=                                   (* x.mul(y).nan_to_num_(nan=0., posinf=inf) *)
    nan_to_num (xmul x y) (XFin 0) XPInf lowest.
  Definition real_sub (x y : xr) : xr :=                                   (* x.sub(y).relu_().nan_to_num_(nan=0., posinf=inf) *)
    nan_to_num (xrelu (xsub x y)) (XFin 0) XPInf lowest.
  Definition real_star (x : xr) : xr :=                                    (* y = 1/(1-x); y.masked_fill_(x >= 1, inf) *)
    let y := xdiv (XFin 1) (xsub (XFin 1) x) in
    if xge x (XFin 1) then XPInf else y.
End Real.

(* ------------------------------------------------------------------------- *)
(** * ViterbiSemiring *)
Definition viterbi_from_int (n : nat) : xr :=                              (* where(n > 0, 0., -inf) *)
  if Nat.ltb 0 n then XFin 0 else XNInf.
Definition viterbi_add (x y : xr) : xr := xmax x y.                        (* x.maximum(y) *)
Definition viterbi_mul (x y : xr) : xr :=                                  (* x.add(y).nan_to_num_(nan=-inf, neginf=-inf, posinf=inf) *)
  nan_to_num (xadd x y) XNInf XPInf XNInf.
Definition viterbi_sub (x y : xr) : xr := x.                               (* return x *)
Definition viterbi_star (x : xr) : xr :=                                   (* where(x > 0, inf, 0.) *)
  if xgt x (XFin 0) then XPInf else XFin 0.
(** the formula BEFORE the repair d2ec7af of /repo (finding F2): where(x >= 0, inf, 0.).
    Not the model of the current code; kept so that the refutation of the old formula
    ([viterbi_star_old_zero_refuted]) stays on record. *)
Definition viterbi_star_old (x : xr) : xr :=
  if xge x (XFin 0) then XPInf else XFin 0.

(* ------------------------------------------------------------------------- *)
(** * BoolSemiring *)
Definition boolc_from_int (n : nat) : bool := Nat.ltb 0 n.                  (* n > 0 *)
Definition boolc_add (x y : bool) : bool := orb x y.                        (* logical_or *)
Definition boolc_mul (x y : bool) : bool := andb x y.                       (* logical_and *)
Definition boolc_sub (x y : bool) : bool := andb x (negb y).                (* x.logical_and(y.logical_not()) *)
Definition boolc_star (x : bool) : bool := true.                            (* full_like(x, True) *)

(* ------------------------------------------------------------------------- *)
(** * LogSemiring in the exp reading *)
(** log w, for a real-space w: defined (as e^(log w) = w) for w >= 0, NaN below *)
Definition xlog (w : xr) : xr :=
  match w with XNaN => XNaN | _ => if xlt w (XFin 0) then XNaN else w end.
(** log-space negation -v  |->  1 / e^v  (1/0 = +inf, 1/inf = 0) *)
Definition xrecip (x : xr) : xr := xdiv (XFin 1) x.
(** log-space nan_to_num(nan=-inf, neginf=-inf, posinf=p): -inf is represented by 0 *)
Definition log_nan_to_num (x posinf : xr) : xr := nan_to_num x (XFin 0) posinf (XFin 0).

Definition log_from_int (n : nat) : xr := xlog (xr_of_nat n).             (* log(as_tensor(n)) *)
Definition log_add (x y : xr) : xr := xadd x y.                            (* x.logaddexp(y) *)
Definition log_mul (x y : xr) : xr :=                                      (* x.add(y).nan_to_num_(nan=-inf, neginf=-inf, posinf=inf) *)
  log_nan_to_num (xmul x y) XPInf.
(** d = y.sub(x);
    x.add( d.exp().neg_().log1p_().where(d.lt(-1), d.expm1().neg_().log_()) ).nan_to_num_(...) *)
Definition log_sub (c : bool) (x y : xr) : xr :=
  let d := xdiv y x in
  let br1 := xlog (xadd (XFin 1) (xneg d)) in              (* log1p(-exp(d)) *)
  let br2 := xlog (xneg (xsub d (XFin 1))) in              (* log(-expm1(d)) *)
  log_nan_to_num (xmul x (if c then br1 else br2)) XPInf.
(** -where(x < -1, log1p(-exp(x)), log(-expm1(x))).nan_to_num(nan=-inf, neginf=-inf);
    [highest] stands for the value substituted for +inf when no [posinf] is passed *)
Definition log_star (c : bool) (highest : xr) (x : xr) : xr :=
  let br1 := xlog (xadd (XFin 1) (xneg x)) in
  let br2 := xlog (xneg (xsub x (XFin 1))) in
  xrecip (log_nan_to_num (if c then br1 else br2) highest).

(* ------------------------------------------------------------------------- *)
(** * Embeddings of the carriers *)
Definition xr_of_ereal (x : ereal) : xr := match x with Fin a => XFin (qv a) | PInf => XPInf end.
Definition xr_of_trop (x : trop) : xr :=
  match x with NInf => XNInf | TFin a => XFin a | TPInf => XPInf end.
(** partial inverses (NaN and out-of-carrier values have no image) *)
Definition ereal_of_xr (x : xr) : option ereal :=
  match x with
  | XFin a => if nnb a then Some (Fin (nn_of_Qc a)) else None
  | XPInf => Some PInf
  | _ => None
  end.
Definition trop_of_xr (x : xr) : option trop :=
  match x with XNInf => Some NInf | XFin a => Some (TFin a) | XPInf => Some TPInf | XNaN => None end.
