(** Abstract commutative (ordered, star-) semirings.  Operations are bundled in [sr_ops];
    laws are separate records so that generic theorems state exactly what they use and
    concrete instances come with the laws *proved* (C08).  [sr_ring] is the standard
    library's [semi_ring_theory], so the [ring] tactic is available in generic sections. *)
From Coq Require Import Ring_theory List.
Import ListNotations.

Record sr_ops (S : Type) : Type := {
  zero : S; one : S; add : S -> S -> S; mul : S -> S -> S;
  star : S -> S;                (* least solution of y = 1 + x*y *)
  le : S -> S -> Prop;          (* natural order *)
}.
Arguments zero {S}. Arguments one {S}. Arguments add {S}. Arguments mul {S}.
Arguments star {S}. Arguments le {S}.

Definition sr_ring {S} (o : sr_ops S) : Prop :=
  semi_ring_theory (zero o) (one o) (add o) (mul o) (@eq S).

Record sr_ordered {S} (o : sr_ops S) : Prop := {
  le_refl : forall x, le o x x;
  le_trans : forall x y z, le o x y -> le o y z -> le o x z;
  le_antisym : forall x y, le o x y -> le o y x -> x = y;
  zero_le : forall x, le o (zero o) x;
  add_mono : forall a b c d, le o a b -> le o c d -> le o (add o a c) (add o b d);
  mul_mono : forall a b c, le o b c -> le o (mul o a b) (mul o a c);
}.

Record sr_star {S} (o : sr_ops S) : Prop := {
  star_unfold : forall a, star o a = add o (one o) (mul o a (star o a));
  star_ind : forall a b x, le o (add o (mul o a x) b) x -> le o (mul o (star o a) b) x;
}.

(** [from_nat n] = 1 + ... + 1 (the unique homomorphism from the naturals) *)
Fixpoint from_nat {S} (o : sr_ops S) (n : nat) : S :=
  match n with 0 => zero o | S n => add o (one o) (from_nat o n) end.

Fixpoint sum_list {S} (o : sr_ops S) (l : list S) : S :=
  match l with [] => zero o | x :: l => add o x (sum_list o l) end.
Fixpoint prod_list {S} (o : sr_ops S) (l : list S) : S :=
  match l with [] => one o | x :: l => mul o x (prod_list o l) end.

(** the Boolean semiring *)
Definition bool_ops : sr_ops bool :=
  {| zero := false; one := true; add := orb; mul := andb; star := fun _ => true;
     le := fun a b => a = true -> b = true |}.
