(** C04: HISTORIES of calls on the same FGG object.

    [fggs.viterbi(fgg, xi)] must return an optimal derivation of the FGG AS IT IS AT THE TIME OF
    THE CALL.  Between two calls on the same object the caller may change a factor's weight
    tensor in place (or assign a new one) and add rules.  The model of such a history is a state
    machine: the state is (grammar, terminal weights); a step applies its updates to the state
    and then observes one call.  [hist_cases] computes, inside Coq, the state every call has to be
    judged against (the harness does not supply the updated weights, only the initial ones and
    the updates), and [vit_hist_check] judges every call with [vit_check] (Model/Viterbi.v)
    against THAT state: a result computed from an earlier state of the object (a cache keyed on
    object identity that survives an in-place update) is rejected with verdict 6.
    Definitions only. *)
From Coq Require Import QArith Qcanon List Arith Bool PeanoNat.
Import ListNotations.
Require Import Fggs.Model.Semiring Fggs.Model.SCC Fggs.Model.SumProduct Fggs.Model.SumProductCheck
               Fggs.Model.Kleene Fggs.Model.EReal Fggs.Model.Trop Fggs.Model.Viterbi.
Local Open Scope nat_scope.

(** one in-place update [weights[label].flat[index] = value] (row-major index) *)
Definition wupd := (nat * nat * (nat * Q))%type.
Definition wstate := list (nat * list (nat * Q)).

Fixpoint set_nth {A} (l : list A) (i : nat) (v : A) : list A :=
  match l, i with
  | [], _ => []
  | _ :: l, 0 => v :: l
  | x :: l, S i => x :: set_nth l i v
  end.

Definition ws_set (ws : wstate) (u : wupd) : wstate :=
  let '(el, i, v) := u in
  map (fun p => if Nat.eqb (fst p) el then (fst p, set_nth (snd p) i v) else p) ws.

(** reading one entry (first binding of the label, as [weights_tmt]/[env_of] do) *)
Fixpoint ws_get (ws : wstate) (el i : nat) : option (nat * Q) :=
  match ws with
  | [] => None
  | (a, l) :: ws => if Nat.eqb a el then nth_error l i else ws_get ws el i
  end.

(** [fgg.add_rule] for each of rs, in order: the rules of the object are extended at the end *)
Definition gw_add (gw : grammar_w) (rs : list rule_w) : grammar_w :=
  let '(d, ls, rules, s) := gw in (d, ls, rules ++ rs, s).

Definition vobs := (nat * dtree * (nat * Q) * ((nat * Q) * (nat * Q)))%type.
(** a step: in-place updates, rules added, then viterbi(fgg, xi) observed *)
Definition hstep := (list wupd * list rule_w * list nat * vobs)%type.
Definition vcase := (grammar_w * wstate * list nat * nat * vobs)%type.

(** the inputs the calls of a history have to be judged against *)
Fixpoint hist_cases (gw : grammar_w) (ws : wstate) (K : nat) (steps : list hstep) : list vcase :=
  match steps with
  | [] => []
  | (ups, rs, xi, ob) :: steps =>
    let ws' := fold_left ws_set ups ws in
    let gw' := gw_add gw rs in
    (gw', ws', xi, K, ob) :: hist_cases gw' ws' K steps
  end.

(** verdicts of [vit_check] that do not reject: 0 accepted; 30 / 31 the property does not
    apply in that state (no exact optimum / optimum not finite) *)
Definition code_pass (c : nat) : bool := Nat.eqb c 0 || Nat.eqb c 30 || Nat.eqb c 31.

(** first rejected call: 100 * (1-based position) + its verdict; 0 if none *)
Fixpoint first_bad (j : nat) (codes : list nat) : nat :=
  match codes with
  | [] => 0
  | c :: codes => if code_pass c then first_bad (S j) codes else 100 * (S j) + c
  end.

(** input: initial grammar, initial weights, K, steps.  Verdict: 0 = no call is rejected and at
    least one was judged (verdict 0 of [vit_check]); 31 = every call was outside the property;
    100*j + c = the j-th call (1-based) is rejected by [vit_check] with verdict c (1, 5, 6, 7, 8: a
    verified oracle rejects the implementation's output in the state of that call) *)
Definition vit_hist_check (x : grammar_w * wstate * nat * list hstep) : nat :=
  let '(gw, ws, K, steps) := x in
  let codes := map vit_check (hist_cases gw ws K steps) in
  match first_bad 0 codes with
  | 0 => if existsb (Nat.eqb 0) codes then 0 else 31
  | c => c
  end.
