(** Forces extraction of the number datatypes the driver's decoders build
    (nat, positive, N, Z, Q), whichever check functions are registered. *)
From Coq Require Import ZArith QArith NArith.
Definition wire_types (x : nat * positive * N * Z * Q) : nat :=
  let '(a, p, n, z, q) := x in
  match Qnum q, n, z with Z0, N0, Z0 => a | _, _, _ => Pos.to_nat p end.
