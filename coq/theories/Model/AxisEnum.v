(** Enumeration of index types and of all typed axes over them (the Coq twin of the typed
    pattern generator of the harness), and the executable statement of unifier completeness
    used by the bounded theorem C06_unify_complete_upto. *)
From Coq Require Import List Arith Lia PeanoNat Bool PArith.
Import ListNotations.
Require Import Fggs.Model.Axis Fggs.Model.AxisCheck.

Fixpoint ity_eqb (a b : ity) : bool :=
  match a, b with
  | TAtom n, TAtom m => Nat.eqb n m
  | TProd l, TProd l' | TSum l, TSum l' =>
      (fix go (l l' : list ity) : bool :=
         match l, l' with
         | [], [] => true
         | x :: l, y :: l' => ity_eqb x y && go l l'
         | _, _ => false
         end) l l'
  | _, _ => false
  end.

Definition pool := list (ity * pn).
Definition is_tsum (t : ity) : bool := match t with TSum _ => true | _ => false end.

(** every axis of type [t] over [pool]; a fresh variable is always the next uid *)
Fixpoint enum_axes (fuel : nat) (t : ity) (pl : pool) (next : positive) : list (axis * pool * positive) :=
  match fuel with O => [] | S fuel =>
    if Nat.eqb (tsize t) 1 && negb (is_tsum t) then [(unitAxis, pl, next)] else
    let shared := flat_map (fun tk => if ity_eqb (fst tk) t then [(Phys (fst (snd tk)) (snd (snd tk)), pl, next)] else []) pl in
    let fresh := [(Phys next (tsize t), pl ++ [(t, (next, tsize t))], Pos.succ next)] in
    let structural :=
      match t with
      | TAtom _ => []
      | TProd l =>
          map (fun r => match r with (acc, pl', nx) => (productAxis acc, pl', nx) end)
              (fold_left (fun partial s =>
                            flat_map (fun r => match r with (acc, pl', nx) =>
                                        map (fun r2 => match r2 with (a, pl2, nx2) => (acc ++ [a], pl2, nx2) end)
                                            (enum_axes fuel s pl' nx) end) partial)
                         l [([], pl, next)])
      | TSum l =>
          (fix go (pre : nat) (l : list ity) : list (axis * pool * positive) :=
             match l with
             | [] => []
             | s :: l' =>
                 let after := fold_right (fun t acc => tsize t + acc) 0 l' in
                 map (fun r => match r with (a, pl', nx) => (Sum pre a after, pl', nx) end) (enum_axes fuel s pl next)
                 ++ go (pre + tsize s) l'
             end) 0 l
      end in
    shared ++ fresh ++ structural
  end.

Definition axes_of (t : ity) (start : positive) : list axis :=
  map (fun r => fst (fst r)) (enum_axes (S (tdepth t)) t [] start).

(** index types  n | t x t | t + t  with atoms 2..4, up to three leaves and size [bound] *)
Definition atoms : list ity := [TAtom 2; TAtom 3; TAtom 4].
Definition combine_types (xs ys : list ity) (bound : nat) : list ity :=
  flat_map (fun x => flat_map (fun y =>
     (if tsize (TProd [x; y]) <=? bound then [TProd [x; y]] else []) ++
     (if tsize (TSum [x; y]) <=? bound then [TSum [x; y]] else [])) ys) xs.
Definition types2 (bound : nat) : list ity := combine_types atoms atoms bound.
Definition types3 (bound : nat) : list ity :=
  combine_types atoms (types2 bound) bound ++ combine_types (types2 bound) atoms bound.
Definition types_upto (bound : nat) : list ity := TProd [] :: atoms ++ types2 bound ++ types3 bound.

(** unifier completeness, executable: on success the unifier denotes exactly the coincidence set of
    the two patterns and nothing was warned about; on failure the patterns are disjoint *)
Definition unify_complete_b (es fs : list axis) (next : positive) : bool :=
  let vars := fvn_list (es ++ fs) in
  let spec := coincidences es fs vars in
  let fuel := unify_fuel es fs in
  match unify_list fuel es fs {| us_subst := []; us_next := next; us_warn := false |} with
  | Ok (true, st) =>
      negb (us_warn st) &&
      match denotation (fuel + length (us_subst st) + 2) (us_subst st) vars with
      | Some d => seteq nat_list_eqb d spec
      | None => false
      end
  | Ok (false, st) => negb (us_warn st) && negb (nonempty spec)
  | Fail _ => false
  end.

Definition typed_pairs (t : ity) : list (axis * axis) :=
  list_prod (axes_of t 1) (axes_of t 50).

Definition complete_for_type (t : ity) : bool :=
  forallb (fun ef => has_type (fst ef) t && has_type (snd ef) t && unify_complete_b [fst ef] [snd ef] 100) (typed_pairs t).

(** two-dimensional patterns (variables may be shared between the dimensions: diagonals) *)
Definition patterns2 (t1 t2 : ity) (start : positive) : list (list axis) :=
  let fuel := S (Nat.max (tdepth t1) (tdepth t2)) in
  flat_map (fun r1 => match r1 with (a1, pl, nx) =>
              map (fun r2 => [a1; fst (fst r2)]) (enum_axes fuel t2 pl nx) end)
           (enum_axes fuel t1 [] start).

Definition small_types : list ity := filter (fun t => tsize t <=? 6) (atoms ++ types2 6).

Definition complete_for_types2 (tt : ity * ity) : bool :=
  let '(t1, t2) := tt in
  forallb (fun ef => forallb (fun et => has_type (fst et) (snd et)) (combine (fst ef) [t1; t2])
                     && forallb (fun et => has_type (fst et) (snd et)) (combine (snd ef) [t1; t2])
                     && unify_complete_b (fst ef) (snd ef) 100)
          (list_prod (patterns2 t1 t2 1) (patterns2 t1 t2 50)).
