(** L2 -- the axis algebra of fggs/indices.py (classes PhysicalAxis, ProductAxis, SumAxis,
    [unitAxis], [productAxis]) modelled function by function.  Definitions only; the proofs are
    in Proofs/Axis_*.v.

    Conventions (DESIGN.md section 3):
    - a [PhysicalAxis] object is [Phys uid numel]; Python compares them by identity = [uid];
    - Python dicts ([Subst], [Rename], [AntiSubst], the [physical] dict of [index], the stride
      dict) are association lists in insertion order;
    - fresh [PhysicalAxis(...)] objects take their uid from a counter threaded through the model;
    - every recursion that is not structural in the code (it follows a substitution, or splits
      a factor) takes explicit fuel and returns [Fail OutOfFuel] on exhaustion;
    - Python exceptions are results [Fail IndexError] / [Fail ZeroDivisionError];
    - [warn(...)] calls are recorded in a boolean flag of the state. *)
From Coq Require Import List Arith Lia PeanoNat Bool PArith.
Import ListNotations.

Inductive axis : Type :=
| Phys (k : positive) (n : nat)
| Prod (l : list axis)
| Sum (b : nat) (t : axis) (a : nat).

Definition unitAxis : axis := Prod [].

(** induction principle for the nested type *)
Section AxisInd.
  Variable P : axis -> Prop.
  Hypothesis HPhys : forall k n, P (Phys k n).
  Hypothesis HProd : forall l, Forall P l -> P (Prod l).
  Hypothesis HSum : forall b t a, P t -> P (Sum b t a).
  Fixpoint axis_ind' (e : axis) : P e :=
    match e with
    | Phys k n => HPhys k n
    | Prod l => HProd l ((fix go (l : list axis) : Forall P l :=
                            match l with [] => Forall_nil _ | x :: l => Forall_cons _ (axis_ind' x) (go l) end) l)
    | Sum b t a => HSum b t a (axis_ind' t)
    end.
End AxisInd.

(** Python [==] on axes: identity on PhysicalAxis, structural on the frozen dataclasses *)
Fixpoint axis_eqb (e f : axis) : bool :=
  match e, f with
  | Phys k n, Phys k' n' => Pos.eqb k k' && Nat.eqb n n'
  | Prod l, Prod l' =>
      (fix go (l l' : list axis) : bool :=
         match l, l' with
         | [], [] => true
         | x :: l, y :: l' => axis_eqb x y && go l l'
         | _, _ => false
         end) l l'
  | Sum b t a, Sum b' t' a' => Nat.eqb b b' && axis_eqb t t' && Nat.eqb a a'
  | _, _ => false
  end.

Definition is_prod (e : axis) : bool := match e with Prod _ => true | _ => false end.
Definition is_phys (e : axis) : bool := match e with Phys _ _ => true | _ => false end.
Definition is_unit (e : axis) : bool := match e with Prod [] => true | _ => false end.

(** [Axis.numel] *)
Fixpoint numel (e : axis) : nat :=
  match e with
  | Phys _ n => n
  | Prod l => fold_right (fun e acc => numel e * acc) 1 l
  | Sum b t a => b + numel t + a
  end.

Definition prodn (l : list axis) : nat := fold_right (fun e acc => numel e * acc) 1 l.

(** [Axis.zero] (PhysicalAxis / ProductAxis / SumAxis overrides) *)
Fixpoint zero (e : axis) : bool :=
  match e with
  | Phys _ n => Nat.eqb n 0
  | Prod l => existsb zero l
  | Sum b t a => Nat.eqb b 0 && Nat.eqb a 0 && zero t
  end.

(** the smart constructor [productAxis]: one level of flattening, unwrap singletons *)
Definition factors_of (f : axis) : list axis := match f with Prod l => l | _ => [f] end.
Definition productAxis (fs : list axis) : axis :=
  match flat_map factors_of fs with
  | [x] => x
  | es => Prod es
  end.

(** * Semantics: an axis maps physical indices (an environment) to a virtual index *)
Definition env := positive -> nat.

Fixpoint eval (rho : env) (e : axis) : nat :=
  match e with
  | Phys k _ => rho k
  | Prod l => fold_left (fun acc e => acc * numel e + eval rho e) l 0
  | Sum b t _ => b + eval rho t
  end.

(** every occurrence of a physical axis is indexed inside its range *)
Fixpoint inrange (rho : env) (e : axis) : Prop :=
  match e with
  | Phys k n => rho k < n
  | Prod l => (fix go l := match l with [] => True | x :: l => inrange rho x /\ go l end) l
  | Sum _ t _ => inrange rho t
  end.

Fixpoint inrangeb (rho : env) (e : axis) : bool :=
  match e with
  | Phys k n => rho k <? n
  | Prod l => forallb (inrangeb rho) l
  | Sum _ t _ => inrangeb rho t
  end.

(** * Results *)
Inductive err := OutOfFuel | IndexError | ZeroDivisionError | OtherError.
Inductive res (A : Type) : Type := Ok (a : A) | Fail (e : err).
Arguments Ok {A} a.
Arguments Fail {A} e.
Definition bind {A B} (r : res A) (f : A -> res B) : res B :=
  match r with Ok a => f a | Fail e => Fail e end.
Notation "x <- r ;; k" := (bind r (fun x => k)) (at level 61, r at next level, right associativity).

(** * Association lists (Python dicts, insertion order) *)
Fixpoint assoc {A : Type} (k : positive) (s : list (positive * A)) : option A :=
  match s with
  | [] => None
  | (k', a) :: s => if Pos.eqb k' k then Some a else assoc k s
  end.

Definition subst := list (positive * axis).

(** [PhysicalAxis.lookup] (end of the forwarding chain).  The code also performs path
    compression on the dict; that mutation does not change what any later [lookup] returns and
    is not modelled.  [fuel] bounds the length of the chain. *)
Fixpoint lookup (fuel : nat) (sigma : subst) (e : axis) : res axis :=
  match e with
  | Phys k _ =>
      match assoc k sigma with
      | None => Ok e
      | Some e' => match fuel with O => Fail OutOfFuel | S fuel => lookup fuel sigma e' end
      end
  | _ => Ok e
  end.

Definition lookup_fuel (sigma : subst) : nat := S (length sigma).

(** Python [e is f] after lookup.  For PhysicalAxis this is equality of uids; for the compound
    (frozen dataclass) axes object identity is not part of the model: taking the shortcut or not
    gives the same result (lemma [unify_refl] in Proofs/Axis_unify.v). *)
Definition same_object (e f : axis) : bool :=
  match e, f with Phys k _, Phys k' _ => Pos.eqb k k' | _, _ => false end.

(** * [fv], [stride], [prime_factors], [clone] -- all follow a substitution *)

(** [Axis.fv(subst)]: every occurrence, left to right *)
Fixpoint fv_occ (fuel : nat) (sigma : subst) (e : axis) : res (list (positive * nat)) :=
  match fuel with O => Fail OutOfFuel | S fuel =>
    match e with
    | Phys k n =>
        look <- lookup (lookup_fuel sigma) sigma e ;;
        if same_object look e then Ok [(k, n)] else fv_occ fuel sigma look
    | Prod l =>
        fold_left (fun acc x => a <- acc ;; r <- fv_occ fuel sigma x ;; Ok (a ++ r)) l (Ok [])
    | Sum _ t _ => fv_occ fuel sigma t
    end
  end.

Fixpoint dedup (seen : list positive) (l : list (positive * nat)) : list (positive * nat) :=
  match l with
  | [] => []
  | (k, n) :: l => if existsb (Pos.eqb k) seen then dedup seen l else (k, n) :: dedup (k :: seen) l
  end.

(** free physical axes in order of first occurrence ([dict.fromkeys(e.fv(subst))]) *)
Definition fv_list (fuel : nat) (sigma : subst) (es : list axis) : res (list (positive * nat)) :=
  r <- fold_left (fun acc x => a <- acc ;; r <- fv_occ fuel sigma x ;; Ok (a ++ r)) es (Ok []) ;;
  Ok (dedup [] r).

(** substitution-free, structural version used by the semantic theorems *)
Fixpoint fv (e : axis) : list positive :=
  match e with Phys k _ => [k] | Prod l => flat_map fv l | Sum _ t _ => fv t end.
Fixpoint fvn (e : axis) : list (positive * nat) :=
  match e with Phys k n => [(k, n)] | Prod l => flat_map fvn l | Sum _ t _ => fvn t end.

(** the stride dict: keys in insertion order *)
Definition lin := list (positive * nat).
Definition lin_eval (rho : env) (s : lin) : nat :=
  fold_right (fun kc acc => snd kc * rho (fst kc) + acc) 0 s.
Fixpoint lin_add1 (s : lin) (k : positive) (c : nat) : lin :=
  match s with
  | [] => [(k, c)]
  | (k', c') :: s => if Pos.eqb k' k then (k', c' + c) :: s else (k', c') :: lin_add1 s k c
  end.
Definition lin_merge (s1 s2 : lin) : lin := fold_left (fun s kc => lin_add1 s (fst kc) (snd kc)) s2 s1.
Definition lin_scale (n : nat) (s : lin) : lin := map (fun kc => (fst kc, snd kc * n)) s.

(** [Axis.stride(subst)].  ProductAxis.stride skips the scaling when [offset] and [stride] are
    still empty; scaling [(0, {})] is the identity, so the model always scales. *)
Fixpoint stride (fuel : nat) (sigma : subst) (e : axis) : res (nat * lin) :=
  match fuel with O => Fail OutOfFuel | S fuel =>
    match e with
    | Phys k _ =>
        look <- lookup (lookup_fuel sigma) sigma e ;;
        if same_object look e then Ok (0, [(k, 1)]) else stride fuel sigma look
    | Prod l =>
        fold_left (fun acc x =>
                     os <- acc ;; r <- stride fuel sigma x ;;
                     let n := numel x in
                     Ok (fst os * n + fst r, lin_merge (lin_scale n (snd os)) (snd r)))
                  l (Ok (0, []))
    | Sum b t _ => r <- stride fuel sigma t ;; Ok (fst r + b, snd r)
    end
  end.

(** [Axis.prime_factors(subst)] *)
Fixpoint prime_factors (fuel : nat) (sigma : subst) (e : axis) : res (list axis) :=
  match fuel with O => Fail OutOfFuel | S fuel =>
    match e with
    | Phys _ _ =>
        look <- lookup (lookup_fuel sigma) sigma e ;;
        if same_object look e then Ok [e] else prime_factors fuel sigma look
    | Prod l =>
        fold_left (fun acc x => a <- acc ;; r <- prime_factors fuel sigma x ;; Ok (a ++ r)) l (Ok [])
    | Sum _ _ _ => Ok [e]
    end
  end.

(** [Axis.clone(subst)]: [subst.get(self, self)], one level at a time *)
Fixpoint mapM {A B} (f : A -> res B) (l : list A) : res (list B) :=
  match l with
  | [] => Ok []
  | x :: l => y <- f x ;; ys <- mapM f l ;; Ok (y :: ys)
  end.

Fixpoint clone (fuel : nat) (sigma : subst) (e : axis) : res axis :=
  match fuel with O => Fail OutOfFuel | S fuel =>
    match e with
    | Phys k _ => match assoc k sigma with None => Ok e | Some e' => clone fuel sigma e' end
    | Prod l => l' <- mapM (clone fuel sigma) l ;; Ok (productAxis l')
    | Sum b t a => t' <- clone fuel sigma t ;; Ok (Sum b t' a)
    end
  end.

(** * [freshen] / [alpha] *)
Definition rename := list (positive * (positive * nat)).
Record fstate := { fs_rename : rename; fs_next : positive }.

Fixpoint freshen (e : axis) (st : fstate) : axis * fstate :=
  match e with
  | Phys k n =>
      match assoc k (fs_rename st) with
      | Some (k', n') => (Phys k' n', st)
      | None => (Phys (fs_next st) n,
                 {| fs_rename := fs_rename st ++ [(k, (fs_next st, n))]; fs_next := Pos.succ (fs_next st) |})
      end
  | Prod l =>
      let '(l', st') :=
        (fix go (l : list axis) (st : fstate) : list axis * fstate :=
           match l with
           | [] => ([], st)
           | x :: l => let '(x', st1) := freshen x st in let '(l', st2) := go l st1 in (x' :: l', st2)
           end) l st in
      (Prod l', st')        (* ProductAxis(tuple(...)), not the smart constructor *)
  | Sum b t a => let '(t', st') := freshen t st in (Sum b t' a, st')
  end.

Fixpoint freshen_list (l : list axis) (st : fstate) : list axis * fstate :=
  match l with
  | [] => ([], st)
  | x :: l => let '(x', st1) := freshen x st in let '(l', st2) := freshen_list l st1 in (x' :: l', st2)
  end.

Fixpoint alpha (e f : axis) (r : rename) : bool :=
  match e with
  | Phys k _ =>
      match assoc k r, f with
      | Some (k', _), Phys k'' _ => Pos.eqb k' k''
      | _, _ => false
      end
  | Prod l =>
      match f with
      | Prod l' =>
          (fix go (l l' : list axis) : bool :=
             match l, l' with
             | [], [] => true
             | x :: l, y :: l' => alpha x y r && go l l'
             | _, _ => false
             end) l l'
      | _ => false
      end
  | Sum b t a =>
      match f with
      | Sum b' t' a' => Nat.eqb b b' && Nat.eqb a a' && alpha t t' r
      | _ => false
      end
  end.

(** * [index]: decode a virtual index, binding or comparing each physical axis *)
Inductive ires := IOk (pi : list (positive * nat)) | IEmpty | IErr.
(** result of decoding the factors of a product from the least significant one:
    bindings so far and the remaining quotient *)
Inductive pres := POk (pi : list (positive * nat)) (q : nat) | PEmpty | PErr.

Fixpoint index (e : axis) (pi : list (positive * nat)) (v : nat) : ires :=
  match e with
  | Phys k n =>
      if n <=? v then IErr                                   (* __debug__: IndexError *)
      else match assoc k pi with
           | Some i => if Nat.eqb i v then IOk pi else IEmpty
           | None => IOk (pi ++ [(k, v)])
           end
  | Prod l =>
      (* [for e in reversed(self.factors)]: the tail of the list is decoded first *)
      match (fix go (l : list axis) : pres :=
               match l with
               | [] => POk pi v
               | x :: l =>
                   match go l with
                   | POk pi' q =>
                       let n := numel x in
                       if Nat.eqb n 0 then PErr              (* divmod(_, 0) *)
                       else match index x pi' (q mod n) with
                            | IOk pi'' => POk pi'' (q / n)
                            | IEmpty => PEmpty
                            | IErr => PErr
                            end
                   | other => other
                   end
               end) l with
      | POk pi' q => if Nat.eqb q 0 then IOk pi' else IErr    (* __debug__: IndexError *)
      | PEmpty => IEmpty
      | PErr => IErr
      end
  | Sum b t a =>
      let n := numel t in
      if b + n + a <=? v then IErr                            (* __debug__: IndexError *)
      else if v <? b then IEmpty
      else if v - b <? n then index t pi (v - b) else IEmpty
  end.

(** * [unify] *)
Record ustate := { us_subst : subst; us_next : positive; us_warn : bool }.
Definition u_warn (st : ustate) : ustate :=
  {| us_subst := us_subst st; us_next := us_next st; us_warn := true |}.
Definition u_bind (k : positive) (e : axis) (st : ustate) : ustate :=
  {| us_subst := us_subst st ++ [(k, e)]; us_next := us_next st; us_warn := us_warn st |}.
Definition u_fresh (n : nat) (st : ustate) : axis * ustate :=
  (Phys (us_next st) n,
   {| us_subst := us_subst st; us_next := Pos.succ (us_next st); us_warn := us_warn st |}).

(** [Axis.unify(e, f, subst)], and its product loop ([esr], [fsr] are the remaining factor lists
    *reversed*: [es.pop()] takes the head, [es.append(k)] conses).  The boolean is the Python
    return value; the state is returned in both cases because the dict is mutated in place. *)
Fixpoint unify (fuel : nat) (e f : axis) (st : ustate) : res (bool * ustate) :=
  match fuel with O => Fail OutOfFuel | S fuel =>
    e <- lookup (lookup_fuel (us_subst st)) (us_subst st) e ;;
    f <- lookup (lookup_fuel (us_subst st)) (us_subst st) f ;;
    if same_object e f then Ok (true, st) else
    let st := if Nat.eqb (numel e) (numel f) then st else u_warn st in
    match e, f with
    | Prod es, Prod fs =>
        if zero e then Ok (true, st) else unify_loop fuel (rev es) (rev fs) st
    | Sum b t a, Sum b' t' a' =>
        if Nat.eqb b b' && Nat.eqb a a' then unify fuel t t' st
        else if (b' <? b + numel t) && (b <? b' + numel t') then Ok (false, u_warn st)
        else Ok (false, st)
    | Phys k _, _ => Ok (true, u_bind k f st)
    | _, Phys k _ => Ok (true, u_bind k e st)
    | Prod _, Sum b t a =>
        if is_unit e then (if Nat.eqb b 0 && Nat.eqb a 0 then unify fuel e t st else Ok (false, st))
        else Ok (false, u_warn st)
    | Sum b t a, Prod _ =>
        if is_unit f then (if Nat.eqb b 0 && Nat.eqb a 0 then unify fuel f t st else Ok (false, st))
        else Ok (false, u_warn st)
    end
  end
with unify_loop (fuel : nat) (esr fsr : list axis) (st : ustate) : res (bool * ustate) :=
  match fuel with O => Fail OutOfFuel | S fuel =>
    match esr, fsr with
    | e9 :: esr', f9 :: fsr' =>
        let m := numel e9 in
        let n := numel f9 in
        if Nat.eqb m n then
          r <- unify fuel e9 f9 st ;;
          if fst r then unify_loop fuel esr' fsr' (snd r) else Ok (false, snd r)
        else if m <? n then
          if Nat.eqb m 0 then Fail ZeroDivisionError
          else if negb (Nat.eqb (n mod m) 0) then Ok (false, u_warn st)
          else
            let '(k, st1) := u_fresh (n / m) st in
            r <- unify fuel f9 (productAxis [k; e9]) st1 ;;
            if fst r then unify_loop fuel esr' (k :: fsr') (snd r) else Ok (false, snd r)
        else
          if Nat.eqb n 0 then Fail ZeroDivisionError
          else if negb (Nat.eqb (m mod n) 0) then Ok (false, u_warn st)
          else
            let '(k, st1) := u_fresh (m / n) st in
            r <- unify fuel e9 (productAxis [k; f9]) st1 ;;
            if fst r then unify_loop fuel (k :: esr') fsr' (snd r) else Ok (false, snd r)
    | _, _ =>
        (* [all(e.unify(unitAxis, subst) for e in chain(es, fs))], list order *)
        (fix go (l : list axis) (st : ustate) : res (bool * ustate) :=
           match l with
           | [] => Ok (true, st)
           | x :: l => r <- unify fuel x unitAxis st ;;
                       if fst r then go l (snd r) else Ok (false, snd r)
           end) (rev esr ++ rev fsr) st
    end
  end.

(** [all(e.unify(f, subst) for e, f in zip(es, fs))] -- how the library unifies two patterns *)
Fixpoint unify_list (fuel : nat) (es fs : list axis) (st : ustate) : res (bool * ustate) :=
  match es, fs with
  | e :: es, f :: fs =>
      r <- unify fuel e f st ;;
      if fst r then unify_list fuel es fs (snd r) else Ok (false, snd r)
  | _, _ => Ok (true, st)
  end.

(** * [antiunify] *)
Definition aentry := (positive * nat * axis * axis)%type.   (* new variable, its numel, e, f *)
Record astate := { as_list : list aentry; as_next : positive; as_warn : bool }.
Definition a_warn (st : astate) : astate :=
  {| as_list := as_list st; as_next := as_next st; as_warn := true |}.

Fixpoint afind (e f : axis) (l : list aentry) : option (positive * nat) :=
  match l with
  | [] => None
  | (k, n, e', f') :: l => if axis_eqb e e' && axis_eqb f f' then Some (k, n) else afind e f l
  end.

(** [extend_antisubst] *)
Definition extend_antisubst (e f : axis) (st : astate) : axis * astate :=
  match afind e f (as_list st) with
  | Some (k, n) => (Phys k n, st)
  | None =>
      let k := as_next st in
      (Phys k (numel e),
       {| as_list := as_list st ++ [(k, numel e, e, f)]; as_next := Pos.succ k; as_warn := as_warn st |})
  end.

Definition nonempty {A} (l : list A) : bool := match l with [] => false | _ => true end.

(** [Axis.antiunify(e, f, antisubst)] and the sweep over the two factor lists:
    [egrp = e.factors[el:er]], [erest = e.factors[er:]], likewise for [f]; [en], [fn] are *not*
    reset after a cut (the code keeps them; only their ratio matters). *)
Fixpoint antiunify (fuel : nat) (e f : axis) (st : astate) : res (axis * astate) :=
  match fuel with O => Fail OutOfFuel | S fuel =>
    let st := if Nat.eqb (numel e) (numel f) then st else a_warn st in
    match e, f with
    | Prod es, Prod fs =>
        if negb (zero e) && negb (zero f)
        then r <- sweep fuel [] es [] fs 1 1 [] st ;; Ok (productAxis (fst r), snd r)
        else Ok (extend_antisubst e f st)
    | Sum b t a, Sum b' t' a' =>
        if Nat.eqb b b' && Nat.eqb a a'
        then r <- antiunify fuel t t' st ;; Ok (Sum b (fst r) a, snd r)
        else Ok (extend_antisubst e f st)
    | _, _ => Ok (extend_antisubst e f st)
    end
  end
with sweep (fuel : nat) (egrp erest fgrp frest : list axis) (en fn : nat) (ret : list axis)
           (st : astate) : res (list axis * astate) :=
  match fuel with O => Fail OutOfFuel | S fuel =>
    if negb (nonempty egrp || nonempty erest || nonempty fgrp || nonempty frest) then Ok (ret, st)
    else if Nat.eqb en fn && (nonempty egrp || nonempty fgrp) then
      let e1 := productAxis egrp in
      let f1 := productAxis fgrp in
      r <- (if is_prod e1 && is_prod f1 then Ok (extend_antisubst e1 f1 st)
            else antiunify fuel e1 f1 st) ;;
      sweep fuel [] erest [] frest en fn (ret ++ [fst r]) (snd r)
    else if en <? fn then
      match erest with
      | x :: erest' => sweep fuel (egrp ++ [x]) erest' fgrp frest (en * numel x) fn ret st
      | [] => Fail IndexError
      end
    else
      match frest with
      | y :: frest' => sweep fuel egrp erest (fgrp ++ [y]) frest' en (fn * numel y) ret st
      | [] => Fail IndexError
      end
  end.

Fixpoint antiunify_list (fuel : nat) (es fs : list axis) (st : astate) : res (list axis * astate) :=
  match es, fs with
  | e :: es, f :: fs =>
      r <- antiunify fuel e f st ;;
      r' <- antiunify_list fuel es fs (snd r) ;;
      Ok (fst r :: fst r', snd r')
  | _, _ => Ok ([], st)
  end.

(** * Sizes used for fuel *)
Fixpoint asize (e : axis) : nat :=
  match e with
  | Phys _ _ => 1
  | Prod l => S (fold_right (fun e acc => asize e + acc) 0 l)
  | Sum _ t _ => S (asize t)
  end.
Definition asize_list (l : list axis) : nat := fold_right (fun e acc => asize e + acc) 0 l.

(** * Environments from association lists, enumeration of all in-range environments *)
Definition env_of (pi : list (positive * nat)) : env :=
  fun k => match assoc k pi with Some v => v | None => 0 end.

Fixpoint all_envs (vars : list (positive * nat)) : list (list (positive * nat)) :=
  match vars with
  | [] => [[]]
  | (k, n) :: vars =>
      flat_map (fun i => map (fun pi => (k, i) :: pi) (all_envs vars)) (seq 0 n)
  end.


(** * Patterns (lists of axes: the [vaxes] of a tensor) *)
Notation pn := (positive * nat)%type (only parsing).

Definition evals (rho : env) (es : list axis) : list nat := map (eval rho) es.

Definition fvn_list (es : list axis) : list pn := dedup [] (flat_map fvn es).

(** the loop of [__getitem__]: [for e, vi in zip(self.vaxes, vis): if not e.index(pi, vi): ...] *)
Fixpoint index_list (es : list axis) (pi : list pn) (vs : list nat) : ires :=
  match es, vs with
  | e :: es, v :: vs =>
      match index e pi v with
      | IOk pi' => index_list es pi' vs
      | other => other
      end
  | _, _ => IOk pi
  end.

(** * Index types and the typing judgement of DESIGN.md Appendix C *)
Inductive ity : Type :=
| TAtom (n : nat)
| TProd (l : list ity)
| TSum (l : list ity).

Fixpoint tsize (t : ity) : nat :=
  match t with
  | TAtom n => n
  | TProd l => fold_right (fun t acc => tsize t * acc) 1 l
  | TSum l => fold_right (fun t acc => tsize t + acc) 0 l
  end.

(** prime factors of a type: nested products flattened, size-1 atoms erased
    ([__post_init__] rewrites PhysicalAxis(1) to unitAxis, which [productAxis] then drops) *)
Fixpoint tprimes (t : ity) : list ity :=
  match t with
  | TAtom n => if Nat.eqb n 1 then [] else [t]
  | TProd l => flat_map tprimes l
  | TSum _ => [t]
  end.

Definition tsizes (l : list ity) : nat := fold_right (fun t acc => tsize t * acc) 1 l.

(** [has_type_l fuel e ps]: axis [e] has the (flattened) product type [ps].
    - a physical axis has any type of its size;
    - [Sum b t a] has a prime sum type [TSum ts] when [t] has type [ts_j], [b] is the total size of
      the summands before [j] and [a] of those after;
    - [Prod es] has type [ps] when [ps] splits into consecutive groups, one per factor, a
      non-physical factor taking exactly one prime;
    - [unitAxis = Prod []] has the empty product type.
    Fuel bounds the nesting depth of the type. *)
Fixpoint has_type_l (fuel : nat) (e : axis) (ps : list ity) : bool :=
  match fuel with O => false | S fuel =>
    match e with
    | Phys _ n => Nat.eqb n (tsizes ps)
    | Sum b t a =>
        match ps with
        | [TSum ts] =>
            (fix go (pre : nat) (ts : list ity) : bool :=
               match ts with
               | [] => false
               | tj :: ts' =>
                   (Nat.eqb b pre && Nat.eqb a (fold_right (fun t acc => tsize t + acc) 0 ts')
                    && has_type_l fuel t (tprimes tj))
                   || go (pre + tsize tj) ts'
               end) 0 ts
        | _ => false
        end
    | Prod es =>
        (fix go (es : list axis) (ps : list ity) : bool :=
           match es with
           | [] => match ps with [] => true | _ => false end
           | x :: es' =>
               match x with
               | Phys _ n =>
                   (* any prefix of [ps] whose sizes multiply to [n] *)
                   (fix pre (taken : nat) (ps : list ity) (len : nat) : bool :=
                      (Nat.eqb taken n && go es' ps)
                      || match len, ps with
                         | S len, p :: ps' => pre (taken * tsize p) ps' len
                         | _, _ => false
                         end) 1 ps (length ps)
               | _ =>
                   match ps with
                   | p :: ps' => has_type_l fuel x [p] && go es' ps'
                   | [] => false
                   end
               end
           end) es ps
    end
  end.

Fixpoint tdepth (t : ity) : nat :=
  match t with
  | TAtom _ => 1
  | TProd l => S (fold_right (fun t acc => Nat.max (tdepth t) acc) 0 l)
  | TSum l => S (fold_right (fun t acc => Nat.max (tdepth t) acc) 0 l)
  end.

Definition has_type (e : axis) (t : ity) : bool := has_type_l (S (S (tdepth t + asize e))) e (tprimes t).
