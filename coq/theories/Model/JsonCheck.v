(** C14: the check functions (model side of the correspondence).  Each takes ONE tuple holding the
    generated input and the implementation's observed output and returns a verdict code:
    0 ok; 1..9 a verified oracle rejects the implementation's output; >= 10 model and
    implementation differ although no oracle rejects. *)
From Coq Require Import List Arith Bool PeanoNat ZArith QArith.
Import ListNotations.
Require Import Fggs.Model.Json.
Local Open Scope nat_scope.

(** * wire forms (tuples) -> records *)
Definition node_w := (str * nid)%type.
Definition elabel_w := (str * list str * bool)%type.
Definition edge_w := (elabel_w * list node_w * nid)%type.
Definition graph_w := (list node_w * list edge_w * list node_w)%type.
Definition rule_w := (elabel_w * graph_w)%type.
Definition hrg_w := (list elabel_w * elabel_w * list (elabel_w * list rule_w))%type.

Definition node_of (p : node_w) : node := mkNode (fst p) (snd p).
Definition elabel_of (p : elabel_w) : elabel := let '(n, t, b) := p in mkEL n t b.
Definition edge_of (p : edge_w) : edge := let '(l, a, i) := p in mkEdge (elabel_of l) (map node_of a) i.
Definition graph_of (p : graph_w) : graph :=
  let '(ns, es, ex) := p in mkGraph (map node_of ns) (map edge_of es) (map node_of ex).
Definition rule_of (p : rule_w) : rule := mkRule (elabel_of (fst p)) (graph_of (snd p)).
Definition hrg_of (p : hrg_w) : hrg :=
  let '(ls, s, rs) := p in
  mkHRG (map elabel_of ls) (elabel_of s) (map (fun kl => (elabel_of (fst kl), map rule_of (snd kl))) rs).

Inductive factor_w :=
| WConstant (w : json)
| WFinite (phys : tens) (pshape : list nat) (vaxes : list axis) (default : num).

Definition factor_of (f : factor_w) : factor :=
  match f with
  | WConstant w => FConstant w
  | WFinite t ps va d => FFinite (mkPT t 0 ps va d)
  end.

Definition fgg_w := (hrg_w * list (str * domain) * list (str * factor_w))%type.
Definition fgg_of (p : fgg_w) : fgg :=
  let '(h, ds, fs) := p in mkFGG (hrg_of h) ds (map (fun kf => (fst kf, factor_of (snd kf))) fs).

(** the oracle argument [dec] as a table *)
Definition dec_of (tbl : list str) (n : nat) : str := nth n tbl [].

(** * structural equality *)
Fixpoint list_eqb {A : Type} (eqb : A -> A -> bool) (a b : list A) : bool :=
  match a, b with
  | [], [] => true
  | x :: a', y :: b' => eqb x y && list_eqb eqb a' b'
  | _, _ => false
  end.

Definition graph_eqb (a b : graph) : bool :=
  list_eqb node_eqb (g_nodes a) (g_nodes b) && list_eqb edge_eqb (g_edges a) (g_edges b) &&
  list_eqb node_eqb (g_ext a) (g_ext b).
Definition rule_eqb (a b : rule) : bool := elabel_eqb (r_lhs a) (r_lhs b) && graph_eqb (r_rhs a) (r_rhs b).
Definition hrg_eqb (a b : hrg) : bool :=
  list_eqb elabel_eqb (h_labels a) (h_labels b) && elabel_eqb (h_start a) (h_start b) &&
  list_eqb (fun x y => elabel_eqb (fst x) (fst y) && list_eqb rule_eqb (snd x) (snd y)) (h_rules a) (h_rules b).

(** * canonical renumbering of implicit ids (first appearance: rules in [all_rules] order, nodes
    then edges), so that two grammars that differ only in the numbering compare equal *)
Definition renmap := list (nat * nat).
Fixpoint rm_get (m : renmap) (k : nat) : option nat :=
  match m with [] => None | (a, b) :: m' => if Nat.eqb a k then Some b else rm_get m' k end.
Definition rm_visit (m : renmap) (i : nid) : renmap :=
  match i with
  | Explicit _ => m
  | Implicit n => match rm_get m n with Some _ => m | None => m ++ [(n, length m)] end
  end.
Definition rm_apply (m : renmap) (i : nid) : nid :=
  match i with
  | Explicit s => Explicit s
  | Implicit n => match rm_get m n with Some k => Implicit k | None => Implicit n end
  end.
Definition rm_graph (m : renmap) (g : graph) : renmap :=
  let m1 := fold_left (fun m v => rm_visit m (n_id v)) (g_nodes g) m in
  let m2 := fold_left (fun m e => fold_left (fun m v => rm_visit m (n_id v)) (e_att e) (rm_visit m (e_id e)))
                      (g_edges g) m1 in
  fold_left (fun m v => rm_visit m (n_id v)) (g_ext g) m2.
Definition ren_node (m : renmap) (v : node) : node := mkNode (n_label v) (rm_apply m (n_id v)).
Definition ren_graph (m : renmap) (g : graph) : graph :=
  mkGraph (map (ren_node m) (g_nodes g))
          (map (fun e => mkEdge (e_label e) (map (ren_node m) (e_att e)) (rm_apply m (e_id e))) (g_edges g))
          (map (ren_node m) (g_ext g)).
Definition canon_hrg (g : hrg) : hrg :=
  let m := fold_left (fun m r => rm_graph m (r_rhs r)) (all_rules g) [] in
  mkHRG (h_labels g) (h_start g)
        (map (fun kl => (fst kl, map (fun r => mkRule (r_lhs r) (ren_graph m (r_rhs r))) (snd kl))) (h_rules g)).

(** * the observation of one round trip *)
Inductive rt_obs :=
| ObsToErr (e : err)                       (* fgg_to_json raised *)
| ObsFromErr (j : json) (e : err)          (* json.loads(json.dumps(fgg_to_json g)) = j; json_to_fgg raised *)
| ObsOk (j : json) (g' : fgg_w) (perms : list (list nat * list nat)) (j2 : option json).
    (* g' = json_to_fgg j; perms: the bijections by position; j2 = fgg_to_json g' when wanted *)

Definition labels_same_b (g g' : hrg) : bool :=
  nodup_strs (map el_name (h_labels g)) && nodup_strs (map el_name (h_labels g')) &&
  forallb (fun l => label_mem l (h_labels g')) (h_labels g) &&
  forallb (fun l => label_mem l (h_labels g)) (h_labels g').

Definition domain_eqb (a b : domain) : bool :=
  match a, b with
  | DFinite x, DFinite y => list_eqb json_eqb x y
  | DRange m, DRange n => Nat.eqb m n
  | _, _ => false
  end.

(** factors denote the same dense tensor *)
Definition factor_same_b (a b : factor) : bool :=
  match a, b with
  | FConstant x, FConstant y => json_eqb x y
  | FFinite x, FFinite y =>
      match pt_to_dense x, pt_to_dense y with
      | Ok s, Ok t => tens_eqb s t
      | _, _ => false
      end
  | _, _ => false
  end.

Definition interp_same_b (g g' : fgg) : bool :=
  list_eqb (fun x y => str_eqb (fst x) (fst y) && domain_eqb (snd x) (snd y)) (f_domains g) (f_domains g') &&
  list_eqb (fun x y => str_eqb (fst x) (fst y) && factor_same_b (snd x) (snd y)) (f_factors g) (f_factors g').

Definition fgg_eq_model_b (a b : fgg) : bool :=
  hrg_eqb (canon_hrg (f_hrg a)) (canon_hrg (f_hrg b)) && interp_same_b a b.

(** verdicts of [c14_fgg_check]
     0  ok
     1  the round-tripped grammar is not isomorphic to the original (oracle [hrg_iso_b] rejects; the
        rules dictionary of the result is first put in the key order of the original: [align_rules])
     2  the generated grammar is not well formed (harness bug)
     3  all ids explicit, but the second round trip does not reproduce the JSON
     4  the round trip raised an exception on a well-formed grammar; the model raises the same
     5  the edge-label tables differ (the rest was not examined)
     6  domains or factors differ (as dense tensors)
     7  the round trip raised an exception on a well-formed grammar; the model does not raise it
        (or raises another one, or writes another document)
    10  fgg_to_json differs from the model's JSON
    11  json_to_fgg differs from the model's grammar (up to numbering of implicit ids)
    12  the second JSON differs from the model's
    13  exception kind differs from the model's (or only one side raised) *)
Definition c14_fgg_check (x : list str * fgg_w * bool * rt_obs) : nat :=
  let '(tbl, gw, is_fgg, obs) := x in
  let dec := dec_of tbl in
  let g := fgg_of gw in
  if negb (wf_hrg (f_hrg g)) then 2 else
  let to_model := if is_fgg then fgg_to_json_model dec g else hrg_to_json_model dec (f_hrg g) in
  let from_model (j : json) : res fgg :=
      if is_fgg then json_to_fgg_model 0 j
      else do h <- json_to_hrg_model 0 j; Ok (mkFGG h [] []) in
  match obs with
  | ObsToErr e => match to_model with Err e' => if err_eqb e e' then 4 else 7 | Ok _ => 7 end
  | ObsFromErr j e =>
      match to_model with
      | Err _ => 7
      | Ok jm => if negb (json_eqb jm j) then 7
                 else match from_model j with Err e' => if err_eqb e e' then 4 else 7 | Ok _ => 7 end
      end
  | ObsOk j gw' perms j2 =>
      let g' := fgg_of gw' in
      if negb (labels_same_b (f_hrg g) (f_hrg g')) then 5
      else if negb (same_keys_b (f_hrg g) (f_hrg g') && hrg_iso_b (f_hrg g) (align_rules (f_hrg g) (f_hrg g')) perms) then 1
      else if negb (interp_same_b g g') then 6
      else if (match j2 with Some j2' => all_explicit (f_hrg g) && negb (json_eqb j j2') | None => false end) then 3
      else
      match to_model with
      | Err _ => 13
      | Ok jm =>
          if negb (json_eqb jm j) then 10
          else match from_model j with
               | Err _ => 13
               | Ok gm =>
                   if negb (fgg_eq_model_b gm g') then 11
                   else match j2 with
                        | None => 0
                        | Some j2' =>
                            match (if is_fgg then fgg_to_json_model (fun _ => []) gm
                                   else hrg_to_json_model (fun _ => []) (f_hrg gm)) with
                            | Ok jm2 => if all_explicit (f_hrg g) && negb (json_eqb jm2 j2') then 12 else 0
                            | Err _ => 13
                            end
                        end
               end
      end
  end.

(** * malformed input: compare exception kinds.  [obs = None]: the implementation accepted.
     0 ok; 1 the document contains a node number outside 0..n-1 (oracle [has_oor]) but the
     implementation did not raise ValueError; 13 exception kind differs from the model's *)
Definition c14_malformed_check (x : json * bool * option err) : nat :=
  let '(j, is_fgg, obs) := x in
  let r : res unit := if is_fgg then do _ <- json_to_fgg_model 0 j; Ok tt
                      else do _ <- json_to_hrg_model 0 j; Ok tt in
  let jg := if is_fgg then match jget j k_grammar with Ok x => x | Err _ => JNull end else j in
  if has_oor jg && negb (match obs with Some ValueErr => true | _ => false end) then 1 else
  match r, obs with
  | Ok _, None => 0
  | Err e, Some e' => if err_eqb e e' then 0 else 13
  | _, _ => 13
  end.

(** * json_to_weights *)
Inductive w_obs := WDense (t : tens) | WErr (e : err).

(** verdicts of [c14_weights_check]
     0 ok
     1 the dense tensor is not the one the specification denotes ([spec_dense] disagrees)
     2 harness bug: the JSON fed to the implementation is not [wspec_to_json] of the specification,
       or the specification is not well formed
     4 a well-formed specification was rejected (the model rejects it in the same way)
     7 a well-formed specification was rejected (the model accepts it, as C14_patterned_weights says it must)
    10 differs from the model's dense tensor
    13 exception kinds differ *)
Definition c14_weights_check (x : option wspec * json * w_obs) : nat :=
  let '(os, j, obs) := x in
  let m := do pt <- json_to_weights_model j; pt_to_dense pt in
  match os with
  | Some s =>
      if negb (wf_wspec s && json_eqb (wspec_to_json s) j) then 2
      else match obs with
           | WErr e => match m with Err e' => if err_eqb e e' then 4 else 7 | Ok _ => 7 end
           | WDense t =>
               match spec_dense s with
               | None => 2
               | Some d => if negb (tens_eqb d t) then 1
                           else match m with Ok t' => if tens_eqb t' t then 0 else 10 | Err _ => 13 end
               end
           end
  | None =>
      match obs, m with
      | WErr e, Err e' => if err_eqb e e' then 0 else 13
      | WDense t, Ok t' => if tens_eqb t' t then 0 else 10
      | _, _ => 13
      end
  end.

(** * weights_to_json on a PatternedTensor built with fggs.indices *)
Definition c14_wtojson_check (x : factor_w * json) : nat :=
  let '(f, j) := x in
  match factor_to_json (factor_of f) with
  | Ok jm => if json_eqb jm j then 0 else 10
  | Err _ => 13
  end.
