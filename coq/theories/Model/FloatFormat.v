(** C08, float level for EVERY IEEE-754 binary format (binary32 and binary64 are the two
    instances the library uses): the scalar formulas of /repo/fggs/semirings.py over Flocq's
    [binary_float prec emax] with round-to-nearest-even.

    Two layers, related by [B2BSN] (Proofs/FloatFormatLaws.v, [fp_*_B2BSN]):
      [ff_*]  over [BinarySingleNaN.binary_float prec emax]: one NaN.  This is the observation
              level of torch ("NaN = any NaN"); the laws are proved here as plain equalities.
      [fp_*]  over [Binary.binary_float prec emax]: NaNs carry sign and payload, and every
              arithmetic operation takes the NaN-choosing function [pnan] that Flocq's
              operations require.  The theorems hold for every [pnan], up to "both sides NaN".

    Statement by statement (torch semantics probed on CPU, see notes/C08.md):
      RealSemiring.add  = x.add(y)
      RealSemiring.mul  = x.mul(y).nan_to_num_(nan=0., posinf=inf)      (neginf=None: lowest finite)
      RealSemiring.sub  = x.sub(y).relu_().nan_to_num_(nan=0., posinf=inf)
      RealSemiring.star = y = 1/(1-x); y.masked_fill_(x >= 1, inf)
      ViterbiSemiring.add = x.maximum(y)       (NaN if either is NaN)
      ViterbiSemiring.mul = LogSemiring.mul = x.add(y).nan_to_num_(nan=-inf, neginf=-inf, posinf=inf)
      ViterbiSemiring.sub = x
      ViterbiSemiring.star = where(x > 0, inf, 0.)
      from_int: Real = as_tensor(n) (nearest-even conversion), Viterbi = where(n > 0, 0., -inf)
    LogSemiring.add/sub/star/from_int use exp/log/log1p/expm1 and stay with the exact-carrier
    reading (Model/SemiringCode.v); BoolSemiring has no floats.

    Flocq is imported ONLY here, in Proofs/FloatFormatLaws.v, Proofs/FloatFormatPrim.v and at the
    end of Props/C08.v.  Theorems over this file depend on the standard library's axioms of the
    real numbers (listed by Print Assumptions in Props/C08.v, named in harness/core.py). *)
From Coq Require Import ZArith Bool List.
From Flocq Require Import Core.Core.
From Flocq Require IEEE754.BinarySingleNaN IEEE754.Binary IEEE754.Bits.

Module SN := Flocq.IEEE754.BinarySingleNaN.
Module FB := Flocq.IEEE754.Binary.
Module FBits := Flocq.IEEE754.Bits.

Notation mode_NE := SN.mode_NE.

Section Format.

Variable prec emax : Z.
Context (prec_gt_0_ : Prec_gt_0 prec).
Context (prec_lt_emax_ : SN.Prec_lt_emax prec emax).

(** * one-NaN layer *)
Notation bf := (SN.binary_float prec emax).

Definition ff_zero : bf := SN.B754_zero false.
Definition ff_nzero : bf := SN.B754_zero true.
Definition ff_inf : bf := SN.B754_infinity false.
Definition ff_ninf : bf := SN.B754_infinity true.
Definition ff_nan : bf := SN.B754_nan.
Definition ff_one : bf := SN.Bone.
Definition ff_highest : bf := SN.Bmax_float.
Definition ff_lowest : bf := SN.Bopp SN.Bmax_float.

Definition ff_add (x y : bf) : bf := SN.Bplus mode_NE x y.
Definition ff_sub (x y : bf) : bf := SN.Bminus mode_NE x y.
Definition ff_mul (x y : bf) : bf := SN.Bmult mode_NE x y.
Definition ff_div (x y : bf) : bf := SN.Bdiv mode_NE x y.
Definition ff_ltb (x y : bf) : bool := SN.Bltb x y.     (* false as soon as one side is NaN *)
Definition ff_leb (x y : bf) : bool := SN.Bleb x y.
Definition ff_eqb (x y : bf) : bool := SN.Beqb x y.

Definition ff_is_zero (x : bf) : bool := match x with SN.B754_zero _ => true | _ => false end.

(** torch.nan_to_num(x, nan=vnan, posinf=vposinf, neginf=vneginf) *)
Definition ff_nan_to_num (x vnan vposinf vneginf : bf) : bf :=
  match x with
  | SN.B754_nan => vnan
  | SN.B754_infinity false => vposinf
  | SN.B754_infinity true => vneginf
  | _ => x
  end.
Definition ff_relu (x : bf) : bf := if ff_ltb x ff_zero then ff_zero else x.
Definition ff_max (x y : bf) : bf :=
  if SN.is_nan x then x else if SN.is_nan y then y else if ff_ltb x y then y else x.

(** RealSemiring *)
Definition ff_real_add (x y : bf) : bf := ff_add x y.
Definition ff_real_mul (x y : bf) : bf := ff_nan_to_num (ff_mul x y) ff_zero ff_inf ff_lowest.
Definition ff_real_sub (x y : bf) : bf := ff_nan_to_num (ff_relu (ff_sub x y)) ff_zero ff_inf ff_lowest.
Definition ff_real_star (x : bf) : bf :=
  let y := ff_div ff_one (ff_sub ff_one x) in if ff_leb ff_one x then ff_inf else y.
Definition ff_real_from_int (n : Z) : bf :=      (* n >= 0 *)
  SN.binary_normalize prec emax prec_gt_0_ prec_lt_emax_ mode_NE n 0 false.

(** ViterbiSemiring (mul is also LogSemiring.mul) *)
Definition ff_vit_zero : bf := ff_ninf.
Definition ff_vit_one : bf := ff_zero.
Definition ff_vit_add (x y : bf) : bf := ff_max x y.
Definition ff_vit_mul (x y : bf) : bf := ff_nan_to_num (ff_add x y) ff_ninf ff_inf ff_ninf.
Definition ff_vit_sub (x y : bf) : bf := x.
Definition ff_vit_star (x : bf) : bf := if ff_ltb ff_zero x then ff_inf else ff_zero.
Definition ff_vit_from_int (n : Z) : bf := if Z.ltb 0 n then ff_zero else ff_ninf.

(** the orders used in the statements: [ff_leb] (IEEE <=, false on NaN) and membership in the
    Real carrier [0, +inf] *)
Definition ff_nonneg (x : bf) : bool := ff_leb ff_zero x.

(** equality of results modulo the sign of zero (torch.maximum on {+0,-0}) *)
Definition ff_same (x y : bf) : bool :=
  match x, y with
  | SN.B754_zero a, SN.B754_zero b => Bool.eqb a b
  | SN.B754_infinity a, SN.B754_infinity b => Bool.eqb a b
  | SN.B754_nan, SN.B754_nan => true
  | SN.B754_finite a m e _, SN.B754_finite b n f _ => Bool.eqb a b && Pos.eqb m n && Z.eqb e f
  | _, _ => false
  end.
Definition ff_same_mod_zero (x y : bf) : bool := ff_same x y || (ff_is_zero x && ff_is_zero y).

(** * IEEE layer with NaN payloads *)
Notation fb := (FB.binary_float prec emax).
Variable pnan : fb -> fb -> { x : fb | FB.is_nan prec emax x = true }.

Definition fp_zero : fb := FB.B754_zero prec emax false.
Definition fp_inf : fb := FB.B754_infinity prec emax false.
Definition fp_ninf : fb := FB.B754_infinity prec emax true.
Definition fp_one : fb := FB.Bone prec emax prec_gt_0_ prec_lt_emax_.
Definition fp_highest : fb := FB.Bmax_float prec emax prec_gt_0_ prec_lt_emax_.
Definition fp_lowest : fb := FB.BSN2B' prec emax ff_lowest eq_refl.

Definition fp_add (x y : fb) : fb := FB.Bplus prec emax prec_gt_0_ prec_lt_emax_ pnan mode_NE x y.
Definition fp_sub (x y : fb) : fb := FB.Bminus prec emax prec_gt_0_ prec_lt_emax_ pnan mode_NE x y.
Definition fp_mul (x y : fb) : fb := FB.Bmult prec emax prec_gt_0_ prec_lt_emax_ pnan mode_NE x y.
Definition fp_div (x y : fb) : fb := FB.Bdiv prec emax prec_gt_0_ prec_lt_emax_ pnan mode_NE x y.
Definition fp_cmp (x y : fb) : option comparison := FB.Bcompare prec emax x y.
Definition fp_ltb (x y : fb) : bool := match fp_cmp x y with Some Lt => true | _ => false end.
Definition fp_leb (x y : fb) : bool := match fp_cmp x y with Some Lt | Some Eq => true | _ => false end.
Definition fp_eqb (x y : fb) : bool := match fp_cmp x y with Some Eq => true | _ => false end.

Definition fp_nan_to_num (x vnan vposinf vneginf : fb) : fb :=
  match x with
  | FB.B754_nan _ _ _ _ _ => vnan
  | FB.B754_infinity _ _ false => vposinf
  | FB.B754_infinity _ _ true => vneginf
  | _ => x
  end.
Definition fp_relu (x : fb) : fb := if fp_ltb x fp_zero then fp_zero else x.
Definition fp_max (x y : fb) : fb :=
  if FB.is_nan prec emax x then x else if FB.is_nan prec emax y then y else if fp_ltb x y then y else x.

Definition fp_real_add (x y : fb) : fb := fp_add x y.
Definition fp_real_mul (x y : fb) : fb := fp_nan_to_num (fp_mul x y) fp_zero fp_inf fp_lowest.
Definition fp_real_sub (x y : fb) : fb := fp_nan_to_num (fp_relu (fp_sub x y)) fp_zero fp_inf fp_lowest.
Definition fp_real_star (x : fb) : fb :=
  let y := fp_div fp_one (fp_sub fp_one x) in if fp_leb fp_one x then fp_inf else y.
Definition fp_real_from_int (n : Z) : fb :=
  FB.binary_normalize prec emax prec_gt_0_ prec_lt_emax_ mode_NE n 0 false.
Definition fp_vit_add (x y : fb) : fb := fp_max x y.
Definition fp_vit_mul (x y : fb) : fb := fp_nan_to_num (fp_add x y) fp_ninf fp_inf fp_ninf.
Definition fp_vit_sub (x y : fb) : fb := x.
Definition fp_vit_star (x : fb) : fb := if fp_ltb fp_zero x then fp_inf else fp_zero.
Definition fp_vit_from_int (n : Z) : fb := if Z.ltb 0 n then fp_zero else fp_ninf.

(** equality up to the NaN payload: the images in the one-NaN layer coincide
    ([fp_same_iff]: the values are equal or both are NaNs) *)
Definition fp_same (x y : fb) : Prop := FB.B2BSN prec emax x = FB.B2BSN prec emax y.

(** ** dispatch used by the correspondence check
    binary: 0..5 RealSemiring.add/mul/sub, ViterbiSemiring.add/mul/sub (4 is also LogSemiring.mul);
            6..9 torch.add/mul/sub/div;  unary: 0 RealSemiring.star, 1 ViterbiSemiring.star,
            2 torch.nan_to_num (defaults), 3 relu;  comparisons: 0 lt, 1 le, 2 eq *)
Definition fp_binop (op : nat) : fb -> fb -> fb :=
  match op with
  | 0 => fp_real_add | 1 => fp_real_mul | 2 => fp_real_sub
  | 3 => fp_vit_add | 4 => fp_vit_mul | 5 => fp_vit_sub
  | 6 => fp_add | 7 => fp_mul | 8 => fp_sub | _ => fp_div
  end%nat.
Definition fp_unop (op : nat) : fb -> fb :=
  match op with
  | 0 => fp_real_star | 1 => fp_vit_star
  | 2 => fun x => fp_nan_to_num x fp_zero fp_highest fp_lowest
  | _ => fp_relu
  end%nat.
Definition fp_cmpop (op : nat) : fb -> fb -> bool :=
  match op with 0 => fp_ltb | 1 => fp_leb | _ => fp_eqb end%nat.
Definition fp_from_int (sr : nat) (n : Z) : fb :=
  match sr with 0 => fp_real_from_int n | _ => fp_vit_from_int n end%nat.

(** bit-level comparison of a model value with the implementation's bit pattern: any NaN
    matches any NaN, everything else must be the same pattern ([modz]: up to the sign of zero) *)
Variable of_bits : Z -> fb.
Variable to_bits : fb -> Z.
Definition fp_is_zero (x : fb) : bool := match x with FB.B754_zero _ _ _ => true | _ => false end.
Definition fp_agrees (modz : bool) (m : fb) (rbits : Z) : bool :=
  let r := of_bits rbits in
  if FB.is_nan prec emax m then FB.is_nan prec emax r
  else Z.eqb (to_bits m) rbits || (modz && fp_is_zero m && fp_is_zero r).

(** op codes 100 + op: the same operation, compared up to the sign of zero (results computed on
    PatternedTensors; see notes/C08.md, "Observations") *)
Definition fp_binop_check (c : nat * Z * Z * Z) : nat :=
  let '(op, x, y, r) := c in
  let modz := Nat.eqb (Nat.modulo op 100) 3 || Nat.leb 100 op in
  if fp_agrees modz (fp_binop (Nat.modulo op 100) (of_bits x) (of_bits y)) r then 0%nat else 10%nat.
Definition fp_unop_check (c : nat * Z * Z) : nat :=
  let '(op, x, r) := c in
  if fp_agrees false (fp_unop op (of_bits x)) r then 0%nat else 10%nat.
Definition fp_cmp_check (c : nat * Z * Z * bool) : nat :=
  let '(op, x, y, r) := c in
  if Bool.eqb (fp_cmpop op (of_bits x) (of_bits y)) r then 0%nat else 10%nat.
Definition fp_from_int_check (c : nat * Z * Z) : nat :=
  let '(sr, n, r) := c in
  if fp_agrees false (fp_from_int sr n) r then 0%nat else 10%nat.

End Format.

(** * the two formats of the library *)
Lemma prec32 : Prec_gt_0 24. Proof. reflexivity. Qed.
Lemma emax32 : SN.Prec_lt_emax 24 128. Proof. reflexivity. Qed.
Lemma prec64 : Prec_gt_0 53. Proof. reflexivity. Qed.
Lemma emax64 : SN.Prec_lt_emax 53 1024. Proof. reflexivity. Qed.

Definition b32_binop_check := fp_binop_check 24 128 prec32 emax32 FBits.binop_nan_pl32 FBits.b32_of_bits FBits.bits_of_b32.
Definition b32_unop_check := fp_unop_check 24 128 prec32 emax32 FBits.binop_nan_pl32 FBits.b32_of_bits FBits.bits_of_b32.
Definition b32_cmp_check := fp_cmp_check 24 128 FBits.b32_of_bits.
Definition b32_from_int_check := fp_from_int_check 24 128 prec32 emax32 FBits.b32_of_bits FBits.bits_of_b32.
Definition b64_binop_check := fp_binop_check 53 1024 prec64 emax64 FBits.binop_nan_pl64 FBits.b64_of_bits FBits.bits_of_b64.
Definition b64_unop_check := fp_unop_check 53 1024 prec64 emax64 FBits.binop_nan_pl64 FBits.b64_of_bits FBits.bits_of_b64.
Definition b64_cmp_check := fp_cmp_check 53 1024 FBits.b64_of_bits.
Definition b64_from_int_check := fp_from_int_check 53 1024 prec64 emax64 FBits.b64_of_bits FBits.bits_of_b64.

(** one entry point for the harness: fmt 32 or 64 *)
Definition ffmt_binop_check (c : nat * (nat * Z * Z * Z)) : nat :=
  let '(fmt, d) := c in if Nat.eqb fmt 32 then b32_binop_check d else b64_binop_check d.
Definition ffmt_unop_check (c : nat * (nat * Z * Z)) : nat :=
  let '(fmt, d) := c in if Nat.eqb fmt 32 then b32_unop_check d else b64_unop_check d.
Definition ffmt_cmp_check (c : nat * (nat * Z * Z * bool)) : nat :=
  let '(fmt, d) := c in if Nat.eqb fmt 32 then b32_cmp_check d else b64_cmp_check d.
Definition ffmt_from_int_check (c : nat * (nat * Z * Z)) : nat :=
  let '(fmt, d) := c in if Nat.eqb fmt 32 then b32_from_int_check d else b64_from_int_check d.

(** ** packed wire format (one integer per case: a list of 50 000 tuples of literals takes Coq ten
    times longer to parse than to evaluate).  Layout, from the least significant bit:
    1 bit format (0 = binary32, 1 = binary64), 8 bits op, then fields of w = 32 / 64 bits. *)
Definition unpack_fmt (n : Z) : nat * nat * Z * Z :=
  let fmt := if Z.odd n then 64%nat else 32%nat in
  let w := if Z.odd n then 64%Z else 32%Z in
  (fmt, Z.to_nat (Z.land (Z.shiftr n 1) 255), w, Z.shiftr n 9).
Definition field (rest w : Z) (k : Z) : Z := Z.land (Z.shiftr rest (k * w)) (Z.ones w).

(** binop: fields x, y, r *)
Definition ffmt_binop_check_z (n : Z) : nat :=
  let '(fmt, op, w, rest) := unpack_fmt n in
  ffmt_binop_check (fmt, (op, field rest w 0, field rest w 1, Z.shiftr rest (2 * w))).
(** unop: fields x, r *)
Definition ffmt_unop_check_z (n : Z) : nat :=
  let '(fmt, op, w, rest) := unpack_fmt n in
  ffmt_unop_check (fmt, (op, field rest w 0, Z.shiftr rest w)).
(** comparison: fields x, y, then the Boolean result *)
Definition ffmt_cmp_check_z (n : Z) : nat :=
  let '(fmt, op, w, rest) := unpack_fmt n in
  ffmt_cmp_check (fmt, (op, field rest w 0, field rest w 1, Z.odd (Z.shiftr rest (2 * w)))).
(** from_int: op = semiring (0 Real, otherwise Viterbi), a 64-bit field for the integer, then r *)
Definition ffmt_from_int_check_z (n : Z) : nat :=
  let '(fmt, sr, w, rest) := unpack_fmt n in
  ffmt_from_int_check (fmt, (sr, Z.land rest (Z.ones 64), Z.shiftr rest 64)).
