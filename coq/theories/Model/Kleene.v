(** C02: recursive grammars.  Kleene iteration on tables (optionally rounded down to a grid),
    certified enclosures of the least fixed point (Park: every Kleene iterate is below every
    pre-fixed point), and the control-flow facts of fixed_point / newton / linear that the
    property talks about (warning when the budget is exhausted, ValueError for non-linear
    recursion).  Definitions only; theorems in Proofs/Kleene_proofs.v. *)
From Coq Require Import QArith Qcanon Qround Qabs List Arith Bool PeanoNat.
Import ListNotations.
Require Import Fggs.Model.Semiring Fggs.Model.SCC Fggs.Model.SumProduct Fggs.Model.SumProductCheck
               Fggs.Model.EReal Fggs.Model.Trop.
Local Open Scope nat_scope.

Section Kleene.
Context {R W B : Type} (o : sr_ops R).
(** [rd x <= x] (rounding down), [infl] inflates a lower bound into a candidate upper bound,
    [leb] decides the order, [far tol x y]: x and y are robustly NOT within tol of each other *)
Context (rd infl : R -> R) (leb : R -> R -> bool) (far : Q -> R -> R -> bool).
Context (of_wire : W -> R) (compat : R -> R -> B -> bool).

Definition Kstep (G : grammar) (w : env (R:=R)) (prev : tmt (R:=R)) : tmt (R:=R) :=
  map (fun X => (X, tabulate (lshape G X) (fun xi => rd (step o G w (env_of o prev) X xi)))) (nonterminals G).

Fixpoint Ktab (G : grammar) (w : env (R:=R)) (k : nat) : tmt (R:=R) :=
  match k with
  | 0 => map (fun X => (X, tabulate (lshape G X) (fun _ => zero o))) (nonterminals G)
  | S k => Kstep G w (Ktab G w k)
  end.

(** [u] is a pre-fixed point: F u <= u on every cell of every nonterminal *)
Definition prefix_ok (G : grammar) (w : env (R:=R)) (u : tmt (R:=R)) : bool :=
  forallb (fun X => forallb (fun xi => leb (step o G w (env_of o u) X xi) (env_of o u X xi))
                            (all_assts (lshape G X))) (nonterminals G).

Definition inflate (t : tmt (R:=R)) : tmt (R:=R) :=
  map (fun p => (fst p, map (fun c => (fst c, infl (snd c))) (snd p))) t.

(** a certified enclosure [lo, u] of the least fixed point, or None (inconclusive):
    try after every 4 Kleene steps, at most [rounds] times *)
Fixpoint enclosure_from (G : grammar) (w : env (R:=R)) (rounds : nat) (lo : tmt (R:=R)) : option (tmt (R:=R) * tmt (R:=R)) :=
  let u := inflate lo in
  if prefix_ok G w u then Some (lo, u)
  else match rounds with
       | 0 => None
       | S r => enclosure_from G w r (Kstep G w (Kstep G w (Kstep G w (Kstep G w lo))))
       end.
Definition enclosure (G : grammar) (w : env (R:=R)) (K : nat) : option (tmt (R:=R) * tmt (R:=R)) :=
  enclosure_from G w K (Ktab G w 0).

(** * control flow of the driver *)
(** method tags: 0 fixed-point, 1 newton, 2 linear, 3 one-step *)
Definition comp_method (G : grammar) (meth : nat) (comp : list nat) : nat :=
  let mr := max_rhs G comp in
  if (length comp =? 1) && (mr =? 0) then 3
  else if (mr =? 1) && (meth =? 1) then 2 else meth.

(** [linear] raises ValueError: some rule of the component has two or more component edges *)
Definition linear_raises (G : grammar) (comp : list nat) : bool :=
  existsb (fun n => existsb (fun r => 2 <=? length (filter (fun ed => mem comp (fst ed)) (r_edges r)))
                            (rules_of G n)) comp.

Definition expect_value_error (G : grammar) (meth : nat) (order : list (list nat)) : bool :=
  existsb (fun comp => (comp_method G meth comp =? 2) && linear_raises G comp) order.

Definition comp_tab (G : grammar) (comp : list nat) (m : mt (R:=R)) : tmt (R:=R) :=
  map (fun n => (n, tabulate (lshape G n) (mt_val o m n))) comp.

Definition tabs_far (tol : Q) (G : grammar) (comp : list nat) (a b : tmt (R:=R)) : bool :=
  existsb (fun n => existsb (fun xi => far tol (env_of o a n xi) (env_of o b n xi)) (all_assts (lshape G n))) comp.

(** must the run warn?  Decided at the first component that is evaluated iteratively, all
    earlier ones being one-step (exact).  fixed-point with budget kmax warns iff the first
    kmax+1 stopping tests fail; newton (after the F3 repair) with kmax = 1 iff the first test fails *)
Fixpoint must_warn (tol : Q) (G : grammar) (meth kmax : nat) (order : list (list nat)) (all : tmt (R:=R)) : bool :=
  match order with
  | [] => false
  | comp :: rest =>
    match comp_method G meth comp with
    | 3 => must_warn tol G meth kmax rest (one_step_comp o G all comp)
    | 0 =>
      let inputs := comp_inputs G comp (mt_of o all) in
      let x0 := comp_tab G comp [] in
      let x1 := comp_tab G comp (F_model o G comp [] inputs) in
      let x2 := comp_tab G comp (F_model o G comp (mt_of o x1) inputs) in
      let x3 := comp_tab G comp (F_model o G comp (mt_of o x2) inputs) in
      match kmax with
      | 1 => tabs_far tol G comp x0 x1 && tabs_far tol G comp x1 x2
      | 2 => tabs_far tol G comp x0 x1 && tabs_far tol G comp x1 x2 && tabs_far tol G comp x2 x3
      | _ => false
      end
    | 1 =>
      let inputs := comp_inputs G comp (mt_of o all) in
      let x0 := comp_tab G comp [] in
      let x1 := comp_tab G comp (F_model o G comp [] inputs) in
      match kmax with 1 => tabs_far tol G comp x0 x1 | _ => false end
    | _ => false
    end
  end.

Definition cells_compat (lo u : table (R:=R)) (obs : list B) : bool :=
  Nat.eqb (length lo) (length obs) && Nat.eqb (length u) (length obs)
  && forallb (fun p => compat (snd (fst (fst p))) (snd (snd (fst p))) (snd p)) (combine (combine lo u) obs).

(** input: grammar, terminal weights, (method, kmax, tol), K (Kleene steps for the enclosure),
    observation: (raised ValueError?, warned?, check the values?, values per nonterminal).
    verdicts: 0 ok; 1 a value lies outside the certified enclosure of the least fixed point;
    2 ill-formed grammar; 3 scc out of fuel; 4 missing entry; 5 ValueError expected (non-linear
    grammar, method linear) but none raised; 6 unexpected ValueError; 7 budget exhausted without
    warning; 30 enclosure inconclusive (the harness discards the value comparison) *)
Definition fp_check (x : grammar_w * list (nat * list W) * (nat * nat * Q) * nat
                         * (bool * bool * bool * list (nat * list B))) : nat :=
  let '(gw, ws, (meth, kmax, tol), K, (raised, warned, chkvals, obs)) := x in
  let G := grammar_of_w gw in
  if negb (wf_grammar G) then 2 else
  match scc (nt_graph G) with
  | None => 3
  | Some order =>
    let w := weights_tmt of_wire G ws in
    if expect_value_error G meth order then (if raised then 0 else 5)
    else if raised then 6
    else if must_warn tol G meth kmax order w && negb warned then 7
    else if negb chkvals then 0
    else match enclosure G (env_of o w) K with
         | None => 30
         | Some (lo, u) =>
           worst (map (fun X =>
                         match obs_get obs X, tmt_get lo X, tmt_get u X with
                         | Some ob, Some l, Some uu => if cells_compat l uu ob then 0 else 1
                         | None, _, _ => 4
                         | _, _, _ => 20
                         end) (nonterminals G))
         end
  end.
End Kleene.

(** * instances *)
Local Open Scope Q_scope.
(** round a non-negative rational down to a multiple of 2^-44 *)
Definition grid : Q := 17592186044416 # 1.
(** ... and cap at 2^30 (still below the argument), so that divergent iterations stay cheap *)
Definition rd_q (q : Q) : Q := if Qle_bool (1073741824 # 1) q then (1073741824 # 1) else (Qfloor (q * grid) # 1) / grid.
Definition rd_real (x : ereal) : ereal :=
  match x with Fin a => Fin (nn_of_Q (rd_q (this (qv a)))) | PInf => PInf end.
(** inflate: a * (1 + 2^-24) + 2^-34 *)
Definition infl_real (x : ereal) : ereal :=
  match x with
  | Fin a => Fin (nn_of_Q (this (qv a) * (1 + (1 # 16777216)) + (1 # 17179869184)))
  | PInf => PInf
  end.
Definition far_real (tol : Q) (x y : ereal) : bool :=
  match x, y with
  | Fin a, Fin b => negb (Qle_bool (Qabs (this (qv a) - this (qv b))) (2 * tol))
  | PInf, PInf => false
  | _, _ => true
  end.
(** the observed interval [olo, ohi] must meet [lo, u] *)
Definition compat_real (lo u : ereal) (b : Q * option Q) : bool :=
  match snd b with
  | None => match u with PInf => true | Fin _ => false end
  | Some ohi =>
    match lo, u with
    | Fin l, Fin uu => Qle_bool (this (qv l)) ohi && Qle_bool (fst b) (this (qv uu))
    | Fin l, PInf => Qle_bool (this (qv l)) ohi
    | PInf, _ => false
    end
  end.
Definition fp_check_real := fp_check ereal_ops rd_real infl_real eleb far_real ereal_of compat_real.

Definition far_trop (tol : Q) (x y : trop) : bool :=
  match x, y with
  | TFin a, TFin b => negb (Qle_bool (Qabs (this a - this b)) (2 * tol))
  | NInf, NInf | TPInf, TPInf => false
  | _, _ => true
  end.
Definition compat_trop (lo u : trop) (b : (nat * Q) * (nat * Q)) : bool :=
  tleb lo (trop_of (snd b)) && tleb (trop_of (fst b)) u.
Definition fp_check_trop := fp_check trop_ops (fun x => x) (fun x => x) tleb far_trop trop_of compat_trop.

Definition fp_check_bool :=
  fp_check bool_ops (fun x => x) (fun x => x) (fun a b : bool => implb a b) (fun _ a b => negb (Bool.eqb a b))
           (fun b : bool => b) (fun lo u (b : bool) => implb lo b && implb b u).
