(** C06 -- the storage layout of a physical tensor.

    torch stores a tensor as a strided view of a flat buffer: the element at coordinates [idx] is the cell
    [offset + sum_d stride_d * idx_d].  Strides may be 0 (an [expand()]ed dimension: every coordinate reads the
    same cell), in any order (permuted / non-contiguous), larger than the extent they step over (slices of a
    bigger tensor) or equal for two dimensions (overlapping windows).  The tensor-level model of C06
    (Model/PTensor.v) takes [physical] as a FUNCTION of the coordinates, so every statement proved there is
    independent of the layout; this file makes the step from a strided view to that function explicit
    ([pt_of_view]), gives the check function that ties the view model to torch's actual storage
    ([storage_view_check]) and models the one optimisation that looks at the strides: "if physical is an
    expanded constant, operate on the one cell it repeats and expand the result" ([map_expanded], with the
    test that decides `expanded constant' as a parameter: [all_zero] is sound, [some_zero] is not). *)
From Coq Require Import List Arith Bool PArith QArith.
Import ListNotations.
Require Import Fggs.Model.Axis Fggs.Model.AxisCheck Fggs.Model.XVal Fggs.Model.PTensor Fggs.Model.PTensorCheck.
Local Open Scope nat_scope.

Fixpoint sdot (strides idx : list nat) : nat :=
  match strides, idx with
  | s :: strides', i :: idx' => s * i + sdot strides' idx'
  | _, _ => 0
  end.

(** the cell of the flat buffer that the coordinates [idx] read *)
Definition saddr (off : nat) (strides idx : list nat) : nat := off + sdot strides idx.

Definition all_zero (strides : list nat) : bool := forallb (Nat.eqb 0) strides.
Definition some_zero (strides : list nat) : bool := existsb (Nat.eqb 0) strides.

Section View.
  Variable V : Type.

  (** a view: buffer, storage offset, strides *)
  Definition sview : Type := (list V * nat * list nat)%type.

  Definition view_read (dv : V) (v : sview) (idx : list nat) : V :=
    let '(buf, off, strides) := v in nth (saddr off strides idx) buf dv.

  (** the logical contents, row-major over [sizes] (what [tolist()] / [contiguous()] give) *)
  Definition view_values (dv : V) (v : sview) (sizes : list nat) : list V :=
    map (view_read dv v) (all_idx sizes).

  (** elementwise map over the storage (what [physical + c], [physical * c], [physical.abs()] ... do, up to
      the layout torch picks for the result) *)
  Definition view_map (f : V -> V) (v : sview) : sview :=
    let '(buf, off, strides) := v in (map f buf, off, strides).

  (** the patterned tensor whose physical storage is the view *)
  Definition pt_of_view (dv : V) (v : sview) (ps : list pn) (vs : list axis) (d : V) : ptensor V :=
    @mkPT V (view_read dv v) ps vs d.

  (** "don't materialise an expanded constant": when [test strides] says that the view repeats one cell,
      apply [f] to the cell at coordinates (0,...,0) and expand the result (all strides 0) *)
  Definition map_expanded (test : list nat -> bool) (f : V -> V) (dv : V) (v : sview) : sview :=
    let '(buf, off, strides) := v in
    if test strides then ([f (nth off buf dv)], 0, map (fun _ => 0) strides)
    else view_map f v.
End View.

Definition view_in_range (len off : nat) (strides sizes : list nat) : bool :=
  forallb (fun idx => saddr off strides idx <? len) (all_idx sizes).

Definition wx_eqb (a b : wx) : bool := Nat.eqb (fst a) (fst b) && Qeq_bool (snd a) (snd b).

(** Check function: (sizes, strides, storage offset, flat storage, logical values as torch reports them).
    0 = every coordinate below [sizes] addresses a cell of the storage and the view model reads exactly the
    logical values; 10 = sizes / strides of different lengths; 11 = an address outside the storage;
    12 = the view model reads other values than torch (the strided-view model does not describe this tensor). *)
Definition storage_view_check (x : list nat * list nat * nat * list wx * list wx) : nat :=
  let '(sizes, strides, off, buf, vals) := x in
  if negb (Nat.eqb (length sizes) (length strides)) then 10
  else if negb (view_in_range (length buf) off strides sizes) then 11
  else if list_eqb wx_eqb (view_values wx (3, 0%Q) (buf, off, strides) sizes) vals then 0 else 12.
