(** C08: check functions of the correspondence (model side).  Every function takes one tuple
    containing the input *and the implementation's observed output* and returns a verdict:
      0      the verified oracle accepts the output and it agrees with the model of the code;
      1..9   an oracle rejects the implementation's output (a concrete failing input);
      10..19 output differs from the model of the code's formula although the oracle accepts;
      20..   malformed case (harness error).
    Numbers travel as exact rationals.  Wire format of one value: (tag, q) with
    tag 0 = -inf, 1 = the rational q, 2 = +inf, 3 = NaN.

    Oracles = the carrier operations of Model/EReal.v, Model/Trop.v (proved to be semirings with
    least-solution star in Proofs/SemiringLaws.v).  Models = the code's formulas of
    Model/SemiringCode.v (proved equal to the carrier operations).

    How a binary64 result r is judged against the exact value m ([accept_q]):
      - r = +-inf  iff  |m| >= 2^1024 - 2^970 (the rounding threshold of binary64);
      - if m is a binary64 number, r = m exactly;
      - else |r - m| <= 1e-12 |m|  or  |r - m| <= 2^-1074 (gradual underflow). *)
From Coq Require Import QArith Qabs Qcanon ZArith Bool List.
Import ListNotations.
Require Import Fggs.Model.Semiring Fggs.Model.EReal Fggs.Model.Trop Fggs.Model.SemiringCode.

Local Open Scope Q_scope.
Definition wire : Type := (nat * Q)%type.
Definition w_xr (w : wire) : xr :=
  match fst w with
  | 0 => XNInf | 1 => XFin (Q2Qc (snd w)) | 2 => XPInf | _ => XNaN
  end%nat.

(* ------------------------------------------------------------------------- *)
(** * binary64 facts used by the tolerance policy *)

Fixpoint pos_is_pow2 (p : positive) : bool :=
  match p with xH => true | xO p => pos_is_pow2 p | xI _ => false end.
Fixpoint pos_odd_part (p : positive) : positive :=
  match p with xO p => pos_odd_part p | _ => p end.
Fixpoint pos_v2 (p : positive) : Z :=
  match p with xO p => Z.succ (pos_v2 p) | _ => 0%Z end.

(** is the (reduced) rational a binary64 number? *)
Definition representable64 (q : Q) : bool :=
  match Qnum q with
  | Z0 => true
  | Zpos n | Zneg n =>
      pos_is_pow2 (Qden q) &&
      (let e := (pos_v2 n - Z.log2 (Zpos (Qden q)))%Z in
       let bits := (Z.log2 (Zpos (pos_odd_part n)) + 1)%Z in
       (bits <=? 53)%Z && (-1074 <=? e)%Z && (bits + e <=? 1024)%Z)
  end.

Definition rtol : Q := 1 # 1000000000000.
Definition tiny : Q := 1 # (shift_pos 1074 1).                                     (* 2^-1074 *)
Definition minnormal : Q := 1 # (shift_pos 1022 1).                                (* 2^-1022 *)
Definition ovf : Q := inject_Z (Zpos (shift_pos 970 18014398509481983)).           (* 2^1024 - 2^970 *)

Definition qclose_tol (k : Q) (m r : Q) : bool :=
  Qle_bool (Qabs (r - m)) (k * rtol * Qabs m) || Qle_bool (Qabs (r - m)) (k * tiny).
Definition qclose (m r : Q) : bool :=
  if representable64 (Qred m) then Qeq_bool m r else qclose_tol 1 m r.

(** [exact] = demand equality when m is representable; otherwise tolerance scaled by k around m
    plus an absolute slack [abs] (used where cancellation makes a relative bound meaningless) *)
Definition accept_q (exact : bool) (k abs : Q) (m : Q) (r : wire) : bool :=
  match fst r with
  | 1%nat =>
      if exact then qclose m (snd r)
      else qclose_tol k m (snd r) || Qle_bool (Qabs (snd r - m)) abs
  | 2%nat => Qle_bool (ovf * (1 - k * rtol)) m
  | 0%nat => Qle_bool m (- (ovf * (1 - k * rtol)))
  | _ => false
  end.
Definition accept_x (exact : bool) (k abs : Q) (m : xr) (r : wire) : bool :=
  match m with
  | XNaN => match fst r with 0 | 1 | 2 => false | _ => true end%nat
  | XNInf => Nat.eqb (fst r) 0
  | XPInf => Nat.eqb (fst r) 2
  | XFin a => accept_q exact k abs (this a) r
  end.

Definition xr_repr (x : xr) : bool :=
  match x with XFin a => representable64 (this a) | XNaN => false | _ => true end.
(** zero, infinite, or in the normal range of binary64 (relative error bounds hold) *)
Definition xr_inrange (x : xr) : bool :=
  match x with
  | XFin a => Qeq_bool (this a) 0 ||
              (Qle_bool minnormal (Qabs (this a)) && negb (Qle_bool ovf (Qabs (this a))))
  | XNaN => false
  | _ => true
  end.
Definition xr_abs (x : xr) : Q := match x with XFin a => Qabs (this a) | _ => 0 end.

(* ------------------------------------------------------------------------- *)
(** * the two exact carriers behind one interface: values are kept as [xr] (embedded), the
      operations are the CARRIER operations (oracle) and the CODE's formulas (model) *)

Definition lowest64 : xr := XFin (Q2Qc (- inject_Z (Zpos (shift_pos 971 9007199254740991)))).
Definition highest64 : xr := XFin (Q2Qc (inject_Z (Zpos (shift_pos 971 9007199254740991)))).

Definition lift_e2 (f : ereal -> ereal -> ereal) (x y : xr) : xr :=
  match ereal_of_xr x, ereal_of_xr y with
  | Some a, Some b => xr_of_ereal (f a b) | _, _ => XNaN end.
Definition lift_e1 (f : ereal -> ereal) (x : xr) : xr :=
  match ereal_of_xr x with Some a => xr_of_ereal (f a) | _ => XNaN end.
Definition lift_t2 (f : trop -> trop -> trop) (x y : xr) : xr :=
  match trop_of_xr x, trop_of_xr y with
  | Some a, Some b => xr_of_trop (f a b) | _, _ => XNaN end.
Definition lift_t1 (f : trop -> trop) (x : xr) : xr :=
  match trop_of_xr x with Some a => xr_of_trop (f a) | _ => XNaN end.

Record sr_impl : Type := {
  i_in : xr -> bool;                      (* membership in the carrier *)
  i_zero : xr; i_one : xr;
  i_add : xr -> xr -> xr; i_mul : xr -> xr -> xr; i_sub : xr -> xr -> xr; i_star : xr -> xr;
  i_from : nat -> xr;
}.
(** sr: 0 = Real, 2 = Viterbi *)
Definition oracle_of (sr : nat) : sr_impl :=
  match sr with
  | 0%nat => {| i_in := fun x => match ereal_of_xr x with Some _ => true | None => false end;
                i_zero := xr_of_ereal (zero ereal_ops); i_one := xr_of_ereal (one ereal_ops);
                i_add := lift_e2 eadd; i_mul := lift_e2 emul; i_sub := lift_e2 esub;
                i_star := lift_e1 estar;
                i_from := fun n => xr_of_ereal (from_nat ereal_ops n) |}
  | _ => {| i_in := fun x => match trop_of_xr x with Some _ => true | None => false end;
            i_zero := XNInf; i_one := XFin 0;
            i_add := lift_t2 tmax; i_mul := lift_t2 tplus; i_sub := lift_t2 (fun x _ => x);
            i_star := lift_t1 tstar;
            i_from := fun n => xr_of_trop (from_nat trop_ops n) |}
  end.
Definition model_of (sr : nat) : sr_impl :=
  match sr with
  | 0%nat => {| i_in := fun x => match ereal_of_xr x with Some _ => true | None => false end;
                i_zero := real_from_int 0; i_one := real_from_int 1;
                i_add := real_add; i_mul := real_mul lowest64; i_sub := real_sub lowest64;
                i_star := real_star; i_from := real_from_int |}
  | _ => {| i_in := fun x => match trop_of_xr x with Some _ => true | None => false end;
            i_zero := viterbi_from_int 0; i_one := viterbi_from_int 1;
            i_add := viterbi_add; i_mul := viterbi_mul; i_sub := viterbi_sub;
            i_star := viterbi_star; i_from := viterbi_from_int |}
  end.

Definition binop (I : sr_impl) (op : nat) : xr -> xr -> xr :=
  match op with 0%nat => i_add I | 1%nat => i_mul I | _ => i_sub I end.

(** verdict from oracle value, model value and the observed result *)
Definition verdict (exact : bool) (k abs : Q) (spec model : xr) (r : wire) : nat :=
  if negb (accept_x exact k abs spec r) then 1%nat
  else if negb (accept_x exact k abs model r) then 10%nat
  else 0%nat.

(** (sr, op, x, y, r): one application of add / mul / sub *)
Definition c08_binop_check (c : nat * nat * wire * wire * wire) : nat :=
  let '(sr, op, x, y, r) := c in
  let X := w_xr x in let Y := w_xr y in
  if negb (i_in (oracle_of sr) X && i_in (oracle_of sr) Y) then 20%nat
  else verdict true 1 0 (binop (oracle_of sr) op X Y) (binop (model_of sr) op X Y) r.

(** (sr, x, r): star.  The oracle is the LEAST solution of y = 1 + x*y. *)
Definition c08_star_check (c : nat * wire * wire) : nat :=
  let '(sr, x, r) := c in
  let X := w_xr x in
  if negb (i_in (oracle_of sr) X) then 20%nat
  else verdict true 4 0 (i_star (oracle_of sr) X) (i_star (model_of sr) X) r.

(** (sr, n, r): from_int *)
Definition c08_from_int_check (c : nat * nat * wire) : nat :=
  let '(sr, n, r) := c in
  verdict true 1 0 (i_from (oracle_of sr) n) (i_from (model_of sr) n) r.

(** (sr, xs, r): sum along a dimension; torch's summation order is unspecified, so the exact sum
    (order independent: Proofs/SemiringGeneric.sum_list_perm) is compared within tolerance *)
Definition c08_sum_check (c : nat * list wire * wire) : nat :=
  let '(sr, xs, r) := c in
  let Xs := map w_xr xs in
  if negb (forallb (i_in (oracle_of sr)) Xs) then 20%nat
  else
    let s := fold_right (i_add (oracle_of sr)) (i_zero (oracle_of sr)) Xs in
    let m := fold_right (i_add (model_of sr)) (i_zero (model_of sr)) Xs in
    let k := inject_Z (Z.of_nat (S (length xs))) in
    match sr with
    | 0%nat => verdict false k 0 s m r
    | _ => verdict true 1 0 s m r          (* max: exact *)
    end.

(* ------------------------------------------------------------------------- *)
(** * law instances evaluated on the implementation *)

Inductive lexp : Type :=
| LX | LY | LZ | L0 | L1
| LAdd (a b : lexp) | LMul (a b : lexp) | LSub (a b : lexp) | LStar (a : lexp).

Fixpoint lev (I : sr_impl) (x y z : xr) (e : lexp) : xr :=
  match e with
  | LX => x | LY => y | LZ => z | L0 => i_zero I | L1 => i_one I
  | LAdd a b => i_add I (lev I x y z a) (lev I x y z b)
  | LMul a b => i_mul I (lev I x y z a) (lev I x y z b)
  | LSub a b => i_sub I (lev I x y z a) (lev I x y z b)
  | LStar a => i_star I (lev I x y z a)
  end.
(** values of all compound subterms = the intermediate results of the float computation *)
Fixpoint linter (I : sr_impl) (x y z : xr) (e : lexp) : list xr :=
  match e with
  | LAdd a b | LMul a b | LSub a b => lev I x y z e :: linter I x y z a ++ linter I x y z b
  | LStar a => lev I x y z e :: linter I x y z a
  | _ => []
  end.

(** law number |-> (lhs, rhs, expected common value).  Soundness (lhs = rhs = expected in the
    carriers, under the guard of law 10): Proofs/SemiringCheckSound.v *)
Definition law_table (n : nat) : lexp * lexp * lexp :=
  match n with
  | 0 => (LAdd LX (LAdd LY LZ), LAdd (LAdd LX LY) LZ, LAdd LX (LAdd LY LZ))     (* add assoc *)
  | 1 => (LAdd LX LY, LAdd LY LX, LAdd LX LY)                                    (* add comm *)
  | 2 => (LAdd LX L0, LAdd L0 LX, LX)                                            (* add identity *)
  | 3 => (LMul LX (LMul LY LZ), LMul (LMul LX LY) LZ, LMul LX (LMul LY LZ))     (* mul assoc *)
  | 4 => (LMul LX LY, LMul LY LX, LMul LX LY)                                    (* mul comm *)
  | 5 => (LMul LX L1, LMul L1 LX, LX)                                            (* mul identity *)
  | 6 => (LMul LX L0, LMul L0 LX, L0)                                            (* annihilation *)
  | 7 => (LMul (LAdd LX LY) LZ, LAdd (LMul LX LZ) (LMul LY LZ), LMul (LAdd LX LY) LZ)   (* distr *)
  | 8 => (LMul LX (LAdd LY LZ), LAdd (LMul LX LY) (LMul LX LZ), LMul LX (LAdd LY LZ))
  | 9 => (LStar LX, LAdd L1 (LMul LX (LStar LX)), LStar LX)                      (* star unfold *)
  | 10 => (LAdd (LSub LX LY) LY, LX, LX)                                         (* sub, if y <= x *)
  | 11 => (LStar L0, L1, L1)                                                     (* star zero = one *)
  | _ => (LMul (LStar LX) LY, LAdd (LMul LX (LMul (LStar LX) LY)) LY, LMul (LStar LX) LY)
                                                                 (* star x * y solves w = x*w + y *)
  end%nat.
Definition law_guard (sr n : nat) (x y : xr) : bool :=
  match n with 10%nat => xle y x | _ => true end.

(** 0 = all intermediate values are binary64 numbers (float evaluation is exact: equality is
        demanded); 1 = all in the normal range (tolerance); 2 = over/underflow possible or guard
        false: the instance says nothing about the law and is skipped *)
Definition law_class_of (sr n : nat) (X Y Z : xr) : nat :=
  let '(l, r, e) := law_table n in
  let O := oracle_of sr in
  let inter := linter O X Y Z l ++ linter O X Y Z r in
  if negb (law_guard sr n X Y) then 2%nat
  else if forallb xr_repr inter then 0%nat
  else if forallb xr_inrange inter then 1%nat
  else 2%nat.

Definition c08_law_class (c : nat * nat * (wire * wire * wire)) : nat :=
  let '(sr, n, (x, y, z)) := c in law_class_of sr n (w_xr x) (w_xr y) (w_xr z).

(** (sr, law, (x, y, z), (lhs, rhs)) with lhs, rhs computed by the implementation.
    1 = lhs is not the common value, 2 = rhs is not, 10/11 = differs from the model of the code *)
Definition c08_law_check (c : nat * nat * (wire * wire * wire) * (wire * wire)) : nat :=
  let '(sr, n, (x, y, z), (lhs, rhs)) := c in
  let X := w_xr x in let Y := w_xr y in let Z := w_xr z in
  let O := oracle_of sr in let M := model_of sr in
  if negb (i_in O X && i_in O Y && i_in O Z) then 20%nat
  else
    let '(l, r, e) := law_table n in
    let cls := law_class_of sr n X Y Z in
    match cls with
    | 2%nat => 0%nat
    | _ =>
        let exact := Nat.eqb cls 0 in
        let abs := match sr with 0%nat => 0 | _ => 8 * rtol * (xr_abs X + xr_abs Y + xr_abs Z) end in
        let m := lev O X Y Z e in
        if negb (accept_x exact 8 abs m lhs) then 1%nat
        else if negb (accept_x exact 8 abs m rhs) then 2%nat
        else if negb (accept_x exact 8 abs (lev M X Y Z l) lhs) then 10%nat
        else if negb (accept_x exact 8 abs (lev M X Y Z r) rhs) then 11%nat
        else 0%nat
    end.

(** the same verdict together with the class of the instance, 100 * class + verdict, so that the
    harness evaluates every instance once (it decodes the two parts; a non-zero verdict part is a
    violation exactly as for [c08_law_check]) *)
Definition c08_law_check_cls (c : nat * nat * (wire * wire * wire) * (wire * wire)) : nat :=
  let '(sr, n, (x, y, z), (lhs, rhs)) := c in
  (100 * law_class_of sr n (w_xr x) (w_xr y) (w_xr z) + c08_law_check c)%nat.

(** leastness: (sr, x, y, s) with s = star(x) as computed by the implementation.  If y solves
    y = 1 + x*y EXACTLY in the carrier (decided here, so float absorption such as
    1 + 1e308 = 1e308 cannot fake a solution) then s <= y is required. *)
Definition xr_eqb (a b : xr) : bool := xle a b && xle b a.
Definition c08_least_check (c : nat * wire * wire * wire) : nat :=
  let '(sr, x, y, s) := c in
  let X := w_xr x in let Y := w_xr y in let S := w_xr s in
  let O := oracle_of sr in
  if negb (i_in O X && i_in O Y) then 20%nat
  else if xr_eqb (i_add O (i_one O) (i_mul O X Y)) Y && negb (xle S Y) then 3%nat
  else 0%nat.

(* ------------------------------------------------------------------------- *)
(** * LogSemiring, exp reading.  Inputs: e^x as a rational (50 significant digits, computed by
      the harness) or 0 for x = -inf or +inf; result: tag 0 = exactly -inf, 2 = exactly +inf,
      1 = the interval [lo, hi] containing e^r widened by the stated number of ulps of r. *)
Definition log_result : Type := (nat * Q * Q)%type.
Definition accept_log (m : xr) (r : log_result) : bool :=
  let '(tag, lo, hi) := r in
  match ereal_of_xr m with
  | None => false
  | Some e =>
      match tag with
      | 0%nat => eeqb e (Fin nn0)
      | 1%nat => ereal_within e lo (Some hi)
      | 2%nat => eeqb e PInf
      | _ => false
      end
  end.
(** (op, xs, r): op 0 add, 1 mul, 2 sub, 3 star, 4 from_int (xs = [n]), 5 sum *)
Definition c08_log_check (c : nat * list wire * log_result) : nat :=
  let '(op, xs, r) := c in
  let Xs := map w_xr xs in
  let O := oracle_of 0 in
  if negb (forallb (i_in O) Xs) then 20%nat
  else
    let sm : option (xr * (bool -> xr)) :=
      match op, Xs with
      | 0, [x; y] => Some (i_add O x y, fun _ => log_add x y)
      | 1, [x; y] => Some (i_mul O x y, fun _ => log_mul x y)
      | 2, [x; y] => Some (i_sub O x y, fun c => log_sub c x y)
      | 3, [x] => Some (i_star O x, fun c => log_star c highest64 x)
      | 4, [x] => Some (x, fun _ => xlog x)
      | 5, _ => Some (fold_right (i_add O) (i_zero O) Xs, fun _ => fold_right log_add (log_from_int 0) Xs)
      | _, _ => None
      end%nat in
    match sm with
    | None => 21%nat
    | Some (spec, model) =>
        if negb (accept_log spec r) then 1%nat
        else if negb (accept_log (model true) r && accept_log (model false) r) then 10%nat
        else 0%nat
    end.

(* ------------------------------------------------------------------------- *)
(** * BoolSemiring: (op, n, xs, r); op 0 add, 1 mul, 2 sub, 3 star, 4 from_int n, 5 sum (any) *)
Definition c08_bool_check (c : nat * nat * list bool * bool) : nat :=
  let '(op, n, xs, r) := c in
  let sm : option (bool * bool) :=
    match op, xs with
    | 0, [x; y] => Some (add bool_ops x y, boolc_add x y)
    | 1, [x; y] => Some (mul bool_ops x y, boolc_mul x y)
    | 2, [x; y] => Some (andb x (negb y), boolc_sub x y)
    | 3, [x] => Some (star bool_ops x, boolc_star x)
    | 4, [] => Some (from_nat bool_ops n, boolc_from_int n)
    | 5, _ => Some (sum_list bool_ops xs, existsb (fun b => b) xs)
    | _, _ => None
    end%nat in
  match sm with
  | None => 21%nat
  | Some (spec, model) =>
      if negb (Bool.eqb spec r) then 1%nat else if negb (Bool.eqb model r) then 10%nat else 0%nat
  end.

(** Log law instances: (law, (x, y, z) in the exp reading, (lhs, rhs) as log results); both
    implementation values must contain the common exact value of the law in their interval *)
Definition c08_log_law_check (c : nat * (wire * wire * wire) * (log_result * log_result)) : nat :=
  let '(n, (x, y, z), (lhs, rhs)) := c in
  let X := w_xr x in let Y := w_xr y in let Z := w_xr z in
  let O := oracle_of 0 in
  if negb (i_in O X && i_in O Y && i_in O Z) then 20%nat
  else
    let '(l, r, e) := law_table n in
    if negb (law_guard 0 n X Y) then 0%nat
    else
      let m := lev O X Y Z e in
      if negb (accept_log m lhs) then 1%nat
      else if negb (accept_log m rhs) then 2%nat
      else 0%nat.
