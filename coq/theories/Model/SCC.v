(** Model of fggs/utils.py: [scc] (recursive Tarjan, exactly as coded) and
    [nonterminal_graph]; executable specification checkers used as oracles on
    the implementation's own outputs.  Definitions only; proofs are in
    Proofs/SCC_*.v. *)
From Coq Require Import List Arith Bool PeanoNat.
Import ListNotations.

(** A Python [dict[T, dict[T, None]]]: association list in insertion order;
    vertices are numbered by the harness in order of first appearance. *)
Definition graph := list (nat * list nat).

Fixpoint succs (g : graph) (v : nat) : list nat :=
  match g with
  | [] => []
  | (u, ws) :: g => if Nat.eqb u v then ws else succs g v
  end.

Definition verts (g : graph) : list nat := map fst g.

Definition mem (l : list nat) (x : nat) : bool := existsb (Nat.eqb x) l.

(** every successor is a key (otherwise Python raises KeyError at [g[w]]) and keys are distinct *)
Fixpoint nodupb (l : list nat) : bool :=
  match l with [] => true | x :: l => negb (mem l x) && nodupb l end.
Definition closed (g : graph) : bool :=
  nodupb (verts g) && forallb (fun p => nodupb (snd p) && forallb (mem (verts g)) (snd p)) g.

(** * Tarjan, as coded *)
Record st := { idx : nat; indexof : list (nat * nat); lowlink : list (nat * nat);
               stack : list nat; comps : list (list nat) }.

Fixpoint get (m : list (nat * nat)) (k : nat) : option nat :=
  match m with [] => None | (a, b) :: m => if Nat.eqb a k then Some b else get m k end.
Definition getd m k := match get m k with Some x => x | None => 0 end.
Fixpoint set (m : list (nat * nat)) (k v : nat) : list (nat * nat) :=
  match m with
  | [] => [(k, v)]
  | (a, b) :: m => if Nat.eqb a k then (a, v) :: m else (a, b) :: set m k v
  end.

(** [while v not in comp: w = stack.pop(); comp[w] = None]: component in pop order *)
Fixpoint pop_until (v : nat) (s : list nat) : list nat * list nat :=
  match s with
  | [] => ([], [])
  | w :: s => if Nat.eqb w v then ([w], s) else let (c, r) := pop_until v s in (w :: c, r)
  end.

Definition set_low (s : st) (v x : nat) : st :=
  {| idx := idx s; indexof := indexof s; lowlink := set (lowlink s) v x; stack := stack s; comps := comps s |}.

Fixpoint visit (fuel : nat) (g : graph) (v : nat) (s : st) : option st :=
  match fuel with
  | 0 => None
  | S fuel =>
    let s := {| idx := S (idx s); indexof := set (indexof s) v (idx s); lowlink := set (lowlink s) v (idx s);
                stack := v :: stack s; comps := comps s |} in
    let fix go (ws : list nat) (s : st) : option st :=
      match ws with
      | [] => Some s
      | w :: ws =>
        match get (indexof s) w with
        | None => match visit fuel g w s with
                  | None => None
                  | Some s' => go ws (set_low s' v (Nat.min (getd (lowlink s') v) (getd (lowlink s') w)))
                  end
        | Some iw => if mem (stack s) w
                     then go ws (set_low s v (Nat.min (getd (lowlink s) v) iw))
                     else go ws s
        end
      end in
    match go (succs g v) s with
    | None => None
    | Some s => if Nat.eqb (getd (lowlink s) v) (getd (indexof s) v)
                then let (c, r) := pop_until v (stack s) in
                     Some {| idx := idx s; indexof := indexof s; lowlink := lowlink s; stack := r; comps := comps s ++ [c] |}
                else Some s
    end
  end.

Definition init_st : st := {| idx := 0; indexof := []; lowlink := []; stack := []; comps := [] |}.

Fixpoint scc_loop (fuel : nat) (g : graph) (vs : list nat) (s : st) : option st :=
  match vs with
  | [] => Some s
  | v :: vs =>
    match get (indexof s) v with
    | Some _ => scc_loop fuel g vs s
    | None => match visit fuel g v s with None => None | Some s => scc_loop fuel g vs s end
    end
  end.

(** [None] = out of fuel (proved impossible for closed graphs in Proofs) *)
Definition scc (g : graph) : option (list (list nat)) :=
  match scc_loop (S (length g)) g (verts g) init_st with
  | None => None
  | Some s => Some (comps s)
  end.

(** * Executable specification (the oracle) *)
Definition add_new (acc : list nat) (w : nat) : list nat := if mem acc w then acc else acc ++ [w].
Definition reach_step (g : graph) (r : list nat) : list nat :=
  fold_left (fun acc v => fold_left add_new (succs g v) acc) r r.
Fixpoint reach_n (n : nat) (g : graph) (r : list nat) : list nat :=
  match n with 0 => r | S n => reach_n n g (reach_step g r) end.
(** [reaches g u v]: a path of length >= 0 from u to v *)
Definition reaches (g : graph) (u v : nat) : bool := mem (reach_n (length g) g [u]) v.
Definition same_scc (g : graph) (u v : nat) : bool := reaches g u v && reaches g v u.

Fixpoint ordered_ok (g : graph) (cs : list (list nat)) : bool :=
  match cs with
  | [] => true
  | c :: rest =>
    forallb (fun u => forallb (fun d => forallb (fun v => negb (same_scc g u v) && negb (mem (succs g u) v)) d) rest) c
    && ordered_ok g rest
  end.

Definition scc_ok (g : graph) (cs : list (list nat)) : bool :=
  let flat := concat cs in
  Nat.eqb (length flat) (length (verts g))
  && nodupb flat
  && forallb (mem flat) (verts g)
  && forallb (fun c => negb (Nat.eqb (length c) 0)) cs
  && forallb (fun c => forallb (fun u => forallb (fun v => same_scc g u v) c) c) cs
  && ordered_ok g cs.

Definition list_eqb (a b : list nat) : bool :=
  Nat.eqb (length a) (length b) && forallb (fun p => Nat.eqb (fst p) (snd p)) (combine a b).
Definition llist_eqb (a b : list (list nat)) : bool :=
  Nat.eqb (length a) (length b) && forallb (fun p => list_eqb (fst p) (snd p)) (combine a b).

(** verdict: 0 ok; 1 the oracle rejects the implementation's output;
    2 input not closed (harness bug); 10 output differs from the model's (order inside/between components) *)
Definition scc_check (x : graph * list (list nat)) : nat :=
  let (g, out) := x in
  if negb (closed g) then 2
  else if negb (scc_ok g out) then 1
  else match scc g with
       | Some cs => if llist_eqb cs out then 0 else 10
       | None => 11
       end.

(** * nonterminal_graph *)
(** an HRG seen by [nonterminal_graph]: nonterminals in label-table order, and rules
    in [all_rules] order as (lhs, rhs edge labels in edge order with their is_nonterminal flag) *)
Definition rules_t := list (nat * list (nat * bool)).

Fixpoint upd (g : graph) (x : nat) (w : nat) : graph :=
  match g with
  | [] => []
  | (u, ws) :: g => if Nat.eqb u x then (u, add_new ws w) :: g else (u, ws) :: upd g x w
  end.

Definition ntgraph (nts : list nat) (rules : rules_t) : graph :=
  fold_left (fun (g : graph) (r : nat * list (nat * bool)) =>
               fold_left (fun (g : graph) (e : nat * bool) => if snd e then upd g (fst r) (fst e) else g) (snd r) g)
            rules (map (fun x => (x, @nil nat)) nts).

Definition has_edge_spec (rules : rules_t) (x y : nat) : bool :=
  existsb (fun r => Nat.eqb (fst r) x && existsb (fun e => snd e && Nat.eqb (fst e) y) (snd r)) rules.

Definition ntg_ok (nts : list nat) (rules : rules_t) (g : graph) : bool :=
  list_eqb (verts g) nts
  && forallb (fun x => forallb (fun y => Bool.eqb (mem (succs g x) y) (has_edge_spec rules x y)) nts
                       && forallb (mem nts) (succs g x)) nts.

Definition graph_eqb (a b : graph) : bool :=
  list_eqb (verts a) (verts b) && llist_eqb (map snd a) (map snd b).

(** verdict: 0 ok; 1 oracle rejects; 10 differs from the model in order only *)
Definition ntg_check (x : list nat * rules_t * graph) : nat :=
  let '(nts, rules, out) := x in
  if negb (ntg_ok nts rules out) then 1
  else if graph_eqb (ntgraph nts rules) out then 0 else 10.
