(** C13 -- [PatternedTensor.equal], [allclose], [equal_default], [allclose_default] of
    fggs/indices.py and [MultiTensor.allclose] of fggs/multi.py, modelled statement by statement.

    [equal] and [allclose] have the same skeleton and differ only in the comparison applied to a
    pair (element of self's side, element of other's side); the skeleton is [compare_model],
    generic in that comparison [cmp]:

      s = self.size();  if s != other.size(): return False
      n = s.numel()
      if not self.isdisjoint(other): other = other.freshen()
      selfok  = cmp(self.physical, other.default)          (one verdict per physical element)
      otherok = cmp(self.default, other.physical)
      subst = {}
      if all(v.unify(u, subst) for v, u in zip(self.vaxes, other.vaxes)):
          subself, subaxes = project(self.physical, None, self.paxes, subst)
          subother, _      = project(other.physical, subaxes, other.paxes, subst)
          if not all(cmp(subself, subother)): return False
          project(selfok , None, self .paxes, subst)[0].fill_(True)
          project(otherok, None, other.paxes, subst)[0].fill_(True)
          n += subself.numel()
      return (n <= selfok.numel() + otherok.numel() or cmp(self.default, other.default))
             and selfok.all() and otherok.all()

    [project(virtual, None, paxes, subst)] is modelled by [overlap_model]: one [(offset, stride dict)]
    per physical axis from [Axis.stride] under the unifier, the view's axes = keys of the merged
    stride dict in insertion order, the element addressed by an assignment [g] of the view's axes
    is the physical element with coordinates [o_i + sum_k s_i[k] * g k].  Definitions only; the
    proofs are in Proofs/PTEqual_*.v. *)
From Coq Require Import List Arith Lia PeanoNat Bool PArith QArith Qcanon.
Import ListNotations.
Require Import Fggs.Model.Axis Fggs.Model.AxisCheck Fggs.Model.XVal Fggs.Model.PTensor Fggs.Model.PTensorCheck.
Local Open Scope nat_scope.

(** * the two projected views *)
Record overlap : Type := mkOv {
  ov_sub : list pn;                    (* subaxes: the axes of the two views *)
  ov_self : list (nat * lin);          (* per physical axis of self: offset and stride dict *)
  ov_other : list (nat * lin) }.       (* per physical axis of other *)

Definition paxes_axes (ps : list pn) : list axis := map (fun kn => Phys (fst kn) (snd kn)) ps.

(** keys of the stride dict that [project] accumulates ([stride[k] = stride.get(k, 0) + s[k] * n]),
    in insertion order *)
Definition stride_keys (ss : list (nat * lin)) : list positive :=
  map fst (fold_left (fun acc os => lin_merge acc (snd os)) ss []).

Definition sub_fuel (sigma : subst) : nat := asize_list (map snd sigma) + length sigma + 4.

(** [paxes = tuple(stride.keys())], each with the size its PhysicalAxis object carries *)
Definition subaxes_of (fuel : nat) (sigma : subst) (es : list axis) (ss : list (nat * lin)) : res (list pn) :=
  fvs <- fv_list fuel sigma es ;;
  mapM (fun k => match assoc k fvs with Some n => Ok (k, n) | None => Fail OtherError end) (stride_keys ss).

(** coordinates (in the physical tensor) of the view element at [g] *)
Definition view_coords (ss : list (nat * lin)) (g : list pn) : list nat :=
  map (fun os => fst os + lin_eval (env_of g) (snd os)) ss.

(** the pairs (coordinates in self.physical, coordinates in other.physical) of the two views,
    in the views' common row-major order *)
Definition ov_pairs (o : overlap) : list (list nat * list nat) :=
  map (fun g => (view_coords (ov_self o) g, view_coords (ov_other o) g)) (all_envs (ov_sub o)).

Section Compare.
Variable V : Type.
Variable cmp : V -> V -> bool.           (* (self's side, other's side) *)

(** [self.isdisjoint(other)] *)
Definition pt_isdisjoint (t u : ptensor V) : bool :=
  forallb (fun kn => negb (existsb (Pos.eqb (fst kn)) (map fst (paxes u)))) (paxes t).

(** unify the patterns; on success build the two views.  [None] = the [all(...)] was False.
    With [__debug__] a view of [other] whose free axes differ from [subaxes] raises ValueError
    (KeyError / silently ignored axes under -O): [Fail OtherError]. *)
Definition overlap_model (next : positive) (t u : ptensor V) : res (option overlap) :=
  let es := vaxes t in
  let fs := vaxes u in
  r <- unify_list (unify_fuel es fs) es fs {| us_subst := []; us_next := next; us_warn := false |} ;;
  if fst r then
    let sigma := us_subst (snd r) in
    let fuel := sub_fuel sigma in
    let pe := paxes_axes (paxes t) in
    let pf := paxes_axes (paxes u) in
    ss <- mapM (stride fuel sigma) pe ;;
    sub <- subaxes_of fuel sigma pe ss ;;
    su <- mapM (stride fuel sigma) pf ;;
    if seteq Pos.eqb (stride_keys su) (map fst sub)
    then Ok (Some (mkOv sub ss su))
    else Fail OtherError
  else Ok None.

(** coordinates of all elements of a physical tensor *)
Definition pcoords_all (ps : list pn) : list (list nat) := map (map snd) (all_envs ps).

Definition marked (c : list nat) (l : list (list nat)) : bool := memb nat_list_eqb c l.

(** the part after the size test and the freshening *)
Definition compare_core (next : positive) (t u : ptensor V) : res bool :=
  let n := fold_right Nat.mul 1 (shape V t) in
  let selfok0 := fun c => cmp (physical t c) (default u) in
  let otherok0 := fun c => cmp (default t) (physical u c) in
  ov <- overlap_model next t u ;;
  match ov with
  | Some o =>
      let cs := ov_pairs o in
      if negb (forallb (fun cc => cmp (physical t (fst cc)) (physical u (snd cc))) cs) then Ok false
      else
        let selfok := fun c => selfok0 c || marked c (map fst cs) in
        let otherok := fun c => otherok0 c || marked c (map snd cs) in
        Ok (((n + pnumel (ov_sub o) <=? pnumel (paxes t) + pnumel (paxes u)) || cmp (default t) (default u))
            && forallb selfok (pcoords_all (paxes t)) && forallb otherok (pcoords_all (paxes u)))
  | None =>
      Ok (((n <=? pnumel (paxes t) + pnumel (paxes u)) || cmp (default t) (default u))
          && forallb selfok0 (pcoords_all (paxes t)) && forallb otherok0 (pcoords_all (paxes u)))
  end.

(** [other] after [if not self.isdisjoint(other): other = other.freshen()] *)
Definition freshened (next : positive) (t u : ptensor V) : ptensor V * positive :=
  if pt_isdisjoint t u then (u, next) else pt_freshen V next u.

Definition compare_model (next : positive) (t u : ptensor V) : res bool :=
  if negb (nat_list_eqb (shape V t) (shape V u)) then Ok false
  else let '(u', next') := freshened next t u in compare_core next' t u'.

(** [equal_default] / [allclose_default]: every physical element against the tensor's own default *)
Definition default_model (t : ptensor V) : bool :=
  forallb (fun c => cmp (physical t c) (default t)) (pcoords_all (paxes t)).

(** the specification: same shape and the comparison holds cell by cell of the denotations
    ([dspec]-style brute force is in the check function; this one uses [denote]) *)
Definition pointwise_b (t u : ptensor V) : bool :=
  nat_list_eqb (shape V t) (shape V u) &&
  forallb (fun idx => cmp (denote V t idx) (denote V u idx)) (all_idx (shape V t)).

End Compare.

(** * the concrete carrier *)

Definition xfinite (a : xval) : bool := match a with XF _ => true | _ => false end.

(** [torch.isclose(a, b, rtol, atol, equal_nan)]:
      close = (a == b); if equal_nan: close |= isnan(a) & isnan(b);
      close |= isfinite(|a - b|) & (|a - b| <= atol + |rtol * b|)
    (an infinite operand makes [|a - b|] infinite or NaN, so only equal infinities are close) *)
Definition xisclose (rtol atol : Qc) (equal_nan : bool) (a b : xval) : bool :=
  xeq_num a b || (equal_nan && xisnan a && xisnan b) ||
  match a, b with
  | XF p, XF q => Qle_bool (this (qcabs (Qcminus p q))) (this (Qcplus atol (qcabs (Qcmult rtol q))))
  | _, _ => false
  end.

Definition equal_model (next : positive) (t u : pt) : res bool := compare_model xval xeq_num next t u.
Definition allclose_model (rtol atol : Qc) (equal_nan : bool) (next : positive) (t u : pt) : res bool :=
  compare_model xval (xisclose rtol atol equal_nan) next t u.
Definition equal_default_model (t : pt) : bool := default_model xval xeq_num t.
(** [self.physical.allclose(new_tensor(self.default), rtol, atol, equal_nan=True)] *)
Definition allclose_default_model (rtol atol : Qc) (t : pt) : bool := default_model xval (xisclose rtol atol true) t.

(** * [MultiTensor.allclose(other, tol)]: a MultiTensor is its dict (keys numbered by the harness) *)
Definition multi := list (nat * pt).

Fixpoint mt_get (k : nat) (m : multi) : option pt :=
  match m with
  | [] => None
  | (k', t) :: m => if Nat.eqb k' k then Some t else mt_get k m
  end.

(** [for x in l: if not f(x): return False] ... [return True], with exceptions *)
Fixpoint all_res {A} (f : A -> res bool) (l : list A) : res bool :=
  match l with
  | [] => Ok true
  | x :: l => b <- f x ;; if b then all_res f l else Ok false
  end.

Definition is_zero_tol (tol : Qc) : bool := Qc_eq_bool tol 0%Qc.

(** one block against the other side *)
Definition mt_cmp2 (tol : Qc) (next : positive) (t u : pt) : res bool :=
  if is_zero_tol tol then equal_model next t u else allclose_model 0%Qc tol false next t u.
Definition mt_cmp1 (tol : Qc) (t : pt) : bool :=
  if is_zero_tol tol then equal_default_model t else allclose_default_model 0%Qc tol t.

(** [assert(t.default == self.semiring.from_int(0).item())] = [Fail OtherError] when violated *)
Definition mt_absent (zero : xval) (tol : Qc) (t : pt) : res bool :=
  if xeq_num (default t) zero then Ok (mt_cmp1 tol t) else Fail OtherError.

Definition mt_allclose_model (zero : xval) (tol : Qc) (next : positive) (a b : multi) : res bool :=
  r <- all_res (fun kt => match mt_get (fst kt) b with
                          | Some u => mt_cmp2 tol next (snd kt) u
                          | None => mt_absent zero tol (snd kt)
                          end) a ;;
  if r then
    all_res (fun kt => match mt_get (fst kt) a with
                       | Some _ => Ok true
                       | None => mt_absent zero tol (snd kt)
                       end) b
  else Ok false.

(** * premise of the correctness theorem, executable: the two views computed from the unifier
    enumerate exactly the coincidences of the two patterns, each once.
    (Consequence of soundness + completeness of [unify]; checked by brute force here.) *)
Definition coincide_b (t u : pt) (pi pj : list pn) : bool :=
  nat_list_eqb (evals (env_of pi) (vaxes t)) (evals (env_of pj) (vaxes u)).

Definition pair_eqb (a b : list nat * list nat) : bool :=
  nat_list_eqb (fst a) (fst b) && nat_list_eqb (snd a) (snd b).

(** (coordinates of a physical element, the cell it backs) for every element *)
Definition cell_table (t : pt) : list (list nat * list nat) :=
  map (fun pi => (map snd pi, evals (env_of pi) (vaxes t))) (all_envs (paxes t)).

Fixpoint tlookup (c : list nat) (T : list (list nat * list nat)) : option (list nat) :=
  match T with
  | [] => None
  | (c', cell) :: T => if nat_list_eqb c' c then Some cell else tlookup c T
  end.

Definition overlap_ok_b (t u : pt) (cs : list (list nat * list nat)) : bool :=
  let Tt := cell_table t in
  let Tu := cell_table u in
  nodup_tuples (map fst cs)
  && forallb (fun cc => match tlookup (fst cc) Tt, tlookup (snd cc) Tu with
                        | Some a, Some b => nat_list_eqb a b
                        | _, _ => false
                        end) cs
  && forallb (fun a => forallb (fun b => negb (nat_list_eqb (snd a) (snd b)) || memb pair_eqb (fst a, fst b) cs) Tu) Tt.

Definition overlap_exact_b (next : positive) (t u : pt) : bool :=
  match overlap_model xval next t u with
  | Ok (Some o) => overlap_ok_b t u (ov_pairs o)
  | Ok None => overlap_ok_b t u []
  | Fail _ => false
  end.

(** the full premise for a call [t.equal(u)] / [t.allclose(u)]: both operands satisfy the
    representation invariant and the overlap of [t] with (the possibly freshened) [u] is exact *)
Definition wf_b (t : pt) : bool := repr_inv_b (map snd (paxes t)) (paxes t) (vaxes t).

Definition compare_pre_b (next : positive) (t u : pt) : bool :=
  let '(u', next') := freshened xval next t u in
  wf_b t && wf_b u && overlap_exact_b next' t u'.

(** * check function (model side of the correspondence)
    input: mode (0 equal, 1 allclose, 2 equal_default, 3 allclose_default), rtol, atol, equal_nan,
    the two tensors (the second is ignored by modes 2, 3), the implementation's answer
    (0 False, 1 True, 2 exception).
    verdicts: 1 = implementation says True but the denoted dense tensors differ in some cell (or in shape),
    2 = implementation says False but they agree everywhere, 3 = exception,
    10 = implementation differs from the model, 11 = model failed, 20 = malformed input,
    30 = everything agrees but the premise [compare_pre_b] of the correctness theorem is false for this pair
    (informative: the theorem does not speak about the pair; not expected on typed pairs). *)
Definition spec_cmp (mode : nat) (rtol atol : Qc) (equal_nan : bool) : xval -> xval -> bool :=
  match mode with
  | 0 | 2 => xeq_num
  | 1 => xisclose rtol atol equal_nan
  | _ => xisclose rtol atol true
  end.

(** oracle: pointwise comparison of the dense denotations, the denotation computed by definition
    ([dspec]: search for the backing environment), independently of [index] *)
Definition dense_pointwise (cmp : xval -> xval -> bool) (t u : pt) : bool :=
  nat_list_eqb (shape xval t) (shape xval u) &&
  forallb (fun idx => cmp (dspec t idx) (dspec u idx)) (all_idx (shape xval t)).

(** for [equal_default] / [allclose_default]: every cell against the default *)
Definition dense_default (cmp : xval -> xval -> bool) (t : pt) : bool :=
  forallb (fun idx => cmp (dspec t idx) (default t)) (all_idx (shape xval t)).

Definition c13_check (x : nat * Q * Q * bool * wtensor * wtensor * nat) : nat :=
  let '(mode, rtol, atol, equal_nan, wt, wu, impl) := x in
  if negb (wire_ok wt && wire_ok wu) then 20
  else
    let t := of_wire wt in
    let u := of_wire wu in
    let rt := Q2Qc rtol in
    let at_ := Q2Qc atol in
    let cmp := spec_cmp mode rt at_ equal_nan in
    let spec := if mode <? 2 then dense_pointwise cmp t u else dense_default cmp t in
    let oracle :=
      match impl with
      | 0 => if spec then 2 else 0
      | 1 => if spec then 0 else 1
      | _ => 3
      end in
    if negb (Nat.eqb oracle 0) then oracle
    else
      let next := Pos.succ (max_uid [wt; wu]) in
      let m := match mode with
               | 0 => equal_model next t u
               | 1 => allclose_model rt at_ equal_nan next t u
               | 2 => Ok (equal_default_model t)
               | _ => Ok (allclose_default_model rt at_ t)
               end in
      match m with
      | Ok b => if Nat.eqb impl (if b then 1 else 0)
                then (if (mode <? 2) && nat_list_eqb (shape xval t) (shape xval u) && negb (compare_pre_b next t u) then 30 else 0)
                else 10
      | Fail _ => 11
      end.

(** [MultiTensor.allclose]: (zero of the semiring, tol, self dict, other dict, implementation's answer
    0 False / 1 True / 2 AssertionError / 3 other exception).
    oracle: cell by cell over the union of the keys, an absent block read as the zero block
    (shape taken from the present one). *)
Definition wmulti := list (nat * wtensor).

Definition mt_spec (zero : xval) (tol : Qc) (a b : multi) : bool :=
  let cmp := if is_zero_tol tol then xeq_num else xisclose 0%Qc tol false in
  forallb (fun kt => match mt_get (fst kt) b with
                     | Some u => dense_pointwise cmp (snd kt) u
                     | None => forallb (fun idx => cmp (dspec (snd kt) idx) zero) (all_idx (shape xval (snd kt)))
                     end) a
  && forallb (fun kt => match mt_get (fst kt) a with
                        | Some _ => true
                        | None => forallb (fun idx => cmp zero (dspec (snd kt) idx)) (all_idx (shape xval (snd kt)))
                        end) b.

Definition c13_multi_check (x : (nat * Q) * Q * wmulti * wmulti * nat) : nat :=
  let '(wzero, tol, wa, wb, impl) := x in
  if negb (forallb (fun kw => wire_ok (snd kw)) (wa ++ wb)) then 20
  else
    let zero := xval_of wzero in
    let a := map (fun kw => (fst kw, of_wire (snd kw))) wa in
    let b := map (fun kw => (fst kw, of_wire (snd kw))) wb in
    let tl := Q2Qc tol in
    let spec := mt_spec zero tl a b in
    let oracle :=
      match impl with
      | 0 => if spec then 2 else 0
      | 1 => if spec then 0 else 1
      | 2 => 0            (* AssertionError: a block with a non-zero default; only compared with the model *)
      | _ => 3
      end in
    if negb (Nat.eqb oracle 0) then oracle
    else
      let next := Pos.succ (max_uid (map snd (wa ++ wb))) in
      match mt_allclose_model zero tl next a b, impl with
      | Ok b', 0 => if b' then 10 else 0
      | Ok b', 1 => if b' then 0 else 10
      | Fail OtherError, 2 => 0
      | Ok _, _ => 10
      | Fail _, _ => 11
      end.
