(** C11 -- magnitudes: what every solver method must return for a component whose values are tiny
    or huge relative to [tol].

    The scalar polynomial system  x = c x^2 + a x + b  (grammar X -> X X c | a X | b, one copy per
    element of a domain; a, b, c >= 0) has a least nonnegative solution whenever some [hi] with
    F(hi) <= hi exists.  A *certificate* [lo, hi] (0 <= lo <= F(lo), F(hi) <= hi, F'(hi) < 1) encloses
    it (Proofs/Magnitude_proofs.v: every nonnegative pre-fixed point is >= lo, every Kleene iterate
    is <= hi), so the check never needs the (irrational) solution itself.

    What the three methods guarantee, with L = F'(hi) < 1 and the stopping distance tol (absolute):
      - linear      : the exact solution (slack 0);
      - fixed-point : an iterate x_k with F(x_k) - x_k <= tol, hence at most tol/(1-L) below;
      - newton      : at least F(x_k) for such an x_k, hence at most tol*L/(1-L) below;
    and EVERY method returns at least the first Kleene iterate F(0) = b (fixed_point keeps F(0) when
    the very first test succeeds; newton ends with x.maximum_(F(x))).  Since b >= (1-L) x*, the
    relative error of every method is at most L whatever tol is: a component whose values are all
    below tol is still returned to first order, never as 0. *)
From Coq Require Import QArith Bool List.
Import ListNotations.
Local Open Scope Q_scope.

Definition qF (a b c x : Q) : Q := c * x * x + a * x + b.
Definition qL (a c x : Q) : Q := 2 * c * x + a.                 (* F'(x) *)
Fixpoint qiter (a b c : Q) (k : nat) : Q :=
  match k with O => 0 | S k => qF a b c (qiter a b c k) end.

Definition Qlt_bool (x y : Q) : bool := negb (Qle_bool y x).

(** [lo, hi] encloses the least nonnegative solution of x = F(x) *)
Definition cert_ok (a b c lo hi : Q) : bool :=
  Qle_bool 0 a && Qle_bool 0 b && Qle_bool 0 c && Qle_bool 0 lo && Qle_bool lo hi
  && Qle_bool lo (qF a b c lo) && Qle_bool (qF a b c hi) hi && Qlt_bool (qL a c hi) 1.

(** how far below the solution the method may stop: kind 0 = linear, 1 = fixed-point, 2.. = newton *)
Definition slack (kind : nat) (tol L : Q) : Q :=
  match kind with
  | O => 0
  | S O => tol / (1 - L)
  | _ => tol * L / (1 - L)
  end.

Definition qmax (x y : Q) : Q := if Qle_bool x y then y else x.

(** smallest value a method may return: the solution minus the slack, but never less than b = F(0) *)
Definition xmin (kind : nat) (tol a b c lo hi : Q) : Q :=
  qmax b (lo - slack kind tol (qL a c hi)).

Definition within (l u eps obs : Q) : bool :=
  Qle_bool (l * (1 - eps)) obs && Qle_bool obs (u * (1 + eps)).

(** one element of the domain: coefficients, certificate, downstream factor g (Z = sum g x), the
    multiplier mb of dZ/d(base weight) (= g times the upstream scale), and the observations
    x, dZ/d(base weight), dZ/dg *)
Definition mag_elem : Type := (Q * Q * Q) * (Q * Q) * (Q * Q) * (Q * Q * Q).

(** 0 accepted; 1 value outside; 3 dZ/db outside; 4 dZ/dg outside; 20 certificate invalid *)
Definition elem_check (kind : nat) (tol eps epsg : Q) (withgrad : bool) (e : mag_elem) : nat :=
  let '((a, b, c), (lo, hi), (g, mb), (ox, ogb, ogg)) := e in
  if negb (cert_ok a b c lo hi && Qle_bool 0 g && Qle_bool 0 mb) then 20%nat else
  let xm := xmin kind tol a b c lo hi in
  if negb (within xm hi eps ox) then 1%nat else
  if withgrad && negb (within (mb / (1 - qL a c xm)) (mb / (1 - qL a c hi)) epsg ogb) then 3%nat else
  if withgrad && negb (within xm hi epsg ogg) then 4%nat else 0%nat.

Fixpoint first_bad (l : list nat) : nat :=
  match l with [] => 0%nat | c :: r => match c with O => first_bad r | _ => c end end.

Definition zlow (kind : nat) (tol : Q) (es : list mag_elem) : Q :=
  fold_right (fun (e : mag_elem) s => let '((a, b, c), (lo, hi), (g, _), _) := e in g * xmin kind tol a b c lo hi + s) 0 es.
Definition zhigh (es : list mag_elem) : Q :=
  fold_right (fun (e : mag_elem) s => let '(_, (_, hi), (g, _), _) := e in g * hi + s) 0 es.

(** the check function: ((kind, withgrad), (tol, eps, epsg), elements, observed Z);
    verdicts of [elem_check], and 2 = Z outside [sum g xmin, sum g hi] *)
Definition mag_check (t : (nat * bool) * (Q * Q * Q) * list mag_elem * Q) : nat :=
  let '((kind, withgrad), (tol, eps, epsg), es, oz) := t in
  if negb (Qle_bool 0 tol && Qle_bool 0 eps && Qlt_bool eps 1 && Qle_bool 0 epsg && Qlt_bool epsg 1) then 21%nat else
  match first_bad (map (elem_check kind tol eps epsg withgrad) es) with
  | O => if within (zlow kind tol es) (zhigh es) eps oz then 0%nat else 2%nat
  | c => c
  end.
