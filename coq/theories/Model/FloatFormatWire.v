(** C08: wire format of the float-format cases.  Coq interprets an arbitrary-precision integer
    literal in ~2 ms but a primitive 63-bit integer literal in ~0.05 ms, so every packed case of
    Model/FloatFormat.v ([ffmt_*_check_z]) travels as FOUR primitive integers of 62 bits each,
    least significant first.  Used only by the generated case files (vm_compute); no theorem
    depends on this file. *)
From Coq Require Import ZArith List Uint63.
Require Import Fggs.Model.FloatFormat.

Fixpoint unpack4 (l : list int) : list Z :=
  match l with
  | a :: b :: c :: d :: t =>
      (to_Z a + Z.shiftl (to_Z b) 62 + Z.shiftl (to_Z c) 124 + Z.shiftl (to_Z d) 186)%Z :: unpack4 t
  | _ => nil
  end.

Definition ffw_binop (l : list int) : list nat := List.map ffmt_binop_check_z (unpack4 l).
Definition ffw_unop (l : list int) : list nat := List.map ffmt_unop_check_z (unpack4 l).
Definition ffw_cmp (l : list int) : list nat := List.map ffmt_cmp_check_z (unpack4 l).
Definition ffw_from_int (l : list int) : list nat := List.map ffmt_from_int_check_z (unpack4 l).
