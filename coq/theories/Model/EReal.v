(** The carrier of RealSemiring and (read through exp) LogSemiring: [0, +inf] over the
    rationals, with 0 * inf = 0.  Non-negativity is part of the type (a boolean proof, so
    equality stays Leibniz without axioms) because the semiring laws fail on negative numbers
    (inf * (1 + (-1)) <> inf * 1 + inf * (-1)). *)
From Coq Require Import QArith Qcanon Lqa Bool Eqdep_dec.
Require Import Fggs.Model.Semiring.
Local Open Scope Qc_scope.

Lemma this_plus a b : (this (a + b) == this a + this b)%Q.
Proof. unfold Qcplus, Q2Qc; cbn [this]; apply Qred_correct. Qed.
Lemma this_mult a b : (this (a * b) == this a * this b)%Q.
Proof. unfold Qcmult, Q2Qc; cbn [this]; apply Qred_correct. Qed.
Lemma this_opp a : (this (- a) == - this a)%Q.
Proof. unfold Qcopp, Q2Qc; cbn [this]; apply Qred_correct. Qed.
Lemma this_minus a b : (this (a - b) == this a - this b)%Q.
Proof. unfold Qcminus. rewrite this_plus, this_opp. reflexivity. Qed.
Lemma this_inv a : (this (/ a) == / this a)%Q.
Proof. unfold Qcinv, Q2Qc; cbn [this]; apply Qred_correct. Qed.

Definition nnb (q : Qc) : bool := Qle_bool 0 (this q).
Record nnq : Type := { qv : Qc; qnn : nnb qv = true }.

Lemma nnq_eq (a b : nnq) : qv a = qv b -> a = b.
Proof.
  destruct a as [a Ha], b as [b Hb]; cbn. intros ->.
  f_equal. apply UIP_dec. apply bool_dec.
Qed.

Lemma nnb_le q : nnb q = true <-> (0 <= this q)%Q.
Proof. unfold nnb. apply Qle_bool_iff. Qed.

Lemma nn_plus a b : nnb a = true -> nnb b = true -> nnb (a + b) = true.
Proof. rewrite !nnb_le, this_plus. intros. lra. Qed.
Lemma nn_mult a b : nnb a = true -> nnb b = true -> nnb (a * b) = true.
Proof. rewrite !nnb_le, this_mult. intros. apply Qmult_le_0_compat; assumption. Qed.
Lemma nn_0 : nnb 0 = true. Proof. reflexivity. Qed.
Lemma nn_1 : nnb 1 = true. Proof. reflexivity. Qed.

Definition nn0 : nnq := {| qv := 0; qnn := nn_0 |}.
Definition nn1 : nnq := {| qv := 1; qnn := nn_1 |}.
Definition nnadd (a b : nnq) : nnq := {| qv := qv a + qv b; qnn := nn_plus _ _ (qnn a) (qnn b) |}.
Definition nnmul (a b : nnq) : nnq := {| qv := qv a * qv b; qnn := nn_mult _ _ (qnn a) (qnn b) |}.

(** clamp an arbitrary rational into the carrier (negative numbers are not in the domain) *)
Definition nn_of_Qc (q : Qc) : nnq :=
  match Sumbool.sumbool_of_bool (nnb q) with
  | left H => {| qv := q; qnn := H |}
  | right _ => nn0
  end.
Definition nn_of_Q (q : Q) : nnq := nn_of_Qc (Q2Qc q).

Lemma nn_of_Qc_qv q : nnb q = true -> qv (nn_of_Qc q) = q.
Proof. intros H. unfold nn_of_Qc. destruct (Sumbool.sumbool_of_bool (nnb q)) as [e|e]; [reflexivity | congruence]. Qed.

Inductive ereal : Type := Fin (q : nnq) | PInf.

Definition is0 (a : nnq) : bool := Qeq_bool (this (qv a)) 0.

Definition eadd (x y : ereal) : ereal :=
  match x, y with Fin a, Fin b => Fin (nnadd a b) | _, _ => PInf end.
Definition emul (x y : ereal) : ereal :=
  match x, y with
  | Fin a, Fin b => Fin (nnmul a b)
  | Fin a, PInf => if is0 a then Fin nn0 else PInf
  | PInf, Fin b => if is0 b then Fin nn0 else PInf
  | PInf, PInf => PInf
  end.
(** 1/(1-x) for x < 1, inf otherwise *)
Definition estar (x : ereal) : ereal :=
  match x with
  | Fin a => if Qle_bool 1 (this (qv a)) then PInf else Fin (nn_of_Qc (/ (1 - qv a)))
  | PInf => PInf
  end.
(** RealSemiring.sub: nan_to_num(relu(x - y)) *)
Definition esub (x y : ereal) : ereal :=
  match x, y with
  | Fin a, Fin b => Fin (nn_of_Qc (qv a - qv b))
  | PInf, Fin _ => PInf
  | _, PInf => Fin nn0
  end.
Definition ele (x y : ereal) : Prop :=
  match x, y with
  | Fin a, Fin b => qv a <= qv b
  | _, PInf => True
  | PInf, Fin _ => False
  end.
Definition eleb (x y : ereal) : bool :=
  match x, y with
  | Fin a, Fin b => Qle_bool (this (qv a)) (this (qv b))
  | _, PInf => true
  | PInf, Fin _ => false
  end.
Definition eeqb (x y : ereal) : bool :=
  match x, y with
  | Fin a, Fin b => Qeq_bool (this (qv a)) (this (qv b))
  | PInf, PInf => true
  | _, _ => false
  end.

Definition ereal_ops : sr_ops ereal :=
  {| zero := Fin nn0; one := Fin nn1; add := eadd; mul := emul; star := estar; le := ele |}.

(** wire format: [None] = +inf, [Some q] = the rational q (clamped at 0) *)
Definition ereal_of (x : option Q) : ereal :=
  match x with None => PInf | Some q => Fin (nn_of_Q q) end.

(** lo <= x <= hi for rational bounds (hi = None means +inf); used to compare a float with
    the exact model value: the harness passes [v - tol, v + tol] as exact rationals *)
Definition ereal_within (x : ereal) (lo : Q) (hi : option Q) : bool :=
  match x, hi with
  | Fin a, Some h => Qle_bool lo (this (qv a)) && Qle_bool (this (qv a)) h
  | Fin a, None => Qle_bool lo (this (qv a))
  | PInf, None => true
  | PInf, Some _ => false
  end.
