(** C03 -- which weight tensors are ONE autograd leaf.

    torch accumulates gradients per LEAF (= per physical storage that requires grad): [backward] adds the
    derivative with respect to every use of a leaf into that leaf's [.grad], and [factor.weights.grad] reads
    the [.grad] of the storage behind that factor's weights.  So if the weights of two factors live in one
    storage, each of them reports the SUM of the two derivatives ([leaf_grad]); a factor reports its own
    derivative exactly when no other factor shares its storage.  A constructor / loader / copy path
    (json_to_fgg, FGG.copy, FGG.from_hrg + new_finite_factor, factorize_fgg, conjoin_hrgs + from_hrg) must
    therefore not merge storages the caller had kept apart: [alias_check] compares the partition of the
    factors by storage before and after the path.  Definitions only. *)
From Coq Require Import List Arith Bool PeanoNat.
Import ListNotations.
Require Import Fggs.Model.Semiring.
Local Open Scope nat_scope.

Section Leaf.
Context {R : Type} (o : sr_ops R).

(** [fs] = per factor (storage id, derivative of the loss with respect to that factor's weight entry);
    [leaf_grad fs s] = what autograd leaves in the [.grad] of storage [s] *)
Definition leaf_grad (fs : list (nat * R)) (s : nat) : R :=
  fold_right (fun p acc => if Nat.eqb (fst p) s then add o (snd p) acc else acc) (zero o) fs.

(** what [factor.weights.grad] shows for every factor, in factor order *)
Definition observed_grads (fs : list (nat * R)) : list R :=
  map (fun p => leaf_grad fs (fst p)) fs.
End Leaf.

(** [ps] = per factor (storage id before the path, storage id after it): two factors share storage afterwards
    only if they did before *)
Definition alias_refines (ps : list (nat * nat)) : bool :=
  forallb (fun p => forallb (fun q => implb (Nat.eqb (snd p) (snd q)) (Nat.eqb (fst p) (fst q))) ps) ps.

(** the check function: 0 = no aliasing introduced, 1 = two factors the caller had kept apart share one
    storage afterwards, 2 = malformed observation *)
Definition alias_check (x : list nat * list nat) : nat :=
  let '(pre, post) := x in
  if negb (Nat.eqb (length pre) (length post)) then 2
  else if alias_refines (combine pre post) then 0 else 1.
