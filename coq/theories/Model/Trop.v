(** The carrier of ViterbiSemiring: [-inf, +inf] over the rationals with max and +,
    where (-inf) + (+inf) = -inf (the semiring zero annihilates). *)
From Coq Require Import QArith Qcanon Bool.
Require Import Fggs.Model.Semiring.
Local Open Scope Qc_scope.

Inductive trop : Type := NInf | TFin (q : Qc) | TPInf.

Definition tmax (x y : trop) : trop :=
  match x, y with
  | NInf, z | z, NInf => z
  | TPInf, _ | _, TPInf => TPInf
  | TFin a, TFin b => if Qle_bool (this a) (this b) then TFin b else TFin a
  end.
Definition tplus (x y : trop) : trop :=
  match x, y with
  | NInf, _ | _, NInf => NInf
  | TPInf, _ | _, TPInf => TPInf
  | TFin a, TFin b => TFin (a + b)
  end.
(** least solution of y = max(0, x + y): 0 if x <= 0, +inf otherwise *)
Definition tstar (x : trop) : trop :=
  match x with
  | NInf => TFin 0
  | TFin a => if Qle_bool (this a) 0 then TFin 0 else TPInf
  | TPInf => TPInf
  end.
Definition tle (x y : trop) : Prop :=
  match x, y with
  | NInf, _ => True
  | _, TPInf => True
  | TFin a, TFin b => a <= b
  | _, _ => False
  end.
Definition tleb (x y : trop) : bool :=
  match x, y with
  | NInf, _ => true
  | _, TPInf => true
  | TFin a, TFin b => Qle_bool (this a) (this b)
  | _, _ => false
  end.
Definition teqb (x y : trop) : bool :=
  match x, y with
  | NInf, NInf | TPInf, TPInf => true
  | TFin a, TFin b => Qeq_bool (this a) (this b)
  | _, _ => false
  end.

Definition trop_ops : sr_ops trop :=
  {| zero := NInf; one := TFin 0; add := tmax; mul := tplus; star := tstar; le := tle |}.

(** wire format: (0, _) = -inf, (1, q) = finite q, (2, _) = +inf *)
Definition trop_of (x : nat * Q) : trop :=
  match fst x with O => NInf | S O => TFin (Q2Qc (snd x)) | _ => TPInf end.

Definition trop_within (x : trop) (lo hi : nat * Q) : bool :=
  tleb (trop_of lo) x && tleb x (trop_of hi).
