(** The value carrier of the tensor-level model of C06: exact (canonical) rationals extended
    with +inf, -inf and NaN, with the IEEE-754 conventions torch follows for the special values
    (signed zeros are not distinguished).  Booleans are the values 0 and 1.  On the dyadic
    rationals the harness generates, float64 arithmetic is exact for +, -, *, comparisons, abs,
    relu, clamp, maximum. *)
From Coq Require Import QArith Qcanon Bool.
Open Scope Qc_scope.

Inductive xval : Type := XF (q : Qc) | XPInf | XNInf | XNaN.

Definition xeqb (a b : xval) : bool :=
  match a, b with
  | XF p, XF q => Qc_eq_bool p q
  | XPInf, XPInf | XNInf, XNInf | XNaN, XNaN => true
  | _, _ => false
  end.

Definition qsign (q : Qc) : comparison := q ?= 0.

Definition xneg (a : xval) : xval :=
  match a with XF q => XF (- q) | XPInf => XNInf | XNInf => XPInf | XNaN => XNaN end.

Definition xadd (a b : xval) : xval :=
  match a, b with
  | XNaN, _ | _, XNaN => XNaN
  | XPInf, XNInf | XNInf, XPInf => XNaN
  | XPInf, _ | _, XPInf => XPInf
  | XNInf, _ | _, XNInf => XNInf
  | XF p, XF q => XF (p + q)
  end.

Definition xsub (a b : xval) : xval := xadd a (xneg b).

Definition inf_of_sign (s : comparison) : xval :=
  match s with Gt => XPInf | Lt => XNInf | Eq => XNaN end.
Definition flip (s : comparison) : comparison := match s with Gt => Lt | Lt => Gt | Eq => Eq end.

Definition xmul (a b : xval) : xval :=
  match a, b with
  | XNaN, _ | _, XNaN => XNaN
  | XF p, XF q => XF (p * q)
  | XF p, XPInf | XPInf, XF p => inf_of_sign (qsign p)
  | XF p, XNInf | XNInf, XF p => inf_of_sign (flip (qsign p))
  | XPInf, XPInf | XNInf, XNInf => XPInf
  | XPInf, XNInf | XNInf, XPInf => XNInf
  end.

Definition xdiv (a b : xval) : xval :=
  match a, b with
  | XNaN, _ | _, XNaN => XNaN
  | XF p, XF q => if Qc_eq_bool q 0 then inf_of_sign (qsign p) else XF (p / q)
  | XF _, XPInf | XF _, XNInf => XF 0
  | XPInf, XF q => match qsign q with Lt => XNInf | _ => XPInf end
  | XNInf, XF q => match qsign q with Lt => XPInf | _ => XNInf end
  | _, _ => XNaN
  end.

Definition xabs (a : xval) : xval :=
  match a with
  | XF q => match qsign q with Lt => XF (- q) | _ => XF q end
  | XPInf | XNInf => XPInf
  | XNaN => XNaN
  end.

Definition xltb (a b : xval) : bool :=
  match a, b with
  | XNaN, _ | _, XNaN => false
  | XF p, XF q => match p ?= q with Lt => true | _ => false end
  | XNInf, XNInf | XPInf, XPInf => false
  | XNInf, _ | _, XPInf => true
  | _, _ => false
  end.
Definition xisnan (a : xval) : bool := match a with XNaN => true | _ => false end.
Definition xleb (a b : xval) : bool := negb (xisnan a) && negb (xisnan b) && negb (xltb b a).
Definition xeq_num (a b : xval) : bool := xleb a b && xleb b a.       (* torch.eq: NaN <> NaN *)

Definition xbool (b : bool) : xval := if b then XF 1 else XF 0.
Definition xtruth (a : xval) : bool := negb (xeqb a (XF 0)).

(** torch.maximum / clamp propagate NaN *)
Definition xmax (a b : xval) : xval :=
  if xisnan a || xisnan b then XNaN else if xltb a b then b else a.
Definition xmin (a b : xval) : xval :=
  if xisnan a || xisnan b then XNaN else if xltb b a then b else a.
Definition xrelu (a : xval) : xval := xmax a (XF 0).

(** largest finite binary64 *)
Definition fmax : Qc := Q2Qc ((2 ^ 1024 - 2 ^ 971)%Z # 1).

Definition xnan_to_num (nan : xval) (posinf neginf : option xval) (a : xval) : xval :=
  match a with
  | XNaN => nan
  | XPInf => match posinf with Some v => v | None => XF fmax end
  | XNInf => match neginf with Some v => v | None => XF (- fmax) end
  | XF _ => a
  end.

Definition xor_ (a b : xval) : xval := xbool (xtruth a || xtruth b).
Definition xand_ (a b : xval) : xval := xbool (xtruth a && xtruth b).
Definition xnot (a : xval) : xval := xbool (negb (xtruth a)).

(** wire format: tag 0 = finite q, 1 = +inf, 2 = -inf, 3 = NaN *)
Definition xval_of (x : nat * Q) : xval :=
  match fst x with
  | O => XF (Q2Qc (snd x))
  | S O => XPInf
  | S (S O) => XNInf
  | _ => XNaN
  end.
