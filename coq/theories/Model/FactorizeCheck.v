(** Check functions (model side of the correspondence) for C05: factorisation. *)
From Coq Require Import QArith Qcanon List Arith Bool PeanoNat.
Local Open Scope nat_scope.
Import ListNotations.
Require Import Fggs.Model.Conj.
Require Import Fggs.Model.TreeDec.
Require Import Fggs.Model.Factorize.
Require Fggs.Model.Semiring Fggs.Model.SCC Fggs.Model.SumProduct Fggs.Model.EReal Fggs.Model.SumProductCheck.

(** * wire types *)
Definition elabel_w := (list nat * list nat * bool)%type.
Definition fedge_w := (nat * elabel_w * list nat)%type.
Definition frule_w := (elabel_w * list (nat * nat) * list fedge_w * list nat)%type.
Definition fhrg_w := (list nat * list elabel_w * elabel_w * list (elabel_w * list frule_w))%type.

Definition elabel_of_w (l : elabel_w) : elabel :=
  let '(n, ty, tm) := l in {| el_name := n; el_type := ty; el_term := tm |}.
Definition fedge_of_w (e : fedge_w) : fedge :=
  let '(i, l, a) := e in {| fe_id := i; fe_lab := elabel_of_w l; fe_att := a |}.
Definition frule_of_w (r : frule_w) : frule :=
  let '(l, ns, es, ex) := r in
  {| fr_lhs := elabel_of_w l; fr_nodes := ns; fr_edges := map fedge_of_w es; fr_ext := ex |}.
Definition fhrg_of_w (h : fhrg_w) : fhrg :=
  let '(nls, els, s, rs) := h in
  {| fh_nlabels := nls; fh_elabels := map elabel_of_w els; fh_start := elabel_of_w s;
     fh_rules := map (fun p => (elabel_of_w (fst p), map frule_of_w (snd p))) rs |}.

(** * well-formed input rules (what [Graph] / [HRGRule] guarantee) *)
Definition all_labels (r : frule) : list elabel := fr_lhs r :: map fe_lab (fr_edges r).
(** equal names -> equal labels *)
Definition names_consistent (ls : list elabel) : bool :=
  forallb (fun a => forallb (fun b => negb (str_eqb (el_name a) (el_name b)) || elabel_eqb a b) ls) ls.
Definition wf_frule (r : frule) : bool :=
  nodupb (fr_ids r)
  && forallb (fun e => subset (fe_att e) (fr_ids r)
                       && list_eqb (el_type (fe_lab e)) (map (nlabel (fr_nodes r)) (fe_att e))) (fr_edges r)
  && nodupb (map fe_id (fr_edges r)) && negb (mem 0 (map fe_id (fr_edges r)))
  && subset (fr_ext r) (fr_ids r)
  && list_eqb (el_type (fr_lhs r)) (map (nlabel (fr_nodes r)) (fr_ext r))
  && negb (el_term (fr_lhs r))
  && names_consistent (all_labels r).

(** * comparison of outputs *)
Definition labels_sub (a b : list elabel) : bool := forallb (fun l => existsb (elabel_eqb l) b) a.
Definition labels_seteq (a b : list elabel) : bool := labels_sub a b && labels_sub b a.
(** same rule up to the order of its node and edge lists *)
Definition frule_same (a b : frule) : bool :=
  elabel_eqb (fr_lhs a) (fr_lhs b) && perm_b pair_eqb (fr_nodes a) (fr_nodes b)
  && perm_b fedge_eqb (fr_edges a) (fr_edges b) && list_eqb (fr_ext a) (fr_ext b).
Definition rules_same (a b : list frule) : bool :=
  (length a =? length b) && forallb (fun p => frule_same (fst p) (snd p)) (combine a b).
Definition rules_exact (a b : list frule) : bool := leqb frule_eqb a b.

Definition graph_same (a b : graph) : bool :=
  list_eqb (gverts a) (gverts b) && forallb (fun p => set_eqb (snd (fst p)) (snd (snd p))) (combine a b).

(** names that existed before: the [labels] argument, the rule's lhs and all its edge labels *)
Definition existing_names (r : frule) (labels : list elabel) : list str :=
  map el_name (all_labels r ++ labels).

(** [factorize_rule(rule, method, labels)].
    input: rule, [labels] before, primal graph handed to tree_decomposition, decomposition
    returned, observed [ext] orders, implementation outcome (0 returned / 1 ValueError /
    2 other exception; new rules; [labels] afterwards).
    verdict: 0 ok; 1 [inline_ok] rejects; 2 [fresh_ok] rejects; 3 [nodes_ok] rejects;
    4 the implementation raised; 5 it raised ValueError and so does the model (a fresh name is
    the name of a terminal label of the rule); 20 ill-formed input (harness error);
    10 new rules / labels differ from the model's; 11 the model raises; 12 only the model
    raises ... ; 13 the graph handed to tree_decomposition is not the primal graph *)
Definition fz_rule_check
  (x : frule_w * list elabel_w * graph * ftd * list (list nat) * (nat * list frule_w * list elabel_w)) : nat :=
  let '(rw, lw, g, t, ords, (code, ow, low)) := x in
  let r := frule_of_w rw in
  let labels := map elabel_of_w lw in
  let out := map frule_of_w ow in
  let lout := map elabel_of_w low in
  if negb (wf_frule r && ftd_wfb t) then 20
  else
    let m := factorize_rule_model r labels t ords in
    match code with
    | 0 =>
      if negb (inline_ok r out) then 1
      else if negb (fresh_ok (existing_names r labels) out) then 2
      else if negb (nodes_ok r t out) then 3
      else if negb (graph_same g (primal r)) then 13
      else match m with
           | Ok (rs, ls) => if rules_same rs out && labels_seteq ls lout then 0 else 10
           | Err _ => 11
           end
    | 1 => match m with Err ValueErr => 5 | _ => 4 end
    | _ => 4
    end.

(** measure only: 0 iff the new rules are the model's, list for list *)
Definition fz_rule_exact
  (x : frule_w * list elabel_w * graph * ftd * list (list nat) * (nat * list frule_w * list elabel_w)) : nat :=
  let '(rw, lw, g, t, ords, (code, ow, low)) := x in
  match factorize_rule_model (frule_of_w rw) (map elabel_of_w lw) t ords with
  | Ok (rs, _) => if rules_exact rs (map frule_of_w ow) then 0 else 1
  | Err _ => 2
  end.

(** * grammars *)
Definition fhrg_same (a b : fhrg) : bool :=
  elabel_eqb (fh_start a) (fh_start b)
  && leqb (fun p q => elabel_eqb (fst p) (fst q) && rules_same (snd p) (snd q)) (fh_rules a) (fh_rules b)
  && labels_seteq (fh_elabels a) (fh_elabels b)
  && set_eqb (fh_nlabels a) (fh_nlabels b).
Definition fhrg_exact (a b : fhrg) : bool :=
  elabel_eqb (fh_start a) (fh_start b)
  && leqb (fun p q => elabel_eqb (fst p) (fst q) && rules_exact (snd p) (snd q)) (fh_rules a) (fh_rules b)
  && leqb elabel_eqb (fh_elabels a) (fh_elabels b)
  && list_eqb (fh_nlabels a) (fh_nlabels b).

(** the fresh left-hand sides of one call's output *)
Definition fresh_of (rs : list frule) : list elabel :=
  match split_last rs with Some (tbl, _) => map fr_lhs tbl | None => [] end.

(** grammar-level glue: the rules of the new grammar are exactly the rules returned by the
    calls of factorize_rule (as a multiset); ALL fresh names of the grammar are pairwise
    distinct and collide with NO label of the input grammar (whether or not it occurs in the rule
    that was split or in an earlier rule); across the whole new grammar every fresh nonterminal
    has exactly one rule and labels exactly one edge *)
Definition rules_with_lhs (l : elabel) (rs : list frule) : nat :=
  length (filter (fun c => str_eqb (el_name (fr_lhs c)) (el_name l)) rs).
Definition glue_ok (g : fhrg) (outs : list (list frule)) (gnew : fhrg) : bool :=
  perm_b frule_eqb (concat outs) (fh_all_rules gnew)
  && snodup (map el_name (flat_map fresh_of outs))
  && forallb (fun l => negb (smem (el_name l) (map el_name (fh_elabels g)))
                       && (rules_with_lhs l (fh_all_rules gnew) =? 1)
                       && (count_label l (fh_all_rules gnew) =? 1)) (flat_map fresh_of outs).

Definition pairs_same (a b : list (nat * nat)) : bool := leqb pair_eqb a b.
Definition factors_same (a b : list (str * nat)) : bool :=
  leqb (fun p q => str_eqb (fst p) (fst q) && (snd p =? snd q)) a b.

(** [factorize_hrg(g, method)] / [factorize_fgg(g, method)].
    input: is_fgg, requested method, methods with which tree_decomposition was actually called,
    input grammar, per rule (decomposition used, ext orders), per call of factorize_rule its
    output, implementation outcome (code as above, new grammar), and for an FGG the
    (domains, factors) tables before and after (factor objects numbered by the harness).
    verdict: 0 ok; 1 [glue_ok] rejects; 4 raised; 6 start symbol differs; 7 the method argument
    is not honoured; 8 a factor / domain is bound to a label that is not in the new grammar's
    label tables; 9 factors / domains differ; 20 harness error; 10 differs from the model;
    11 model raises.  [skip]: bit 0 = do not test the method, bit 1 = do not test the label
    tables (set by the harness on a second evaluation of a case that got verdict 7 / 8, so
    that a known finding does not hide anything else) *)
Definition fz_gram_check
  (x : bool * nat * list nat * fhrg_w * list (ftd * list (list nat)) * list (list frule_w)
       * (nat * nat * fhrg_w) * (list (nat * nat) * list (list nat * nat) * list (nat * nat) * list (list nat * nat))) : nat :=
  let '(is_fgg, m, used, gw, orc, outsw, (code, skip, gnw), (doms, facs, doms', facs')) := x in
  let g := fhrg_of_w gw in
  let gnew := fhrg_of_w gnw in
  let outs := map (map frule_of_w) outsw in
  if negb (forallb wf_frule (fh_all_rules g) && forallb (fun p => ftd_wfb (fst p)) orc) then 20
  else match code with
       | 0 =>
         if negb (length orc =? length (fh_all_rules g)) then 20
         else if negb (elabel_eqb (fh_start gnew) (fh_start g)) then 6
         else if negb (glue_ok g outs gnew) then 1
         else if negb (Nat.odd skip) && negb (forallb (Nat.eqb m) used) then 7
         else if is_fgg && negb (pairs_same doms doms' && factors_same facs facs') then 9
         else if is_fgg && negb (Nat.odd (Nat.div2 skip))
                 && negb (forallb (fun p => smem (fst p) (map el_name (fh_elabels gnew))) facs'
                                 && forallb (fun p => mem (fst p) (fh_nlabels gnew)) doms') then 8
         else
           let model :=
             if is_fgg
             then match factorize_fgg_model m {| ff_hrg := g; ff_domains := doms; ff_factors := facs |} (fun _ => orc) with
                  | Ok f => Ok (ff_hrg f) | Err e => Err e end
             else factorize_hrg_model m g (fun _ => orc) in
           match model with
           | Ok h => if fhrg_same h gnew then 0 else 10
           | Err _ => 11
           end
       | _ => 4
       end.

(** measure only *)
Definition fz_gram_exact
  (x : bool * nat * list nat * fhrg_w * list (ftd * list (list nat)) * list (list frule_w)
       * (nat * nat * fhrg_w) * (list (nat * nat) * list (list nat * nat) * list (nat * nat) * list (list nat * nat))) : nat :=
  let '(is_fgg, m, used, gw, orc, outsw, (code, skip, gnw), (doms, facs, doms', facs')) := x in
  let g := fhrg_of_w gw in
  match (if is_fgg then (h <- factorize_hrg_model 0 g (fun _ => orc) ;; from_hrg_model h)
         else factorize_hrg_model m g (fun _ => orc)) with
  | Ok h => if fhrg_exact h (fhrg_of_w gnw) then 0 else 1
  | Err _ => 2
  end.

(** * sum-product before / after, exactly, through [Ztab] of Model/SumProduct.v *)
Section SP.
Import Fggs.Model.Semiring Fggs.Model.SumProduct Fggs.Model.EReal Fggs.Model.SumProductCheck.

(** terminal weights by label NAME -> weights by label index of the grammar at hand *)
Definition weights_for (h : fhrg) (ws : list (list nat * list (option Q))) : list (nat * list (option Q)) :=
  flat_map (fun p => match find (fun l => str_eqb (el_name l) (fst p)) (fh_elabels h) with
                     | Some l => if el_term l then [(lab_idx (fh_elabels h) l, snd p)] else []
                     | None => []
                     end) ws.
(** every terminal of the grammar has weights *)
Definition weights_cover (h : fhrg) (ws : list (list nat * list (option Q))) : bool :=
  forallb (fun l => negb (el_term l) || smem (el_name l) (map fst ws)) (fh_elabels h).

Definition start_table (doms : list nat) (h : fhrg) (ws : list (list nat * list (option Q))) : option (table (R:=ereal)) :=
  let G := to_sp_grammar doms h in
  if wf_grammar G && weights_cover h ws then
    let w := weights_tmt ereal_of G (weights_for h ws) in
    tmt_get (Ztab ereal_ops G (env_of ereal_ops w) (length (nonterminals G))) (g_start G)
  else None.

(** verdict: 0 the start symbol's sum-product table is identical before and after (exact
    arithmetic, Kleene iterate number #nonterminals: the value for a non-recursive grammar);
    5 differs; 21 / 22 a translated grammar is ill-formed (before / after); 23 the input grammar is
    recursive (harness error: only non-recursive grammars are sent) *)
Definition fz_sp_check (x : list nat * fhrg_w * fhrg_w * list (list nat * list (option Q))) : nat :=
  let '(doms, bw, aw, ws) := x in
  let b := fhrg_of_w bw in
  let a := fhrg_of_w aw in
  match SCC.scc (nt_graph (to_sp_grammar doms b)) with
  | None => 23
  | Some order =>
    if negb (nonrecursive_order (to_sp_grammar doms b) order) then 23
    else match start_table doms b ws, start_table doms a ws with
         | None, _ => 21
         | _, None => 22
         | Some tb, Some ta => if tables_eq eeqb tb ta then 0 else 5
         end
  end.
End SP.

Definition qabs (x : Q) : Q := if Qle_bool 0 x then x else Qopp x.
Definition qmax (x y : Q) : Q := if Qle_bool x y then y else x.
(** float results of fggs.sum_product before / after, as exact rationals ([None] = inf):
    0 iff equal within 1e-9 relative (+ 1e-12 absolute) *)
Definition fz_close_check (x : list (option Q) * list (option Q)) : nat :=
  let '(a, b) := x in
  if negb (length a =? length b) then 5
  else if forallb (fun p => match p with
                            | (None, None) => true
                            | (Some u, Some v) =>
                              let d := qabs (u - v) in
                              let m := qmax (qabs u) (qabs v) in
                              Qle_bool d (m * (1 # 1000000000) + (1 # 1000000000000))
                            | _ => false
                            end) (combine a b) then 0 else 5.
