(** C16 -- model of the construction / mutation API of fggs/fggs.py
    (NodeLabel, EdgeLabel, Node, Edge, LabelingMixin, Graph, HRGRule, HRG,
    InterpretationMixin, FactorGraph, FGG) as a state machine over a finite family of
    objects.  Definitions only; proofs are in Proofs/GraphAPI_*.v.

    Conventions
    - a Python dict is an association list in insertion order ([aget]/[aset]/[adel]);
    - frozen dataclasses (NodeLabel, EdgeLabel, Node, Edge) are plain values compared
      structurally over ALL fields; [persist_id] is a function of the kind of id
      (explicit <-> True) and therefore not stored;
    - names (node-label names, edge-label names, explicit ids) are naturals; the harness
      renders them as strings.  A NodeLabel is just its name;
    - implicit ids ([id(self)] in Python) come from the monotone counter [ctr];
    - mutable objects (Graph, FactorGraph, HRG, FGG) live in the family [objs] and are
      referred to by their index (handle).  An HRGRule is the pair of its lhs and the HANDLE
      of its rhs graph: the code stores a reference to the caller's Graph object, so the rhs
      is aliased (this matters: see finding "rule_rhs_alias" in notes/C16.md). *)
From Coq Require Import List Arith Bool PeanoNat.
Import ListNotations.

(** * Values *)
Inductive ident := Explicit (s : nat) | Implicit (n : nat).
Inductive elabel := EL (name : nat) (ty : list nat) (term : bool).
Inductive node := Node (l : nat) (i : ident).
Inductive edge := Edge (l : elabel) (ns : list node) (i : ident).
(** FiniteDomain(values): equality is equality of the value lists *)
Definition dom := list nat.
(** FiniteFactor(doms, weights): the weights are the constant tensor [tag] of the shape the
    domains demand (the constructor rejects every other shape) *)
Inductive factor := Fac (ds : list dom) (tag : nat).
(** HRGRule(lhs, rhs): rhs is the handle of a graph object *)
Inductive rule := Rule (lhs : elabel) (rhs : nat).

Definition el_name (l : elabel) := let 'EL n _ _ := l in n.
Definition el_ty (l : elabel) := let 'EL _ t _ := l in t.
Definition el_term (l : elabel) := let 'EL _ _ b := l in b.
Definition n_label (n : node) := let 'Node l _ := n in l.
Definition n_id (n : node) := let 'Node _ i := n in i.
Definition e_label (e : edge) := let 'Edge l _ _ := e in l.
Definition e_nodes (e : edge) := let 'Edge _ ns _ := e in ns.
Definition e_id (e : edge) := let 'Edge _ _ i := e in i.
Definition f_doms (f : factor) := let 'Fac ds _ := f in ds.
Definition r_lhs (r : rule) := let 'Rule l _ := r in l.
Definition r_rhs (r : rule) := let 'Rule _ g := r in g.

Definition ident_eq_dec : forall a b : ident, {a = b} + {a <> b}.
Proof. decide equality; apply Nat.eq_dec. Defined.
Definition lnat_eq_dec : forall a b : list nat, {a = b} + {a <> b} := list_eq_dec Nat.eq_dec.
Definition elabel_eq_dec : forall a b : elabel, {a = b} + {a <> b}.
Proof. decide equality; [apply Bool.bool_dec | apply lnat_eq_dec | apply Nat.eq_dec]. Defined.
Definition node_eq_dec : forall a b : node, {a = b} + {a <> b}.
Proof. decide equality; [apply ident_eq_dec | apply Nat.eq_dec]. Defined.
Definition lnode_eq_dec : forall a b : list node, {a = b} + {a <> b} := list_eq_dec node_eq_dec.
Definition edge_eq_dec : forall a b : edge, {a = b} + {a <> b}.
Proof. decide equality; [apply ident_eq_dec | apply lnode_eq_dec | apply elabel_eq_dec]. Defined.
Definition dom_eq_dec : forall a b : dom, {a = b} + {a <> b} := lnat_eq_dec.
Definition factor_eq_dec : forall a b : factor, {a = b} + {a <> b}.
Proof. decide equality; [apply Nat.eq_dec | apply (list_eq_dec dom_eq_dec)]. Defined.
Definition rule_eq_dec : forall a b : rule, {a = b} + {a <> b}.
Proof. decide equality; [apply Nat.eq_dec | apply elabel_eq_dec]. Defined.

Definition inb {A} (eq : forall a b : A, {a = b} + {a <> b}) (x : A) (l : list A) : bool :=
  existsb (fun y => if eq y x then true else false) l.

(** * Python dicts *)
Section Assoc.
  Context {K V : Type} (Keq : forall a b : K, {a = b} + {a <> b}).
  Fixpoint aget (m : list (K * V)) (k : K) : option V :=
    match m with [] => None | (a, b) :: m => if Keq a k then Some b else aget m k end.
  Definition amem (m : list (K * V)) (k : K) : bool :=
    match aget m k with Some _ => true | None => false end.
  (** [m[k] = v]: in place when the key exists, appended otherwise *)
  Fixpoint aset (m : list (K * V)) (k : K) (v : V) : list (K * V) :=
    match m with
    | [] => [(k, v)]
    | (a, b) :: m => if Keq a k then (a, v) :: m else (a, b) :: aset m k v
    end.
  (** [del m[k]] *)
  Fixpoint adel (m : list (K * V)) (k : K) : list (K * V) :=
    match m with
    | [] => []
    | (a, b) :: m => if Keq a k then m else (a, b) :: adel m k
    end.
  (** dict [==]: same size, every key of the first bound to an equal value in the second *)
  Definition dict_eqb (veq : V -> V -> bool) (m1 m2 : list (K * V)) : bool :=
    Nat.eqb (length m1) (length m2) &&
    forallb (fun kv => match aget m2 (fst kv) with Some v => veq (snd kv) v | None => false end) m1.
End Assoc.

(** * Mutable objects *)
(** the two label tables (LabelingMixin) and the interpretation (InterpretationMixin);
    [t_dom]/[t_fac] stay empty on plain Graph / HRG objects (the attributes do not exist) *)
Record tables := mkT {
  t_nl : list (nat * nat);        (* _node_labels: name -> NodeLabel (= its name) *)
  t_el : list (nat * elabel);     (* _edge_labels: name -> EdgeLabel *)
  t_dom : list (nat * dom);       (* domains: node-label name -> Domain *)
  t_fac : list (nat * factor) }.  (* factors: edge-label name -> Factor *)

Record graph := mkG {
  g_fg : bool;                    (* FactorGraph? *)
  g_nodes : list (ident * node);  (* _nodes *)
  g_edges : list (ident * edge);  (* _edges *)
  g_ext : list node;              (* _ext *)
  g_tab : tables }.

Record hrg := mkH {
  h_fgg : bool;                           (* FGG? *)
  h_rules : list (elabel * list rule);    (* _rules: lhs -> [rule] *)
  h_start : elabel;                       (* _start (HRG(None) raises, so never None) *)
  h_tab : tables }.

Inductive obj := OG (g : graph) | OH (h : hrg).

Record state := mkS { objs : list obj; ctr : nat }.

Inductive kind := ValueErr | KeyErr | TypeErr | OtherExc.
Inductive result := ROk | RBool (b : bool) | RErr (k : kind).

Definition is_err (r : result) : bool := match r with RErr _ => true | _ => false end.

Definition empty_tab : tables := mkT [] [] [] [].
Definition empty_graph (fg : bool) : graph := mkG fg [] [] [] empty_tab.
Definition init : state := mkS [] 0.

Definition set_nl (t : tables) x := mkT x (t_el t) (t_dom t) (t_fac t).
Definition set_el (t : tables) x := mkT (t_nl t) x (t_dom t) (t_fac t).
Definition set_dom (t : tables) x := mkT (t_nl t) (t_el t) x (t_fac t).
Definition set_fac (t : tables) x := mkT (t_nl t) (t_el t) (t_dom t) x.
Definition gset_nodes (g : graph) x := mkG (g_fg g) x (g_edges g) (g_ext g) (g_tab g).
Definition gset_edges (g : graph) x := mkG (g_fg g) (g_nodes g) x (g_ext g) (g_tab g).
Definition gset_ext (g : graph) x := mkG (g_fg g) (g_nodes g) (g_edges g) x (g_tab g).
Definition gset_tab (g : graph) x := mkG (g_fg g) (g_nodes g) (g_edges g) (g_ext g) x.
Definition hset_rules (h : hrg) x := mkH (h_fgg h) x (h_start h) (h_tab h).
Definition hset_start (h : hrg) x := mkH (h_fgg h) (h_rules h) x (h_tab h).
Definition hset_tab (h : hrg) x := mkH (h_fgg h) (h_rules h) (h_start h) x.

(** * LabelingMixin *)
(** [add_node_label]: [self._node_labels[label.name] = label] *)
Definition t_add_node_label (t : tables) (l : nat) : tables :=
  set_nl t (aset Nat.eq_dec (t_nl t) l l).

(** [add_edge_label]: ValueError if the name is bound to a different label *)
Definition t_add_edge_label (t : tables) (l : elabel) : tables * result :=
  match aget Nat.eq_dec (t_el t) (el_name l) with
  | Some l' => if elabel_eq_dec l' l
               then (set_el t (aset Nat.eq_dec (t_el t) (el_name l) l), ROk)
               else (t, RErr ValueErr)
  | None => (set_el t (aset Nat.eq_dec (t_el t) (el_name l) l), ROk)
  end.

(** * InterpretationMixin *)
(** [name in self._edge_labels and self._edge_labels[name] != label] *)
Definition label_conflict (t : tables) (l : elabel) : bool :=
  match aget Nat.eq_dec (t_el t) (el_name l) with
  | Some l' => if elabel_eq_dec l' l then false else true
  | None => false
  end.

(** [add_domain]: "already mapped" test first, then the label is registered and the domain bound *)
Definition t_add_domain (t : tables) (l : nat) (d : dom) : tables * result :=
  if amem Nat.eq_dec (t_dom t) l then (t, RErr ValueErr)
  else let t := t_add_node_label t l in
       (set_dom t (aset Nat.eq_dec (t_dom t) l d), ROk).

(** the loop [for nl, dom in zip(el.node_labels, fac.domains)] *)
Fixpoint fac_doms_ok (t : tables) (ty : list nat) (ds : list dom) : bool :=
  match ty, ds with
  | l :: ty, d :: ds =>
    match aget Nat.eq_dec (t_dom t) l with
    | None => false
    | Some d' => if dom_eq_dec d d' then fac_doms_ok t ty ds else false
    end
  | _, _ => true
  end.

(** [add_factor]: nonterminal test, label-clash test, "already mapped" test (by name), arity
    test, domain tests; only then is the label registered and the factor bound *)
Definition t_add_factor (t : tables) (l : elabel) (f : factor) : tables * result :=
  if negb (el_term l) then (t, RErr ValueErr)
  else if label_conflict t l then (t, RErr ValueErr)
  else if amem Nat.eq_dec (t_fac t) (el_name l) then (t, RErr ValueErr)
  else if negb (Nat.eqb (length (f_doms f)) (length (el_ty l))) then (t, RErr ValueErr)
  else if negb (fac_doms_ok t (el_ty l) (f_doms f)) then (t, RErr ValueErr)
  else match t_add_edge_label t l with
       | (t', RErr k) => (t', RErr k)          (* cannot happen: no clash *)
       | (t', _) => (set_fac t' (aset Nat.eq_dec (t_fac t') (el_name l) f), ROk)
       end.

(** [doms = [self.domains[nl.name] for nl in el.node_labels]] *)
Fixpoint lookup_doms (t : tables) (ty : list nat) : option (list dom) :=
  match ty with
  | [] => Some []
  | l :: ty => match aget Nat.eq_dec (t_dom t) l, lookup_doms t ty with
               | Some d, Some ds => Some (d :: ds)
               | _, _ => None
               end
  end.

(** [new_finite_factor(name, weights)], weights = the constant tensor [tag] of shape [shape] *)
Definition t_new_finite_factor (t : tables) (name : nat) (shape : list nat) (tag : nat) : tables * result :=
  match aget Nat.eq_dec (t_el t) name with
  | None => (t, RErr KeyErr)
  | Some l =>
    match lookup_doms t (el_ty l) with
    | None => (t, RErr KeyErr)
    | Some ds =>
      if lnat_eq_dec shape (map (@length nat) ds) then t_add_factor t l (Fac ds tag)
      else (t, RErr ValueErr)
    end
  end.

(** In-place updates of the weights of a factor that is already bound:
    [fac = self.factors[name]] (KeyError when no factor is bound to the name), and then the
    storage of [fac.weights] is overwritten in place, or [fac.weights] is re-assigned.
    - [WFill v]: every entry becomes [v] ([physical.fill_(v)], [copy_], [physical[...] = v],
      the setter [fac.weights = full(v)], ...);
    - [WMul c]: every entry is multiplied by [c] ([weights *= c], [physical.mul_(c)],
      [weights /= 1/c], ...).
    The [via] argument of the operation only says which of these Python routes is taken; all
    routes have the same effect on the weights.  The factor object stays bound under its name
    (same position in the dict), its domains are untouched. *)
Inductive wupd := WFill (v : nat) | WMul (c : nat).
Definition upd_tag (u : wupd) (tag : nat) : nat :=
  match u with WFill v => v | WMul c => tag * c end.
Definition f_upd (u : wupd) (f : factor) : factor :=
  let 'Fac ds tag := f in Fac ds (upd_tag u tag).
Definition t_upd_weights (t : tables) (name : nat) (u : wupd) : tables * result :=
  match aget Nat.eq_dec (t_fac t) name with
  | None => (t, RErr KeyErr)
  | Some f => (set_fac t (aset Nat.eq_dec (t_fac t) name (f_upd u f)), ROk)
  end.

(** * Graph *)
Definition g_add_node (g : graph) (n : node) : graph * result :=
  if amem ident_eq_dec (g_nodes g) (n_id n) then (g, RErr ValueErr)
  else let g := gset_tab g (t_add_node_label (g_tab g) (n_label n)) in
       (gset_nodes g (aset ident_eq_dec (g_nodes g) (n_id n) n), ROk).

(** [old = self._nodes.get(node.id, new.get(node.id))] *)
Definition lookup2 (m new : list (ident * node)) (k : ident) : option node :=
  match aget ident_eq_dec m k with Some x => Some x | None => aget ident_eq_dec new k end.

(** [_check_new_nodes]: the nodes to be added, in order; [None] = ValueError because an id
    is already used (in the graph or earlier in the argument) by a different node *)
Fixpoint check_new (m new : list (ident * node)) (ns : list node) : option (list node) :=
  match ns with
  | [] => Some (map snd new)
  | n :: ns =>
    match lookup2 m new (n_id n) with
    | None => check_new m (aset ident_eq_dec new (n_id n) n) ns
    | Some old => if node_eq_dec old n then check_new m new ns else None
    end
  end.

(** [for node in ...: self.add_node(node)] ([add_node] cannot raise here: the ids are new) *)
Definition g_add_all (g : graph) (add : list node) : graph :=
  fold_left (fun g n => fst (g_add_node g n)) add g.

(** the [ext] setter *)
Definition g_set_ext (g : graph) (ns : list node) : graph * result :=
  match check_new (g_nodes g) [] ns with
  | None => (g, RErr ValueErr)
  | Some add => (gset_ext (g_add_all g add) ns, ROk)
  end.

(** [remove_node]: [self._nodes.get(node.id) != node] raises *)
Definition g_remove_node (g : graph) (n : node) : graph * result :=
  match aget ident_eq_dec (g_nodes g) (n_id n) with
  | None => (g, RErr ValueErr)
  | Some n' =>
    if node_eq_dec n' n then
      if existsb (fun ke => inb node_eq_dec n (e_nodes (snd ke))) (g_edges g) then (g, RErr ValueErr)
      else if inb node_eq_dec n (g_ext g) then (g, RErr ValueErr)
      else (gset_nodes g (adel ident_eq_dec (g_nodes g) (n_id n)), ROk)
    else (g, RErr ValueErr)
  end.

(** [add_edge]: duplicate-id test, label-clash test, node-identity test, and only then the
    mutations: missing nodes, label, edge *)
Definition g_add_edge (g : graph) (e : edge) : graph * result :=
  if amem ident_eq_dec (g_edges g) (e_id e) then (g, RErr ValueErr)
  else if label_conflict (g_tab g) (e_label e) then (g, RErr ValueErr)
  else match check_new (g_nodes g) [] (e_nodes e) with
       | None => (g, RErr ValueErr)
       | Some add =>
         let g := g_add_all g add in
         match t_add_edge_label (g_tab g) (e_label e) with
         | (_, RErr k) => (g, RErr k)           (* cannot happen: no clash *)
         | (t, _) =>
           let g := gset_tab g t in
           let g := gset_edges g (aset ident_eq_dec (g_edges g) (e_id e) e) in
           (gset_tab g (set_el (g_tab g) (aset Nat.eq_dec (t_el (g_tab g)) (el_name (e_label e)) (e_label e))), ROk)
         end
       end.

Definition g_remove_edge (g : graph) (e : edge) : graph * result :=
  if negb (amem ident_eq_dec (g_edges g) (e_id e)) then (g, RErr ValueErr)
  else (gset_edges g (adel ident_eq_dec (g_edges g) (e_id e)), ROk).

Definition g_type (g : graph) : list nat := map n_label (g_ext g).

(** sequential composition that stops at the first exception *)
Fixpoint fold_err {A B} (f : A -> B -> A * result) (l : list B) (a : A) : A * result :=
  match l with
  | [] => (a, ROk)
  | x :: l => match f a x with
              | (a, RErr k) => (a, RErr k)
              | (a, _) => fold_err f l a
              end
  end.

(** [Graph.copy] (containers and both label tables copied) and [FactorGraph.copy] (re-adds
    nodes and edges to a fresh FactorGraph, then overwrites its label tables with copies of the
    original's; domains and factors deep-copied).  [inr k]: the copy raised. *)
Definition g_copy (g : graph) : graph + kind :=
  if g_fg g then
    match fold_err g_add_node (map snd (g_nodes g)) (empty_graph true) with
    | (_, RErr k) => inr k
    | (c, _) =>
      match fold_err g_add_edge (map snd (g_edges g)) c with
      | (_, RErr k) => inr k
      | (c, _) =>
        let c := gset_ext c (g_ext g) in
        inl (gset_tab c (mkT (t_nl (g_tab g)) (t_el (g_tab g)) (t_dom (g_tab g)) (t_fac (g_tab g))))
      end
    end
  else inl (mkG false (g_nodes g) (g_edges g) (g_ext g) (mkT (t_nl (g_tab g)) (t_el (g_tab g)) [] [])).

(** [Graph.__eq__] *)
Definition node_eqb (a b : node) : bool := if node_eq_dec a b then true else false.
Definition edge_eqb (a b : edge) : bool := if edge_eq_dec a b then true else false.
Definition elabel_eqb (a b : elabel) : bool := if elabel_eq_dec a b then true else false.
Definition graph_eqb (a b : graph) : bool :=
  dict_eqb ident_eq_dec node_eqb (g_nodes a) (g_nodes b) &&
  dict_eqb ident_eq_dec edge_eqb (g_edges a) (g_edges b) &&
  (if lnode_eq_dec (g_ext a) (g_ext b) then true else false).

(** * HRG *)
Definition get_graph (os : list obj) (h : nat) : option graph :=
  match nth_error os h with Some (OG g) => Some g | _ => None end.
Definition get_hrg (os : list obj) (h : nat) : option hrg :=
  match nth_error os h with Some (OH g) => Some g | _ => None end.

(** [HRGRule.__post_init__]: plain [Exception] *)
Definition rule_ok (lhs : elabel) (g : graph) : bool :=
  negb (el_term lhs) && (if lnat_eq_dec (el_ty lhs) (g_type g) then true else false).

Inductive sspec := SNone | SLabel (l : elabel) | SName (n : nat).

(** the [start] setter *)
Definition h_set_start (h : hrg) (s : sspec) : hrg * result :=
  match s with
  | SNone => (h, RErr OtherExc)             (* None.is_terminal: AttributeError *)
  | _ =>
    let l := match s with
             | SName n => match aget Nat.eq_dec (t_el (h_tab h)) n with
                          | Some l => l
                          | None => EL n [] false
                          end
             | SLabel l => l
             | SNone => EL 0 [] false
             end in
    if el_term l then (h, RErr ValueErr)
    else match t_add_edge_label (h_tab h) l with
         | (_, RErr k) => (h, RErr k)
         | (t, _) => (hset_start (hset_tab h t) l, ROk)
         end
  end.

(** [HRG(start)] / [FGG(start)] *)
Definition h_new (fgg : bool) (s : sspec) : option hrg * result :=
  match h_set_start (mkH fgg [] (EL 0 [] false) empty_tab) s with
  | (h, ROk) => (Some h, ROk)
  | (_, r) => (None, r)
  end.

(** [seen = dict(self._edge_labels); for el in ...: if seen.setdefault(el.name, el) != el: raise] *)
Fixpoint labels_clash (seen : list (nat * elabel)) (ls : list elabel) : bool :=
  match ls with
  | [] => false
  | l :: ls =>
    match aget Nat.eq_dec seen (el_name l) with
    | Some l' => if elabel_eq_dec l' l then labels_clash seen ls else true
    | None => labels_clash (aset Nat.eq_dec seen (el_name l) l) ls
    end
  end.

(** [add_rule]: clash test over the lhs label and the rhs edge labels first; then registers lhs
    label, node labels, edge labels (which can no longer raise), then
    [self._rules.setdefault(lhs, []).append(rule)] *)
Definition h_add_rule (h : hrg) (r : rule) (rhs : graph) : hrg * result :=
  if labels_clash (t_el (h_tab h)) (r_lhs r :: map (fun ke => e_label (snd ke)) (g_edges rhs))
  then (h, RErr ValueErr) else
  match t_add_edge_label (h_tab h) (r_lhs r) with
  | (_, RErr k) => (h, RErr k)
  | (t, _) =>
    let t := fold_left (fun t kn => t_add_node_label t (n_label (snd kn))) (g_nodes rhs) t in
    match fold_err (fun t ke => t_add_edge_label t (e_label (snd ke))) (g_edges rhs) t with
    | (t, RErr k) => (hset_tab h t, RErr k)
    | (t, _) =>
      let old := match aget elabel_eq_dec (h_rules h) (r_lhs r) with Some l => l | None => [] end in
      (hset_rules (hset_tab h t) (aset elabel_eq_dec (h_rules h) (r_lhs r) (old ++ [r])), ROk)
    end
  end.

(** copying the rules of a grammar: every rhs graph is copied into a fresh object
    ([HRGRule(self.lhs, self.rhs.copy())], whose [__post_init__] may raise) *)
Fixpoint copy_rules (os : list obj) (base : nat) (rs : list rule) : (list rule * list obj) + kind :=
  match rs with
  | [] => inl ([], [])
  | r :: rs =>
    match get_graph os (r_rhs r) with
    | None => inr OtherExc
    | Some g =>
      match g_copy g with
      | inr k => inr k
      | inl c =>
        if negb (rule_ok (r_lhs r) c) then inr OtherExc
        else match copy_rules os (S base) rs with
             | inr k => inr k
             | inl (rs', news) => inl (Rule (r_lhs r) base :: rs', OG c :: news)
             end
      end
    end
  end.

Fixpoint copy_groups (os : list obj) (base : nat) (gs : list (elabel * list rule))
  : (list (elabel * list rule) * list obj) + kind :=
  match gs with
  | [] => inl ([], [])
  | (k, rs) :: gs =>
    match copy_rules os base rs with
    | inr e => inr e
    | inl (rs', news) =>
      match copy_groups os (base + length news) gs with
      | inr e => inr e
      | inl (gs', news') => inl ((k, rs') :: gs', news ++ news')
      end
    end
  end.

(** [HRG.copy] / [FGG.copy]: the new grammar gets handle [length os], the copies of the rhs
    graphs the following handles in [all_rules()] order *)
Definition h_copy (os : list obj) (h : hrg) : (hrg * list obj) + kind :=
  match h_new (h_fgg h) (SLabel (h_start h)) with
  | (Some c, _) =>
    match copy_groups os (S (length os)) (h_rules h) with
    | inr e => inr e
    | inl (gs, news) =>
      let t := mkT (t_nl (h_tab h)) (t_el (h_tab h))
                   (if h_fgg h then t_dom (h_tab h) else []) (if h_fgg h then t_fac (h_tab h) else []) in
      inl (mkH (h_fgg h) gs (h_start c) t, news)
    end
  | (None, RErr k) => inr k
  | (None, _) => inr OtherExc
  end.

(** [HRGRule.__eq__] (dataclass) and [HRG.__eq__] *)
Definition rule_eqb (os : list obj) (a b : rule) : bool :=
  elabel_eqb (r_lhs a) (r_lhs b) &&
  match get_graph os (r_rhs a), get_graph os (r_rhs b) with
  | Some x, Some y => graph_eqb x y
  | _, _ => false
  end.
Fixpoint list_eqb {A} (eq : A -> A -> bool) (a b : list A) : bool :=
  match a, b with
  | [], [] => true
  | x :: a, y :: b => eq x y && list_eqb eq a b
  | _, _ => false
  end.
Definition hrg_eqb (os : list obj) (a b : hrg) : bool :=
  dict_eqb elabel_eq_dec (list_eqb (rule_eqb os)) (h_rules a) (h_rules b) &&
  elabel_eqb (h_start a) (h_start b) &&
  dict_eqb Nat.eq_dec Nat.eqb (t_nl (h_tab a)) (t_nl (h_tab b)) &&
  dict_eqb Nat.eq_dec elabel_eqb (t_el (h_tab a)) (t_el (h_tab b)).

Definition obj_eqb (os : list obj) (a b : obj) : bool :=
  match a, b with
  | OG x, OG y => graph_eqb x y
  | OH x, OH y => hrg_eqb os x y
  | _, _ => false
  end.

(** * Operations *)
Inductive idarg := IdNone | IdStr (s : nat) | IdInt.
Inductive narg := NVal (n : node) | NFresh (l : nat).

Inductive op :=
| NewGraph | NewFactorGraph | NewHRG (s : sspec) | NewFGG (s : sspec)
| AddNode (h : nat) (n : narg)
| NewNode (h : nat) (l : nat) (i : idarg)
| RemoveNode (h : nat) (n : node)
| AddEdge (h : nat) (l : elabel) (ns : list narg) (i : idarg)
| NewEdge (h : nat) (name : nat) (ns : list narg) (t nt : bool) (i : idarg)
| RemoveEdge (h : nat) (e : edge)
| SetExt (h : nat) (ns : list narg)
| Copy (h : nat)
| MkRule (l : elabel) (g : nat)
| AddRule (h : nat) (l : elabel) (g : nat)
| NewRule (h : nat) (name : nat) (g : nat)
| SetStart (h : nat) (s : sspec)
| AddNodeLabel (h l : nat)
| AddEdgeLabel (h : nat) (l : elabel)
| AddDomain (h l : nat) (d : dom)
| AddFactor (h : nat) (l : elabel) (f : factor)
| NewFiniteDomain (h l : nat) (d : dom)
| NewFiniteFactor (h name : nat) (shape : list nat) (tag : nat)
| UpdWeights (h name : nat) (u : wupd) (via : nat)
| EqOp (h1 h2 : nat).

(** node arguments are built before the call, left to right; a fresh node takes the next
    implicit id *)
Fixpoint resolve (c : nat) (l : list narg) : list node * nat :=
  match l with
  | [] => ([], c)
  | NVal n :: l => let (ns, c') := resolve c l in (n :: ns, c')
  | NFresh lab :: l => let (ns, c') := resolve (S c) l in (Node lab (Implicit c) :: ns, c')
  end.

(** an id argument: [None] takes the next implicit id (whether or not the call succeeds),
    a str is explicit, anything else makes the constructor raise TypeError *)
Definition resolve_id (c : nat) (i : idarg) : option ident * nat :=
  match i with
  | IdNone => (Some (Implicit c), S c)
  | IdStr s => (Some (Explicit s), c)
  | IdInt => (None, c)
  end.

Fixpoint set_nth {A} (l : list A) (k : nat) (x : A) : list A :=
  match l, k with
  | [], _ => []
  | _ :: l, 0 => x :: l
  | y :: l, S k => y :: set_nth l k x
  end.

Definition tab_of (o : obj) : tables := match o with OG g => g_tab g | OH h => h_tab h end.
Definition with_tab (o : obj) (t : tables) : obj :=
  match o with OG g => OG (gset_tab g t) | OH h => OH (hset_tab h t) end.
Definition has_interp (o : obj) : bool := match o with OG g => g_fg g | OH h => h_fgg h end.

(** run a Graph method on the object behind handle [h]; a handle that does not denote a
    graph is outside the modelled universe (Python: AttributeError) *)
Definition on_graph (s : state) (c : nat) (h : nat) (f : graph -> graph * result) : state * result :=
  match get_graph (objs s) h with
  | Some g => let (g', r) := f g in (mkS (set_nth (objs s) h (OG g')) c, r)
  | None => (mkS (objs s) c, RErr OtherExc)
  end.
Definition on_hrg (s : state) (h : nat) (f : hrg -> hrg * result) : state * result :=
  match get_hrg (objs s) h with
  | Some g => let (g', r) := f g in (mkS (set_nth (objs s) h (OH g')) (ctr s), r)
  | None => (s, RErr OtherExc)
  end.
(** LabelingMixin / InterpretationMixin methods exist on both families *)
Definition on_tab (s : state) (interp : bool) (h : nat) (f : tables -> tables * result) : state * result :=
  match nth_error (objs s) h with
  | Some o =>
    if interp && negb (has_interp o) then (s, RErr OtherExc)      (* no such attribute *)
    else let (t, r) := f (tab_of o) in (mkS (set_nth (objs s) h (with_tab o t)) (ctr s), r)
  | None => (s, RErr OtherExc)
  end.

Definition mk_edge_and_add (l : elabel) (ns : list node) (i : option ident) (g : graph) : graph * result :=
  match i with
  | None => (g, RErr TypeErr)                                   (* Edge.__init__: id not a str *)
  | Some i =>
    if lnat_eq_dec (el_ty l) (map n_label ns) then g_add_edge g (Edge l ns i)
    else (g, RErr ValueErr)                                     (* Edge.__init__: label type *)
  end.

Definition step (s : state) (o : op) : state * result :=
  match o with
  | NewGraph => (mkS (objs s ++ [OG (empty_graph false)]) (ctr s), ROk)
  | NewFactorGraph => (mkS (objs s ++ [OG (empty_graph true)]) (ctr s), ROk)
  | NewHRG sp => match h_new false sp with
                 | (Some h, r) => (mkS (objs s ++ [OH h]) (ctr s), r)
                 | (None, r) => (s, r)
                 end
  | NewFGG sp => match h_new true sp with
                 | (Some h, r) => (mkS (objs s ++ [OH h]) (ctr s), r)
                 | (None, r) => (s, r)
                 end
  | AddNode h a =>
    let (ns, c) := resolve (ctr s) [a] in
    match ns with
    | [n] => on_graph s c h (fun g => g_add_node g n)
    | _ => (s, RErr OtherExc)
    end
  | NewNode h l i =>
    let (i', c) := resolve_id (ctr s) i in
    match i' with
    | None => (mkS (objs s) c, RErr TypeErr)
    | Some i' => on_graph s c h (fun g => g_add_node g (Node l i'))
    end
  | RemoveNode h n => on_graph s (ctr s) h (fun g => g_remove_node g n)
  | AddEdge h l a i =>
    let (ns, c) := resolve (ctr s) a in
    let (i', c) := resolve_id c i in
    on_graph s c h (mk_edge_and_add l ns i')
  | NewEdge h name a t nt i =>
    let (ns, c) := resolve (ctr s) a in
    let (i', c) := resolve_id c i in
    if (t && nt) || (negb t && negb nt) then (mkS (objs s) c, RErr ValueErr)   (* EdgeLabel.__init__ *)
    else on_graph s c h (mk_edge_and_add (EL name (map n_label ns) t) ns i')
  | RemoveEdge h e => on_graph s (ctr s) h (fun g => g_remove_edge g e)
  | SetExt h a =>
    let (ns, c) := resolve (ctr s) a in
    on_graph s c h (fun g => g_set_ext g ns)
  | Copy h =>
    match nth_error (objs s) h with
    | Some (OG g) => match g_copy g with
                     | inl c => (mkS (objs s ++ [OG c]) (ctr s), ROk)
                     | inr k => (s, RErr k)
                     end
    | Some (OH x) => match h_copy (objs s) x with
                     | inl (c, news) => (mkS (objs s ++ OH c :: news) (ctr s), ROk)
                     | inr k => (s, RErr k)
                     end
    | None => (s, RErr OtherExc)
    end
  | MkRule l gh =>
    match get_graph (objs s) gh with
    | Some g => (s, if rule_ok l g then ROk else RErr OtherExc)
    | None => (s, RErr OtherExc)
    end
  | AddRule h l gh =>
    match get_graph (objs s) gh with
    | Some g => if rule_ok l g then on_hrg s h (fun x => h_add_rule x (Rule l gh) g)
                else (s, RErr OtherExc)
    | None => (s, RErr OtherExc)
    end
  | NewRule h name gh =>
    match get_graph (objs s) gh with
    | Some g => let l := EL name (g_type g) false in
                if rule_ok l g then on_hrg s h (fun x => h_add_rule x (Rule l gh) g)
                else (s, RErr OtherExc)
    | None => (s, RErr OtherExc)
    end
  | SetStart h sp => on_hrg s h (fun x => h_set_start x sp)
  | AddNodeLabel h l => on_tab s false h (fun t => (t_add_node_label t l, ROk))
  | AddEdgeLabel h l => on_tab s false h (fun t => t_add_edge_label t l)
  | AddDomain h l d => on_tab s true h (fun t => t_add_domain t l d)
  | AddFactor h l f => on_tab s true h (fun t => t_add_factor t l f)
  | NewFiniteDomain h l d => on_tab s true h (fun t => t_add_domain t l d)
  | NewFiniteFactor h name shape tag => on_tab s true h (fun t => t_new_finite_factor t name shape tag)
  | UpdWeights h name u _ => on_tab s true h (fun t => t_upd_weights t name u)
  | EqOp h1 h2 =>
    match nth_error (objs s) h1, nth_error (objs s) h2 with
    | Some a, Some b => (s, RBool (obj_eqb (objs s) a b))
    | _, _ => (s, RErr OtherExc)
    end
  end.

Definition run (s : state) (ops : list op) : state := fold_left (fun s o => fst (step s o)) ops s.

(** * Observation: what the public accessors show *)
(** kind: 0 Graph, 1 FactorGraph, 2 HRG, 3 FGG.
    ObsG (kind, nodes(), edges(), ext, type) (node_labels(), edge_labels(), nonterminals(), terminals()) (domains, factors)
    ObsH (kind, all_rules(), [(lhs, rules(lhs))], start) (the same four label views) (domains, factors);
    a rule is shown as its lhs and the handle of its rhs graph object. *)
Inductive oobs :=
| ObsG (a : nat * list node * list edge * list node * list nat)
       (b : list nat * list elabel * list elabel * list elabel)
       (c : list (nat * dom) * list (nat * factor))
| ObsH (a : nat * list rule * list (elabel * list rule) * elabel)
       (b : list nat * list elabel * list elabel * list elabel)
       (c : list (nat * dom) * list (nat * factor)).

Definition obs_tab (t : tables) : list nat * list elabel * list elabel * list elabel :=
  (map snd (t_nl t), map snd (t_el t),
   filter (fun l => negb (el_term l)) (map snd (t_el t)), filter el_term (map snd (t_el t))).

Definition obs_obj (o : obj) : oobs :=
  match o with
  | OG g => ObsG ((if g_fg g then 1 else 0), map snd (g_nodes g), map snd (g_edges g), g_ext g, g_type g)
                 (obs_tab (g_tab g)) (t_dom (g_tab g), t_fac (g_tab g))
  | OH h => ObsH ((if h_fgg h then 3 else 2), concat (map snd (h_rules h)), h_rules h, h_start h)
                 (obs_tab (h_tab h)) (t_dom (h_tab h), t_fac (h_tab h))
  end.

Definition observe (s : state) : list oobs := map obs_obj (objs s).

(** * Well-formedness, on observations (so that it can judge the implementation) *)
Fixpoint nodupb {A} (eq : forall a b : A, {a = b} + {a <> b}) (l : list A) : bool :=
  match l with [] => true | x :: l => negb (inb eq x l) && nodupb eq l end.

(** a graph: ids unique; attachment nodes and external nodes are nodes of the graph; an
    edge-label name denotes one label ([edge_labels()] has one entry per name and contains the
    label of every edge); every edge's nodes carry the labels its label demands; [type] is the
    labels of [ext] *)
Definition wf_graph_obs (nodes : list node) (edges : list edge) (ext : list node) (ty : list nat)
           (els : list elabel) : bool :=
  nodupb ident_eq_dec (map n_id nodes) && nodupb ident_eq_dec (map e_id edges)
  && forallb (fun e => forallb (fun n => inb node_eq_dec n nodes) (e_nodes e)) edges
  && forallb (fun n => inb node_eq_dec n nodes) ext
  && nodupb Nat.eq_dec (map el_name els)
  && forallb (fun e => inb elabel_eq_dec (e_label e) els) edges
  && forallb (fun e => if lnat_eq_dec (el_ty (e_label e)) (map n_label (e_nodes e)) then true else false) edges
  && (if lnat_eq_dec ty (map n_label ext) then true else false).

(** a grammar: one label per name, containing the start symbol, every lhs and every label used
    in a right-hand side; every rule's lhs has the type of its rhs (which is a live graph
    object); [all_rules()] is the concatenation of the [rules(lhs)] *)
Definition wf_rule_obs (all : list oobs) (els : list elabel) (r : rule) : bool :=
  inb elabel_eq_dec (r_lhs r) els &&
  match nth_error all (r_rhs r) with
  | Some (ObsG (_, _, edges, _, ty) _ _) =>
    (if lnat_eq_dec (el_ty (r_lhs r)) ty then true else false)
    && forallb (fun e => inb elabel_eq_dec (e_label e) els) edges
  | _ => false
  end.

Definition wf_obs (all : list oobs) (o : oobs) : bool :=
  match o with
  | ObsG (_, nodes, edges, ext, ty) (_, els, _, _) _ => wf_graph_obs nodes edges ext ty els
  | ObsH (_, rules, groups, start) (_, els, _, _) _ =>
    nodupb Nat.eq_dec (map el_name els)
    && inb elabel_eq_dec start els
    && (if list_eq_dec rule_eq_dec rules (concat (map snd groups)) then true else false)
    && nodupb elabel_eq_dec (map fst groups)
    && forallb (fun g => forallb (fun r => elabel_eqb (r_lhs r) (fst g)) (snd g)) groups
    && forallb (wf_rule_obs all els) rules
  end.

Definition wf_b (all : list oobs) : bool := forallb (wf_obs all) all.

(** * Guard: the one class of calls for which the code as it stands breaks the property *)
Definition resolved (s : state) (a : list narg) : list node := fst (resolve (ctr s) a).
Definition is_ok (r : result) : bool := match r with ROk => true | _ => false end.

(** the label and nodes of the edge an AddEdge / NewEdge call is about *)
Definition edge_call (s : state) (o : op) : option (nat * elabel * list node) :=
  match o with
  | AddEdge h l a _ => Some (h, l, resolved s a)
  | NewEdge h name a t _ _ => Some (h, EL name (map n_label (resolved s a)) t, resolved s a)
  | _ => None
  end.

(** aliasing: the grammar keeps a reference to the caller's rhs graph.  A successful call that
    changes the type of a graph used as a rhs, or gives it an edge whose label the owning
    grammar has not registered, breaks the grammar. *)
Definition rules_of (o : obj) : list rule :=
  match o with OH h => concat (map snd (h_rules h)) | OG _ => [] end.
Definition alias_ok (s : state) (o : op) : bool :=
  match o with
  | SetExt h a =>
    negb (is_ok (snd (step s o))) ||
    forallb (fun x => forallb (fun r => negb (Nat.eqb (r_rhs r) h) ||
                                        (if lnat_eq_dec (el_ty (r_lhs r)) (map n_label (resolved s a)) then true else false))
                              (rules_of x)) (objs s)
  | _ =>
    match edge_call s o with
    | Some (h, l, _) =>
      negb (is_ok (snd (step s o))) ||
      forallb (fun x => forallb (fun r => negb (Nat.eqb (r_rhs r) h) ||
                                          match aget Nat.eq_dec (t_el (tab_of x)) (el_name l) with
                                          | Some l' => elabel_eqb l' l
                                          | None => false
                                          end) (rules_of x)) (objs s)
    | None => true
    end
  end.

Definition guard_wf (s : state) (o : op) : bool := alias_ok s o.

(** * The correspondence check *)
Definition prod_eq_dec {A B} (ea : forall a b : A, {a = b} + {a <> b}) (eb : forall a b : B, {a = b} + {a <> b})
  : forall a b : A * B, {a = b} + {a <> b}.
Proof. decide equality. Defined.

Definition oobs_eq_dec : forall a b : oobs, {a = b} + {a <> b}.
Proof.
  decide equality;
    repeat first [ apply prod_eq_dec | apply list_eq_dec | apply Nat.eq_dec | apply elabel_eq_dec
                 | apply node_eq_dec | apply edge_eq_dec | apply rule_eq_dec | apply factor_eq_dec ].
Defined.
Definition result_eq_dec : forall a b : result, {a = b} + {a <> b}.
Proof. decide equality; [apply Bool.bool_dec | decide equality]. Defined.

(** the handle whose object a call may change (new objects are appended) *)
Definition target (o : op) : option nat :=
  match o with
  | AddNode h _ | NewNode h _ _ | RemoveNode h _ | AddEdge h _ _ _ | NewEdge h _ _ _ _ _
  | RemoveEdge h _ | SetExt h _ | AddRule h _ _ | NewRule h _ _ | SetStart h _
  | AddNodeLabel h _ | AddEdgeLabel h _ | AddDomain h _ _ | AddFactor h _ _
  | NewFiniteDomain h _ _ | NewFiniteFactor h _ _ _ | UpdWeights h _ _ _ => Some h
  | _ => None
  end.

(** frame: every object other than the target shows what it showed before *)
Fixpoint frame_ok (k : nat) (t : option nat) (before after : list oobs) : bool :=
  match before, after with
  | [], _ => true
  | b :: before, a :: after =>
    ((match t with Some h => Nat.eqb h k | None => false end) || (if oobs_eq_dec a b then true else false))
    && frame_ok (S k) t before after
  | _ :: _, [] => false
  end.

(** a copy shows what its original shows.  [strict = false] leaves the label-table views out
    (they are what F13 loses).  Rules of a copied grammar point to copies of the rhs graphs. *)
Definition graph_copy_match (strict : bool) (o c : oobs) : bool :=
  match o, c with
  | ObsG a b d, ObsG a' b' d' =>
    (if oobs_eq_dec (ObsG a b d) (ObsG a' b d) then true else false)
    && (if oobs_eq_dec (ObsG a b d) (ObsG a b d') then true else false)
    && (negb strict || (if oobs_eq_dec (ObsG a b d) (ObsG a b' d) then true else false))
  | _, _ => false
  end.
Definition copy_match (strict : bool) (all : list oobs) (o c : oobs) : bool :=
  match o, c with
  | ObsG _ _ _, ObsG _ _ _ => graph_copy_match strict o c
  | ObsH (k, rules, groups, start) b d, ObsH (k', rules', groups', start') b' d' =>
    Nat.eqb k k' && elabel_eqb start start'
    && (if oobs_eq_dec (ObsH (k, [], [], start) b d) (ObsH (k, [], [], start) b' d') then true else false)
    && (if list_eq_dec elabel_eq_dec (map r_lhs rules) (map r_lhs rules') then true else false)
    && (if list_eq_dec (prod_eq_dec elabel_eq_dec (list_eq_dec elabel_eq_dec))
                       (map (fun g => (fst g, map r_lhs (snd g))) groups)
                       (map (fun g => (fst g, map r_lhs (snd g))) groups') then true else false)
    && (if list_eq_dec rule_eq_dec rules' (concat (map snd groups')) then true else false)
    && forallb (fun rr => match nth_error all (r_rhs (fst rr)), nth_error all (r_rhs (snd rr)) with
                          | Some x, Some y => graph_copy_match strict x y
                          | _, _ => false
                          end) (combine rules rules')
  | _, _ => false
  end.

(** verdict of one step: the list of codes that apply
     1  wf_b rejects the implementation's state although every call so far satisfied guard_wf
     4  wf_b rejects it after a call outside alias_ok (the known class: mutation of a rule's rhs)
     5  a raising call changed what the objects show
     9  frame oracle rejects, or (while every call so far satisfied guard_wf) the copy does not
        show what its original shows
     10 result differs from the model's, 11 observation differs from the model's *)
Definition step_codes (s : state) (clean : bool) (prev : list oobs) (o : op) (r : result) (ob : list oobs)
  : list nat * bool :=
  let (s', mr) := step s o in
  let g := guard_wf s o in
  let wf := wf_b ob in
  let c_wf := if wf then [] else if clean && g then [1] else if clean then [4] else [] in
  let c_at := if is_err r && negb (if list_eq_dec oobs_eq_dec ob prev then true else false) then [5] else [] in
  let c_fr := if frame_ok 0 (target o) prev ob then [] else [9] in
  let c_cp := match o with
              | Copy h => if clean && is_ok r then
                            match nth_error ob h, nth_error ob (length prev) with
                            | Some x, Some y => if copy_match true ob x y then [] else [9]
                            | _, _ => [9]
                            end
                          else []
              | _ => []
              end in
  let c_res := if result_eq_dec r mr then [] else [10] in
  let c_obs := if list_eq_dec oobs_eq_dec ob (observe s') then [] else [11] in
  (c_wf ++ c_at ++ c_fr ++ c_cp ++ c_res ++ c_obs, clean && g && wf).

Definition severe (c : nat) : bool :=
  match c with 1 | 5 | 9 | 10 | 11 => true | _ => false end.

Fixpoint check_loop (s : state) (clean : bool) (prev : list oobs) (i : nat)
         (ops : list op) (tr : list (result * list oobs)) (first_known : nat) : nat :=
  match ops, tr with
  | o :: ops, (r, ob) :: tr =>
    let (cs, clean') := step_codes s clean prev o r ob in
    match filter severe cs with
    | c :: _ => c + 16 * i
    | [] =>
      let kn := match cs with c :: _ => c + 16 * i | [] => 0 end in
      check_loop (fst (step s o)) clean' ob (S i) ops tr (if Nat.eqb first_known 0 then kn else first_known)
    end
  | [], [] => first_known
  | _, _ => 15                                  (* malformed case: lengths differ *)
  end.

(** verdict = code + 16 * (index of the step), 0 = everything agreed and was accepted;
    the known class 4 is reported only if nothing severe follows *)
Definition api_check (x : list op * list (result * list oobs)) : nat :=
  check_loop init true [] 0 (fst x) (snd x) 0.
