(** C09 -- model of fggs/multi.py: [MultiTensor] as an insertion-ordered association list
    (absent key = zero block), [multi_mv], [_order_nonterminals], [multi_solve].
    Blocks are kept flattened (row-major), so [reshape]/[flatten] act on the recorded
    dimensions only.  Definitions only. *)
From Coq Require Import List Arith Bool PeanoNat QArith Qcanon.
Import ListNotations.
Require Import Fggs.Model.Semiring Fggs.Model.EReal Fggs.Model.Trop Fggs.Model.Solve.
Local Open Scope nat_scope.

Definition key := nat.
(** [shapes]: key -> numel of the block's shape, in dict order *)
Definition dims_t := list (key * nat).

Fixpoint dim (d : dims_t) (k : key) : nat :=
  match d with [] => 0 | (a, n) :: d => if Nat.eqb a k then n else dim d k end.

Section Multi.
Context {E : Type} (o : sr_ops E).

Definition mt1 := list (key * vec E).
Definition mt2 := list ((key * key) * mat E).

Fixpoint lookup1 (t : mt1) (k : key) : option (vec E) :=
  match t with [] => None | (a, v) :: t => if Nat.eqb a k then Some v else lookup1 t k end.
Fixpoint lookup2 (t : mt2) (x y : key) : option (mat E) :=
  match t with
  | [] => None
  | ((a, b), m) :: t => if Nat.eqb a x && Nat.eqb b y then Some m else lookup2 t x y
  end.
(** [d[k] = v]: an existing key keeps its position *)
Fixpoint set1 (t : mt1) (k : key) (v : vec E) : mt1 :=
  match t with
  | [] => [(k, v)]
  | (a, u) :: t => if Nat.eqb a k then (a, v) :: t else (a, u) :: set1 t k v
  end.
Fixpoint set2 (t : mt2) (x y : key) (m : mat E) : mt2 :=
  match t with
  | [] => [((x, y), m)]
  | ((a, b), u) :: t => if Nat.eqb a x && Nat.eqb b y then ((a, b), m) :: t
                        else ((a, b), u) :: set2 t x y m
  end.
Definition zeros1 (n : nat) : vec E := tab1 n (fun _ => zero o).
Definition zeros2 (n m : nat) : mat E := tab2 n m (fun _ _ => zero o).
(** [MultiTensor.__getitem__]: an absent key reads as the zero block *)
Definition getv (d : dims_t) (t : mt1) (k : key) : vec E :=
  match lookup1 t k with Some v => v | None => zeros1 (dim d k) end.
Definition getm (dx dy : dims_t) (t : mt2) (x y : key) : mat E :=
  match lookup2 t x y with Some m => m | None => zeros2 (dim dx x) (dim dy y) end.
(** [MultiTensor.add_single] *)
Definition add_single1 (d : dims_t) (t : mt1) (k : key) (v : vec E) : mt1 :=
  match lookup1 t k with
  | Some u => set1 t k (vadd_model o (dim d k) u v)
  | None => set1 t k v
  end.
Definition add_single2 (d : dims_t) (t : mt2) (x y : key) (m : mat E) : mt2 :=
  match lookup2 t x y with
  | Some u => set2 t x y (madd_model o (dim d x) (dim d y) u m)
  | None => set2 t x y m
  end.

(** * [multi_mv] *)
Definition multi_mv_model (di dj : dims_t) (transpose : bool) (a : mt2) (b : mt1) : mt1 :=
  fold_left (fun (c : mt1) (e : (key * key) * mat E) =>
               let '((x, y), t) := e in
               if transpose
               then match lookup1 b x with
                    | Some bx => add_single1 dj c y
                                   (mv_model o (dim dj y) (dim di x) (transpose_model o (dim di x) (dim dj y) t) bx)
                    | None => c
                    end
               else match lookup1 b y with
                    | Some by_ => add_single1 di c x (mv_model o (dim di x) (dim dj y) t by_)
                    | None => c
                    end)
            a [].

(** * [multi_solve] *)
(** the flattened copies: [a_flat[y,x] = t.T] if transpose else [a_flat[x,y] = t] *)
Definition flat_a (d : dims_t) (transpose : bool) (a : mt2) : mt2 :=
  fold_left (fun (acc : mt2) (e : (key * key) * mat E) =>
               let '((x, y), t) := e in
               if transpose then set2 acc y x (transpose_model o (dim d x) (dim d y) t)
               else set2 acc x y t)
            a [].
Definition flat_b (b : mt1) : mt1 := fold_left (fun acc e => set1 acc (fst e) (snd e)) b [].

(** [for y in order[k+1:]: if (z,y) in a: a.add_single((x,y), a[x,z].mm(a[z,y]))] *)
Definition lu_inner (d : dims_t) (z x : key) (rest : list key) (a : mt2) : mt2 :=
  fold_left (fun (a : mt2) (y : key) =>
               match lookup2 a z y with
               | Some azy => add_single2 d a x y
                               (mm_model o (dim d x) (dim d z) (dim d y) (getm d d a x z) azy)
               | None => a
               end)
            rest a.
(** body of [for x in order[k+1:]] *)
Definition lu_row (d : dims_t) (z : key) (rest : list key) (st : mt2 * mt1) (x : key) : mt2 * mt1 :=
  let (a, b) := st in
  match lookup2 a x z with
  | None => st
  | Some axz =>
    let a := match lookup2 a z z with
             | Some azz =>   (* a[x,z].copy_(a[z,z].T.solve(a[x,z].T, semiring).T) *)
               set2 a x z (transpose_model o (dim d z) (dim d x)
                             (solve_model_mat o (dim d z) (dim d x)
                                (transpose_model o (dim d z) (dim d z) azz)
                                (transpose_model o (dim d x) (dim d z) axz)))
             | None => a
             end in
    let a := lu_inner d z x rest a in
    let b := match lookup1 b z with
             | Some bz => add_single1 d b x (mv_model o (dim d x) (dim d z) (getm d d a x z) bz)
             | None => b
             end in
    (a, b)
  end.
(** [for k,z in enumerate(order): for x in order[k+1:]: ...] *)
Fixpoint lu_loop (d : dims_t) (order : list key) (st : mt2 * mt1) : mt2 * mt1 :=
  match order with
  | [] => st
  | z :: rest => lu_loop d rest (fold_left (lu_row d z rest) rest st)
  end.
(** [for k,z in reversed(list(enumerate(order)))]: [ro] = the reversed order, so the tail of
    [ro] is [reversed(order[:k])] *)
Fixpoint back_loop (d : dims_t) (a : mt2) (ro : list key) (b : mt1) : mt1 :=
  match ro with
  | [] => b
  | z :: earlier =>
    let b := match lookup1 b z with
             | None => b
             | Some bz =>
               let b := match lookup2 a z z with
                        | Some azz => set1 b z (solve_model o (dim d z) azz bz)
                        | None => b
                        end in
               fold_left (fun (b : mt1) (x : key) =>
                            match lookup2 a x z with
                            | Some axz => add_single1 d b x (mv_model o (dim d x) (dim d z) axz (getv d b z))
                            | None => b
                            end)
                         earlier b
             end in
    back_loop d a earlier b
  end.

Definition multi_solve_model (d : dims_t) (order : list key) (transpose : bool) (a : mt2) (b : mt1) : mt1 :=
  let st := lu_loop d order (flat_a d transpose a, flat_b b) in
  back_loop d (fst st) (rev order) (snd st).

(** * assembling the dense system (for the oracle) *)
Fixpoint offset (d : dims_t) (k : key) : nat :=
  match d with [] => 0 | (a, n) :: d => if Nat.eqb a k then 0 else n + offset d k end.
Definition total (d : dims_t) : nat := fold_right (fun e acc => snd e + acc) 0 d.
(** index -> (key, position in the block) *)
Fixpoint locate (d : dims_t) (i : nat) : key * nat :=
  match d with
  | [] => (0, i)
  | (a, n) :: d => if Nat.ltb i n then (a, i) else locate d (i - n)
  end.
(** rows indexed through [di], columns through [dj] *)
Definition assemble2g (di dj : dims_t) (a : mt2) : mat E :=
  tab2 (total di) (total dj)
       (fun i j => let (x, p) := locate di i in let (y, q) := locate dj j in
                   get2 o (getm di dj a x y) p q).
Definition assemble2 (d : dims_t) (transpose : bool) (a : mt2) : mat E :=
  if transpose then transpose_model o (total d) (total d) (assemble2g d d a) else assemble2g d d a.
Definition assemble1 (d : dims_t) (b : mt1) : vec E :=
  tab1 (total d) (fun i => let (x, p) := locate d i in get1 o (getv d b x) p).

End Multi.

Definition keys_eqb (a b : list nat) : bool :=
  Nat.eqb (length a) (length b) && forallb (fun p => Nat.eqb (fst p) (snd p)) (combine a b).

(** * verdicts, exact carriers.  [oc]: operations as coded, [ot]: the semiring proper.
    multi_solve: input (dims, order, transpose, a, b, out, u) with [u] a dense candidate
    pre-solution.  Codes 1-4, 6 as [Solve.col_verdict] on the assembled dense system
    (6: the output is reproduced exactly by the block model run with the star of the code,
    while the block model with the correct star gives the least solution: finding F2);
    10 the output is the least solution but differs from the block model with the star of
    the code; 11 the key list of the output differs from the model's; 12 shapes;
    13 internal: the block model with the correct star differs from the dense model. *)
Section MultiCheck.
Context {E : Type} (oc ot : sr_ops E) (eqb leb : E -> E -> bool).

Definition blocks_ok1 (d : dims_t) (b : @mt1 E) : bool :=
  forallb (fun e => Nat.eqb (length (snd e)) (dim d (fst e))) b.
Definition blocks_ok2 (di dj : dims_t) (a : @mt2 E) : bool :=
  forallb (fun e => shape_ok (dim di (fst (fst e))) (dim dj (snd (fst e))) (snd e)) a.

Definition multi_solve_check_exact
  (x : dims_t * list nat * bool * @mt2 E * @mt1 E * @mt1 E * vec E) : nat :=
  let '(d, order, tr, a, b, out, u) := x in
  if negb (blocks_ok2 d d a && blocks_ok1 d b && blocks_ok1 d out && Nat.eqb (length u) (total d)) then 12
  else
    let n := total d in
    let A := assemble2 ot d tr a in
    let bb := assemble1 ot d b in
    let X := assemble1 ot d out in
    let mcode := multi_solve_model oc d order tr a b in
    let mtrue := multi_solve_model ot d order tr a b in
    let xcode := assemble1 ot d mcode in
    let xtrue := assemble1 ot d mtrue in
    if negb (vec_all2 ot eqb n xtrue (solve_model ot n A bb)) then 13
    else
      let c := col_verdict ot eqb leb n A bb X u xcode (negb (vec_all2 ot eqb n xcode xtrue)) in
      if negb (Nat.eqb c 0) then c
      else if negb (keys_eqb (map fst out) (map fst mcode)) then 11 else 0.

(** multi_mv: input (di, dj, transpose, a, b, out): 1 the output is not the dense product of
    the assembled blocks; 10 differs from the block model; 11 key lists differ; 12 shapes *)
Definition multi_mv_check_exact (x : dims_t * dims_t * bool * @mt2 E * @mt1 E * @mt1 E) : nat :=
  let '(di, dj, tr, a, b, out) := x in
  let dout := if tr then dj else di in
  let din := if tr then di else dj in
  if negb (blocks_ok2 di dj a && blocks_ok1 din b && blocks_ok1 dout out) then 12
  else
    let A := assemble2g ot di dj a in
    let A := if tr then transpose_model ot (total di) (total dj) A else A in
    let dense := mv_model ot (total dout) (total din) A (assemble1 ot din b) in
    let X := assemble1 ot dout out in
    if negb (vec_all2 ot eqb (total dout) X dense) then 1
    else
      let m := multi_mv_model oc di dj tr a b in
      if negb (vec_all2 ot eqb (total dout) X (assemble1 ot dout m)) then 10
      else if negb (keys_eqb (map fst out) (map fst m)) then 11 else 0.
End MultiCheck.

Definition tblocks2 (a : list ((nat * nat) * list (list (nat * Q)))) : @mt2 trop :=
  map (fun e => (fst e, map (map trop_of) (snd e))) a.
Definition tblocks1 (b : list (nat * list (nat * Q))) : @mt1 trop :=
  map (fun e => (fst e, map trop_of (snd e))) b.

Definition multi_solve_check_trop
  (x : list (nat * nat) * list nat * bool * list ((nat * nat) * list (list (nat * Q)))
       * list (nat * list (nat * Q)) * list (nat * list (nat * Q)) * list (nat * Q)) : nat :=
  let '(d, order, tr, a, b, out, u) := x in
  multi_solve_check_exact trop_ops trop_ops teqb tleb
    (d, order, tr, tblocks2 a, tblocks1 b, tblocks1 out, map trop_of u).
Definition multi_solve_check_bool
  (x : list (nat * nat) * list nat * bool * list ((nat * nat) * list (list bool))
       * list (nat * list bool) * list (nat * list bool) * list bool) : nat :=
  multi_solve_check_exact bool_ops bool_ops Bool.eqb bool_leb x.
Definition multi_mv_check_trop
  (x : list (nat * nat) * list (nat * nat) * bool * list ((nat * nat) * list (list (nat * Q)))
       * list (nat * list (nat * Q)) * list (nat * list (nat * Q))) : nat :=
  let '(di, dj, tr, a, b, out) := x in
  multi_mv_check_exact trop_ops trop_ops teqb (di, dj, tr, tblocks2 a, tblocks1 b, tblocks1 out).
Definition multi_mv_check_bool
  (x : list (nat * nat) * list (nat * nat) * bool * list ((nat * nat) * list (list bool))
       * list (nat * list bool) * list (nat * list bool)) : nat :=
  multi_mv_check_exact bool_ops bool_ops Bool.eqb x.

(** * verdicts, approximate carrier (Real; Log through exp) *)
Definition eblocks2 (a : list ((nat * nat) * list (list (option Q)))) : @mt2 ereal :=
  map (fun e => (fst e, emat_of (snd e))) a.
Definition eblocks1 (b : list (nat * list (option Q))) : @mt1 ereal :=
  map (fun e => (fst e, map ereal_of (snd e))) b.

Fixpoint olookup (t : list (nat * list obs)) (k : nat) : option (list obs) :=
  match t with [] => None | (a, v) :: t => if Nat.eqb a k then Some v else olookup t k end.
(** the output blocks as one dense column of observations; an absent block is exactly zero *)
Definition assemble_obs (d : dims_t) (out : list (nat * list obs)) : list (list obs) :=
  map (fun i => let (x, p) := locate d i in
                [match olookup out x with Some v => nth p v (2, 0%Q, 0%Q) | None => (0, 0%Q, 0%Q) end])
      (seq 0 (total d)).

(** codes as [Solve.col_verdict_ereal] on the assembled system, then 10 (differs from the
    block model beyond the tolerance), 11, 12, 13 as above *)
Definition multi_solve_check_ereal
  (x : list (nat * nat) * list nat * bool * list ((nat * nat) * list (list (option Q)))
       * list (nat * list (option Q)) * list (nat * list obs) * list (option Q)) : nat :=
  let '(d, order, tr, a, b, out, u) := x in
  let a := eblocks2 a in let b := eblocks1 b in let u := map ereal_of u in
  if negb (blocks_ok2 d d a && blocks_ok1 d b
           && forallb (fun e => Nat.eqb (length (snd e)) (dim d (fst e))) out
           && Nat.eqb (length u) (total d)) then 12
  else
    let n := total d in
    let A := assemble2 ereal_ops d tr a in
    let bb := assemble1 ereal_ops d b in
    let X := assemble_obs d out in
    let m := multi_solve_model ereal_ops d order tr a b in
    let xm := assemble1 ereal_ops d m in
    if negb (vec_all2 ereal_ops eeqb n xm (solve_model ereal_ops n A bb)) then 13
    else
      let c := col_verdict_ereal n A bb u X 0 in
      if negb (Nat.eqb c 0) then c
      else if negb (keys_eqb (map fst out) (map fst m)) then 11 else 0.

Definition multi_mv_check_ereal
  (x : list (nat * nat) * list (nat * nat) * bool * list ((nat * nat) * list (list (option Q)))
       * list (nat * list (option Q)) * list (nat * list obs)) : nat :=
  let '(di, dj, tr, a, b, out) := x in
  let a := eblocks2 a in let b := eblocks1 b in
  let dout := if tr then dj else di in
  let din := if tr then di else dj in
  if negb (blocks_ok2 di dj a && blocks_ok1 din b
           && forallb (fun e => Nat.eqb (length (snd e)) (dim dout (fst e))) out) then 12
  else
    let A := assemble2g ereal_ops di dj a in
    let A := if tr then transpose_model ereal_ops (total di) (total dj) A else A in
    let dense := mv_model ereal_ops (total dout) (total din) A (assemble1 ereal_ops din b) in
    let X := assemble_obs dout out in
    let near v := forallb (fun i => obs_near 1%Q (obs_at X i 0) (get1 ereal_ops v i)) (seq 0 (total dout)) in
    if negb (near dense) then 1
    else
      let m := multi_mv_model ereal_ops di dj tr a b in
      if negb (near (assemble1 ereal_ops dout m)) then 10
      else if negb (keys_eqb (map fst out) (map fst m)) then 11 else 0.

(** * [_order_nonterminals]
    [keys] = the keys of [a] in dict order, [shape_keys] = [a.shapes[0].keys()].
    Python sets are lists in insertion order here; [iter] gives the order in which a set is
    iterated (for small non-negative ints in CPython: ascending, see notes/C09.md). *)
Section Order.
Variable iter : list key -> list key.

Definition memk (l : list key) (x : key) : bool := existsb (Nat.eqb x) l.
Definition graph_t := list (key * list key).
Fixpoint gsuccs (g : graph_t) (x : key) : option (list key) :=
  match g with [] => None | (a, s) :: g => if Nat.eqb a x then Some s else gsuccs g x end.
Fixpoint gadd (g : graph_t) (x y : key) : graph_t :=
  match g with
  | [] => [(x, [y])]
  | (a, s) :: g => if Nat.eqb a x then (a, if memk s y then s else s ++ [y]) :: g
                   else (a, s) :: gadd g x y
  end.
Definition build_graph (keys : list (key * key)) : graph_t :=
  fold_left (fun g e => gadd g (fst e) (snd e)) keys [].

Fixpoint fget (m : list (key * nat)) (k : key) : option nat :=
  match m with [] => None | (a, t) :: m => if Nat.eqb a k then Some t else fget m k end.

(** state: (visited, time, finish_times) *)
Fixpoint dfs (fuel : nat) (g : graph_t) (node : key) (st : list key * nat * list (key * nat))
  : option (list key * nat * list (key * nat)) :=
  match fuel with
  | 0 => None
  | S fuel =>
    let '(vis, time, fin) := st in
    let vis := if memk vis node then vis else vis ++ [node] in
    let fix go (ns : list key) (st : list key * nat * list (key * nat)) :=
      match ns with
      | [] => Some st
      | w :: ns => let '(vis, _, _) := st in
                   if memk vis w then go ns st
                   else match dfs fuel g w st with None => None | Some st => go ns st end
      end in
    match go (match gsuccs g node with Some s => iter s | None => [] end) (vis, time, fin) with
    | None => None
    | Some (vis, time, fin) => Some (vis, S time, fin ++ [(node, S time)])
    end
  end.

Definition nonlinking_step (g : graph_t) (fin : list (key * nat)) (nl : list key) (x : key) : list key :=
  match fget fin x, gsuccs g x with
  | Some fx, Some s =>
    let fix first (ys : list key) :=
      match ys with
      | [] => nl
      | y :: ys => match fget fin y with
                   | Some fy => if Nat.ltb fx fy then (if memk nl y then nl else nl ++ [y]) else first ys
                   | None => first ys   (* KeyError in Python; unreachable: successors of a finished node are finished *)
                   end
      end in first (iter s)
  | _, _ => nl
  end.

Definition order_nonterminals_model (keys : list (key * key)) (shape_keys : list key) : option (list key) :=
  match rev keys with
  | [] => Some []
  | (start, _) :: _ =>
    let g := build_graph keys in
    match dfs (S (length g + length keys)) g start ([], 0, []) with
    | None => None
    | Some (_, _, fin) =>
      let nl := fold_left (nonlinking_step g fin) shape_keys [] in
      Some (filter (fun x => negb (memk nl x)) shape_keys ++ iter nl)
    end
  end.
End Order.

(** ascending order without duplicates: CPython's iteration order of a set of small ints *)
Fixpoint insert_sorted (x : nat) (l : list nat) : list nat :=
  match l with
  | [] => [x]
  | y :: l' => if Nat.ltb x y then x :: l else if Nat.eqb x y then l else y :: insert_sorted x l'
  end.
Definition iter_sorted (l : list nat) : list nat := fold_left (fun acc x => insert_sorted x acc) l [].

Definition list_eqb (a b : list nat) : bool :=
  Nat.eqb (length a) (length b) && forallb (fun p => Nat.eqb (fst p) (snd p)) (combine a b).
Fixpoint nodupb (l : list nat) : bool :=
  match l with [] => true | x :: l => negb (memk l x) && nodupb l end.

(** verdict: 0 ok; 1 the implementation's order is not a duplicate-free enumeration of the
    shape keys (the property needed by multi_solve); 10 differs from the model; 11 model out of fuel *)
Definition order_check (x : list (nat * nat) * list nat * list nat) : nat :=
  let '(keys, shape_keys, out) := x in
  if negb (nodupb out && forallb (memk out) shape_keys && forallb (memk shape_keys) out)
  then (match keys with [] => match out with [] => 0 | _ => 1 end | _ => 1 end)
  else match order_nonterminals_model iter_sorted keys shape_keys with
       | None => 11
       | Some l => if list_eqb l out then 0 else 10
       end.
