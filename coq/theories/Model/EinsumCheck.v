(** Check functions for C07 (model side of the correspondence), over the exact carriers
    [ereal] (Real, and Log read through exp), [trop] (Viterbi) and [bool].

    Input: the operands on the wire (physical storage, offset and torch strides, paxes, vaxes,
    default, requires_grad), the einsum signature, whether grad mode is on, the first unused uid,
    the implementation's dense result, and what a spy on [reduce_equation] saw.
    Verdict: 0 = the dense specification [einsum_dense] applied to the brute-force denotations
    of the operands accepts the implementation's result AND the model [einsum_model] computes the
    same tensor (and takes the same [reduce_equation] decisions);
    1..9 = the specification rejects the implementation's output; 10.. = implementation and
    model differ; 20.. = malformed input. *)
From Coq Require Import List Arith Lia PeanoNat Bool PArith QArith Qcanon.
Import ListNotations.
Require Import Fggs.Model.Semiring Fggs.Model.SumProduct Fggs.Model.EReal Fggs.Model.Trop.
Require Import Fggs.Model.Axis Fggs.Model.PTensor Fggs.Model.AxisCheck Fggs.Model.Einsum.
Local Open Scope nat_scope.

Section Check.
Context {R W WO : Type} (o : sr_ops R) (veqb : R -> R -> bool) (ofw : W -> R) (okw : R -> WO -> bool).

(** paxes, torch strides of the physical tensor, storage offset, vaxes, default, flat storage,
    requires_grad *)
Definition wten : Type := (list pn * list nat * nat * list axis * W * list W * bool)%type.

Definition st_of_wire (w : wten) : stensor (R:=R) :=
  let '(ps, pstr, off, vs, d, flat, rg) := w in
  let vals := map ofw flat in
  mkST (mkPT (fun idx => nth (off + dot idx pstr) vals (ofw d)) ps vs (ofw d)) pstr rg.

Definition wire_ok (w : wten) : bool :=
  let '(ps, pstr, off, vs, d, flat, rg) := w in
  Nat.eqb (length pstr) (length ps) && repr_inv_b (map snd ps) ps vs &&
  (existsb (fun kn => Nat.eqb (snd kn) 0) ps
   || (off + dot (map (fun kn => snd kn - 1) ps) pstr <? length flat)).

(** the denotation by definition (brute force): the in-range environment that evaluates to the
    index, if any *)
Definition dspec (t : ptensor R) (idx : list nat) : R :=
  match find (fun pi => leqb (evals (env_of pi) (vaxes t)) idx) (all_envs (paxes t)) with
  | Some pi => pget R t (env_of pi)
  | None => default t
  end.

(** the dense operand a patterned tensor denotes *)
Definition spec_operand (t : ptensor R) : operand (R:=R) := (shape R t, dspec t).

Definition sig_ok (shapes inputs : list (list nat)) (output : list nat) : bool :=
  Nat.eqb (length shapes) (length inputs)
  && forallb (fun si => Nat.eqb (length (fst si)) (length (snd si))) (combine shapes inputs)
  && (let sz := label_sizes shapes inputs in forallb (fun ls => Nat.eqb (lval sz (fst ls)) (snd ls)) sz)
  && forallb (fun l => existsb (Nat.eqb l) (concat inputs)) output.

Definition first_bad {A B} (f : A -> B -> bool) (l : list A) (l' : list B) : bool :=
  negb (Nat.eqb (length l) (length l') && forallb (fun ab => f (fst ab) (snd ab)) (combine l l')).

(** the implementation's result: tag (0 = value, 1 = KeyError, 2 = another exception), shape, cells *)
Definition wres : Type := (nat * list nat * list WO)%type.
(** what the spy on [reduce_equation] saw: tag (0 = not called, 1 = called), unsqueeze_index,
    shapes of the reduced views *)
Definition wspy : Type := (nat * list nat * list (list nat))%type.

Definition spec_verdict (ops : list (operand (R:=R))) (inputs : list (list nat)) (output : list nat) (res : wres) : nat :=
  let '(tag, i_shp, i_vals) := res in
  match tag with
  | 0 =>
      let shp := einsum_shape ops inputs output in
      if negb (leqb shp i_shp) then 1
      else if first_bad okw (map (einsum_dense o ops inputs output) (all_assts shp)) i_vals then 2 else 0
  | _ => 3
  end.

Definition model_dense (r : ptensor R) : option (list R) :=
  match to_dense_store R r with
  | Ok st => Some (map (fun idx => st (flat_offset (shape R r) idx)) (all_assts (shape R r)))
  | Fail _ => None
  end.

Definition spy_verdict (r : erun (R:=R)) (spy : wspy) : nat :=
  let '(tag, i_unsq, i_shapes) := spy in
  let called := negb (er_failed r) && negb (er_zero_axis r) && use_reduce (er_views r) in
  if negb (Bool.eqb called (Nat.eqb tag 1)) then 14
  else if negb called then 0
  else let rd := reduce_equation_model (er_views r) (er_outp r) in
       if negb (leqb (rd_unsq rd) i_unsq) then 15
       else if first_bad leqb (map (fun v => map snd (vw_vars v)) (rd_views rd)) i_shapes then 16
       else 0.

Definition einsum_check
  (x : list wten * list (list nat) * list nat * bool * positive * wres * wspy) : nat :=
  let '(wts, inputs, output, genabled, next, res, spy) := x in
  if negb (forallb wire_ok wts) then 20
  else
    let ts := map st_of_wire wts in
    if negb (sig_ok (map (fun t => shape R (st_pt t)) ts) inputs output) then 21
    else
      let ops := map (fun t => spec_operand (st_pt t)) ts in
      let oracle := spec_verdict ops inputs output res in
      if negb (Nat.eqb oracle 0) then oracle
      else
        let '(tag, i_shp, i_vals) := res in
        match ts with
        | [] =>
            match einsum_model o veqb genabled next ts inputs output with
            | Ok r => if negb (leqb (shape R r) i_shp) then 10
                      else match model_dense r with
                           | Some vals => if first_bad okw vals i_vals then 11 else 0
                           | None => 12
                           end
            | Fail _ => 13
            end
        | _ =>
            match einsum_run o veqb genabled next ts inputs output with
            | Ok run =>
                match post_init R (er_raw run) with
                | Ok r =>
                    if negb (leqb (shape R r) i_shp) then 10
                    else match model_dense r with
                         | Some vals => if first_bad okw vals i_vals then 11 else spy_verdict run spy
                         | None => 12
                         end
                | Fail _ => 13
                end
            | Fail _ => 13
            end
        end.

(** * the Viterbi variant *)
Context (leb : R -> R -> bool).

(** the pointer tuple [vp] of the output cell [oidx] attains [value]: it is in range and the
    product of the operand entries at the pointed indices equals the value.  When a summed-out
    index has size 0 there is no index tuple at all and every pointer is accepted; likewise for a
    cell off the diagonal of a repeated output index (no consistent index tuple). *)
Definition argmax_ok (ops : list (operand (R:=R))) (inputs : list (list nat)) (output : list nat)
                     (oidx vp : list nat) (value : R) : bool :=
  let sz := label_sizes (map fst ops) inputs in
  let summed := summed_labels inputs output in
  let sizes := map (lval sz) summed in
  existsb (Nat.eqb 0) sizes || negb (out_consistent output oidx) ||
  (Nat.eqb (length vp) (length summed)
   && forallb (fun pn => fst pn <? snd pn) (combine vp sizes)
   && veqb (einsum_term o ops inputs (combine output oidx ++ combine summed vp)) value).

Fixpoint chunks (n : nat) (count : nat) (l : list nat) : list (list nat) :=
  match count with
  | O => []
  | S c => firstn n l :: chunks n c (skipn n l)
  end.

(** pointers: shape and flat cells of the dense pointer tensor *)
Definition viterbi_check
  (x : list wten * list (list nat) * list nat * bool * positive * wres * (list nat * list nat)) : nat :=
  let '(wts, inputs, output, genabled, next, res, (p_shp, p_flat)) := x in
  if negb (forallb wire_ok wts) then 20
  else
    let ts := map st_of_wire wts in
    if negb (sig_ok (map (fun t => shape R (st_pt t)) ts) inputs output) then 21
    else
      let ops := map (fun t => spec_operand (st_pt t)) ts in
      let oracle := spec_verdict ops inputs output res in
      if negb (Nat.eqb oracle 0) then oracle
      else
        let '(tag, i_shp, i_vals) := res in
        let shp := einsum_shape ops inputs output in
        let cells := all_assts shp in
        let n := length (summed_labels inputs output) in
        if negb (leqb p_shp (shp ++ [n])) then 4
        else if negb (Nat.eqb (length p_flat) (length cells * n)) then 4
        else if negb (forallb (fun cv => argmax_ok ops inputs output (fst cv) (snd cv)
                                                   (einsum_dense o ops inputs output (fst cv)))
                              (combine cells (chunks n (length cells) p_flat))) then 5
        else
          match ts with
          | [] => 0
          | _ =>
            match einsum_run o veqb genabled next ts inputs output with
            | Ok run =>
                match post_init R (er_raw run) with
                | Ok r =>
                    if negb (leqb (shape R r) i_shp) then 10
                    else match model_dense r with
                         | Some vals =>
                             if first_bad okw vals i_vals then 11
                             else (* the model's own pointers must pass the same oracle *)
                               if forallb (fun idx => match viterbi_ptr_model o leb run output idx with
                                                      | Ok vp => argmax_ok ops inputs output idx vp (einsum_dense o ops inputs output idx)
                                                      | Fail _ => false end) cells
                               then 0 else 17
                         | None => 12
                         end
                | Fail _ => 13
                end
            | Fail _ => 13
            end
          end.

(** * [reduce_equation] / [post_einsum] called directly on strided torch tensors *)
(** a view on the wire: (variable, size, torch stride) per dimension, storage offset, flat storage *)
Definition wview : Type := (list (positive * nat * nat) * nat * list W)%type.

Definition view_of_wire (w : wview) : view (R:=R) :=
  let '(dims, off, flat) := w in
  mkView (fun coords => nth (off + dot coords (map snd dims)) (map ofw flat) (Semiring.zero o)) dims false.

Definition wview_ok (w : wview) : bool :=
  let '(dims, off, flat) := w in
  nodup_pos (map (fun d => fst (fst d)) dims)
  && (existsb (fun d => Nat.eqb (snd (fst d)) 0) dims
      || (off + dot (map (fun d => snd (fst d) - 1) dims) (map snd dims) <? length flat)).

(** (views, output variables, what reduce_equation returned: unsqueeze_index and the shapes of the
    reduced views, the dense result of einsum(reduced) followed by post_einsum).
    0 = the result is the einsum of the ORIGINAL equation over the views (specification) and the
    reduction is the model's; 1..3 = the specification rejects the result; 11, 15, 16 = differs from
    the model; 20 = malformed *)
Definition reduce_check (x : list wview * list pn * (list nat * list (list nat)) * wres) : nat :=
  let '(wvs, out, (i_unsq, i_shapes), res) := x in
  let views := map view_of_wire wvs in
  let allv := flat_map (vw_vars (R:=R)) views in
  if negb (forallb wview_ok wvs && nodup_pos (map fst out) && sizes_consistent (allv ++ out)
           && forallb (fun kn => pmem (fst kn) allv) out) then 20
  else
    let '(tag, i_shp, i_vals) := res in
    let shp := map snd out in
    let cells := all_assts shp in
    match tag with
    | 0 =>
        if negb (leqb shp i_shp) then 1
        else if first_bad okw (map (einsum_views o views out) cells) i_vals then 2
        else
          let rd := reduce_equation_model views out in
          if negb (leqb (rd_unsq rd) i_unsq) then 15
          else if first_bad leqb (map (fun v => map snd (vw_vars v)) (rd_views rd)) i_shapes then 16
          else if first_bad okw (map (post_einsum_model (einsum_views o (rd_views rd) (rd_out rd)) (rd_unsq rd)) cells) i_vals then 11
          else 0
    | _ => 3
    end.
End Check.

(** * instances *)
Definition qle (a b : Q) : bool := Qle_bool a b.

(** Real (and Log through exp): values [None] = +inf, [Some q]; results [None] = +inf exactly,
    [Some (lo, hi)] = an interval that must contain the exact value *)
Definition ereal_ok (x : ereal) (w : option (Q * Q)) : bool :=
  match x, w with
  | PInf, None => true
  | Fin a, Some (lo, hi) => qle lo (this (qv a)) && qle (this (qv a)) hi
  | _, _ => false
  end.
Definition einsum_check_real := einsum_check (W:=option Q) ereal_ops eeqb ereal_of ereal_ok.
Definition reduce_check_real := reduce_check (W:=option Q) ereal_ops ereal_of ereal_ok.

Definition trop_ok (x : trop) (w : nat * Q) : bool := teqb x (trop_of w).
Definition einsum_check_trop := einsum_check (W:=nat * Q) trop_ops teqb trop_of trop_ok.
Definition reduce_check_trop := reduce_check (W:=nat * Q) trop_ops trop_of trop_ok.
Definition viterbi_check_trop := viterbi_check (W:=nat * Q) trop_ops teqb trop_of trop_ok tleb.

Definition einsum_check_bool := einsum_check (W:=bool) bool_ops Bool.eqb (fun b => b) Bool.eqb.
