(** C09 tier B -- check functions for [PatternedTensor.solve] (model: Model/PSolve.v).
    Soundness of the oracles they use: Proofs/PSolve_oracle.v. *)
From Coq Require Import List Arith Lia PeanoNat Bool PArith QArith.
Import ListNotations.
Require Import Fggs.Model.Semiring Fggs.Model.Axis Fggs.Model.AxisCheck Fggs.Model.PTensor Fggs.Model.Solve.
Require Import Fggs.Model.PSolve.
Local Open Scope nat_scope.

(** * the pattern level.
    Input: ((a.default is zero, a.paxes, a.vaxes), (b.default is zero, b.paxes, b.vaxes), next uid,
            implementation: (tag, result.vaxes[0], passes, warned)),
    tag 0 = [solve_thunks] was called (normal exit), 1 = it was not ([b.clone()] returned).
    Verdicts:
      0  ok
      1  the support of the implementation's solution axis does not contain the support of [b]
      2  the support of the implementation's solution axis is not closed under [a]
         (a nonzero of [a] maps a supported index outside the support)
      3  [b.clone()] was returned although a column of [a] meets the support of [b]
      10 exit kind differs from the model     11 solution axis not alpha-equivalent to the model's
      12 number of passes differs             13 warning flag differs
      14 the model failed ([LErr], [LFuel], arity)
      15 a premise of the theorems fails on this case although the model agrees with the
         implementation: a warning was issued, or (termination) a clone has a size-1 factor
      16 internal: the last unifier changes a size although nothing was warned about
         (impossible: C09_unify_sized)
      17 harness: a physical axis occurs with two sizes *)
Definition psolve_axis_check
  (x : (bool * list pn * list axis) * (bool * list pn * list axis) * positive * (nat * axis * nat * bool)) : nat :=
  let '((a_zero, aps, avs), (b_zero, bps, bvs), next, (i_tag, i_e, i_iters, i_warn)) := x in
  match psolve_axes a_zero b_zero aps avs bps bvs next with
  | None => 14
  | Some (a0, a1, b0, ebs, r) =>
      if negb (sizes_consistent (fvn a0 ++ fvn a1) && sizes_consistent (fvn b0) && sizes_consistent (fvn i_e)) then 17
      else
      match r with
      | LErr _ | LFuel _ _ => 14
      | LEarly e i =>
          if negb (Nat.eqb i_tag 1) then 10
          else if negb (disjoint_b a1 b0) then 3
          else if negb (Nat.eqb (li_iters i) i_iters) then 12
          else if negb (Bool.eqb (li_warn i) i_warn) then 13
          else if li_warn i || negb (trace_nouf (li_trace i)) then 15
          else 0
      | LDone g ents i =>
          if negb (Nat.eqb i_tag 0) then 10
          else if negb (contains_b b0 i_e) then 1
          else if negb (closed_b a0 a1 i_e) then 2
          else if negb (alpha_eqb g i_e) then 11
          else if negb (Nat.eqb (li_iters i) i_iters) then 12
          else if negb (Bool.eqb (li_warn i) i_warn) then 13
          else if li_warn i || negb (trace_nouf (li_trace i)) then 15
          else if negb (last_sized_b a0 (li_trace i)) then 16
          else 0
      end
  end.

(** * the values (semiring-independent: the projection copies entries).
    Values on the wire: (tag, q) with tag 0 = finite q, 1 = +inf, 2 = -inf, 3 = nan.
    Input: ((n, m, zero), solution axis e, b.vaxes[1:], dense A (n x n), dense B (n x m, the
            dimensions after the first flattened row-major), observed operands of solve_thunks
            RA (p x p), RB (p x q), its observed result X (p x q), the dense result (n x m)).
    Verdicts: 0 ok; 4 RA is not the gather of A along e; 5 RB is not the gather of B;
      6 the result is not the scatter of X along e with zero elsewhere; 12 shapes *)
Definition wv := (nat * Q)%type.
Definition wv_eqb (a b : wv) : bool :=
  Nat.eqb (fst a) (fst b) && (negb (Nat.eqb (fst a) 0) || Qeq_bool (snd a) (snd b)).
Definition wmat_eqb (p q : nat) (X Y : list (list wv)) : bool :=
  shape_ok p q X && shape_ok p q Y &&
  forallb (fun i => forallb (fun j => wv_eqb (nth j (nth i X []) (3, 0%Q)) (nth j (nth i Y []) (3, 0%Q))) (seq 0 q)) (seq 0 p).

Definition psolve_value_check
  (x : (nat * nat * wv) * axis * list axis * list (list wv) * list (list wv)
       * (list (list wv) * list (list wv) * list (list wv)) * list (list wv)) : nat :=
  let '((n, m, z), e, ebs, A, B, (RA, RB, X), R) := x in
  let rows := sup_rows e in let cols := sup_cols ebs in
  let p := length rows in let q := length cols in
  if negb (shape_ok n n A && shape_ok n m B && shape_ok n m R && shape_ok p q X
           && Nat.eqb (fold_right Nat.mul 1 (map numel ebs)) m && Nat.eqb (numel e) n) then 12
  else if negb (wmat_eqb p p RA (gather2 z rows rows A)) then 4
  else if negb (wmat_eqb p q RB (gather2 z rows cols B)) then 5
  else if negb (wmat_eqb n m R (scatter2 z n m rows cols X)) then 6
  else 0.
