(** C02 (tier B): Newton's method as coded in fggs/sum_product.py, [newton]:

      for k in range(kmax):
          F0 = F(x0).maximum_(x0)
          stop = F0.shouldStop(x0, tol)
          JF = J(x0)
          dX = multi_solve(JF, F0 - x0)
          x0 += dX
          x0.maximum_(F0)
          if stop: break
      else: warn

    for ONE component [comp] of the grammar (the nonterminals of one SCC; the other nonterminals
    read their already computed values [inp], terminals their weights [w]).  A MultiTensor is read
    as an environment (absent key = zero block); [F] is the grammar's equations ([step], as in
    Model/Kleene.v), [J] is the code-shaped Jacobian of Model/Dual.v ([J_contribs]: leave one edge
    out, [add_single] = sum of the contributions with equal key, [J_val]), [sub] is the semiring's
    [sub] (Real: relu(x - y), Bool: x && not y, Viterbi: x), [maxr] the elementwise [maximum], and
    [solve] is [multi_solve]: first an abstract parameter (characterised in
    Proofs/Newton_sandwich.v as "least solution of y = A y + b"), then [solve_ms], the block
    solver [multi_solve_model] of Model/MultiSolve.v run on the tabulated blocks.
    Definitions only; theorems in Proofs/Newton_*.v. *)
From Coq Require Import QArith Qcanon List Arith Bool PeanoNat.
Import ListNotations.
Require Import Fggs.Model.Semiring Fggs.Model.SCC Fggs.Model.SumProduct Fggs.Model.SumProductCheck
               Fggs.Model.EReal Fggs.Model.Trop Fggs.Model.Kleene Fggs.Model.Dual
               Fggs.Model.Solve Fggs.Model.MultiSolve.
Local Open Scope nat_scope.

(** position of an index tuple in a list of index tuples (row-major position of a cell) *)
Fixpoint cell_pos (xi : list nat) (l : list (list nat)) : nat :=
  match l with
  | [] => 0
  | y :: l => if nat_list_eqb xi y then 0 else S (cell_pos xi l)
  end.

Section Newton.
Context {R : Type} (o : sr_ops R).
(** the semiring's [sub] and the elementwise maximum *)
Context (sub maxr : R -> R -> R).

(** a Jacobian: block (n, l), cell [xi ++ yi] (row xi of nonterminal n, column yi of label l) *)
Definition jmat := nat -> nat -> list nat -> R.

Variables (G : grammar) (w inp : env (R:=R)) (comp : list nat).

(** the values seen by the component's rules: its own nonterminals read [x], the others [inp] *)
Definition comp_env (x : env (R:=R)) : env (R:=R) := fun l => if mem comp l then x l else inp l.
(** [F(x0)] *)
Definition ncomp_step (x : env (R:=R)) : env (R:=R) := step o G w (comp_env x).
(** [J(x0)]: the contributions [Jx] accumulates *)
Definition newton_J (x : env (R:=R)) : list (nat * nat * (list nat -> R)) :=
  Jx_of comp (J_contribs o G comp (fun l => Some (fun xi => if is_term G l then w l xi else comp_env x l xi)) false).
(** [F(x0).maximum_(x0)] *)
Definition newton_F0 (x : env (R:=R)) : env (R:=R) := fun n xi => maxr (ncomp_step x n xi) (x n xi).

Section Step.
(** [multi_solve(a, b)] *)
Variable solve : jmat -> env (R:=R) -> env (R:=R).

(** one pass through the loop body: the new [x0] *)
Definition newton_step (x : env (R:=R)) : env (R:=R) :=
  let F0 := newton_F0 x in
  let JF := newton_J x in
  let dX := solve (J_val o JF) (fun n xi => sub (F0 n xi) (x n xi)) in
  fun n xi => maxr (add o (x n xi) (dX n xi)) (F0 n xi).

(** [x0] after k passes, started from the empty MultiTensor *)
Fixpoint newton_iter (k : nat) : env (R:=R) :=
  match k with 0 => zero_env o | S k => newton_step (newton_iter k) end.

(** the loop with its stop test ([close F0 x0] = [F0.shouldStop(x0, tol)], computed BEFORE the
    update; the update is still performed in the pass whose test succeeds): (final x0, warned) *)
Variable close : env (R:=R) -> env (R:=R) -> bool.
Definition newton_body (x : env (R:=R)) : env (R:=R) * bool := (newton_step x, close (newton_F0 x) x).
Fixpoint newton_for (n : nat) (x : env (R:=R)) : env (R:=R) * bool :=
  match n with
  | 0 => (x, true)
  | S n => let (x', stop) := newton_body x in if stop then (x', false) else newton_for n x'
  end.
Definition newton_run (kmax : nat) : env (R:=R) * bool := newton_for kmax (zero_env o).
End Step.

(** the Kleene iterates of the component's equations *)
Fixpoint comp_kleene (k : nat) : env (R:=R) :=
  match k with 0 => zero_env o | S k => ncomp_step (comp_kleene k) end.

(** * [multi_solve] on the tabulated blocks *)
Definition nassts (n : nat) : list (list nat) := all_assts (lshape G n).
(** flattened shapes: key n -> numel *)
Definition ndims : dims_t := map (fun n => (n, length (nassts n))) comp.
(** one (row-major flattened) block per pair of component nonterminals *)
Definition J_blocks (A : jmat) : @mt2 R :=
  flat_map (fun n => map (fun m => ((n, m), map (fun xi => map (fun eta => A n m (xi ++ eta)) (nassts m)) (nassts n))) comp) comp.
Definition b_blocks (b : env (R:=R)) : @mt1 R := map (fun n => (n, map (b n) (nassts n))) comp.
(** the result read back as an environment; elimination order = [comp] (every order that
    enumerates the component gives the same vector: C09_multi_solve_refines) *)
Definition solve_ms (A : jmat) (b : env (R:=R)) : env (R:=R) :=
  let sol := multi_solve_model o ndims comp false (J_blocks A) (b_blocks b) in
  fun n xi => get1 o (getv o ndims sol n) (cell_pos xi (nassts n)).

(** exact stop test: equality on the component's cells *)
Definition close_exact (eqb : R -> R -> bool) (a b : env (R:=R)) : bool :=
  forallb (fun n => forallb (fun xi => eqb (a n xi) (b n xi)) (nassts n)) comp.

(** tables *)
Definition ntab (f : env (R:=R)) : tmt (R:=R) := map (fun n => (n, tabulate (lshape G n) (f n))) comp.
End Newton.

(** * the check function *)
Section NewtonCheck.
Context {R W B : Type} (o : sr_ops R) (sub maxr : R -> R -> R).
Context (of_wire : W -> R) (within notbelow : R -> B -> bool).
(** [isfin]: the carrier's finite values.  C02 is stated for grammars whose sum-product is finite; a
    nonterminal whose exact lower bound (Kleene iterate / exact solution of a linearly recursive
    component) already has an infinite cell is outside that guard (verdict 31, discarded and counted):
    the float solvers return huge finite values there when 1 - a is not float-exact (that class is
    C09's known finding about divergent systems, not a C02 violation).  The same holds when the model's
    exact Newton iterate has an infinite cell (a Jacobian pivot with star = inf): Newton iterates lie below
    the least fixed point (C02_newton_sandwich), so the sum-product is infinite. *)
Context (isfin : R -> bool).

(** k Newton passes / k Kleene steps on one component; [all] holds the values of all labels
    computed so far (terminal weights and earlier nonterminals) *)
Definition newton_comp (G : grammar) (all : tmt (R:=R)) (comp : list nat) (k : nat) : tmt (R:=R) :=
  let w := env_of o all in
  iter_n (fun t => ntab G comp (newton_step o sub maxr G w w comp (solve_ms o G comp) (env_of o t)))
         k (ntab G comp (zero_env o)).
Definition kleene_comp (G : grammar) (all : tmt (R:=R)) (comp : list nat) (k : nat) : tmt (R:=R) :=
  let w := env_of o all in
  iter_n (fun t => ntab G comp (ncomp_step o G w w comp (env_of o t))) k (ntab G comp (zero_env o)).

(** [sum_products(method='newton', kmax)]: components in dependency order; one-step components
    exactly; linearly recursive components are downgraded to 'linear' = one Newton pass from
    zero (for affine equations the first Newton iterate is the least fixed point); the others
    run [kmax] passes.  Second component: a lower bound for every nonterminal (Kleene iterate
    number kmax of the Newton components on the same inputs; C02_newton_sandwich). *)
Definition newton_all (G : grammar) (w : tmt (R:=R)) (order : list (list nat)) (kmax : nat) : tmt (R:=R) * tmt (R:=R) :=
  fold_left (fun (st : tmt (R:=R) * tmt (R:=R)) comp =>
               let (all, lo) := st in
               match comp_method G 1 comp with
               | 3 => let all' := one_step_comp o G all comp in
                      (all', lo ++ skipn (length all) all')
               | 2 => let t := newton_comp G all comp 1 in (all ++ t, lo ++ t)
               | _ => (all ++ newton_comp G all comp kmax, lo ++ kleene_comp G all comp kmax)
               end) order (w, []).

Definition cells_all (p : R -> B -> bool) (tb : table (R:=R)) (obs : list B) : bool :=
  Nat.eqb (length tb) (length obs) && forallb (fun c => p (snd (fst c)) (snd c)) (combine tb obs).

(** input: grammar, terminal weights, kmax, observed values per nonterminal after exactly kmax
    passes (tol so small that the stop test can only fire at an exact fixed point, where further
    passes change nothing: C02_newton_fixed).
    verdicts: 0 ok; 1 an observed value lies below the kmax-th Kleene iterate (violates the
    sandwich); 2 ill-formed grammar; 3 scc out of fuel; 4 missing entry; 10 an observed value
    differs from the model's Newton iterate; 31 the exact value is infinite (outside the guard) *)
Definition newton_check (x : grammar_w * list (nat * list W) * nat * list (nat * list B)) : nat :=
  let '(gw, ws, kmax, obs) := x in
  let G := grammar_of_w gw in
  if negb (wf_grammar G) then 2 else
  match scc (nt_graph G) with
  | None => 3
  | Some order =>
    let w := weights_tmt of_wire G ws in
    let (model, lo) := newton_all G w order kmax in
    worst (map (fun X =>
                  match obs_get obs X, tmt_get model X, tmt_get lo X with
                  | Some ob, Some mt, Some lt =>
                    if negb (forallb (fun c => isfin (snd c)) lt) || negb (forallb (fun c => isfin (snd c)) mt) then 31 else
                    if negb (cells_all notbelow lt ob) then 1
                    else if negb (cells_all within mt ob) then 10 else 0
                  | None, _, _ => 4
                  | _, _, _ => 20
                  end) (nonterminals G))
  end.
End NewtonCheck.

(** * instances *)
Definition real_notbelow (x : ereal) (b : Q * option Q) : bool :=
  match snd b with
  | None => true
  | Some h => match x with Fin a => Qle_bool (this (qv a)) h | PInf => false end
  end.
Definition emax2 (x y : ereal) : ereal := if eleb x y then y else x.
Definition newton_check_real := newton_check ereal_ops esub emax2 ereal_of real_within real_notbelow
               (fun x => match x with Fin _ => true | PInf => false end).

Definition bsub2 (x y : bool) : bool := x && negb y.
Definition newton_check_bool :=
  newton_check bool_ops bsub2 orb (fun b : bool => b) Bool.eqb (fun (lo ob : bool) => implb lo ob) (fun _ => true).

(** Viterbi: [sub] returns its first argument, maximum = the semiring's addition *)
Definition newton_check_trop :=
  newton_check trop_ops (fun x _ => x) tmax trop_of
               (fun x (b : (nat * Q) * (nat * Q)) => trop_within x (fst b) (snd b))
               (fun x (b : (nat * Q) * (nat * Q)) => tleb x (trop_of (snd b)))
               (fun x => match x with TPInf => false | _ => true end).
