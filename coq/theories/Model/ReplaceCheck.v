(** C15 check functions (model side of the correspondence): wire decoders and verdicts.
    Everything on the wire is tuples/lists of naturals plus one inductive ([wtree]). *)
From Coq Require Import List Arith Bool PeanoNat NArith.
Import ListNotations.
Require Import Fggs.Model.Semiring Fggs.Model.Replace.

Definition wid := (nat * nat)%type.                         (* (0, n) = Explicit n; (1, n) = Fresh n *)
Definition wnode := (wid * nat)%type.
Definition wlab := (nat * list nat * bool)%type.
Definition wedge := (wid * wlab * list wnode)%type.
Definition wgraph := (list wnode * list wedge * list wnode * list wlab * list nat)%type.
Definition wname := (nat * list wid * wid)%type.            (* (0, [], (0, j)) = NStart j; (1, p, i) = NInst p i *)
Inductive wtree := WT (r : wlab * wgraph) (a : list (wnode * nat)) (cs : list (wedge * wtree)).

Definition d_id (w : wid) : id := match fst w with 0 => Explicit (snd w) | _ => Fresh (snd w) end.
Definition d_node (w : wnode) : node := mkNode (d_id (fst w)) (snd w).
Definition d_lab (w : wlab) : elabel := let '(n, t, b) := w in mkLab n t b.
Definition d_edge (w : wedge) : edge := let '(i, l, ns) := w in mkEdge (d_id i) (d_lab l) (map d_node ns).
Definition d_graph (w : wgraph) : graph :=
  let '(ns, es, ext, ls, nls) := w in mkGraph (map d_node ns) (map d_edge es) (map d_node ext) (map d_lab ls) nls.
Definition d_name (w : wname) : name :=
  let '(tag, p, i) := w in match tag with 0 => NStart (snd i) | _ => NInst (map d_id p) (d_id i) end.
Fixpoint d_tree (w : wtree) : dtree :=
  match w with
  | WT (l, g) a cs => DT (mkRule (d_lab l) (d_graph g)) (map (fun va => (d_node (fst va), snd va)) a)
                         (map (fun kc => (d_edge (fst kc), d_tree (snd kc))) cs)
  end.

Definition graph_eqb (a b : graph) : bool :=
  list_eqb node_eqb (g_nodes a) (g_nodes b) && list_eqb edge_eqb (g_edges a) (g_edges b)
  && list_eqb node_eqb (g_ext a) (g_ext b) && list_eqb elabel_eqb (g_elabs a) (g_elabs b)
  && list_eqb Nat.eqb (g_nlabs a) (g_nlabs b).
Definition graph_permb (a b : graph) : bool :=
  perm_eqb node_eqb (g_nodes a) (g_nodes b) && perm_eqb edge_eqb (g_edges a) (g_edges b)
  && list_eqb node_eqb (g_ext a) (g_ext b) && perm_eqb elabel_eqb (g_elabs a) (g_elabs b)
  && perm_eqb Nat.eqb (g_nlabs a) (g_nlabs b).
Definition pair_eqb {A B} (ea : A -> A -> bool) (eb : B -> B -> bool) (x y : A * B) : bool :=
  ea (fst x) (fst y) && eb (snd x) (snd y).

Definition err_code (k : err) : nat :=
  match k with ValueErr => 1 | KeyErr => 2 | RuntimeErr => 4 | _ => 3 end.

(** all labels occurring in a graph / tree *)
Definition graph_labels (g : graph) : list elabel := g_elabs g ++ map e_label (g_edges g).
Fixpoint tree_labels (t : dtree) : list elabel :=
  match t with
  | DT r a cs => r_lhs r :: graph_labels (r_rhs r) ++ flat_map (fun kc => tree_labels (snd kc)) cs
  end.

(** ** one replace_edge call.
    input: host, counter, edge, replacement, (status, result graph, node_map, edge_map)
    status: 0 returned, 1 ValueError, 2 KeyError, 4 RuntimeError, 3 other exception.
    verdicts: 0 ok
      1 the verified oracle [replace_ok] rejects the implementation's result (well-formed input)
      2 wrong-type replacement / absent edge not rejected with ValueError, or graph changed
      3 the call raised although host, edge and replacement are well-formed and the type fits
        (C15_replace_spec: it must return a result satisfying the specification)
      10 result differs from the model's (not even up to the order of the dicts)
      11 model raised, implementation raised the same, but the graphs left behind differ
      12 model returned, implementation raised;  13 model raised, implementation returned / other error
      20 equal to the model up to dict order only (reported as a NOTE, not a violation) *)
Definition replace_check
  (x : wgraph * nat * wedge * wgraph * (nat * wgraph * list (wnode * wnode) * list (wedge * wedge))) : nat :=
  let '(whost, nx, we, wrepl, (status, wres, wnm, wem)) := x in
  let host := d_graph whost in let e := d_edge we in let repl := d_graph wrepl in
  let res := d_graph wres in
  let nm := map (fun p => (d_node (fst p), d_node (snd p))) wnm in
  let em := map (fun p => (d_edge (fst p), d_edge (snd p))) wem in
  let typed := list_eqb Nat.eqb (l_type (e_label e)) (gtype repl) in
  let present := has_edge_id host (e_id e) in
  if negb (typed && present) && negb (Nat.eqb status 1 && graph_eqb res host) then 2
  else
    let guard := wf_graphb host && belowb nx host && wf_graphb repl && nodupb node_eqb (g_ext repl)
                 && memb edge_eqb (g_edges host) e
                 && functionalb (graph_labels host ++ graph_labels repl) in
    match replace_edge_model host nx e repl with
    | (gm, _, Ok (nmm, emm)) =>
      if negb (Nat.eqb status 0) then (if guard then 3 else 12)
      else if guard && negb (replace_ok host e repl res nm em) then 1
      else if graph_eqb gm res && list_eqb (pair_eqb node_eqb node_eqb) nmm nm
              && list_eqb (pair_eqb edge_eqb edge_eqb) emm em then 0
      else if graph_permb gm res && perm_eqb (pair_eqb node_eqb node_eqb) nmm nm
              && perm_eqb (pair_eqb edge_eqb edge_eqb) emm em then 20
      else 10
    | (gm, _, Err k) =>
      if negb (Nat.eqb status (err_code k)) then 13
      else if graph_eqb gm res then 0
      else
        (* the call raised half-way: the new ids cannot be matched through maps, so the
           comparison is: same old part, same labels of the new nodes and new edges *)
        let oldn g := filter (fun n => id_below nx (n_id n)) (g_nodes g) in
        let olde g := filter (fun e => id_below nx (e_id e)) (g_edges g) in
        let newn g := map n_label (filter (fun n => negb (id_below nx (n_id n))) (g_nodes g)) in
        let newe g := map e_label (filter (fun e => negb (id_below nx (e_id e))) (g_edges g)) in
        if list_eqb node_eqb (oldn gm) (oldn res) && list_eqb edge_eqb (olde gm) (olde res)
           && list_eqb node_eqb (g_ext gm) (g_ext res) && perm_eqb elabel_eqb (g_elabs gm) (g_elabs res)
           && perm_eqb Nat.eqb (g_nlabs gm) (g_nlabs res)
           && perm_eqb Nat.eqb (newn gm) (newn res) && perm_eqb elabel_eqb (newe gm) (newe res)
        then 20 else 11
    end.

(** ** replace_edge(g, e, g): the replacement is the host object itself.
    input: host (= replacement, as the caller passed it, i.e. before the call), counter, edge,
    (status, result graph, node_map, edge_map).  Since /repo 0be4bef the code reads the replacement
    before it mutates the host, so the aliased call is judged exactly like any other call: by the
    verified oracle [replace_ok host e host ...] (C15_replace_ok_exact) against the positive theorem
    C15_replace_self_spec, and compared with [replace_edge_self_model] = [replace_edge_model host nx e host].
    verdicts: those of [replace_check] (0 ok; 1 oracle rejects; 2 wrong type / absent edge not rejected
    cleanly; 3 raised on a well-formed, well-typed call; 10.. differs from the model).
    The behaviour of the OLD code ([replace_edge_alias_model_old]: RuntimeError half-way, or a result
    without the copy of e) gets verdict 3 resp. 1 with the call as failing input. *)
Definition alias_check
  (x : wgraph * nat * wedge * (nat * wgraph * list (wnode * wnode) * list (wedge * wedge))) : nat :=
  let '(whost, nx, we, out) := x in replace_check (whost, nx, we, whost, out).

(** ** start_graph.  input: start label, counter, the implementation's graph (fresh ids numbered
    in order of appearance from the counter).
    verdicts: 0 ok; 1 not "one edge labelled by the start symbol attached to fresh, pairwise
    distinct nodes of the right labels, nothing else, no external nodes"; 10 differs from the model *)
Definition start_check (x : wlab * nat * wgraph) : nat :=
  let '(wl, nx, wg) := x in
  let s := d_lab wl in let g := d_graph wg in
  if negb (start_ok s g) then 1
  else let '(gm, _, _) := start_graph_model s nx in
       if graph_eqb gm g then 0 else 10.

(** ** one linearisation of the replacement steps of a derivation tree.
    input: tree, counter, linearisation (paths), the implementation's final graph with the names
    obtained through the maps its replace_edge calls returned.
    verdicts: 0 ok; 1 oracle [same_upto_naming] rejects: implementation's result is not
    isomorphic (through its own maps) to [derived_graph]; 3 generated tree not well-formed
    (harness bug); 10 differs from the model's run of the same linearisation; 11 model's run
    fails or is incomplete; 12 model's own result is not [derived_graph] (contradicts C15_confluence) *)
Definition lin_check
  (x : wtree * nat * list (list wid) * (wgraph * list (wnode * wname) * list (wedge * wname))) : nat :=
  let '(wt, nx, wl, (wg, wnn, wen)) := x in
  let t := d_tree wt in
  let L := tree_labels t in
  if negb (wf_dtreeb L t && functionalb L) then 3
  else
    let d := derived_graph t in
    let g := d_graph wg in
    let nn := map (fun p => (d_node (fst p), d_name (snd p))) wnn in
    let en := map (fun p => (d_edge (fst p), d_name (snd p))) wen in
    if negb (same_upto_naming g nn en d) then 1
    else match run (map (map d_id) wl) (init_state t nx) with
         | Err _ => 11
         | Ok s =>
           match rs_pending s with
           | _ :: _ => 11
           | [] =>
             if negb (same_upto_naming (rs_graph s) (rs_nnames s) (rs_enames s) d) then 12
             else match rename_graph (rs_nnames s) (rs_enames s), rename_graph nn en with
                  | Some a, Some b => if perm_eqb dnode_eqb (d_nodes a) (d_nodes b)
                                         && perm_eqb dedge_eqb (d_edges a) (d_edges b) then 0 else 10
                  | _, _ => 10
                  end
           end
         end.

(** ** derive() *)
Definition N_ops : sr_ops N :=
  {| zero := 0%N; one := 1%N; add := N.add; mul := N.mul; star := fun _ => 0%N; le := N.le |}.

Definition wtab := list (nat * list nat * N).
Fixpoint wlookup (tab : wtab) (l : nat) (vs : list nat) : N :=
  match tab with
  | [] => 0%N
  | (l', vs', x) :: tab => if Nat.eqb l l' && list_eqb Nat.eqb vs vs' then x else wlookup tab l vs
  end.

Fixpoint index_of {A} (eqb : A -> A -> bool) (x : A) (l : list A) (i : nat) : option nat :=
  match l with [] => None | y :: l => if eqb y x then Some i else index_of eqb x l (S i) end.
(** canonical renumbering of implicit ids by position in the graph's own dicts *)
Definition canon_node (g : graph) (n : node) : node :=
  match n_id n with
  | Explicit _ => n
  | Fresh _ => match index_of node_eqb n (g_nodes g) 0 with
               | Some i => mkNode (Fresh i) (n_label n) | None => n end
  end.
Definition canon_edge (g : graph) (j : nat) (e : edge) : edge :=
  mkEdge (match e_id e with Explicit _ => e_id e | Fresh _ => Fresh (length (g_nodes g) + j) end)
         (e_label e) (map (canon_node g) (e_att e)).
Fixpoint canon_edges (g : graph) (j : nat) (es : list edge) : list edge :=
  match es with [] => [] | e :: es => canon_edge g j e :: canon_edges g (S j) es end.
Definition canon_graph (g : graph) : graph :=
  mkGraph (map (canon_node g) (g_nodes g)) (canon_edges g 0 (g_edges g)) (map (canon_node g) (g_ext g)) (g_elabs g)
          (g_nlabs g).
Definition canon_asst (g : graph) (a : asst_t) : asst_t := map (fun p => (canon_node g (fst p), snd p)) a.

Definition nv_eqb (a b : name * nat) : bool := name_eqb (fst a) (fst b) && Nat.eqb (snd a) (snd b).
Definition named_asst (nn : list (node * name)) (a : asst_t) : list (name * nat) :=
  flat_map (fun vx => match aget node_eqb nn (fst vx) with Some nmv => [(nmv, snd vx)] | None => [] end) a.

(** input: tree, counter, implementation's (graph, assignment, node names, edge names),
    weight table, product of the factor weights computed by the implementation's factors.
    verdicts: 0 ok; 1 graph not isomorphic to [derived_graph]; 2 assignment not total on the
    graph's nodes; 3 weight product differs from the product of the rule-instance
    weights; 4 tree not well-formed (harness bug); 5 the assignment has a key that is not a node of
    the graph (C15_derive_assignment_exact: defined on the nodes and nowhere else);
    10 differs from derive_model; 11 model raised;
    12 some value of the assignment is not the value the denotational [derived_asst] gives to
    the name of that node (the Prop proved of the model in C15_derive_assignment);
    20 equal to the model up to dict order *)
Definition derive_check
  (x : wtree * nat * (wgraph * list (wnode * nat) * list (wnode * wname) * list (wedge * wname)) * wtab * N) : nat :=
  let '(wt, nx, (wg, wa, wnn, wen), tab, pimpl) := x in
  let t := d_tree wt in
  let L := tree_labels t in
  if negb (wf_dtreeb L t && functionalb L) then 4
  else
    let d := derived_graph t in
    let g := d_graph wg in
    let a := map (fun p => (d_node (fst p), snd p)) wa in
    let nn := map (fun p => (d_node (fst p), d_name (snd p))) wnn in
    let en := map (fun p => (d_edge (fst p), d_name (snd p))) wen in
    let w := fun (l : elabel) vs => wlookup tab (l_name l) vs in
    if negb (same_upto_naming g nn en d) then 1
    else if negb (forallb (fun v => amem node_eqb a v) (g_nodes g)) then 2
    else if negb (forallb (fun vy => memb node_eqb (g_nodes g) (fst vy)) a) then 5
    else if negb (nodupb node_eqb (map fst a)
                  && forallb (fun vy => match aget node_eqb nn (fst vy) with
                                        | Some x => memb nv_eqb (derived_asst t) (x, snd vy)
                                        | None => false
                                        end) a) then 12
    else match graph_weight N_ops w g a, tree_weight N_ops w t with
         | Some p1, Some p2 =>
           if negb (N.eqb p1 p2 && N.eqb p1 pimpl) then 3
           else match derive_model t nx with
                | (_, Some _) => 11
                | (s, None) =>
                  let gm := ds_graph s in
                  if graph_eqb (canon_graph gm) (canon_graph g)
                     && list_eqb (pair_eqb node_eqb Nat.eqb) (canon_asst gm (ds_asst s)) (canon_asst g a) then 0
                  else
                    (* observation level: graph and assignment read through the names *)
                    match run (preorder [] t) (init_state t nx) with
                    | Ok rs =>
                      match rename_graph (rs_nnames rs) (rs_enames rs) with
                      | Some dm =>
                        if perm_eqb dnode_eqb (d_nodes dm) (d_nodes d) && perm_eqb dedge_eqb (d_edges dm) (d_edges d)
                           && perm_eqb nv_eqb (named_asst (rs_nnames rs) (rs_asst rs)) (named_asst nn a)
                        then 20 else 10
                      | None => 10
                      end
                    | Err _ => 10
                    end
                end
         | _, _ => 3
         end.

(** ** a graph obtained through a construction / conversion / copy path of the library
    ([Graph], [Graph.copy], [FactorGraph], [FactorGraph.from_graph], [FactorGraph.copy], [HRGRule.copy],
    [HRG.copy], [FGG.from_hrg], [FGG.copy], JSON round trip, [copy.deepcopy]; [ext] assigned before, between
    or after the edges, assigned twice, re-assigned on a copy).
    input: the source graph as observed through [nodes()], [edges()], [ext] before the conversion (with the
    external nodes the path finally assigns), the built graph observed the same way, the comparison mode
    (0: a copy/conversion keeps the dicts and [ext] exactly; 1: same nodes and edges up to dict order, same
    [ext]; 2: ids were regenerated (JSON with implicit ids): same labels and same type), the built graph's
    observed [.type] and [.arity], and the outcomes of [HRGRule(lhs, graph)] for some left-hand sides
    (0 accepted, 1 raised).
    The type is never taken from the implementation: it is [gtype] = the labels of the external nodes.
    verdicts: 0 ok; 1 [.type] / [.arity] is not the type / number of the external nodes; 2 the conversion
    changed the content; 3 [HRGRule] accepted a left-hand side of another type (or a terminal) or refused
    one of the graph's type *)
Definition content_eqb (mode : nat) (a b : graph) : bool :=
  match mode with
  | 0 => list_eqb node_eqb (g_nodes a) (g_nodes b) && list_eqb edge_eqb (g_edges a) (g_edges b)
         && list_eqb node_eqb (g_ext a) (g_ext b)
  | 1 => perm_eqb node_eqb (g_nodes a) (g_nodes b) && perm_eqb edge_eqb (g_edges a) (g_edges b)
         && list_eqb node_eqb (g_ext a) (g_ext b)
  | _ => perm_eqb Nat.eqb (map n_label (g_nodes a)) (map n_label (g_nodes b))
         && perm_eqb elabel_eqb (map e_label (g_edges a)) (map e_label (g_edges b))
         && list_eqb Nat.eqb (gtype a) (gtype b)
  end.

(** [HRGRule.__post_init__]: raises iff the lhs is terminal or [lhs.type != rhs.type] *)
Definition rule_accepts (lhs : elabel) (g : graph) : bool :=
  negb (l_term lhs) && list_eqb Nat.eqb (l_type lhs) (gtype g).

Definition type_obs_ok (ty : list nat) (ar : nat) (g : graph) : bool :=
  list_eqb Nat.eqb ty (gtype g) && Nat.eqb ar (length (g_ext g)).

Definition rules_obs_ok (rules : list (elabel * nat)) (g : graph) : bool :=
  forallb (fun p => Nat.eqb (snd p) (if rule_accepts (fst p) g then 0 else 1)) rules.

Definition build_check (x : wgraph * wgraph * nat * (list nat * nat) * list (wlab * nat)) : nat :=
  let '(wsrc, wout, mode, (ty, ar), wrules) := x in
  let src := d_graph wsrc in let out := d_graph wout in
  if negb (type_obs_ok ty ar out) then 1
  else if negb (content_eqb mode src out) then 2
  else if negb (rules_obs_ok (map (fun p => (d_lab (fst p), snd p)) wrules) out) then 3
  else 0.
