(** C11 -- what the option [tol] of the fixed-point method means: the iteration stops at the first
    iterate whose distance to the next one is at most [tol] (an ABSOLUTE distance).  For the
    scalar linear system x = a x + c with 0 <= a < 1 this determines how far the returned iterate
    can be from the least fixed point, whatever the magnitude of the values. *)
From Coq Require Import QArith Qabs Qround Bool List.
Local Open Scope Q_scope.

Definition aff (a c x : Q) : Q := a * x + c.
Fixpoint iter (a c : Q) (k : nat) : Q :=
  match k with O => 0 | S k => aff a c (iter a c k) end.
Definition xstar (a c : Q) : Q := c / (1 - a).

(** verdict on the value [obs] returned by sum_product(method='fixed-point', tol=tol) for the
    grammar X -> c | a X : 0 = within [x* - tol/(1-a) - delta, x* + delta] (delta = allowance for
    floating-point rounding), 1 = outside, 31 = outside the guard 0 <= a < 1, 0 <= c, 0 <= tol *)
Definition tol_check (x : Q * Q * Q * Q * Q) : nat :=
  let '(a, c, tol, delta, obs) := x in
  if negb (Qle_bool 0 a && negb (Qle_bool 1 a) && Qle_bool 0 c && Qle_bool 0 tol) then 31%nat
  else if Qle_bool (xstar a c - tol / (1 - a) - delta) obs && Qle_bool obs (xstar a c + delta)
       then 0%nat else 1%nat.

(** * The VECTOR / BLOCK case: x = A x + c over Q^n, Kleene iteration from 0 with the code's
    stopping test.  (Theorems in Proofs/Tolerance_vec.v, Proofs/Tolerance_stop.v.)

    [A] is a list of rows, vectors are lists; all operations truncate at the shorter argument, the
    theorems state the length hypotheses they need. *)
Import ListNotations.

Fixpoint dot (r x : list Q) : Q :=
  match r, x with a :: r', b :: x' => a * b + dot r' x' | _, _ => 0 end.
Fixpoint vstep (A : list (list Q)) (c x : list Q) : list Q :=
  match A, c with r :: A', ci :: c' => (dot r x + ci) :: vstep A' c' x | _, _ => [] end.
Definition vzero (n : nat) : list Q := repeat 0 n.
Fixpoint viter (A : list (list Q)) (c : list Q) (k : nat) : list Q :=
  match k with O => vzero (length c) | S k => vstep A c (viter A c k) end.

Definition qmax (x y : Q) : Q := if Qle_bool x y then y else x.
Definition rowsum (r : list Q) : Q := fold_right Qplus 0 r.
(** max-row-sum norm of a matrix with non-negative entries *)
Definition mnorm (A : list (list Q)) : Q := fold_right (fun r m => qmax (rowsum r) m) 0 A.
(** max (0, max_i (x_i - y_i)) *)
Fixpoint voff (x y : list Q) : Q :=
  match x, y with p :: x', q :: y' => qmax (p - q) (voff x' y') | _, _ => 0 end.
Fixpoint qpow (a : Q) (k : nat) : Q := match k with O => 1 | S k => a * qpow a k end.

(** ** the stopping test, as the code has it.
    fixed_point: [while not x0.shouldStop(x1, tol) and k <= kmax]; [shouldStop = allclose]
    (fggs/multi.py).  MultiTensor.allclose(self, other, tol): for every key of self present in
    other, [t.allclose(other[k], atol=tol, rtol=0.)]; for a key present on one side only, the
    present block is compared with the semiring's zero ([allclose_default(atol=tol, rtol=0.)]); a key
    absent on both sides is not looked at.  With rtol = 0 torch.isclose(p, q) is
    [p == q or (isfinite(|p - q|) and |p - q| <= atol)]: neither iterate is the reference (the
    test is symmetric and ABSOLUTE), equal infinities are close, an infinity is far from
    everything else.  For tol = 0 the code takes the [equal] branch, which is the same predicate
    at tol = 0.  (NaN is outside this model: Real-semiring iterates of the systems considered
    here are finite and non-negative.) *)
Inductive xq := XFin (q : Q) | XPInf | XNInf.
Definition xclose (tol : Q) (x y : xq) : bool :=
  match x, y with
  | XFin p, XFin q => Qle_bool (Qabs (p - q)) tol
  | XPInf, XPInf => true
  | XNInf, XNInf => true
  | _, _ => false
  end.
Fixpoint forall2b {A : Type} (f : A -> A -> bool) (x y : list A) : bool :=
  match x, y with
  | [], [] => true
  | a :: x', b :: y' => f a b && forall2b f x' y'
  | _, _ => false
  end.
(** a block (the value of one nonterminal, flattened) is present or absent *)
Definition block := option (list xq).
(** [z] = the semiring's zero (0 for Real, -inf for Log) *)
Definition block_close (z : xq) (tol : Q) (s o : block) : bool :=
  match s, o with
  | Some t, Some u => forall2b (xclose tol) t u
  | Some t, None => forallb (fun e => xclose tol e z) t
  | None, Some u => forallb (fun e => xclose tol e z) u
  | None, None => true
  end.
(** a MultiTensor over a fixed list of keys = one block per key *)
Definition mt_close (z : xq) (tol : Q) (X Y : list block) : bool := forall2b (block_close z tol) X Y.

(** dense reading: an absent block of a key of shape [n] is [n] zeros *)
Fixpoint dense (z : xq) (shapes : list nat) (X : list block) : list xq :=
  match shapes, X with
  | n :: shapes', b :: X' => (match b with Some t => t | None => repeat z n end) ++ dense z shapes' X'
  | _, _ => []
  end.
Fixpoint wf_blocks (shapes : list nat) (X : list block) : bool :=
  match shapes, X with
  | [], [] => true
  | n :: shapes', b :: X' => (match b with Some t => Nat.eqb (length t) n | None => true end) && wf_blocks shapes' X'
  | _, _ => false
  end.
(** the same test on dense vectors of rationals *)
Definition vclose (tol : Q) (x y : list Q) : bool :=
  forall2b (fun p q => Qle_bool (Qabs (p - q)) tol) x y.

(** explicit number of passes after which the test must have fired: ceil((C - tol) / (tol (1 - a))) *)
Definition pass_bound (a tol C : Q) : nat := Z.to_nat (Qceiling ((C - tol) / (tol * (1 - a)))).

(** verdict on the values [obs] (one per nonterminal) returned by
    sum_products(method='fixed-point', tol=tol) for a grammar whose equations are x = A x + c, one
    strongly connected component: [mu] is the fixed point computed outside (verified here:
    mu == A mu + c, unique by [vfix_unique]).
    0 = every obs_i within [mu_i - tol/(1-a) - delta, mu_i + delta] with a = mnorm A;
    1 = some component outside; 31 = outside the guard (entries >= 0, a < 1, 0 <= tol, lengths);
    32 = [mu] is not a fixed point (harness error) *)
Definition vtol_check (x : list (list Q) * list Q * list Q * Q * Q * list Q) : nat :=
  let '(A, c, mu, tol, delta, obs) := x in
  let a := mnorm A in
  if negb (forallb (forallb (Qle_bool 0)) A && forallb (Qle_bool 0) c && Qle_bool 0 tol
           && negb (Qle_bool 1 a) && Nat.eqb (length A) (length c) && Nat.eqb (length mu) (length c)
           && Nat.eqb (length obs) (length c))
  then 31%nat
  else if negb (forall2b Qeq_bool mu (vstep A c mu)) then 32%nat
  else if forall2b (fun m o => Qle_bool (m - tol / (1 - a) - delta) o && Qle_bool o (m + delta)) mu obs
       then 0%nat else 1%nat.

(** * NONLINEAR monotone case: polynomial systems with non-negative coefficients over Q^n.
    A monomial is (coefficient, list of variable indices, with repetition); a polynomial a list of
    monomials; a system one polynomial per variable.  A variable index beyond the vector reads 0
    (in every vector alike; the theorems hold with or without such indices). *)
Definition pget (x : list Q) (i : nat) : Q := nth i x 0.
Definition mono_val (x : list Q) (vs : list nat) : Q := fold_right (fun i p => pget x i * p) 1 vs.
Definition poly_val (x : list Q) (p : list (Q * list nat)) : Q :=
  fold_right (fun m s => fst m * mono_val x (snd m) + s) 0 p.
Definition pstep (sys : list (list (Q * list nat))) (x : list Q) : list Q := map (poly_val x) sys.
Fixpoint piter (sys : list (list (Q * list nat))) (k : nat) : list Q :=
  match k with O => vzero (length sys) | S k => pstep sys (piter sys k) end.
(** sum over the variables of the partial derivatives of a monomial at [mu] (= the directional
    derivative along the all-ones vector): the contribution of the monomial to the row sum of
    the Jacobian *)
Fixpoint dmono_sum (mu : list Q) (vs : list nat) : Q :=
  match vs with [] => 0 | i :: vs' => mono_val mu vs' + pget mu i * dmono_sum mu vs' end.
(** row sum of the Jacobian of a polynomial at [mu] *)
Definition dpoly_sum (mu : list Q) (p : list (Q * list nat)) : Q :=
  fold_right (fun m s => fst m * dmono_sum mu (snd m) + s) 0 p.
