(** C11 -- what the option [tol] of the fixed-point method means: the iteration stops at the first
    iterate whose distance to the next one is at most [tol] (an ABSOLUTE distance).  For the
    scalar linear system x = a x + c with 0 <= a < 1 this determines how far the returned iterate
    can be from the least fixed point, whatever the magnitude of the values. *)
From Coq Require Import QArith Bool List.
Local Open Scope Q_scope.

Definition aff (a c x : Q) : Q := a * x + c.
Fixpoint iter (a c : Q) (k : nat) : Q :=
  match k with O => 0 | S k => aff a c (iter a c k) end.
Definition xstar (a c : Q) : Q := c / (1 - a).

(** verdict on the value [obs] returned by sum_product(method='fixed-point', tol=tol) for the
    grammar X -> c | a X : 0 = within [x* - tol/(1-a) - delta, x* + delta] (delta = allowance for
    floating-point rounding), 1 = outside, 31 = outside the guard 0 <= a < 1, 0 <= c, 0 <= tol *)
Definition tol_check (x : Q * Q * Q * Q * Q) : nat :=
  let '(a, c, tol, delta, obs) := x in
  if negb (Qle_bool 0 a && negb (Qle_bool 1 a) && Qle_bool 0 c && Qle_bool 0 tol) then 31%nat
  else if Qle_bool (xstar a c - tol / (1 - a) - delta) obs && Qle_bool obs (xstar a c + delta)
       then 0%nat else 1%nat.
