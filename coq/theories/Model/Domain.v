(** Model of fggs/domains.py (FiniteDomain, RangeDomain), fggs/factors.py (ConstantFactor,
    FiniteFactor: the weights setter, apply, ==) and fggs/fggs.py:InterpretationMixin
    (add_domain, add_factor, shape, new_finite_domain, new_finite_factor), statement by
    statement; boolean oracles (the conclusions of the C20 theorems in executable form, evaluated
    on the implementation's own answers) and the check functions of the correspondence harness.
    Definitions only; proofs are in Proofs/Domain_*.v.

    Python values.  Hashable values are canonicalised by the harness: numbers (int, bool, finite
    float) to the reduced rational they denote ([VNum], so that 1 == 1.0 == True coincide), every
    other value (str, tuple, None, ...) to an opaque code ([VOther]) such that two codes are equal
    iff the Python values are [==].  Equality of values is then structural. *)
From Coq Require Import List Arith Bool PeanoNat ZArith QArith.
Import ListNotations.
Local Open Scope nat_scope.

(** * Exceptions and results *)
Inductive exn := KeyErr | IndexErr | ValueErr | TypeErr | OtherErr.
Inductive result (A : Type) : Type := Ok (a : A) | Err (e : exn).
Arguments Ok {A} a.
Arguments Err {A} e.

Definition exn_eqb (a b : exn) : bool :=
  match a, b with
  | KeyErr, KeyErr | IndexErr, IndexErr | ValueErr, ValueErr | TypeErr, TypeErr | OtherErr, OtherErr => true
  | _, _ => false
  end.

Definition result_eqb {A} (e : A -> A -> bool) (a b : result A) : bool :=
  match a, b with Ok x, Ok y => e x y | Err x, Err y => exn_eqb x y | _, _ => false end.

Fixpoint mapM {A B} (f : A -> result B) (l : list A) : result (list B) :=
  match l with
  | [] => Ok []
  | a :: l => match f a with
              | Err e => Err e
              | Ok b => match mapM f l with Err e => Err e | Ok bs => Ok (b :: bs) end
              end
  end.

Fixpoint list_eqb {A} (e : A -> A -> bool) (a b : list A) : bool :=
  match a, b with
  | [], [] => true
  | x :: a, y :: b => e x y && list_eqb e a b
  | _, _ => false
  end.

Definition option_eqb {A} (e : A -> A -> bool) (a b : option A) : bool :=
  match a, b with Some x, Some y => e x y | None, None => true | _, _ => false end.

(** * Values *)
Inductive value := VNum (q : Q) | VOther (c : nat).

(** structural equality on [Q]; the harness sends reduced fractions only *)
Definition q_eqb (a b : Q) : bool := Z.eqb (Qnum a) (Qnum b) && Pos.eqb (Qden a) (Qden b).
Definition value_eqb (a b : value) : bool :=
  match a, b with
  | VNum p, VNum q => q_eqb p q
  | VOther c, VOther d => Nat.eqb c d
  | _, _ => false
  end.
Definition vint (z : Z) : value := VNum (inject_Z z).
Definition vnat (n : nat) : value := vint (Z.of_nat n).
(** the Python [int] a value denotes, if any ([bool] is an [int]; the harness never uses a
    [float] where an index is expected) *)
Definition as_int (v : value) : option Z :=
  match v with
  | VNum q => if Pos.eqb (Qden q) 1 then Some (Qnum q) else None
  | VOther _ => None
  end.

(** * Python dict = association list in insertion order *)
Section Dict.
  Context {K B : Type} (keqb : K -> K -> bool).
  Fixpoint dget (m : list (K * B)) (k : K) : option B :=
    match m with [] => None | (a, b) :: m => if keqb a k then Some b else dget m k end.
  (** [m[k] = b]: an existing key keeps its place (and the old key object) *)
  Fixpoint dset (m : list (K * B)) (k : K) (b : B) : list (K * B) :=
    match m with
    | [] => [(k, b)]
    | (a, x) :: m => if keqb a k then (a, b) :: m else (a, x) :: dset m k b
    end.
  Definition dmem (m : list (K * B)) (k : K) : bool :=
    match dget m k with Some _ => true | None => false end.
End Dict.

(** * fggs/domains.py *)

(** [domain]: a FiniteDomain object is its two attributes [values] and [_value_index];
    a RangeDomain is its [_size] ([None] = math.inf). *)
Inductive domain :=
| DFinite (vals : list value) (idx : list (value * nat))
| DRange (size : option nat).

(** how the constructor argument behaves when iterated twice *)
Inductive iterkind := Reiterable (* list, tuple, range, dict, str *) | OneShot (* iterator, generator *).

(** [{v:i for (i,v) in enumerate(values)}] *)
Fixpoint build_index_from (i : nat) (l : list value) (m : list (value * nat)) : list (value * nat) :=
  match l with
  | [] => m
  | v :: l => build_index_from (S i) l (dset value_eqb m v i)
  end.
Definition build_index (l : list value) : list (value * nat) := build_index_from 0 l [].

(** [FiniteDomain.__init__]: [self.values = list(values)] consumes the argument (whatever kind
    of iterable it is); the index is built from [self.values] (since /repo 7d2f845; before that
    it was built from the argument again, F15 -- see [mk_finite_old] in Proofs/Domain_dom.v). *)
Definition mk_finite (k : iterkind) (items : list value) : domain :=
  DFinite items (build_index items).

Definition dom_size (d : domain) : option nat :=
  match d with DFinite vs _ => Some (length vs) | DRange sz => sz end.

(** [isinstance(value, int) and 0 <= value < self._size] (since /repo 973b650; before that the
    isinstance test was missing -- see [range_contains_old] in Proofs/Domain_dom.v).
    A Python value is given by its equality class [v] and the flag [isint] = isinstance(value, int)
    (bool included): 1 and 1.0 are the same [v] and differ only in that flag. *)
Definition q_lt_size (q : Q) (sz : option nat) : bool :=
  match sz with None => true | Some n => negb (Qle_bool (inject_Z (Z.of_nat n)) q) end.
Definition range_contains (sz : option nat) (v : value) (isint : bool) : bool :=
  isint && match v with VNum q => Qle_bool 0 q && q_lt_size q sz | VOther _ => false end.
Definition dom_contains (d : domain) (v : value) (isint : bool) : result bool :=
  match d with
  | DFinite vs _ => Ok (existsb (value_eqb v) vs)            (* value in self.values *)
  | DRange sz => Ok (range_contains sz v isint)
  end.

(** Python list indexing [l[z]] *)
Definition py_index {A} (l : list A) (z : Z) : result A :=
  let n := Z.of_nat (length l) in
  let z' := if (z <? 0)%Z then (z + n)%Z else z in
  if ((z' <? 0) || (n <=? z'))%Z then Err IndexErr
  else match nth_error l (Z.to_nat z') with Some a => Ok a | None => Err IndexErr end.

Definition fin_numberize (idx : list (value * nat)) (v : value) : result nat :=
  match dget value_eqb idx v with Some i => Ok i | None => Err KeyErr end.
Definition fin_denumberize (vs : list value) (z : Z) : result value := py_index vs z.

Definition dom_numberize (d : domain) (v : value) : result value :=
  match d with
  | DFinite _ idx => match fin_numberize idx v with Ok i => Ok (vnat i) | Err e => Err e end
  | DRange _ => Ok v                                         (* identity, no range check *)
  end.
Definition dom_denumberize (d : domain) (n : value) : result value :=
  match d with
  | DFinite vs _ => match as_int n with Some z => fin_denumberize vs z | None => Err TypeErr end
  | DRange _ => Ok n                                         (* identity, no range check *)
  end.

(** [__eq__]: identity, or same type and equal [values] / [size()] *)
Definition dom_eqb (a b : domain) : bool :=
  match a, b with
  | DFinite v1 _, DFinite v2 _ => list_eqb value_eqb v1 v2
  | DRange s1, DRange s2 => option_eqb Nat.eqb s1 s2
  | _, _ => false
  end.

(** * fggs/factors.py *)

(** a dense tensor: shape and row-major data *)
Definition tensor := (list nat * list Q)%type.
Fixpoint numel (l : list nat) : nat := match l with [] => 1 | x :: l => x * numel l end.
Definition tensor_wf (t : tensor) : bool := Nat.eqb (length (snd t)) (numel (fst t)).
(** [Tensor.equal]: same size and same elements *)
Definition tensor_eqb (a b : tensor) : bool :=
  list_eqb Nat.eqb (fst a) (fst b) && list_eqb Qeq_bool (snd a) (snd b).

(** nested Python lists of numbers *)
Inductive nested := NLeaf (q : Q) | NNode (l : list nested).

(** torch.tensor(nested): the sizes are read off the first elements
    ([compute_sizes]); the data is then stored recursively, checking every length against those
    sizes ([recursive_store]) -- but only if the tensor is not empty. *)
Fixpoint compute_sizes (n : nested) : list nat :=
  match n with
  | NLeaf _ => []
  | NNode l => length l :: match l with [] => [] | x :: _ => compute_sizes x end
  end.
Fixpoint store (sizes : list nat) (n : nested) : result (list Q) :=
  match sizes with
  | [] => match n with NLeaf q => Ok [q] | NNode _ => Err TypeErr (* must be real number, not list *) end
  | s :: sizes' =>
    match n with
    | NLeaf _ => Err TypeErr                                 (* not a sequence *)
    | NNode l => if Nat.eqb (length l) s
                 then match mapM (store sizes') l with Ok ds => Ok (concat ds) | Err e => Err e end
                 else Err ValueErr                           (* expected sequence of length s *)
    end
  end.
Definition tensor_of_nested (n : nested) : result tensor :=
  let sizes := compute_sizes n in
  if Nat.eqb (numel sizes) 0 then Ok (sizes, [])
  else match store sizes n with Ok d => Ok (sizes, d) | Err e => Err e end.

(** the [weights] argument: nested lists, a torch.Tensor, or a PatternedTensor (given by the
    dense tensor it denotes) *)
Inductive warg :=
| WNested (n : nested)
| WTensor (sh : list nat) (data : list Q)
| WPatterned (sh : list nat) (data : list Q).
Definition to_tensor (w : warg) : result tensor :=
  match w with
  | WNested n => tensor_of_nested n
  | WTensor sh d => Ok (sh, d)
  | WPatterned sh d => Ok (sh, d)
  end.

Inductive factor :=
| FFinite (doms : list domain) (wsh : list nat) (wdata : list Q)
| FConst (doms : list domain) (w : Q).
Definition fac_doms (f : factor) : list domain :=
  match f with FFinite d _ _ => d | FConst d _ => d end.
Definition fac_arity (f : factor) : nat := length (fac_doms f).

Definition size_finite (d : domain) : bool :=
  match dom_size d with Some _ => true | None => false end.
Definition size_or0 (d : domain) : nat := match dom_size d with Some n => n | None => 0 end.
(** [torch.Size([d.size() for d in self.domains])] (all sizes finite here) *)
Definition sizes_of (doms : list domain) : list nat := map size_or0 doms.

(** [FiniteFactor.__init__] followed by the [weights] setter *)
Definition mk_finite_factor (doms : list domain) (w : warg) : result factor :=
  if negb (forallb size_finite doms) then Err TypeErr
  else match to_tensor w with
       | Err e => Err e
       | Ok (sh, d) => if list_eqb Nat.eqb sh (sizes_of doms) then Ok (FFinite doms sh d) else Err ValueErr
       end.
Definition mk_const_factor (doms : list domain) (w : Q) : result factor := Ok (FConst doms w).

(** [PatternedTensor.__getitem__] of a dense tensor with a tuple of indices: every index is
    range-checked against its axis in order (IndexError; no negative wrap-around); the result is
    the sub-tensor at that prefix.  Returns (flat offset in blocks, remaining shape). *)
Fixpoint index_axes (sh : list nat) (vis : list value) (acc : nat) : result (nat * list nat) :=
  match vis with
  | [] => Ok (acc, sh)
  | v :: vis' =>
    match sh with
    | [] => Err OtherErr                                     (* assert len(vis) <= len(vaxes) *)
    | s :: sh' =>
      match as_int v with
      | None => Err TypeErr
      | Some z => if ((0 <=? z) && (z <? Z.of_nat s))%Z
                  then index_axes sh' vis' (acc * s + Z.to_nat z)
                  else Err IndexErr
      end
    end
  end.
Definition getitem (t : tensor) (vis : list value) : result tensor :=
  match index_axes (fst t) vis 0 with
  | Err e => Err e
  | Ok (off, rest) => let b := numel rest in Ok (rest, firstn b (skipn (off * b) (snd t)))
  end.

(** [tuple(d.numberize(v) for d, v in zip(self.domains, values))] *)
Definition numberize_all (doms : list domain) (vs : list value) : result (list value) :=
  mapM (fun dv => dom_numberize (fst dv) (snd dv)) (combine doms vs).

Definition fac_apply (f : factor) (vs : list value) : result tensor :=
  match f with
  | FConst _ w => Ok ([], [w])
  | FFinite doms sh d =>
    match numberize_all doms vs with
    | Err e => Err e
    | Ok vis => getitem (sh, d) vis
    end
  end.

(** [__eq__]: same type, equal domains, and [weights.equal] / equal weight *)
Definition fac_eqb (f g : factor) : bool :=
  match f, g with
  | FFinite d1 s1 w1, FFinite d2 s2 w2 => list_eqb dom_eqb d1 d2 && tensor_eqb (s1, w1) (s2, w2)
  | FConst d1 w1, FConst d2 w2 => list_eqb dom_eqb d1 d2 && Qeq_bool w1 w2
  | _, _ => false
  end.

(** * fggs/fggs.py: InterpretationMixin *)
Definition name := nat.
(** EdgeLabel(name, node_labels, is_terminal); a NodeLabel is its name *)
Definition elabel := (name * list name * bool)%type.
Definition el_name (e : elabel) : name := fst (fst e).
Definition el_type (e : elabel) : list name := snd (fst e).
Definition el_terminal (e : elabel) : bool := snd e.
Definition elabel_eqb (a b : elabel) : bool :=
  Nat.eqb (el_name a) (el_name b) && list_eqb Nat.eqb (el_type a) (el_type b)
  && Bool.eqb (el_terminal a) (el_terminal b).

(** [_node_labels] (name -> NodeLabel, i.e. the names in insertion order), [_edge_labels]
    (keyed by the label's own name), [domains], [factors] *)
Definition istate := (list name * list elabel * list (name * domain) * list (name * factor))%type.
Definition st_nls (s : istate) : list name := fst (fst (fst s)).
Definition st_els (s : istate) : list elabel := snd (fst (fst s)).
Definition st_doms (s : istate) : list (name * domain) := snd (fst s).
Definition st_facs (s : istate) : list (name * factor) := snd s.
Definition mk_state nls els doms facs : istate := (nls, els, doms, facs).

(** [self._node_labels[label.name] = label] *)
Fixpoint nl_add (l : list name) (n : name) : list name :=
  match l with [] => [n] | a :: l => if Nat.eqb a n then a :: l else a :: nl_add l n end.
Fixpoint el_find (l : list elabel) (n : name) : option elabel :=
  match l with [] => None | e :: l => if Nat.eqb (el_name e) n then Some e else el_find l n end.
Fixpoint el_set (l : list elabel) (e : elabel) : list elabel :=
  match l with
  | [] => [e]
  | a :: l => if Nat.eqb (el_name a) (el_name e) then e :: l else a :: el_set l e
  end.

Inductive shape_arg :=
| SLabels (l : list name)      (* a sequence of NodeLabels (possibly empty) *)
| SNodes (l : list name)       (* a non-empty sequence of Nodes, given by their labels *)
| SEdgeLabel (e : elabel)
| SEdge (e : elabel).          (* an Edge, given by its label *)

Inductive op :=
| OAddNodeLabel (n : name)
| OAddEdgeLabel (e : elabel)
| OAddDomain (n : name) (d : domain)
| OAddFactor (e : elabel) (f : factor)
| ONewFiniteDomain (n : name) (k : iterkind) (items : list value)
| ONewFiniteFactor (n : name) (w : warg)
| OShape (a : shape_arg).

Inductive outcome :=
| RNone                                  (* returned None *)
| RDom (d : domain)
| RFac (f : factor)
| RShape (s : list (option nat))
| RErr (e : exn).

Definition add_node_label (s : istate) (n : name) : istate :=
  mk_state (nl_add (st_nls s) n) (st_els s) (st_doms s) (st_facs s).

(** [LabelingMixin.add_edge_label] *)
Definition add_edge_label (s : istate) (e : elabel) : istate * outcome :=
  match el_find (st_els s) (el_name e) with
  | Some e' => if negb (elabel_eqb e' e) then (s, RErr ValueErr)
               else (mk_state (st_nls s) (el_set (st_els s) e) (st_doms s) (st_facs s), RNone)
  | None => (mk_state (st_nls s) (el_set (st_els s) e) (st_doms s) (st_facs s), RNone)
  end.

(** the "already mapped" test comes first (since /repo 6c89611): a failing call changes nothing *)
Definition add_domain (s : istate) (n : name) (d : domain) : istate * outcome :=
  if dmem Nat.eqb (st_doms s) n then (s, RErr ValueErr)
  else let s := add_node_label s n in
       (mk_state (st_nls s) (st_els s) (dset Nat.eqb (st_doms s) n d) (st_facs s), RNone).

(** [el.name in self.factors] (since /repo 19d007a; before that [el in self.factors] looked an
    EdgeLabel up among str keys and was constantly false, F14 -- see [add_factor_old] in
    Proofs/Domain_bind.v) *)
Definition label_bound (e : elabel) (m : list (name * factor)) : bool := dmem Nat.eqb m (el_name e).

(** the loop [for nl, dom in zip(el.node_labels, fac.domains)] *)
Fixpoint check_doms (doms : list (name * domain)) (nls : list name) (ds : list domain) : bool :=
  match nls, ds with
  | nl :: nls, d :: ds =>
    match dget Nat.eqb doms nl with
    | None => false                                          (* not mapped *)
    | Some d' => if negb (dom_eqb d d') then false else check_doms doms nls ds
    end
  | _, _ => true
  end.

(** [self.has_edge_label_name(el.name) and self.get_edge_label(el.name) != el] *)
Definition label_clash (s : istate) (e : elabel) : bool :=
  match el_find (st_els s) (el_name e) with Some e' => negb (elabel_eqb e' e) | None => false end.

(** all tests first, [add_edge_label] only just before the factor is stored (since /repo
    6c89611): a failing call changes nothing *)
Definition add_factor (s : istate) (e : elabel) (f : factor) : istate * outcome :=
  if negb (el_terminal e) then (s, RErr ValueErr)
  else if label_clash s e then (s, RErr ValueErr)
  else if label_bound e (st_facs s) then (s, RErr ValueErr)
  else if negb (Nat.eqb (fac_arity f) (length (el_type e))) then (s, RErr ValueErr)
  else if negb (check_doms (st_doms s) (el_type e) (fac_doms f)) then (s, RErr ValueErr)
  else match add_edge_label s e with
       | (s1, RNone) =>
         (mk_state (st_nls s1) (st_els s1) (st_doms s1) (dset Nat.eqb (st_facs s1) (el_name e) f), RNone)
       | (s1, r) => (s1, r)
       end.

Definition shape_labels (a : shape_arg) : list name :=
  match a with
  | SLabels l => l
  | SNodes l => l                                            (* [node.label for node in x] *)
  | SEdgeLabel e => el_type e
  | SEdge e => el_type e
  end.
Definition shape_of (s : istate) (a : shape_arg) : result (list (option nat)) :=
  mapM (fun nl => match dget Nat.eqb (st_doms s) nl with
                  | Some d => Ok (dom_size d)
                  | None => Err KeyErr
                  end) (shape_labels a).

Definition new_finite_domain (s : istate) (n : name) (k : iterkind) (items : list value) : istate * outcome :=
  let d := mk_finite k items in
  match add_domain s n d with
  | (s1, RNone) => (s1, RDom d)
  | r => r
  end.

Definition new_finite_factor (s : istate) (n : name) (w : warg) : istate * outcome :=
  match el_find (st_els s) n with
  | None => (s, RErr KeyErr)
  | Some e =>
    match mapM (fun nl => match dget Nat.eqb (st_doms s) nl with Some d => Ok d | None => Err KeyErr end) (el_type e) with
    | Err x => (s, RErr x)
    | Ok doms =>
      match mk_finite_factor doms w with
      | Err x => (s, RErr x)
      | Ok f => match add_factor s e f with
                | (s1, RNone) => (s1, RFac f)
                | r => r
                end
      end
    end
  end.

Definition step (s : istate) (o : op) : istate * outcome :=
  match o with
  | OAddNodeLabel n => (add_node_label s n, RNone)
  | OAddEdgeLabel e => add_edge_label s e
  | OAddDomain n d => add_domain s n d
  | OAddFactor e f => add_factor s e f
  | ONewFiniteDomain n k items => new_finite_domain s n k items
  | ONewFiniteFactor n w => new_finite_factor s n w
  | OShape a => (s, match shape_of s a with Ok sh => RShape sh | Err x => RErr x end)
  end.

(** * Executable specifications (oracles) *)

Definition memv (l : list value) (v : value) : bool := existsb (value_eqb v) l.
Fixpoint nodupv (l : list value) : bool :=
  match l with [] => true | x :: l => negb (memv l x) && nodupv l end.
Fixpoint position (l : list value) (v : value) : option nat :=
  match l with
  | [] => None
  | x :: l => if value_eqb x v then Some 0 else match position l v with Some i => Some (S i) | None => None end
  end.
Fixpoint lookup {B} (l : list (value * B)) (v : value) : option B :=
  match l with [] => None | (a, b) :: l => if value_eqb a v then Some b else lookup l v end.

Definition rvalue_eqb := result_eqb value_eqb.
Definition rbool_eqb := result_eqb Bool.eqb.

(** ** C20_bijection on a table of answers.
    [items]: the distinct values the domain was built from; [size]: the answer of [size()];
    [tab]: for every probed value its answers to [contains] and [numberize];
    [den]: the answers of [denumberize 0 .. denumberize (size-1)].
    Accepts iff: size is the number of values; denumberize enumerates exactly the values;
    numberize inverts it on them and raises KeyError elsewhere; contains = membership. *)
Definition bij_oracle (items : list value) (size : nat)
           (tab : list (value * (result bool * result value))) (den : list (result value)) : bool :=
  Nat.eqb size (length items)
  && list_eqb rvalue_eqb den (map Ok items)
  && forallb (fun v => match lookup tab v with Some _ => true | None => false end) items
  && forallb (fun e : value * (result bool * result value) =>
                let '(v, (c, n)) := e in
                match position items v with
                | Some i => rbool_eqb c (Ok true) && rvalue_eqb n (Ok (vnat i))
                | None => rbool_eqb c (Ok false) && rvalue_eqb n (Err KeyErr)
                end) tab.

(** RangeDomain of finite size [n]: for every probed Python value (equality class + isint flag),
    contains holds exactly for the ints 0..n-1, and on those numberize / denumberize return the
    value itself. *)
Definition in_range_int (n : nat) (v : value) : bool :=
  match as_int v with Some z => ((0 <=? z) && (z <? Z.of_nat n))%Z | None => false end.
Definition range_oracle (n : nat) (size : option nat)
           (tab : list (value * bool * (result bool * result value * result value))) : bool :=
  option_eqb Nat.eqb size (Some n)
  && forallb (fun e : value * bool * (result bool * result value * result value) =>
                let '(v, b, (c, nu, de)) := e in
                let inr := b && in_range_int n v in
                rbool_eqb c (Ok inr) && (negb inr || (rvalue_eqb nu (Ok v) && rvalue_eqb de (Ok v)))) tab.
(** well-formed flag: only an integral number can be an int *)
Definition int_flag_ok (p : value * bool) : bool :=
  negb (snd p) || match fst p with VNum q => Pos.eqb (Qden q) 1 | VOther _ => false end.

(** equality is by content *)
Definition eq_oracle (d : domain) (eqs : list (domain * (bool * bool))) : bool :=
  forallb (fun e : domain * (bool * bool) =>
             let '(o, (ieq, ine)) := e in
             Bool.eqb ieq (dom_eqb d o) && Bool.eqb ine (negb (dom_eqb d o))) eqs.

(** ** C20_shape *)
Fixpoint rm_offset (sh : list nat) (idx : list nat) (acc : nat) : nat :=
  match sh, idx with
  | s :: sh, i :: idx => rm_offset sh idx (acc * s + i)
  | _, _ => acc
  end.
(** domains whose numberize is the position in their distinct value list (or a range) *)
Definition good_dom (d : domain) : bool :=
  match d with
  | DFinite vs idx => nodupv vs && list_eqb (fun a b => value_eqb (fst a) (fst b) && Nat.eqb (snd a) (snd b))
                                            idx (build_index vs)
  | DRange (Some _) => true
  | DRange None => false
  end.
Definition spec_index (d : domain) (v : value) : option nat :=
  match d with
  | DFinite vs _ => position vs v
  | DRange (Some n) => if in_range_int n v then match as_int v with Some z => Some (Z.to_nat z) | None => None end else None
  | DRange None => None
  end.
Fixpoint spec_indices (ds : list domain) (vs : list value) : option (list nat) :=
  match ds, vs with
  | [], [] => Some []
  | d :: ds, v :: vs => match spec_index d v, spec_indices ds vs with
                        | Some i, Some is => Some (i :: is)
                        | _, _ => None
                        end
  | _, _ => None
  end.

(** the constructor accepts exactly when every size is finite and the shape of the weights is
    the tuple of sizes *)
Definition ctor_oracle (doms : list domain) (w : warg) (accepted : bool) : bool :=
  Bool.eqb accepted
           (forallb size_finite doms
            && match to_tensor w with Ok (sh, _) => list_eqb Nat.eqb sh (sizes_of doms) | Err _ => false end).
(** on a complete tuple of values, each in its domain, apply returns the weight at the
    row-major position of the numberized values *)
Definition apply_oracle (doms : list domain) (t : tensor) (vs : list value) (r : result tensor) : bool :=
  match spec_indices doms vs with
  | Some is => match nth_error (snd t) (rm_offset (fst t) is 0) with
               | Some w => result_eqb tensor_eqb r (Ok ([], [w]))
               | None => false
               end
  | None => true
  end.

(** ** C20_binding *)
Definition label_consistent (s : istate) (e : elabel) : bool :=
  match el_find (st_els s) (el_name e) with Some e' => elabel_eqb e' e | None => true end.
Fixpoint doms_match (doms : list (name * domain)) (nls : list name) (ds : list domain) : bool :=
  match nls, ds with
  | [], [] => true
  | nl :: nls, d :: ds => match dget Nat.eqb doms nl with
                          | Some d' => dom_eqb d d' && doms_match doms nls ds
                          | None => false
                          end
  | _, _ => false
  end.
(** terminal label, consistent with the label table, arity and every domain match ... *)
Definition bind_spec_guarded (s : istate) (e : elabel) (f : factor) : bool :=
  el_terminal e && label_consistent s e && doms_match (st_doms s) (el_type e) (fac_doms f).
(** ... and the label must not be bound yet: what C20 asks for *)
Definition bind_spec (s : istate) (e : elabel) (f : factor) : bool :=
  bind_spec_guarded s e f && negb (dmem Nat.eqb (st_facs s) (el_name e)).
Definition domain_spec (s : istate) (n : name) : bool := negb (dmem Nat.eqb (st_doms s) n).

(** * Check functions *)

Definition idx_eqb (a b : list (value * nat)) : bool :=
  list_eqb (fun x y => value_eqb (fst x) (fst y) && Nat.eqb (snd x) (snd y)) a b.
(** object identity of the model: same attributes *)
Definition dom_same (a b : domain) : bool :=
  match a, b with
  | DFinite v1 i1, DFinite v2 i2 => list_eqb value_eqb v1 v2 && idx_eqb i1 i2
  | DRange s1, DRange s2 => option_eqb Nat.eqb s1 s2
  | _, _ => false
  end.
Definition fac_same (f g : factor) : bool :=
  match f, g with
  | FFinite d1 s1 w1, FFinite d2 s2 w2 => list_eqb dom_same d1 d2 && list_eqb Nat.eqb s1 s2 && list_eqb q_eqb w1 w2
  | FConst d1 w1, FConst d2 w2 => list_eqb dom_same d1 d2 && q_eqb w1 w2
  | _, _ => false
  end.

Fixpoint q_canon_values (l : list value) : bool :=
  match l with
  | [] => true
  | VNum q :: l => q_eqb (Qred q) q && q_canon_values l
  | VOther _ :: l => q_canon_values l
  end.

Inductive dctor := CFinite (k : iterkind) (items : list value) | CRange (size : option nat).
Definition build (c : dctor) : domain :=
  match c with CFinite k items => mk_finite k items | CRange sz => DRange sz end.

(** One domain case.  [probes]: values asked of contains / numberize (for a finite domain they
    include every item); [dargs]: the arguments given to denumberize (for a finite domain of
    size n: the integers -n-1 .. n); the rest are the implementation's answers.
    Every probe carries its isinstance(_, int) flag.
    Verdicts: 0 ok; 1 an oracle rejects; 2 ill-formed case (harness); 10.. the answers differ
    from the model's although no oracle rejects. *)
Definition dom_case :=
  (dctor * list (value * bool) * list value *
   (domain * option nat * list (result bool) * list (result value) * list (result value)
    * list (domain * (bool * bool))))%type.

Definition den_window (n : nat) (dargs : list value) (iden : list (result value)) : list (result value) :=
  map snd (filter (fun p => in_range_int n (fst p)) (combine dargs iden)).

Definition dom_check (x : dom_case) : nat :=
  let '(c, tprobes, dargs, (iobj, isize, icont, inum, iden, ieqs)) := x in
  let probes := map fst tprobes in
  let d := build c in
  if negb (Nat.eqb (length probes) (length icont) && Nat.eqb (length probes) (length inum)
           && Nat.eqb (length dargs) (length iden) && q_canon_values probes
           && forallb int_flag_ok tprobes) then 2
  else
  let agree :=
      dom_same iobj d
      && option_eqb Nat.eqb isize (dom_size d)
      && list_eqb rbool_eqb icont (map (fun p => dom_contains d (fst p) (snd p)) tprobes)
      && list_eqb rvalue_eqb inum (map (dom_numberize d) probes)
      && list_eqb rvalue_eqb iden (map (dom_denumberize d) dargs)
      && forallb (fun e : domain * (bool * bool) =>
                    let '(o, (ieq, ine)) := e in Bool.eqb ieq (dom_eqb d o) && Bool.eqb ine (negb (dom_eqb d o))) ieqs in
  match c with
  | CFinite k items =>
    if negb (q_canon_values items && forallb (memv probes) items) then 2
    else if negb (nodupv items) then (if agree then 0 else 10)      (* duplicates: no spec, model only *)
    else
      let n := length items in
      let window := map vint (map Z.of_nat (seq 0 n)) in
      if negb (forallb (fun a => existsb (value_eqb a) dargs) window) then 2 else
      let size := match isize with Some s => s | None => 0 end in
      let tab := combine probes (combine icont inum) in
      let ok := match isize with Some _ => true | None => false end
                && bij_oracle items size tab (den_window n dargs iden)
                && eq_oracle (DFinite items []) ieqs in
      if ok then (if agree then 0 else 10)
      else 1
  | CRange None => if eq_oracle d ieqs then (if agree then 0 else 10) else 1
  | CRange (Some n) =>
    (* for a RangeDomain denumberize is asked on the probes themselves *)
    if negb (list_eqb value_eqb dargs probes) then 2 else
    let tab := combine tprobes (combine (combine icont inum) iden) in
    if negb (eq_oracle d ieqs) then 1
    else if range_oracle n isize tab then (if agree then 0 else 10)
    else 1
  end.

(** One factor case: constructor arguments, the implementation's constructor outcome (the
    object's attributes), the answers of apply on a list of value tuples, and of == against other
    factors.  Verdicts: 0 ok; 1 oracle rejects; 2 ill-formed case; 10.. differs from the model. *)
Inductive fctor := CFiniteF (doms : list domain) (w : warg) | CConstF (doms : list domain) (w : Q).
Definition fac_case :=
  (fctor * result factor * list (list value * result tensor) * list (factor * bool))%type.

Definition fac_check (x : fac_case) : nat :=
  let '(c, ictor, iapps, ieqs) := x in
  match c with
  | CFiniteF doms w =>
    let accepted := match ictor with Ok _ => true | Err _ => false end in
    if negb (match to_tensor w with Ok t => tensor_wf t | Err _ => true end) then 2
    else if negb (ctor_oracle doms w accepted) then 1
    else if (match ictor, to_tensor w with
             | Ok _, Ok t =>
               (* apply returns the weight THAT WAS GIVEN (not a converted or rounded copy of it) *)
               negb (forallb (fun a => negb (forallb good_dom doms) || apply_oracle doms t (fst a) (snd a)) iapps)
             | _, _ => false
             end) then 1
    else
      let m := mk_finite_factor doms w in
      if negb (result_eqb fac_same ictor m) then 10
      else match ictor with
           | Err _ => 0
           | Ok f =>
             match f with
             | FConst _ _ => 10
             | FFinite fd sh data =>
               if negb (forallb (fun a => negb (forallb good_dom doms) || apply_oracle doms (sh, data) (fst a) (snd a)) iapps
                        && forallb (fun e : factor * bool => Bool.eqb (snd e) (fac_eqb f (fst e))) ieqs) then 1
               else if forallb (fun a => result_eqb tensor_eqb (snd a) (fac_apply f (fst a))) iapps then 0 else 11
             end
           end
  | CConstF doms w =>
    match ictor with
    | Ok (FConst d' w') =>
      if negb (list_eqb dom_same d' doms && q_eqb w' w) then 10
      else if negb (forallb (fun e : factor * bool => Bool.eqb (snd e) (fac_eqb (FConst doms w) (fst e))) ieqs) then 1
      else if forallb (fun a => result_eqb tensor_eqb (snd a) (Ok ([], [w]))) iapps then 0 else 1
    | _ => 10
    end
  end.

(** One history of API calls on a FactorGraph / FGG: the initial state as observed, and for every
    call the operation, the implementation's outcome and the state observed afterwards.
    Verdicts: 0 ok; 1 an oracle rejects (the call succeeded although the property forbids it, or
    failed although it allows it, or shape() is not the tuple of sizes); 10.. outcome or state
    differ from the model's. *)
Definition outcome_same (a b : outcome) : bool :=
  match a, b with
  | RNone, RNone => true
  | RDom x, RDom y => dom_same x y
  | RFac x, RFac y => fac_same x y
  | RShape x, RShape y => list_eqb (option_eqb Nat.eqb) x y
  | RErr x, RErr y => exn_eqb x y
  | _, _ => false
  end.
Definition state_same (a b : istate) : bool :=
  list_eqb Nat.eqb (st_nls a) (st_nls b)
  && list_eqb elabel_eqb (st_els a) (st_els b)
  && list_eqb (fun x y => Nat.eqb (fst x) (fst y) && dom_same (snd x) (snd y)) (st_doms a) (st_doms b)
  && list_eqb (fun x y => Nat.eqb (fst x) (fst y) && fac_same (snd x) (snd y)) (st_facs a) (st_facs b).
Definition succeeded (r : outcome) : bool := match r with RErr _ => false | _ => true end.

(** verdict of one call, given the state before it: 0 or 1 *)
Definition step_oracle (s : istate) (o : op) (r : outcome) : nat :=
  match o with
  | OAddDomain n _ => if Bool.eqb (succeeded r) (domain_spec s n) then 0 else 1
  | ONewFiniteDomain n _ _ => if Bool.eqb (succeeded r) (domain_spec s n) then 0 else 1
  | OAddFactor e f =>
    if Bool.eqb (succeeded r) (bind_spec s e f) then 0 else 1
  | ONewFiniteFactor n w =>
    match el_find (st_els s) n with
    | None => if succeeded r then 1 else 0
    | Some e =>
      match mapM (fun nl => match dget Nat.eqb (st_doms s) nl with Some d => Ok d | None => Err KeyErr end) (el_type e) with
      | Err _ => if succeeded r then 1 else 0
      | Ok doms =>
        let spec := el_terminal e && ctor_oracle doms w true in
        let bound := dmem Nat.eqb (st_facs s) n in
        if Bool.eqb (succeeded r) (spec && negb bound) then 0 else 1
      end
    end
  | OShape a =>
    match r with
    | RShape sh => if option_eqb (list_eqb (option_eqb Nat.eqb))
                                 (match shape_of s a with Ok x => Some x | Err _ => None end) (Some sh) then 0 else 1
    | RErr _ => match shape_of s a with Ok _ => 1 | Err _ => 0 end
    | _ => 1
    end
  | _ => 0
  end.

Fixpoint bind_run (s : istate) (steps : list (op * outcome * istate)) (worst : nat) : nat :=
  match steps with
  | [] => worst
  | (o, r, s') :: steps =>
    let '(ms, mr) := step s o in
    let v := step_oracle s o r in
    let c := if negb (outcome_same r mr) then 10 else if negb (state_same s' ms) then 11 else 0 in
    (* priority: 1 > 10/11 > 0; after a disagreement the run stops *)
    if Nat.eqb v 1 then 1
    else if negb (Nat.eqb c 0) then c
    else bind_run ms steps (Nat.max worst v)
  end.
Definition bind_case := (istate * list (op * outcome * istate))%type.
Definition bind_check (x : bind_case) : nat :=
  let '(s0, steps) := x in bind_run s0 steps 0.
