(** Brings the primitive-float literals and notations into scope for the case files that the
    harness generates for the vm_compute evaluation of Model/FloatOps.v (core.run_coq can only
    import modules of this development). *)
From Coq Require Export PrimFloat.
