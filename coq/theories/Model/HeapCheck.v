(** C18 (clone clause): check function of the heap-model correspondence stream.
    Input: an operation sequence (run from the empty state) and, for every step, what the harness
    observed on the real objects after the step: the outcome of the call and, for every live
    object in creation order, its kind, the first object with the same storage
    ([untyped_storage().data_ptr()]), its dense values and default, resp. its dictionary
    (key -> object).

    verdicts: 0 agreement at every step;
      1  the clone clause fails on the REAL objects: after a clone, while every operation
         respected the ownership discipline [owned_step] (sound by C18_clone_independent /
         C18_mclone_independent), the observation of an object older than the clone changed;
      10 outcome of a call differs (returned object identity / bool / exception);
      11 sharing partition differs;  12 values or default differ;  13 a dictionary differs;
      14 number or kind of objects differs;
      20 the model state is ill-formed (harness bug);  30 operation outside the modelled domain. *)
From Coq Require Import List Arith Bool PeanoNat ZArith.
Import ListNotations.
Require Import Fggs.Model.Heap.
Open Scope nat_scope.

Definition oobs := (nat * nat * list Z * Z * list (nat * nat))%type.

Definition out_code (o : out) : nat * list nat :=
  match o with
  | ONone => (0, [])
  | ORefs l => (1, l)
  | OBool true => (2, [])
  | OBool false => (3, [])
  | OErr => (4, [])
  | OUnsup => (5, [])
  end.

Fixpoint first_with_sid (objs : list obj) (sid r : nat) : nat :=
  match objs with
  | [] => r
  | OPT p :: t => if pt_sid p =? sid then r else first_with_sid t sid (S r)
  | OMT _ :: t => first_with_sid t sid (S r)
  end.

Definition model_obs (st : state) : list oobs :=
  map (fun o => match o with
                | OPT p => (0, first_with_sid (st_objs st) (pt_sid p) 0, dense st p, pt_dflt p, [])
                | OMT d => (1, 0, [], 0%Z, d)
                end) (st_objs st).

Fixpoint dict_eqb (a b : list (nat * nat)) : bool :=
  match a, b with
  | [], [] => true
  | (k, r) :: a', (k', r') :: b' => (k =? k') && (r =? r') && dict_eqb a' b'
  | _, _ => false
  end.

Definition oobs_cmp (m r : oobs) : nat :=
  let '(k, c, dv, d, di) := m in
  let '(k', c', dv', d', di') := r in
  if negb (k =? k') then 14
  else if negb (c =? c') then 11
  else if negb (zlist_eqb dv dv' && Z.eqb d d') then 12
  else if negb (dict_eqb di di') then 13
  else 0.

Fixpoint obs_cmp (m r : list oobs) : nat :=
  match m, r with
  | [], [] => 0
  | x :: m', y :: r' => let c := oobs_cmp x y in if c =? 0 then obs_cmp m' r' else c
  | _, _ => 14
  end.

Definition out_cmp (m r : nat * list nat) : nat :=
  if (fst m =? fst r) && list_eqb (snd m) (snd r) then 0 else 10.

Definition tracker := (list nat * nat * list oobs)%type.

Fixpoint check_steps (st : state) (prev : list oobs) (trk : list tracker)
         (l : list (op * (nat * list nat) * list oobs)) : nat :=
  match l with
  | [] => 0
  | (o, eo, obs) :: t =>
    let (st', res) := step st o in
    let trk1 := flat_map (fun tr : tracker =>
                            let '(C, no, snap) := tr in
                            match owned_step C st o with
                            | Some (C', _) => [(C', no, snap)]
                            | None => []
                            end) trk in
    if existsb (fun tr : tracker => let '(_, no, snap) := tr in negb (obs_cmp (firstn no obs) snap =? 0)) trk1
    then 1
    else
      let c := out_cmp (out_code res) eo in
      if negb (c =? 0) then c
      else
        let c := obs_cmp (model_obs st') obs in
        if negb (c =? 0) then c
        else if negb (wf_state st') then 20
        else
          match res with
          | OUnsup => 30
          | _ =>
            let no := length (st_objs st) in
            let trk2 := match o, res with
                        | OClone _, ORefs [_] | OMClone _, ORefs [_] =>
                          (seq no (length (st_objs st') - no), no, prev) :: trk1
                        | _, _ => trk1
                        end in
            if existsb (fun tr : tracker => let '(_, no, snap) := tr in negb (obs_cmp (firstn no obs) snap =? 0)) trk2
            then 1
            else check_steps st' obs trk2 t
          end
  end.

Definition heap_check (l : list (op * (nat * list nat) * list oobs)) : nat :=
  check_steps empty_state [] [] l.
