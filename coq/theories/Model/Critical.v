(** C02 -- "with an error that vanishes as tol does", at the slowest converging grammars there are:
    the CRITICAL scalar system  x = F(x) = c x^2 + a x + b  with (1-a)^2 = 4 c b  (grammar
    X -> X X c | a X | b ; e.g. the critical branching process S -> 1/2 S S | 1/2).  Its only
    solution is the double root xs = (1-a)/(2c), F'(xs) = 1: no contraction factor < 1 exists, so
    the certificates of Model/Magnitude.v do not apply.  Instead  F(x) - x = c (xs - x)^2  exactly
    (Proofs/Critical_proofs.v), so the stopping test F(x_k) - x_k <= tol of fixed_point / newton
    holds iff the error is at most sqrt(tol/c): the returned value tells which tol was really used.

    Also here: the judgement of a LADDER of runs with decreasing tol (the results are iterates of one
    increasing sequence, so they may not decrease along the ladder). *)
From Coq Require Import QArith Bool List.
Require Import Fggs.Model.Magnitude.
Import ListNotations.
Local Open Scope Q_scope.

Definition crit_xs (a c : Q) : Q := (1 - a) / (2 * c).

Definition crit_guard (a b c tol delta : Q) : bool :=
  Qle_bool 0 a && Qlt_bool a 1 && Qlt_bool 0 c && Qle_bool 0 tol && Qle_bool 0 delta
  && Qeq_bool ((1 - a) * (1 - a)) (4 * c * b).

(** verdict on the value [obs] returned by fixed-point (an iterate x_k with F(x_k) - x_k <= tol) or
    newton (a value between F(x_k) and xs for such an x_k): 0 = obs <= xs + delta and
    c (xs - delta - obs)^2 <= tol (or obs already within delta of xs); 1 = outside;
    31 = outside the guard (0 <= a < 1, c > 0, (1-a)^2 = 4 c b, tol, delta >= 0).
    [delta] = allowance for floating-point rounding. *)
Definition crit_check (t : (Q * Q * Q) * Q * Q * Q) : nat :=
  let '((a, b, c), tol, delta, obs) := t in
  if negb (crit_guard a b c tol delta) then 31%nat else
  let e := crit_xs a c - delta - obs in
  if Qle_bool obs (crit_xs a c + delta) && (Qle_bool e 0 || Qle_bool (c * e * e) tol)
  then 0%nat else 1%nat.

(** a ladder = the runs of one method on one grammar at tolerances tol_1 >= tol_2 >= ..., as pairs
    (tol_i, returned value).  Every run returns an iterate of the same increasing sequence, a
    smaller tol stops later: the values may not decrease (up to [delta] for rounding).
    0 = ok; 2 = a smaller tol gave a smaller value; 31 = the tolerances are not sorted / delta < 0 *)
Fixpoint ladder_sorted (l : list (Q * Q)) : bool :=
  match l with
  | (t1, _) :: (((t2, _) :: _) as r) => Qle_bool t2 t1 && ladder_sorted r
  | _ => true
  end.
Fixpoint ladder_mono (delta : Q) (l : list (Q * Q)) : bool :=
  match l with
  | (_, o1) :: (((_, o2) :: _) as r) => Qle_bool (o1 - delta) o2 && ladder_mono delta r
  | _ => true
  end.
Definition ladder_check (t : Q * list (Q * Q)) : nat :=
  let '(delta, l) := t in
  if negb (Qle_bool 0 delta && ladder_sorted l) then 31%nat
  else if ladder_mono delta l then 0%nat else 2%nat.
