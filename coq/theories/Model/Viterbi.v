(** C04: the oracle for viterbi -- a returned derivation must be well formed and its weight
    must equal the optimum (the Viterbi-semiring least fixed point at the start assignment).
    Definitions only. *)
From Coq Require Import QArith Qcanon List Arith Bool PeanoNat.
Import ListNotations.
Require Import Fggs.Model.Semiring Fggs.Model.SCC Fggs.Model.SumProduct Fggs.Model.SumProductCheck
               Fggs.Model.Kleene Fggs.Model.EReal Fggs.Model.Trop.
Local Open Scope nat_scope.

(** well-formedness of a derivation tree for nonterminal X with external assignment xi:
    the rule belongs to X; every node of the rule instance has a value in its domain; the
    external nodes agree with xi; exactly one child per edge -- a subtree for every nonterminal
    edge (for that edge's label, with the parent's values at the attachment nodes), none for
    terminal edges *)
Fixpoint wf_dtree_b (G : grammar) (X : nat) (xi : list nat) (t : dtree) {struct t} : bool :=
  match t with
  | DT ri a ch =>
    let r := get_rule G ri in
    (ri <? length (g_rules G))
    && Nat.eqb (r_lhs r) X
    && Nat.eqb (length a) (length (r_nodes r))
    && forallb (fun p => fst p <? snd p) (combine a (node_sizes G r))
    && nat_list_eqb (sel a (r_ext r)) xi
    && Nat.eqb (length ch) (length (r_edges r))
    && (fix go (ch : list (option dtree)) (es : list (nat * list nat)) {struct ch} : bool :=
          match ch, es with
          | c :: ch, ed :: es =>
            (match c with
             | None => is_term G (fst ed)
             | Some t' => negb (is_term G (fst ed)) && wf_dtree_b G (fst ed) (sel a (snd ed)) t'
             end) && go ch es
          | [], [] => true
          | _, _ => false
          end) ch (r_edges r)
  end.

Fixpoint depth (t : dtree) : nat :=
  match t with
  | DT _ _ ch =>
    S ((fix go (ch : list (option dtree)) : nat :=
          match ch with
          | [] => 0
          | None :: ch => go ch
          | Some t' :: ch => Nat.max (depth t') (go ch)
          end) ch)
  end.

Definition trop_is_fin (x : trop) : bool := match x with TFin _ => true | _ => false end.

(** input: grammar, terminal log-weights, start assignment, K (Kleene rounds), observation:
    (kind, tree, weight of derive()'s factor graph under its assignment, sum_product(Viterbi) at the
    start assignment as an interval).  kind: 0 = a derivation was returned; 1 = an exception.
    verdicts: 0 ok; 1 exception instead of a derivation although the optimum is finite;
    2 ill-formed grammar; 3 scc fuel; 5 derivation not well formed; 6 weight of the derivation is
    not the optimum; 7 derive()'s graph/assignment has a different total weight than the derivation;
    8 sum_product(semiring=Viterbi) differs from the optimum; 30 no exact optimum found
    (divergent); 31 the optimum at this start assignment is not finite (property does not apply) *)
Definition vit_check (x : grammar_w * list (nat * list (nat * Q)) * list nat * nat
                          * (nat * dtree * (nat * Q) * ((nat * Q) * (nat * Q)))) : nat :=
  let '(gw, ws, xi, K, (kind, t, dw, spv)) := x in
  let G := grammar_of_w gw in
  if negb (wf_grammar G) then 2 else
  let w := weights_tmt trop_of G ws in
  match enclosure trop_ops (fun x => x) (fun x => x) tleb G (env_of trop_ops w) K with
  | None => 30
  | Some (lo, _) =>
    let opt := env_of trop_ops lo (g_start G) xi in
    if negb (trop_is_fin opt) then 31
    else if negb (trop_within opt (fst spv) (snd spv)) then 8
    else match kind with
         | 0 =>
           if negb (wf_dtree_b G (g_start G) xi t) then 5
           else if negb (teqb (weight trop_ops G (env_of trop_ops w) t) opt) then 6
           else if negb (teqb (trop_of dw) opt) then 7
           else 0
         | _ => 1
         end
  end.
