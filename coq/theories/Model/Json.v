(** Model of fggs/formats.py (JSON part), fggs/factors.py ([weights_to_json], [to_json]),
    fggs/domains.py ([to_json]) and [FGG.from_hrg] of fggs/fggs.py -- property C14.

    Definitions only (models, boolean oracles, check functions); proofs are in
    Proofs/Json_*.v.

    Conventions
    - Python [str] = list of code points ([list nat]), ordered as Python orders
      strings (lexicographically by code point, a proper prefix is smaller).
    - Python [dict] = association list in insertion order.
    - A JSON document as returned by [json.loads]: [json].  Python distinguishes
      [int] ([JInt]) and [float] ([JNum], with the two infinities).
    - Node/Edge ids: [Explicit s | Implicit n].  An implicit id is the object's
      address in Python; what [hrg_to_json] observes of it is only [str(id)], its
      decimal string.  That string is an ORACLE ARGUMENT [dec : nat -> str] of the
      model ([dec n] = the decimal string of the address of the object numbered
      [n]); every theorem quantifies over all [dec] (not even injectivity or
      "digits only" is assumed).  [json_to_hrg] creates objects with new
      addresses: the model numbers them with a counter.
    - Errors: [res A = Ok a | Err kind]. *)
From Coq Require Import List Arith Bool PeanoNat ZArith QArith.
Import ListNotations.
Local Open Scope nat_scope.

(* ------------------------------------------------------------------------- *)
(** * Strings *)

Definition str := list nat.

Fixpoint str_eqb (a b : str) : bool :=
  match a, b with
  | [], [] => true
  | x :: a', y :: b' => Nat.eqb x y && str_eqb a' b'
  | _, _ => false
  end.

(** Python [a <= b] on [str] *)
Fixpoint str_leb (a b : str) : bool :=
  match a, b with
  | [], _ => true
  | _ :: _, [] => false
  | x :: a', y :: b' => if x <? y then true else if y <? x then false else str_leb a' b'
  end.

Fixpoint strs_eqb (a b : list str) : bool :=
  match a, b with
  | [], [] => true
  | x :: a', y :: b' => str_eqb x y && strs_eqb a' b'
  | _, _ => false
  end.

(** the JSON keys and tags used by formats.py (literal code-point lists) *)
Definition k_terminals : str := [116; 101; 114; 109; 105; 110; 97; 108; 115]. (* "terminals" *)
Definition k_nonterminals : str := [110; 111; 110; 116; 101; 114; 109; 105; 110; 97; 108; 115]. (* "nonterminals" *)
Definition k_start : str := [115; 116; 97; 114; 116]. (* "start" *)
Definition k_rules : str := [114; 117; 108; 101; 115]. (* "rules" *)
Definition k_type : str := [116; 121; 112; 101]. (* "type" *)
Definition k_lhs : str := [108; 104; 115]. (* "lhs" *)
Definition k_rhs : str := [114; 104; 115]. (* "rhs" *)
Definition k_nodes : str := [110; 111; 100; 101; 115]. (* "nodes" *)
Definition k_edges : str := [101; 100; 103; 101; 115]. (* "edges" *)
Definition k_externals : str := [101; 120; 116; 101; 114; 110; 97; 108; 115]. (* "externals" *)
Definition k_label : str := [108; 97; 98; 101; 108]. (* "label" *)
Definition k_id : str := [105; 100]. (* "id" *)
Definition k_attachments : str := [97; 116; 116; 97; 99; 104; 109; 101; 110; 116; 115]. (* "attachments" *)
Definition k_grammar : str := [103; 114; 97; 109; 109; 97; 114]. (* "grammar" *)
Definition k_interpretation : str := [105; 110; 116; 101; 114; 112; 114; 101; 116; 97; 116; 105; 111; 110]. (* "interpretation" *)
Definition k_domains : str := [100; 111; 109; 97; 105; 110; 115]. (* "domains" *)
Definition k_factors : str := [102; 97; 99; 116; 111; 114; 115]. (* "factors" *)
Definition k_class : str := [99; 108; 97; 115; 115]. (* "class" *)
Definition k_finite : str := [102; 105; 110; 105; 116; 101]. (* "finite" *)
Definition k_range : str := [114; 97; 110; 103; 101]. (* "range" *)
Definition k_values : str := [118; 97; 108; 117; 101; 115]. (* "values" *)
Definition k_size : str := [115; 105; 122; 101]. (* "size" *)
Definition k_function : str := [102; 117; 110; 99; 116; 105; 111; 110]. (* "function" *)
Definition k_constant : str := [99; 111; 110; 115; 116; 97; 110; 116]. (* "constant" *)
Definition k_weight : str := [119; 101; 105; 103; 104; 116]. (* "weight" *)
Definition k_weights : str := [119; 101; 105; 103; 104; 116; 115]. (* "weights" *)
Definition k_physical : str := [112; 104; 121; 115; 105; 99; 97; 108]. (* "physical" *)
Definition k_expand : str := [101; 120; 112; 97; 110; 100]. (* "expand" *)
Definition k_vaxes : str := [118; 97; 120; 101; 115]. (* "vaxes" *)
Definition k_default : str := [100; 101; 102; 97; 117; 108; 116]. (* "default" *)
Definition k_before : str := [98; 101; 102; 111; 114; 101]. (* "before" *)
Definition k_term : str := [116; 101; 114; 109]. (* "term" *)
Definition k_after : str := [97; 102; 116; 101; 114]. (* "after" *)

(* ------------------------------------------------------------------------- *)
(** * JSON values, errors *)

(** a Python float that json can carry: finite (exact rational) or an infinity *)
Inductive num := NFin (q : Q) | NPInf | NNInf.

Inductive json :=
| JNull
| JBool (b : bool)
| JInt (z : Z)
| JNum (x : num)
| JStr (s : str)
| JList (l : list json)
| JDict (d : list (str * json)).

Inductive err := ValueErr | KeyErr | TypeErr | IndexErr | AssertErr | AttrErr | OtherErr | Unmodelled.
(** [OtherErr]: a bare [Exception] ([HRGRule.__post_init__]); [Unmodelled]: input outside what the
    model covers (e.g. a JSON bool used as a list index); the harness never generates such input. *)

Inductive res (A : Type) : Type := Ok (a : A) | Err (e : err).
Arguments Ok {A} a.
Arguments Err {A} e.

Definition bind {A B : Type} (x : res A) (f : A -> res B) : res B :=
  match x with Ok a => f a | Err e => Err e end.
Notation "'do' x <- a ; b" := (bind a (fun x => b)) (at level 200, x name, a at level 100, b at level 200).
Notation "'do' ' p <- a ; b" := (bind a (fun x => let p := x in b))
  (at level 200, p pattern, a at level 100, b at level 200).

Fixpoint mapM {A B : Type} (f : A -> res B) (l : list A) : res (list B) :=
  match l with
  | [] => Ok []
  | x :: l' => do y <- f x; do ys <- mapM f l'; Ok (y :: ys)
  end.

Definition err_eqb (a b : err) : bool :=
  match a, b with
  | ValueErr, ValueErr | KeyErr, KeyErr | TypeErr, TypeErr | IndexErr, IndexErr
  | AssertErr, AssertErr | AttrErr, AttrErr | OtherErr, OtherErr | Unmodelled, Unmodelled => true
  | _, _ => false
  end.

Definition num_eqb (a b : num) : bool :=
  match a, b with
  | NFin p, NFin q => Qeq_bool p q
  | NPInf, NPInf | NNInf, NNInf => true
  | _, _ => false
  end.

Fixpoint dict_find {V : Type} (d : list (str * V)) (k : str) : option V :=
  match d with
  | [] => None
  | (k', v) :: d' => if str_eqb k' k then Some v else dict_find d' k
  end.

(** Python [==] on loaded JSON: dicts compare as maps (key order is irrelevant; keys are unique in
    anything [json.loads] returns), [1 == 1.0]. *)
Fixpoint json_eqb (a b : json) : bool :=
  match a, b with
  | JNull, JNull => true
  | JBool x, JBool y => Bool.eqb x y
  | JInt x, JInt y => Z.eqb x y
  | JNum x, JNum y => num_eqb x y
  | JInt x, JNum y => num_eqb (NFin (inject_Z x)) y
  | JNum x, JInt y => num_eqb x (NFin (inject_Z y))
  | JStr x, JStr y => str_eqb x y
  | JList la, JList lb =>
      (fix go (la lb : list json) : bool :=
         match la, lb with
         | [], [] => true
         | x :: la', y :: lb' => json_eqb x y && go la' lb'
         | _, _ => false
         end) la lb
  | JDict da, JDict db =>
      Nat.eqb (length da) (length db) &&
      (fix go (da : list (str * json)) : bool :=
         match da with
         | [] => true
         | (k, v) :: da' =>
             match dict_find db k with Some v' => json_eqb v v' | None => false end && go da'
         end) da
  | _, _ => false
  end.

(** [j[k]] for a string key [k] *)
Definition jget (j : json) (k : str) : res json :=
  match j with
  | JDict d => match dict_find d k with Some v => Ok v | None => Err KeyErr end
  | _ => Err TypeErr
  end.

(** [j.get(k, None)] *)
Definition jget_opt (j : json) (k : str) : res (option json) :=
  match j with
  | JDict d => Ok (dict_find d k)
  | _ => Err AttrErr
  end.

(** [j.items()] *)
Definition jitems (j : json) : res (list (str * json)) :=
  match j with JDict d => Ok d | _ => Err AttrErr end.

(** [for x in j] *)
Definition jiter (j : json) : res (list json) :=
  match j with
  | JList l => Ok l
  | JDict d => Ok (map (fun kv => JStr (fst kv)) d)
  | JStr _ => Err Unmodelled
  | _ => Err TypeErr
  end.

Definition as_str (j : json) : res str :=
  match j with JStr s => Ok s | _ => Err Unmodelled end.

(** Python list indexing [l[j]]: negative indices count from the end *)
Definition py_index {A : Type} (l : list A) (j : json) : res A :=
  match j with
  | JInt z =>
      let n := Z.of_nat (length l) in
      let z' := if (z <? 0)%Z then (z + n)%Z else z in
      if (z' <? 0)%Z then Err IndexErr
      else match nth_error l (Z.to_nat z') with Some x => Ok x | None => Err IndexErr end
  | JBool _ => Err Unmodelled
  | _ => Err TypeErr
  end.

(** [vi < 0] for a loaded JSON value [vi] ([TypeError] for str / None / list / dict) *)
Definition json_neg (j : json) : res bool :=
  match j with
  | JInt z => Ok (z <? 0)%Z
  | JNum (NFin q) => Ok (negb (Qle_bool 0 q))
  | JNum NNInf => Ok true
  | JNum NPInf => Ok false
  | JBool _ => Err Unmodelled
  | _ => Err TypeErr
  end.

(** [try: if vi < 0: raise IndexError; l[vi]  except IndexError: raise ValueError]
    (the test [vi < 0] is the repair of F10, commit 2f3a5c1) *)
Definition att_index {A : Type} (l : list A) (j : json) : res A :=
  match json_neg j with
  | Err e => Err e
  | Ok true => Err ValueErr
  | Ok false =>
      match py_index l j with
      | Err IndexErr => Err ValueErr
      | r => r
      end
  end.

(* ------------------------------------------------------------------------- *)
(** * Grammars *)

Inductive nid := Explicit (s : str) | Implicit (n : nat).

Definition nid_eqb (a b : nid) : bool :=
  match a, b with
  | Explicit s, Explicit t => str_eqb s t
  | Implicit m, Implicit n => Nat.eqb m n
  | _, _ => false
  end.

Definition is_explicit (i : nid) : bool := match i with Explicit _ => true | Implicit _ => false end.

(** [str(id)] *)
Definition id_str (dec : nat -> str) (i : nid) : str :=
  match i with Explicit s => s | Implicit n => dec n end.

(** [Node(label, id, persist_id)]: [persist_id] is [is_explicit id] *)
Record node := mkNode { n_label : str; n_id : nid }.
(** [EdgeLabel(name, node_labels, is_terminal)] *)
Record elabel := mkEL { el_name : str; el_type : list str; el_term : bool }.
Record edge := mkEdge { e_label : elabel; e_att : list node; e_id : nid }.
(** [Graph]: [_nodes.values()], [_edges.values()] in insertion order, [_ext] *)
Record graph := mkGraph { g_nodes : list node; g_edges : list edge; g_ext : list node }.
Record rule := mkRule { r_lhs : elabel; r_rhs : graph }.
(** [HRG]: [_edge_labels.values()] (a dict keyed by name), start, [_rules] (a dict keyed by lhs).
    The node-label table is not modelled: nothing in the JSON code reads it. *)
Record hrg := mkHRG { h_labels : list elabel; h_start : elabel; h_rules : list (elabel * list rule) }.

Definition node_eqb (a b : node) : bool := str_eqb (n_label a) (n_label b) && nid_eqb (n_id a) (n_id b).
Definition elabel_eqb (a b : elabel) : bool :=
  str_eqb (el_name a) (el_name b) && strs_eqb (el_type a) (el_type b) && Bool.eqb (el_term a) (el_term b).

Fixpoint nodes_eqb (a b : list node) : bool :=
  match a, b with
  | [], [] => true
  | x :: a', y :: b' => node_eqb x y && nodes_eqb a' b'
  | _, _ => false
  end.

Definition edge_eqb (a b : edge) : bool :=
  elabel_eqb (e_label a) (e_label b) && nodes_eqb (e_att a) (e_att b) && nid_eqb (e_id a) (e_id b).

Definition all_rules (g : hrg) : list rule := concat (map snd (h_rules g)).

Fixpoint rules_of (rs : list (elabel * list rule)) (lhs : elabel) : list rule :=
  match rs with
  | [] => []
  | (k, l) :: rs' => if elabel_eqb k lhs then l else rules_of rs' lhs
  end.

Definition terminals (g : hrg) : list elabel := filter el_term (h_labels g).
Definition nonterminals (g : hrg) : list elabel := filter (fun l => negb (el_term l)) (h_labels g).

(** ** label tables (dict name -> EdgeLabel) *)
Fixpoint lab_get (tbl : list elabel) (name : str) : option elabel :=
  match tbl with
  | [] => None
  | l :: tbl' => if str_eqb (el_name l) name then Some l else lab_get tbl' name
  end.

(** [tbl[l.name] = l] *)
Fixpoint lab_set (tbl : list elabel) (l : elabel) : list elabel :=
  match tbl with
  | [] => [l]
  | x :: tbl' => if str_eqb (el_name x) (el_name l) then l :: tbl' else x :: lab_set tbl' l
  end.

(** [LabelingMixin.add_edge_label] *)
Definition add_edge_label (tbl : list elabel) (l : elabel) : res (list elabel) :=
  match lab_get tbl (el_name l) with
  | Some l' => if elabel_eqb l' l then Ok (lab_set tbl l) else Err ValueErr
  | None => Ok (lab_set tbl l)
  end.

Fixpoint add_edge_labels (tbl : list elabel) (ls : list elabel) : res (list elabel) :=
  match ls with
  | [] => Ok tbl
  | l :: ls' => do tbl' <- add_edge_label tbl l; add_edge_labels tbl' ls'
  end.

(** [self._edge_labels[name]] with an arbitrary JSON value as the key *)
Definition label_lookup (tbl : list elabel) (j : json) : res elabel :=
  match j with
  | JStr s => match lab_get tbl s with Some l => Ok l | None => Err KeyErr end
  | JList _ | JDict _ => Err TypeErr          (* unhashable *)
  | _ => Err KeyErr
  end.

(** [self._rules.setdefault(lhs, []).append(rule)] *)
Fixpoint rules_add (rs : list (elabel * list rule)) (r : rule) : list (elabel * list rule) :=
  match rs with
  | [] => [(r_lhs r, [r])]
  | (k, l) :: rs' => if elabel_eqb k (r_lhs r) then (k, l ++ [r]) :: rs' else (k, l) :: rules_add rs' r
  end.

(** ** [sorted(xs, key=lambda x: str(x.id))]: stable insertion sort *)
Section Sort.
  Context {A : Type} (key : A -> str).
  Fixpoint insert_by (x : A) (l : list A) : list A :=
    match l with
    | [] => [x]
    | y :: l' => if str_leb (key x) (key y) then x :: l else y :: insert_by x l'
    end.
  Fixpoint sort_by (l : list A) : list A :=
    match l with
    | [] => []
    | x :: l' => insert_by x (sort_by l')
    end.
End Sort.

(** position of the first element satisfying [p] *)
Fixpoint find_index {A : Type} (p : A -> bool) (l : list A) : option nat :=
  match l with
  | [] => None
  | x :: l' => if p x then Some 0 else match find_index p l' with Some i => Some (S i) | None => None end
  end.

(** [node_nums[v]] where [node_nums = {v: vi for vi, v in enumerate(nodes)}].  The values of
    [Graph._nodes] are pairwise distinct (the dict is keyed by the id stored in the value), so the
    comprehension never overwrites and "first position" = "the" position. *)
Definition node_num (nodes : list node) (v : node) : res json :=
  match find_index (node_eqb v) nodes with
  | Some i => Ok (JInt (Z.of_nat i))
  | None => Err KeyErr
  end.

(* ------------------------------------------------------------------------- *)
(** * hrg_to_json *)

Definition jtype (t : list str) : json := JDict [(k_type, JList (map JStr t))].
Definition jlabels (ls : list elabel) : json :=
  JDict (map (fun l => (el_name l, jtype (el_type l))) ls).

Definition jid (i : nid) : list (str * json) :=
  match i with Explicit s => [(k_id, JStr s)] | Implicit _ => [] end.

Definition jnode (v : node) : json := JDict ((k_label, JStr (n_label v)) :: jid (n_id v)).

Definition jedge (nodes : list node) (e : edge) : res json :=
  do atts <- mapM (node_num nodes) (e_att e);
  Ok (JDict ((k_attachments, JList atts) :: (k_label, JStr (el_name (e_label e))) :: jid (e_id e))).

Definition sorted_nodes (dec : nat -> str) (g : graph) : list node :=
  sort_by (fun v => id_str dec (n_id v)) (g_nodes g).
Definition sorted_edges (dec : nat -> str) (g : graph) : list edge :=
  sort_by (fun e => id_str dec (e_id e)) (g_edges g).

Definition jrule (dec : nat -> str) (r : rule) : res json :=
  let nodes := sorted_nodes dec (r_rhs r) in
  do exts <- mapM (node_num nodes) (g_ext (r_rhs r));
  do jes <- mapM (jedge nodes) (sorted_edges dec (r_rhs r));
  Ok (JDict [(k_lhs, JStr (el_name (r_lhs r)));
             (k_rhs, JDict [(k_nodes, JList (map jnode nodes));
                            (k_edges, JList jes);
                            (k_externals, JList exts)])]).

Definition hrg_to_json_model (dec : nat -> str) (g : hrg) : res json :=
  do jrs <- mapM (jrule dec) (all_rules g);
  Ok (JDict [(k_terminals, jlabels (terminals g));
             (k_nonterminals, jlabels (nonterminals g));
             (k_start, JStr (el_name (h_start g)));
             (k_rules, JList jrs)]).

(* ------------------------------------------------------------------------- *)
(** * json_to_hrg *)

Definition parse_type (d : json) : res (list str) :=
  do t <- jget d k_type;
  do l <- jiter t;
  mapM as_str l.

(** the two loops filling [labels = {}] *)
Fixpoint parse_labels (term : bool) (items : list (str * json)) (acc : list elabel) : res (list elabel) :=
  match items with
  | [] => Ok acc
  | (name, d) :: items' =>
      do t <- parse_type d;
      parse_labels term items' (lab_set acc (mkEL name t term))
  end.

(** [id=x.get('id', None)] then the constructor's [isinstance(id, str)] test; a missing id is a
    new object, numbered by the counter *)
Definition parse_id (o : option json) (c : nat) : res (nid * nat) :=
  match o with
  | None | Some JNull => Ok (Implicit c, S c)
  | Some (JStr s) => Ok (Explicit s, c)
  | Some _ => Err TypeErr
  end.

Definition id_mem (i : nid) (seen : list nid) : bool := existsb (nid_eqb i) seen.

(** [for node in r['rhs']['nodes']: v = Node(...); nodes.append(v); rhs.add_node(v)] *)
Fixpoint parse_nodes (l : list json) (c : nat) (seen : list nid) : res (list node * nat) :=
  match l with
  | [] => Ok ([], c)
  | jn :: l' =>
      do lab <- jget jn k_label;
      do name <- as_str lab;
      do o <- jget_opt jn k_id;
      do ic <- parse_id o c;
      if id_mem (fst ic) seen then Err ValueErr
      else do r <- parse_nodes l' (snd ic) (fst ic :: seen);
           Ok (mkNode name (fst ic) :: fst r, snd r)
  end.

(** [for e in r['rhs']['edges']: ... rhs.add_edge(Edge(g.get_edge_label(e['label']), att, id=e.get('id')))] *)
Fixpoint parse_edges (tbl : list elabel) (nodes : list node) (l : list json) (c : nat) (seen : list nid)
  : res (list edge * nat) :=
  match l with
  | [] => Ok ([], c)
  | je :: l' =>
      do ja <- jget je k_attachments;
      do la <- jiter ja;
      do att <- mapM (att_index nodes) la;
      do jl <- jget je k_label;
      do lab <- label_lookup tbl jl;
      do o <- jget_opt je k_id;
      do ic <- parse_id o c;
      if negb (strs_eqb (el_type lab) (map n_label att)) then Err ValueErr
      else if id_mem (fst ic) seen then Err ValueErr
      else do r <- parse_edges tbl nodes l' (snd ic) (fst ic :: seen);
           Ok (mkEdge lab att (fst ic) :: fst r, snd r)
  end.

Definition parse_rule (tbl : list elabel) (jr : json) (c : nat) : res (rule * nat) :=
  do jl <- jget jr k_lhs;
  do lhs <- label_lookup tbl jl;
  do jrhs <- jget jr k_rhs;
  do jn <- jget jrhs k_nodes;
  do ln <- jiter jn;
  do nc <- parse_nodes ln c [];
  do jes <- jget jrhs k_edges;
  do le <- jiter jes;
  do ec <- parse_edges tbl (fst nc) le (snd nc) [];
  do oext <- jget_opt jrhs k_externals;
  do lext <- match oext with None => Ok [] | Some x => jiter x end;
  do ext <- mapM (att_index (fst nc)) lext;
  (* HRGRule.__post_init__ raises a bare Exception *)
  if el_term lhs then Err OtherErr
  else if negb (strs_eqb (el_type lhs) (map n_label ext)) then Err OtherErr
  else Ok (mkRule lhs (mkGraph (fst nc) (fst ec) ext), snd ec).

(** the loop [for r in j['rules']: ... g.add_rule(HRGRule(lhs, rhs))].  [add_rule] also re-registers
    the labels of the rule; they were all obtained from [tbl], so that is a no-op on [tbl]. *)
Fixpoint parse_rules (tbl : list elabel) (l : list json) (c : nat) (acc : list (elabel * list rule))
  : res (list (elabel * list rule) * nat) :=
  match l with
  | [] => Ok (acc, c)
  | jr :: l' =>
      do rc <- parse_rule tbl jr c;
      parse_rules tbl l' (snd rc) (rules_add acc (fst rc))
  end.

Definition json_to_hrg_model (c : nat) (j : json) : res hrg :=
  do jt <- jget j k_terminals;
  do it <- jitems jt;
  do l1 <- parse_labels true it [];
  do jn <- jget j k_nonterminals;
  do inn <- jitems jn;
  do labels <- parse_labels false inn l1;
  do js <- jget j k_start;
  do start <- label_lookup labels js;
  (* HRG(start): the start setter *)
  if el_term start then Err ValueErr
  else
  do tbl <- add_edge_labels [start] labels;
  do jr <- jget j k_rules;
  do lr <- jiter jr;
  do rs <- parse_rules tbl lr c [];
  Ok (mkHRG tbl start (fst rs)).

(* ------------------------------------------------------------------------- *)
(** * Well-formedness (the invariants the fggs constructors enforce) *)

Fixpoint nodup_ids (l : list nid) : bool :=
  match l with [] => true | x :: l' => negb (id_mem x l') && nodup_ids l' end.

Fixpoint nodup_strs (l : list str) : bool :=
  match l with [] => true | x :: l' => negb (existsb (str_eqb x) l') && nodup_strs l' end.

Definition node_mem (v : node) (l : list node) : bool := existsb (node_eqb v) l.
Definition label_mem (x : elabel) (l : list elabel) : bool := existsb (elabel_eqb x) l.

Definition wf_graph (tbl : list elabel) (g : graph) : bool :=
  nodup_ids (map n_id (g_nodes g)) &&
  nodup_ids (map e_id (g_edges g)) &&
  forallb (fun v => node_mem v (g_nodes g)) (g_ext g) &&
  forallb (fun e => label_mem (e_label e) tbl &&
                    forallb (fun v => node_mem v (g_nodes g)) (e_att e) &&
                    strs_eqb (el_type (e_label e)) (map n_label (e_att e))) (g_edges g).

Definition wf_rule (tbl : list elabel) (r : rule) : bool :=
  label_mem (r_lhs r) tbl && negb (el_term (r_lhs r)) &&
  strs_eqb (el_type (r_lhs r)) (map n_label (g_ext (r_rhs r))) &&
  wf_graph tbl (r_rhs r).

Fixpoint nodup_labels (l : list elabel) : bool :=
  match l with [] => true | x :: l' => negb (label_mem x l') && nodup_labels l' end.

(** label names are unique (the table is a dict keyed by name), the start symbol is a registered
    nonterminal, [_rules] is a dict keyed by lhs whose lists are never empty ([setdefault(...).append]) *)
Definition wf_hrg (g : hrg) : bool :=
  nodup_strs (map el_name (h_labels g)) &&
  label_mem (h_start g) (h_labels g) && negb (el_term (h_start g)) &&
  nodup_labels (map fst (h_rules g)) &&
  forallb (fun kl => negb (Nat.eqb (length (snd kl)) 0) &&
                     forallb (fun r => elabel_eqb (r_lhs r) (fst kl) && wf_rule (h_labels g) r) (snd kl))
          (h_rules g).

Definition all_explicit_graph (g : graph) : bool :=
  forallb (fun v => is_explicit (n_id v)) (g_nodes g) && forallb (fun e => is_explicit (e_id e)) (g_edges g).
Definition all_explicit (g : hrg) : bool :=
  forallb (fun r => all_explicit_graph (r_rhs r)) (all_rules g).

(* ------------------------------------------------------------------------- *)
(** * Isomorphism checker (the oracle for the round trip), given the bijections by position *)

Definition id_match_b (i i' : nid) : bool :=
  match i, i' with
  | Explicit s, Explicit s' => str_eqb s s'
  | Implicit _, Implicit _ => true
  | _, _ => false
  end.

Definition node_match_b (v v' : node) : bool :=
  str_eqb (n_label v) (n_label v') && id_match_b (n_id v) (n_id v').

Fixpoint forall2b {A B : Type} (p : A -> B -> bool) (a : list A) (b : list B) : bool :=
  match a, b with
  | [], [] => true
  | x :: a', y :: b' => p x y && forall2b p a' b'
  | _, _ => false
  end.

Fixpoint nodup_nat (l : list nat) : bool :=
  match l with [] => true | x :: l' => negb (existsb (Nat.eqb x) l') && nodup_nat l' end.

(** [p] lists each of [0..n-1] exactly once *)
Definition is_perm_b (p : list nat) (n : nat) : bool :=
  Nat.eqb (length p) n && nodup_nat p && forallb (fun i => i <? n) p.

Fixpoint select {A : Type} (l : list A) (p : list nat) : option (list A) :=
  match p with
  | [] => Some []
  | i :: p' => match nth_error l i, select l p' with
               | Some x, Some r => Some (x :: r)
               | _, _ => None
               end
  end.

(** [v] and [v'] are paired *)
Definition paired_b (ns ns' : list node) (v v' : node) : bool :=
  existsb (fun p => node_eqb (fst p) v && node_eqb (snd p) v') (combine ns ns').

(** [pn], [pe]: for the i-th node (edge) of [g], the position of its image in [g'] *)
Definition graph_iso_b (g g' : graph) (pn pe : list nat) : bool :=
  match select (g_nodes g') pn, select (g_edges g') pe with
  | Some ns', Some es' =>
      is_perm_b pn (length (g_nodes g')) && is_perm_b pe (length (g_edges g')) &&
      nodup_ids (map n_id (g_nodes g)) && nodup_ids (map n_id ns') &&
      forall2b node_match_b (g_nodes g) ns' &&
      forall2b (paired_b (g_nodes g) ns') (g_ext g) (g_ext g') &&
      forall2b (fun e e' => elabel_eqb (e_label e) (e_label e') && id_match_b (e_id e) (e_id e') &&
                            forall2b (paired_b (g_nodes g) ns') (e_att e) (e_att e'))
               (g_edges g) es'
  | _, _ => false
  end.

Definition rule_iso_b (r r' : rule) (p : list nat * list nat) : bool :=
  elabel_eqb (r_lhs r) (r_lhs r') && graph_iso_b (r_rhs r) (r_rhs r') (fst p) (snd p).

Fixpoint forall3b {A B C : Type} (p : A -> B -> C -> bool) (a : list A) (b : list B) (c : list C) : bool :=
  match a, b, c with
  | [], [], [] => true
  | x :: a', y :: b', z :: c' => p x y z && forall3b p a' b' c'
  | _, _, _ => false
  end.

(** same start; same label table as a map name -> label; the same left-hand sides in the same
    order with rule lists of equal length; rules pairwise isomorphic in [all_rules] order *)
Definition hrg_iso_b (g g' : hrg) (perms : list (list nat * list nat)) : bool :=
  elabel_eqb (h_start g) (h_start g') &&
  nodup_strs (map el_name (h_labels g)) && nodup_strs (map el_name (h_labels g')) &&
  forallb (fun l => label_mem l (h_labels g')) (h_labels g) &&
  forallb (fun l => label_mem l (h_labels g)) (h_labels g') &&
  forall2b (fun kl kl' => elabel_eqb (fst kl) (fst kl') && Nat.eqb (length (snd kl)) (length (snd kl')))
           (h_rules g) (h_rules g') &&
  forall3b rule_iso_b (all_rules g) (all_rules g') perms.

(** The property asks for the rules of each left-hand side to be isomorphic in order; it does not
    fix the order of the left-hand sides among themselves.  [align_rules g g'] presents the rules
    dictionary of [g'] in the key order of [g] (same [rules_of] for every key of [g], see
    Proofs/Json_iso.v); the checker is applied to that.  [same_keys_b]: same set of keys. *)
Definition align_rules (g g' : hrg) : hrg :=
  mkHRG (h_labels g') (h_start g') (map (fun kl => (fst kl, rules_of (h_rules g') (fst kl))) (h_rules g)).

Definition same_keys_b (g g' : hrg) : bool :=
  Nat.eqb (length (h_rules g)) (length (h_rules g')) &&
  forallb (fun kl' => label_mem (fst kl') (map fst (h_rules g))) (h_rules g').

(* ------------------------------------------------------------------------- *)
(** * Weights: dense tensors, patterned tensors *)

(** a nested list of numbers (what [torch.tensor] accepts / [weights_to_json] returns) *)
Inductive tens := TS (x : num) | TL (l : list tens).

Fixpoint tens_eqb (a b : tens) : bool :=
  match a, b with
  | TS x, TS y => num_eqb x y
  | TL la, TL lb =>
      (fix go (la lb : list tens) : bool :=
         match la, lb with
         | [], [] => true
         | x :: la', y :: lb' => tens_eqb x y && go la' lb'
         | _, _ => false
         end) la lb
  | _, _ => false
  end.

Fixpoint tens_to_json (t : tens) : json :=
  match t with
  | TS x => JNum x
  | TL l => JList (map tens_to_json l)
  end.

(** [torch.tensor(j)] on nested lists of numbers: the nested structure ... *)
Fixpoint parse_tens (j : json) : res tens :=
  match j with
  | JInt z => Ok (TS (NFin (inject_Z z)))
  | JNum x => Ok (TS x)
  | JList l =>
      do ts <- (fix go (l : list json) : res (list tens) :=
                  match l with
                  | [] => Ok []
                  | x :: l' => do t <- parse_tens x; do ts <- go l'; Ok (t :: ts)
                  end) l;
      Ok (TL ts)
  | JStr _ => Err TypeErr
  | _ => Err Unmodelled
  end.

Fixpoint nats_eqb (a b : list nat) : bool :=
  match a, b with
  | [], [] => true
  | x :: a', y :: b' => Nat.eqb x y && nats_eqb a' b'
  | _, _ => false
  end.

(** ... which must be rectangular ([ValueError] otherwise); its shape *)
Fixpoint tens_shape (t : tens) : option (list nat) :=
  match t with
  | TS _ => Some []
  | TL l =>
      match l with
      | [] => Some [0]
      | x :: l' =>
          match tens_shape x with
          | None => None
          | Some s =>
              if (fix go (l : list tens) : bool :=
                    match l with
                    | [] => true
                    | y :: l'' => match tens_shape y with Some s' => nats_eqb s s' | None => false end && go l''
                    end) l'
              then Some (length l :: s) else None
          end
      end
  end.

Definition prod_list (l : list nat) : nat := fold_right Nat.mul 1 l.

Fixpoint chunks {A : Type} (n : nat) (k : nat) (l : list A) : list (list A) :=
  (* k chunks of length n *)
  match k with
  | 0 => []
  | S k' => firstn n l :: chunks n k' (skipn n l)
  end.

(** the nested list with the given shape and row-major content *)
Fixpoint tens_of_flat (shape : list nat) (flat : list num) : tens :=
  match shape with
  | [] => match flat with x :: _ => TS x | [] => TL [] end
  | n :: shape' => TL (map (tens_of_flat shape') (chunks (prod_list shape') n flat))
  end.

(** all index tuples of a shape, in row-major order *)
Fixpoint all_indices (shape : list nat) : list (list nat) :=
  match shape with
  | [] => [[]]
  | n :: shape' => flat_map (fun i => map (cons i) (all_indices shape')) (seq 0 n)
  end.

Fixpoint tens_get (t : tens) (idx : list nat) : option num :=
  match idx, t with
  | [], TS x => Some x
  | i :: idx', TL l => match nth_error l i with Some t' => tens_get t' idx' | None => None end
  | _, _ => None
  end.

(** ** axes: [PhysicalAxis] (identity [k] = its position among the physical axes, and its size),
    [ProductAxis], [SumAxis] *)
Inductive axis := APhys (k : nat) (n : nat) | AProd (fs : list axis) | ASum (b : nat) (t : axis) (a : nat).

Fixpoint ax_numel (e : axis) : nat :=
  match e with
  | APhys _ n => n
  | AProd fs => fold_right (fun f acc => ax_numel f * acc) 1 fs
  | ASum b t a => b + ax_numel t + a
  end.

(** smart constructor [productAxis]: flatten nested products (one level), unwrap singletons *)
Definition product_axis (fs : list axis) : axis :=
  let es := flat_map (fun f => match f with AProd l => l | _ => [f] end) fs in
  match es with
  | [e] => e
  | _ => AProd es
  end.

(** stride dictionaries [{PhysicalAxis: coefficient}] (insertion ordered) *)
Definition sdict := list (nat * nat).

Fixpoint sd_get (d : sdict) (k : nat) : nat :=
  match d with [] => 0 | (k', c) :: d' => if Nat.eqb k' k then c else sd_get d' k end.

(** [stride[k] = stride.get(k, 0) + c] *)
Fixpoint sd_add (d : sdict) (k c : nat) : sdict :=
  match d with
  | [] => [(k, c)]
  | (k', c') :: d' => if Nat.eqb k' k then (k', c' + c) :: d' else (k', c') :: sd_add d' k c
  end.

Definition sd_scale (n : nat) (d : sdict) : sdict := map (fun kc => (fst kc, snd kc * n)) d.
Definition sd_merge (d s : sdict) (n : nat) : sdict :=
  fold_left (fun d kc => sd_add d (fst kc) (snd kc * n)) s d.

(** [Axis.stride({})]: the affine form (offset, coefficients) of the axis value *)
Fixpoint ax_stride (e : axis) : nat * sdict :=
  match e with
  | APhys k _ => (0, [(k, 1)])
  | AProd fs =>
      fold_left (fun (acc : nat * sdict) f =>
                   let n := ax_numel f in
                   let os := ax_stride f in
                   (fst acc * n + fst os, sd_merge (sd_scale n (snd acc)) (snd os) 1))
                fs (0, [])
  | ASum b t _ => let os := ax_stride t in (fst os + b, snd os)
  end.

(** [PatternedTensor(physical, paxes, vaxes, default)].  The physical tensor is a base tensor
    [pt_phys] viewed with [pt_nex] additional leading broadcast dimensions (what
    [physical.expand([*expand, -1, ...])] makes: stride 0, so the element at a physical index does
    not depend on the leading [pt_nex] coordinates); [pt_pshape] are the sizes of the physical axes
    (broadcast ones first), then the virtual axes and the default.
    [__post_init__] replaces physical axes of size 1 by [unitAxis] and squeezes them away; the
    model keeps them (their index is always 0). *)
Record ptensor := mkPT { pt_phys : tens; pt_nex : nat; pt_pshape : list nat; pt_vaxes : list axis;
                         pt_default : num }.

(** [physical[p]] *)
Definition phys_at (pt : ptensor) (p : list nat) : option num := tens_get (pt_phys pt) (skipn (pt_nex pt) p).

Definition pt_shape (pt : ptensor) : list nat := map ax_numel (pt_vaxes pt).

(** contiguous strides of a shape *)
Fixpoint cstrides (shape : list nat) : list nat :=
  match shape with
  | [] => []
  | _ :: shape' => prod_list shape' :: cstrides shape'
  end.

(** [project(virtual, paxes, vaxes, {})]: offset and strides of the view, in storage units *)
Definition project_strides (vaxes : list axis) (vs : list nat) : nat * sdict :=
  fold_left (fun (acc : nat * sdict) en =>
               let os := ax_stride (fst en) in
               (fst acc + fst os * snd en, sd_merge (snd acc) (snd os) (snd en)))
            (combine vaxes vs) (0, []).

Fixpoint list_set {A : Type} (l : list A) (i : nat) (x : A) : list A :=
  match l, i with
  | [], _ => []
  | _ :: l', 0 => x :: l'
  | y :: l', S i' => y :: list_set l' i' x
  end.

(** the storage offset [sum_k stride[k] * p_k] of the strided view at physical index [p]
    ([as_strided] receives [stride[k] for k in paxes]; every key of [stride] is one of the [paxes]
    -- checked below -- and axes that are not keys were squeezed away, so the sum over the keys is
    the same sum) *)
Definition dot_index (st : sdict) (p : list nat) : nat :=
  fold_right (fun kc acc => snd kc * nth (fst kc) p 0 + acc) 0 st.

(** [to_dense]: [virtual = new_full(size, default); project(virtual, paxes, vaxes)[0].copy_(physical)].
    The debug check of [project] ([ValueError] unless the axes occurring in [vaxes] are exactly
    [paxes]) is applied to the axes of size != 1 (the others were squeezed away). *)
Definition pt_to_dense (pt : ptensor) : res tens :=
  let size := pt_shape pt in
  let os := project_strides (pt_vaxes pt) (cstrides size) in
  let ks := seq 0 (length (pt_pshape pt)) in
  let used k := existsb (Nat.eqb k) (map fst (snd os)) in
  if negb (forallb (fun kn => used (fst kn) || Nat.eqb (snd kn) 1) (combine ks (pt_pshape pt)) &&
           forallb (fun k => k <? length (pt_pshape pt)) (map fst (snd os)))
  then Err ValueErr
  else
    let flat := fold_left (fun fl p => match phys_at pt p with
                                       | Some v => list_set fl (fst os + dot_index (snd os) p) v
                                       | None => fl
                                       end)
                          (all_indices (pt_pshape pt)) (repeat (pt_default pt) (prod_list size)) in
    Ok (tens_of_flat size flat).

(** [weights_to_json]: nested lists of the dense content.  (The code reaches it by iterating the
    PatternedTensor dimension by dimension through [dim_to_dense]; that machinery belongs to C06 --
    here it is modelled by its result and compared with the implementation on every pattern kind.) *)
Definition weights_to_json_model (pt : ptensor) : res json :=
  do t <- pt_to_dense pt; Ok (tens_to_json t).

(** ** json_to_weights *)

Definition as_nat (j : json) : res nat :=
  match j with
  | JInt z => if (z <? 0)%Z then Err Unmodelled else Ok (Z.to_nat z)
  | _ => Err Unmodelled
  end.

(** [json_to_axis(r, env)] *)
Fixpoint json_to_axis (env : list axis) (r : json) : res axis :=
  match r with
  | JList l =>
      do fs <- (fix go (l : list json) : res (list axis) :=
                  match l with
                  | [] => Ok []
                  | x :: l' => do f <- json_to_axis env x; do fs <- go l'; Ok (f :: fs)
                  end) l;
      Ok (product_axis fs)
  | JDict d =>
      do jb <- jget r k_before;
      do b <- as_nat jb;
      (* r["term"], written as a structural search so that the recursion is accepted *)
      do t <- (fix find (d : list (str * json)) : res axis :=
                 match d with
                 | [] => Err KeyErr
                 | (k, v) :: d' => if str_eqb k k_term then json_to_axis env v else find d'
                 end) d;
      do ja <- jget r k_after;
      do a <- as_nat ja;
      Ok (ASum b t a)
  | _ => py_index env r
  end.

Definition as_num (j : json) : res num :=
  match j with
  | JInt z => Ok (NFin (inject_Z z))
  | JNum x => Ok x
  | _ => Err Unmodelled
  end.

Definition json_to_weights_model (j : json) : res ptensor :=
  match j with
  | JDict _ =>
      do jp <- jget j k_physical;
      do t <- parse_tens jp;
      do shape <- match tens_shape t with Some s => Ok s | None => Err ValueErr end;
      do oex <- jget_opt j k_expand;
      do ex <- match oex with
               | None | Some JNull | Some (JList []) => Ok []
               | Some (JList l) => mapM as_nat l
               | Some _ => Err Unmodelled
               end;
      (* physical.expand([*expand, -1, ...]): new leading broadcast dimensions *)
      let pshape := ex ++ shape in
      let paxes := map (fun kn => APhys (fst kn) (snd kn)) (combine (seq 0 (length pshape)) pshape) in
      do ov <- jget_opt j k_vaxes;
      (* vaxes = paxes if vaxes is None else ...  (the repair of F19, commit fe13a06) *)
      do vaxes <- match ov with
                  | None | Some JNull => Ok paxes
                  | Some jv => do lv <- jiter jv; mapM (json_to_axis paxes) lv
                  end;
      do od <- jget_opt j k_default;
      do default <- match od with None => Ok (NFin 0) | Some x => as_num x end;
      Ok (mkPT t (length ex) pshape vaxes default)
  | _ =>
      do t <- parse_tens j;
      do shape <- match tens_shape t with Some s => Ok s | None => Err ValueErr end;
      Ok (mkPT t 0 shape
               (map (fun kn => APhys (fst kn) (snd kn)) (combine (seq 0 (length shape)) shape))
               (NFin 0))
  end.

(** ** the denotational reading of a patterned specification *)

Inductive vspec := VInt (z : Z) | VList (l : list vspec) | VDict (b : nat) (t : vspec) (a : nat).

(** [ws_vaxes = None]: the specification has no "vaxes" entry *)
Record wspec := mkWS { ws_phys : tens; ws_expand : list nat; ws_vaxes : option (list vspec); ws_default : num }.

Fixpoint vspec_to_json (v : vspec) : json :=
  match v with
  | VInt z => JInt z
  | VList l => JList (map vspec_to_json l)
  | VDict b t a => JDict [(k_before, JInt (Z.of_nat b)); (k_term, vspec_to_json t); (k_after, JInt (Z.of_nat a))]
  end.

Definition wspec_to_json (s : wspec) : json :=
  JDict ((k_physical, tens_to_json (ws_phys s)) ::
         (k_expand, JList (map (fun n => JInt (Z.of_nat n)) (ws_expand s))) ::
         match ws_vaxes s with
         | Some l => [(k_vaxes, JList (map vspec_to_json l)); (k_default, JNum (ws_default s))]
         | None => [(k_default, JNum (ws_default s))]
         end).

(** sizes of the physical axes the specification talks about *)
Definition ws_pshape (s : wspec) : list nat :=
  ws_expand s ++ match tens_shape (ws_phys s) with Some sh => sh | None => [] end.

(** without a "vaxes" entry the virtual axes are the physical axes, in order *)
Definition ws_vaxes_eff (s : wspec) : list vspec :=
  match ws_vaxes s with
  | Some l => l
  | None => map (fun k => VInt (Z.of_nat k)) (seq 0 (length (ws_pshape s)))
  end.

(** the physical axis an integer names (Python indexing: negative counts from the end) *)
Definition vs_axis (np : nat) (z : Z) : nat :=
  Z.to_nat (if (z <? 0)%Z then z + Z.of_nat np else z)%Z.

(** the number of values of a virtual axis *)
Fixpoint vs_numel (psh : list nat) (v : vspec) : nat :=
  match v with
  | VInt z => nth (vs_axis (length psh) z) psh 0
  | VList l => fold_right (fun f acc => vs_numel psh f * acc) 1 l
  | VDict b t a => b + vs_numel psh t + a
  end.

(** partial assignments of physical axes *)
Definition asg := list (nat * nat).
Fixpoint asg_get (a : asg) (k : nat) : option nat :=
  match a with [] => None | (k', v) :: a' => if Nat.eqb k' k then Some v else asg_get a' k end.

(** which physical coordinates a virtual coordinate [i] of the axis [v] stands for:
    an integer names a physical axis (all occurrences of the same axis must agree: a diagonal);
    a list is a mixed-radix number, most significant digit first;
    a dict embeds its term between [before] and [after] cells that are not backed at all.
    [None] = not backed (the cell holds the default). *)
Fixpoint vs_decode (psh : list nat) (v : vspec) (i : nat) (a : asg) : option asg :=
  match v with
  | VInt z =>
      let k := vs_axis (length psh) z in
      match asg_get a k with
      | Some x => if Nat.eqb x i then Some a else None
      | None => Some ((k, i) :: a)
      end
  | VList l =>
      (* digits from the least significant (last) factor *)
      snd (fold_right (fun f (st : nat * option asg) =>
                         let n := vs_numel psh f in
                         (fst st / n,
                          match snd st with
                          | Some a' => vs_decode psh f (fst st mod n) a'
                          | None => None
                          end))
                      (i, Some a) l)
  | VDict b t _ =>
      if (i <? b) || (b + vs_numel psh t <=? i) then None else vs_decode psh t (i - b) a
  end.

Fixpoint decode_all (psh : list nat) (vs : list vspec) (idx : list nat) (a : asg) : option asg :=
  match vs, idx with
  | [], [] => Some a
  | v :: vs', i :: idx' =>
      match vs_decode psh v i a with Some a' => decode_all psh vs' idx' a' | None => None end
  | _, _ => None
  end.

(** [spec_denote s idx]: the entry at [idx] of the dense tensor the specification describes.
    Leading [expand] axes broadcast: the physical entry does not depend on their coordinates. *)
Definition spec_denote (s : wspec) (idx : list nat) : option num :=
  let psh := ws_pshape s in
  match decode_all psh (ws_vaxes_eff s) idx [] with
  | None => Some (ws_default s)
  | Some a =>
      let p := map (fun k => match asg_get a k with Some x => x | None => 0 end) (seq 0 (length psh)) in
      tens_get (ws_phys s) (skipn (length (ws_expand s)) p)
  end.

Definition spec_shape (s : wspec) : list nat := map (vs_numel (ws_pshape s)) (ws_vaxes_eff s).

(** tabulated: the dense tensor itself *)
Definition spec_dense (s : wspec) : option tens :=
  let sh := spec_shape s in
  match (fix go (l : list (list nat)) : option (list num) :=
           match l with
           | [] => Some []
           | idx :: l' => match spec_denote s idx, go l' with
                          | Some x, Some r => Some (x :: r)
                          | _, _ => None
                          end
           end) (all_indices sh) with
  | Some flat => Some (tens_of_flat sh flat)
  | None => None
  end.

(** well-formed specification: rectangular physical tensor, axis numbers in range (either sign),
    every physical axis of size <> 1 occurs in [vaxes] *)
Fixpoint vs_axes (np : nat) (v : vspec) : list nat :=
  match v with
  | VInt z => [vs_axis np z]
  | VList l => flat_map (vs_axes np) l
  | VDict _ t _ => vs_axes np t
  end.

Fixpoint vs_in_range (np : nat) (v : vspec) : bool :=
  match v with
  | VInt z => ((- Z.of_nat np <=? z) && (z <? Z.of_nat np))%Z
  | VList l => forallb (vs_in_range np) l
  | VDict _ t _ => vs_in_range np t
  end.

Definition wf_wspec (s : wspec) : bool :=
  match tens_shape (ws_phys s) with
  | None => false
  | Some _ =>
      let psh := ws_pshape s in
      let np := length psh in
      forallb (vs_in_range np) (ws_vaxes_eff s) &&
      forallb (fun kn => existsb (Nat.eqb (fst kn)) (flat_map (vs_axes np) (ws_vaxes_eff s)) || Nat.eqb (snd kn) 1)
              (combine (seq 0 np) psh)
  end.

(* ------------------------------------------------------------------------- *)
(** * Domains, factors, FGGs *)

Inductive domain := DFinite (vals : list json) | DRange (size : nat).
Inductive factor := FConstant (w : json) | FFinite (w : ptensor).

Record fgg := mkFGG { f_hrg : hrg; f_domains : list (str * domain); f_factors : list (str * factor) }.

Definition domain_to_json (d : domain) : json :=
  match d with
  | DFinite vals => JDict [(k_class, JStr k_finite); (k_values, JList vals)]
  | DRange n => JDict [(k_class, JStr k_range); (k_size, JInt (Z.of_nat n))]
  end.

Definition factor_to_json (f : factor) : res json :=
  match f with
  | FConstant w => Ok (JDict [(k_function, JStr k_constant); (k_weight, w)])
  | FFinite w => do jw <- weights_to_json_model w; Ok (JDict [(k_function, JStr k_finite); (k_weights, jw)])
  end.

Definition fgg_to_json_model (dec : nat -> str) (g : fgg) : res json :=
  do jg <- hrg_to_json_model dec (f_hrg g);
  do jfs <- mapM (fun kf => do j <- factor_to_json (snd kf); Ok (fst kf, j)) (f_factors g);
  Ok (JDict [(k_grammar, jg);
             (k_interpretation,
              JDict [(k_domains, JDict (map (fun kd => (fst kd, domain_to_json (snd kd))) (f_domains g)));
                     (k_factors, JDict jfs)])]).

(** [FGG.from_hrg]: a new grammar with the same start and a copy of the label table (the repair of
    F20, commit 450bcaa) to which every rule is added; [add_rule] re-registers the labels of the
    rule ([ValueError] on a clash; its new atomic pre-check raises the same error) *)
Definition from_hrg_labels (g : hrg) : res (list elabel) :=
  (fix go (rs : list rule) (tbl : list elabel) : res (list elabel) :=
     match rs with
     | [] => Ok tbl
     | r :: rs' =>
         do t1 <- add_edge_label tbl (r_lhs r);
         do t2 <- add_edge_labels t1 (map e_label (g_edges (r_rhs r)));
         go rs' t2
     end) (all_rules g) (h_labels g).

Definition from_hrg (g : hrg) : res hrg :=
  do tbl <- from_hrg_labels g;
  Ok (mkHRG tbl (h_start g) (fold_left rules_add (all_rules g) [])).

Definition domain_size (d : domain) : nat :=
  match d with DFinite vals => length vals | DRange n => n end.

Definition json_to_domain (d : json) : res domain :=
  do c <- jget d k_class;
  if json_eqb c (JStr k_finite) then
    do v <- jget d k_values; do l <- jiter v; Ok (DFinite l)
  else if json_eqb c (JStr k_range) then
    do s <- jget d k_size; do n <- as_nat s; Ok (DRange n)
  else
    (* raise ValueError(f'invalid domain class: {d["type"]}') *)
    do _ <- jget d k_type; Err ValueErr.

Fixpoint json_to_domains (items : list (str * json)) (acc : list (str * domain)) : res (list (str * domain)) :=
  match items with
  | [] => Ok acc
  | (name, d) :: items' =>
      do dom <- json_to_domain d;
      json_to_domains items' (acc ++ [(name, dom)])
  end.

(** [PatternedTensor(torch.zeros(shape))]: the dense all-zero tensor *)
Definition zeros_pt (shape : list nat) : ptensor :=
  mkPT (tens_of_flat shape (repeat (NFin 0) (prod_list shape))) 0 shape
       (map (fun kn => APhys (fst kn) (snd kn)) (combine (seq 0 (length shape)) shape)) (NFin 0).

Definition json_to_factor (tbl : list elabel) (doms : list (str * domain)) (name : str) (d : json) : res factor :=
  do el <- match lab_get tbl name with Some l => Ok l | None => Err KeyErr end;
  do ds <- mapM (fun nl => match dict_find doms nl with Some x => Ok x | None => Err KeyErr end) (el_type el);
  do f <- jget d k_function;
  if json_eqb f (JStr k_constant) then
    do w <- jget d k_weight;
    if negb (el_term el) then Err ValueErr else Ok (FConstant w)
  else if json_eqb f (JStr k_finite) then
    do jw <- jget d k_weights;
    do w0 <- json_to_weights_model jw;
    (* if weights.numel() == 0: weights = PatternedTensor(torch.zeros([dom.size() for dom in doms]))
       (an empty dimension erases the dimensions after it: the repair of F21, commit 38f8bd3) *)
    let w := if Nat.eqb (prod_list (pt_shape w0)) 0 then zeros_pt (map domain_size ds) else w0 in
    (* FiniteFactor.weights setter: shape check; then add_factor *)
    if negb (nats_eqb (pt_shape w) (map domain_size ds)) then Err ValueErr
    else if negb (el_term el) then Err ValueErr else Ok (FFinite w)
  else Err ValueErr.

Fixpoint json_to_factors (tbl : list elabel) (doms : list (str * domain)) (items : list (str * json))
         (acc : list (str * factor)) : res (list (str * factor)) :=
  match items with
  | [] => Ok acc
  | (name, d) :: items' =>
      do f <- json_to_factor tbl doms name d;
      json_to_factors tbl doms items' (acc ++ [(name, f)])
  end.

Definition json_to_fgg_model (c : nat) (j : json) : res fgg :=
  do jg <- jget j k_grammar;
  do h <- json_to_hrg_model c jg;
  do h' <- from_hrg h;
  do ji <- jget j k_interpretation;
  do jd <- jget ji k_domains;
  do itd <- jitems jd;
  do doms <- json_to_domains itd [];
  do jf <- jget ji k_factors;
  do itf <- jitems jf;
  do facs <- json_to_factors (h_labels h') doms itf [];
  Ok (mkFGG h' doms facs).

(* ------------------------------------------------------------------------- *)
(** * Oracle for "out-of-range node numbers": does a grammar document contain an attachment or
    external node number [z] with [p n z], [n] = number of nodes of that rule? *)
Definition list_of (r : res json) : list json :=
  match r with
  | Ok j => match jiter j with Ok l => l | Err _ => [] end
  | Err _ => []
  end.

Definition num_sat (p : nat -> Z -> bool) (n : nat) (j : json) : bool :=
  match j with JInt z => p n z | _ => false end.

Definition rule_has_num (p : nat -> Z -> bool) (jr : json) : bool :=
  match jget jr k_rhs with
  | Ok rhs =>
      let n := length (list_of (jget rhs k_nodes)) in
      existsb (fun je => existsb (num_sat p n) (list_of (jget je k_attachments))) (list_of (jget rhs k_edges))
      || existsb (num_sat p n) (list_of (jget rhs k_externals))
  | Err _ => false
  end.

Definition has_num (p : nat -> Z -> bool) (jg : json) : bool :=
  existsb (rule_has_num p) (list_of (jget jg k_rules)).

(** outside [0..n-1] (what the property calls out of range) *)
Definition oor (n : nat) (z : Z) : bool := ((z <? 0) || (Z.of_nat n <=? z))%Z.
Definition has_oor (jg : json) : bool := has_num oor jg.
