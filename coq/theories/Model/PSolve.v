(** C09 tier B -- [PatternedTensor.solve] of fggs/indices.py (lines 1408-1463).

    (1) [psolve_loop]: the [while True] loop that computes the least-dense axis [e] of the
        solution ([e := b.vaxes[0]]; each pass unifies [e] with [a.vaxes[1]] from an EMPTY
        substitution, clones [a.vaxes[0]] under the unifier, antiunifies [e] with the clone from an
        EMPTY antisubst, assigns the generalisation to [e], and leaves the loop when every first
        component of the antisubst's keys is a PhysicalAxis; a failed unification returns
        [b.clone()]), statement by statement on the axis model of Model/Axis.v.  The Python loop
        has no bound: the model takes fuel and answers [LFuel] when it runs out; failures of the
        fuel-bounded axis functions are [LErr].  The trace of the unifiers and clones of the passes
        is ghost state (it is what the per-case premises of the theorems talk about).
    (2) the projection of [a] and [b] onto [e] ([freshen], [unify], [project], [clone],
        [to_dense]) is modelled by its observable result: the two dense operands handed to
        [semiring.solve_thunks] are the gathers [A[e(p), e(q)]] and [B[e(p), ebs(c)]] over the
        physical index tuples of [e] (and of [b.vaxes[1:]]) in row-major order; the result tensor
        scatters the solution back along [e] with the default of [b] elsewhere.  The harness
        observes both operands by wrapping [solve_thunks] and compares them with [gather2] on
        every case.
    (3) boolean oracles ([contains_b], [closed_b], ...) that judge the implementation's pattern and
        alpha-equivalence of axes; the check functions are in Model/PSolveCheck.v.
    [psolve_loop] is the loop of the current code (exit test of /repo commit 6df0afb);
    [psolve_loop_old] the loop before it (finding F25).
    Definitions only; proofs are in Proofs/PSolve_*.v. *)
From Coq Require Import List Arith Lia PeanoNat Bool PArith QArith.
Import ListNotations.
Require Import Fggs.Model.Semiring Fggs.Model.Axis Fggs.Model.AxisCheck Fggs.Model.PTensor Fggs.Model.Solve.
Local Open Scope nat_scope.

(** * (1) the axis loop *)
Definition aent_e (en : aentry) : axis := match en with (_, _, e, _) => e end.
Definition aent_f (en : aentry) : axis := match en with (_, _, _, f) => f end.

Record linfo : Type := mkLI {
  li_iters : nat;                      (* passes that reached [antiunify] *)
  li_next : positive;                  (* fresh-axis counter *)
  li_warn : bool;                      (* some [warn(...)] was issued *)
  li_trace : list (subst * axis) }.    (* ghost: unifier and clone of every pass *)

Inductive lres : Type :=
| LDone (g : axis) (ents : list aentry) (i : linfo)     (* [break]: [e = g], last antisubst *)
| LEarly (e : axis) (i : linfo)                         (* [return b.clone()] *)
| LFuel (e : axis) (i : linfo)                          (* the model's fuel ran out *)
| LErr (er : err).

Definition ps_ufuel (e a1 : axis) : nat := unify_fuel [e] [a1].
Definition ps_cfuel (sigma : subst) (a0 : axis) : nat :=
  asize a0 + asize_list (map snd sigma) + length sigma + 4.
Definition ps_afuel (e c : axis) : nat := big_fuel [e; c].

(** [all(isinstance(e1, PhysicalAxis) for e1, _ in antisubst[0])] (dict order = insertion order) *)
Definition acq_all_phys (ents : list aentry) : bool := forallb (fun en => is_phys (aent_e en)) ents.

(** the repaired exit test of /repo commit 6df0afb:
    [all(isinstance(e1, PhysicalAxis) ...) and len(frozenset(e1 ...)) == len(antisubst[0])] --
    the exit antisubst is an injective renaming: distinct new axes stand for distinct axes of [e] *)
Definition acq_injective (ents : list aentry) : bool :=
  acq_all_phys ents && nodup_pos (flat_map (fun en => fv (aent_e en)) ents).

Fixpoint psolve_loop_gen (exit : list aentry -> bool) (fuel : nat) (a0 a1 e : axis) (i : linfo) : lres :=
  match fuel with
  | O => LFuel e i
  | S fuel =>
      (* subst : Subst = {};  if e.unify(a.vaxes[1], subst): *)
      match unify (ps_ufuel e a1) e a1 {| us_subst := []; us_next := li_next i; us_warn := false |} with
      | Fail er => LErr er
      | Ok (false, st) =>
          LEarly e (mkLI (li_iters i) (us_next st) (li_warn i || us_warn st) (li_trace i))
      | Ok (true, st) =>
          let sigma := us_subst st in
          (* a.vaxes[0].clone(subst) *)
          match clone (ps_cfuel sigma a0) sigma a0 with
          | Fail er => LErr er
          | Ok c =>
              (* antisubst = ({}, {});  e = e.antiunify(..., antisubst) *)
              match antiunify (ps_afuel e c) e c {| as_list := []; as_next := us_next st; as_warn := false |} with
              | Fail er => LErr er
              | Ok (g, ast) =>
                  let i' := mkLI (S (li_iters i)) (as_next ast) (li_warn i || us_warn st || as_warn ast)
                                 (li_trace i ++ [(sigma, c)]) in
                  if exit (as_list ast) then LDone g (as_list ast) i'
                  else psolve_loop_gen exit fuel a0 a1 g i'
              end
          end
      end
  end.

(** the loop of the current code *)
Definition psolve_loop := psolve_loop_gen acq_injective.
(** the loop before /repo commit 6df0afb (finding F25): it also stopped when ONE axis of [e] had
    been generalised to TWO new axes, i.e. when [e] had grown without being re-examined.  Kept
    only for [C09_psolve_old_exit_refuted]. *)
Definition psolve_loop_old := psolve_loop_gen acq_all_phys.

(** the measure that bounds the number of passes (Proofs/PSolve_term.v) *)
Fixpoint amsr (e : axis) : nat :=
  match e with
  | Phys _ _ => 1
  | Prod l => 2 + fold_right (fun x acc => amsr x + acc) 0 l
  | Sum _ t _ => 2 + amsr t
  end.
Definition loop_fuel (e : axis) : nat := S (amsr e * S (amsr e)).

(** guards of the theorems, all decided on the result of a run *)
(** every binding of the unifier preserves the size recorded at the occurrences of the bound axis *)
Definition sized_b (sigma : subst) (e : axis) : bool :=
  forallb (fun kn => match assoc (fst kn) sigma with Some c => Nat.eqb (numel c) (snd kn) | None => true end) (fvn e).
Definition subst_sized_b (sigma : subst) : bool := forallb (fun kT => sized_b sigma (snd kT)) sigma.
Definition pass_sized_b (a0 : axis) (sc : subst * axis) : bool :=
  subst_sized_b (fst sc) && sized_b (fst sc) a0.
Definition last_sized_b (a0 : axis) (tr : list (subst * axis)) : bool :=
  match rev tr with sc :: _ => pass_sized_b a0 sc | [] => false end.
(** no factor of size 1 inside a product (what [__post_init__] and [productAxis] guarantee) *)
Fixpoint nouf (e : axis) : bool :=
  match e with
  | Phys _ _ => true
  | Prod l => forallb (fun x => negb (Nat.eqb (numel x) 1) && nouf x) l
  | Sum _ t _ => nouf t
  end.
Definition trace_nouf (tr : list (subst * axis)) : bool := forallb (fun sc => nouf (snd sc)) tr.

(** * (2) supports, gather, scatter *)
(** physical index tuples of a pattern in row-major order of its free axes (order of first
    occurrence: [tuple(rename.keys())] of [e.freshen(rename)]) *)
Definition sup_envs (es : list axis) : list (list pn) := all_envs (fvn_list es).
(** the virtual row of every physical row of the projected system *)
Definition sup_rows (e : axis) : list nat := map (fun pi => eval (env_of pi) e) (sup_envs [e]).
(** the flattened (row-major) virtual column of every physical column *)
Definition sup_cols (ebs : list axis) : list nat :=
  map (fun pi => flat_offset (map numel ebs) (evals (env_of pi) ebs)) (sup_envs ebs).

Section Gather.
Context {V : Type} (d : V).
Definition mget (M : list (list V)) (i j : nat) : V := nth j (nth i M []) d.
Definition gather2 (rows cols : list nat) (M : list (list V)) : list (list V) :=
  map (fun r => map (fun c => mget M r c) cols) rows.
Fixpoint find_index (v : nat) (l : list nat) : option nat :=
  match l with
  | [] => None
  | x :: l => if Nat.eqb x v then Some 0 else match find_index v l with Some p => Some (S p) | None => None end
  end.
(** [PatternedTensor(x.reshape(...), fv + fvb0, (e,) + ebs0, b.default)] read densely *)
Definition scatter2 (n m : nat) (rows cols : list nat) (X : list (list V)) : list (list V) :=
  map (fun v => map (fun w => match find_index v rows, find_index w cols with
                              | Some p, Some q => mget X p q
                              | _, _ => d
                              end) (seq 0 m)) (seq 0 n).
End Gather.

(** the dense reading of [PatternedTensor.solve] on the normal exit with solution axis [e] *)
Definition psolve_dense {S : Type} (o : sr_ops S) (n m : nat) (e : axis) (ebs : list axis)
                        (A B : mat S) : mat S :=
  let rows := sup_rows e in let cols := sup_cols ebs in
  scatter2 (Semiring.zero o) n m rows cols
           (solve_model_mat o (length rows) (length cols)
                            (gather2 (Semiring.zero o) rows rows A) (gather2 (Semiring.zero o) rows cols B)).

(** * (3) oracles on patterns *)
Definition nat_mem (v : nat) (l : list nat) : bool := existsb (Nat.eqb v) l.
(** the support of [b.vaxes[0]] is inside the support of [g] *)
Definition contains_b (b0 g : axis) : bool :=
  let G := sup_rows g in forallb (fun v => nat_mem v G) (sup_rows b0).
(** every nonzero of [a] whose column is in the support of [g] has its row there *)
Definition closed_b (a0 a1 g : axis) : bool :=
  let G := sup_rows g in
  forallb (fun pi => negb (nat_mem (eval (env_of pi) a1) G) || nat_mem (eval (env_of pi) a0) G)
          (sup_envs [a0; a1]).
(** no column of [a] meets the support of [g] *)
Definition disjoint_b (a1 g : axis) : bool :=
  let G := sup_rows g in forallb (fun v => negb (nat_mem v G)) (sup_rows a1).

(** alpha-equivalence of axes (a bijective renaming of the physical axes, sizes preserved) *)
Definition ren2 := list (positive * positive).
Fixpoint alpha_go (e f : axis) (r : ren2) : option ren2 :=
  match e, f with
  | Phys k n, Phys k' n' =>
      if negb (Nat.eqb n n') then None
      else match assoc k r with
           | Some k'' => if Pos.eqb k'' k' then Some r else None
           | None => if existsb (fun p => Pos.eqb (snd p) k') r then None else Some (r ++ [(k, k')])
           end
  | Prod l, Prod l' =>
      (fix go (l l' : list axis) (r : ren2) : option ren2 :=
         match l, l' with
         | [], [] => Some r
         | x :: l, y :: l' => match alpha_go x y r with Some r' => go l l' r' | None => None end
         | _, _ => None
         end) l l' r
  | Sum b t a, Sum b' t' a' => if Nat.eqb b b' && Nat.eqb a a' then alpha_go t t' r else None
  | _, _ => None
  end.
Definition alpha_eqb (e f : axis) : bool := match alpha_go e f [] with Some _ => true | None => false end.

(** * [a.default_to(zero)], [b.default_to(zero)], [if not a.isdisjoint(b): b = b.freshen()] at the
    level of the patterns: a tensor whose default is not the semiring zero is densified
    ([PatternedTensor(self.to_dense(), default=zero)]: fresh physical axes, [unitAxis] for size 1) *)
Definition prep_axes (zero_default : bool) (ps : list pn) (vs : list axis) (next : positive)
  : list pn * list axis * positive :=
  if zero_default then (ps, vs, next)
  else let '(vs', nx) := dense_axes (map numel vs) next in (flat_map fvn vs', vs', nx).

Definition prep_b (aps bps : list pn) (bvs : list axis) (next : positive) : list pn * list axis * positive :=
  if forallb (fun kn => negb (existsb (Pos.eqb (fst kn)) (map fst bps))) aps then (bps, bvs, next)
  else
    let '(ps, st1) := freshen_list (map (fun kn => Phys (fst kn) (snd kn)) bps) {| fs_rename := []; fs_next := next |} in
    let '(vs, st2) := freshen_list bvs st1 in
    (flat_map fvn ps, vs, fs_next st2).

(** the run of the loop on the patterns of the arguments *)
Definition psolve_axes (a_zero b_zero : bool) (aps : list pn) (avs : list axis) (bps : list pn) (bvs : list axis)
                       (next : positive) : option (axis * axis * axis * list axis * lres) :=
  let '(aps1, avs1, n1) := prep_axes a_zero aps avs next in
  let '(bps1, bvs1, n2) := prep_axes b_zero bps bvs n1 in
  let '(bps2, bvs2, n3) := prep_b aps1 bps1 bvs1 n2 in
  match avs1, bvs2 with
  | [a0; a1], b0 :: ebs =>
      Some (a0, a1, b0, ebs, psolve_loop (loop_fuel b0) a0 a1 b0 (mkLI 0 n3 false []))
  | _, _ => None                                            (* the [assert]s on the number of axes *)
  end.

