(** Model of fggs/derivations.py: [replace_edge], [start_graph], [FGGDerivation.derive],
    a generic "any order" runner for the replacement steps of a derivation tree, the
    order-free denotational [derived_graph], and the boolean oracles [replace_ok] and
    [same_upto_naming].  Definitions only; proofs are in Proofs/Replace_*.v.

    Python's implicit ids are object addresses: only freshness matters, so the model threads
    a counter [nx] and allocates [Fresh nx].  The guard under which [Fresh nx] is new is
    [belowb nx g] (every [Fresh] id of the host is below the counter). *)
From Coq Require Import List Arith Bool PeanoNat.
Import ListNotations.
Require Import Fggs.Model.Semiring.

(** * Data *)
Inductive id := Explicit (n : nat) | Fresh (n : nat).
Definition id_eqb (a b : id) : bool :=
  match a, b with
  | Explicit x, Explicit y => Nat.eqb x y
  | Fresh x, Fresh y => Nat.eqb x y
  | _, _ => false
  end.

Fixpoint list_eqb {A} (eqb : A -> A -> bool) (l1 l2 : list A) : bool :=
  match l1, l2 with
  | [], [] => true
  | x :: l1, y :: l2 => eqb x y && list_eqb eqb l1 l2
  | _, _ => false
  end.

(** [Node(label, id, persist_id)]: persist_id is determined by the kind of id *)
Record node := mkNode { n_id : id; n_label : nat }.
Definition node_eqb (a b : node) : bool := id_eqb (n_id a) (n_id b) && Nat.eqb (n_label a) (n_label b).

Record elabel := mkLab { l_name : nat; l_type : list nat; l_term : bool }.
Definition elabel_eqb (a b : elabel) : bool :=
  Nat.eqb (l_name a) (l_name b) && list_eqb Nat.eqb (l_type a) (l_type b) && Bool.eqb (l_term a) (l_term b).

Record edge := mkEdge { e_id : id; e_label : elabel; e_att : list node }.
Definition edge_eqb (a b : edge) : bool :=
  id_eqb (e_id a) (e_id b) && elabel_eqb (e_label a) (e_label b) && list_eqb node_eqb (e_att a) (e_att b).

(** [Graph]: [_nodes], [_edges] (dicts in insertion order), [_ext], the edge-label table
    [_edge_labels] (name -> label; never shrunk) and the node-label table [_node_labels]
    (name -> NodeLabel(name): a [NodeLabel] is its name, so the dict is the list of its keys in
    insertion order; never shrunk). *)
Record graph := mkGraph { g_nodes : list node; g_edges : list edge; g_ext : list node; g_elabs : list elabel;
                          g_nlabs : list nat }.

Inductive err := ValueErr | KeyErr | TypeErr | AssertErr | OtherErr | RuntimeErr.
Inductive result (A : Type) := Ok (a : A) | Err (e : err).
Arguments Ok {A}. Arguments Err {A}.

(** Python dict = association list in insertion order *)
Section Assoc.
  Context {K V : Type} (eqb : K -> K -> bool).
  Fixpoint aget (m : list (K * V)) (k : K) : option V :=
    match m with [] => None | (a, b) :: m => if eqb a k then Some b else aget m k end.
  Fixpoint aset (m : list (K * V)) (k : K) (v : V) : list (K * V) :=
    match m with
    | [] => [(k, v)]
    | (a, b) :: m => if eqb a k then (a, v) :: m else (a, b) :: aset m k v
    end.
  Definition amem (m : list (K * V)) (k : K) : bool := match aget m k with Some _ => true | None => false end.
End Assoc.

Definition memb {A} (eqb : A -> A -> bool) (l : list A) (x : A) : bool := existsb (eqb x) l.
Fixpoint nodupb {A} (eqb : A -> A -> bool) (l : list A) : bool :=
  match l with [] => true | x :: l => negb (memb eqb l x) && nodupb eqb l end.

(** * Graph operations (fggs.py) *)
Definition gtype (g : graph) : list nat := map n_label (g_ext g).
Definition has_node_id (g : graph) (i : id) : bool := existsb (fun n => id_eqb (n_id n) i) (g_nodes g).
Definition has_edge_id (g : graph) (i : id) : bool := existsb (fun e => id_eqb (e_id e) i) (g_edges g).

Definition remove_edge_id (g : graph) (i : id) : graph :=
  mkGraph (g_nodes g) (filter (fun e => negb (id_eqb (e_id e) i)) (g_edges g)) (g_ext g) (g_elabs g) (g_nlabs g).

(** [add_node_label]: [self._node_labels[label.name] = label] (no test: a [NodeLabel] is
    determined by its name; assigning to a present key keeps its position) *)
Definition add_nlab (tbl : list nat) (l : nat) : list nat := if memb Nat.eqb tbl l then tbl else tbl ++ [l].
Definition add_nlabs (tbl : list nat) (ls : list nat) : list nat := fold_left add_nlab ls tbl.

(** [add_node] of a node whose id is new: [add_node_label(node.label); _nodes[node.id] = node] *)
Definition push_node (g : graph) (n : node) : graph :=
  mkGraph (g_nodes g ++ [n]) (g_edges g) (g_ext g) (g_elabs g) (add_nlab (g_nlabs g) (n_label n)).

Fixpoint find_label (tbl : list elabel) (nm : nat) : option elabel :=
  match tbl with [] => None | l :: tbl => if Nat.eqb (l_name l) nm then Some l else find_label tbl nm end.

(** [add_edge_label]: ValueError if the name is bound to a different label *)
Definition add_edge_label (tbl : list elabel) (l : elabel) : result (list elabel) :=
  match find_label tbl (l_name l) with
  | Some l' => if elabel_eqb l' l then Ok tbl else Err ValueErr
  | None => Ok (tbl ++ [l])
  end.

(** [add_edge] (after the fix commits 349378f.. of /repo): duplicate edge id -> ValueError; a
    different label of the same name -> ValueError; [_check_new_nodes]: the attachment nodes whose id
    is not in the graph are added, but an id already used by a DIFFERENT node -> ValueError; all
    tests come before any mutation (the call fails atomically); then label and edge are stored *)
Fixpoint find_node_id (ns : list node) (i : id) : option node :=
  match ns with [] => None | n :: ns => if id_eqb (n_id n) i then Some n else find_node_id ns i end.

Fixpoint check_new_nodes (g : graph) (ns : list node) (new : list node) : option (list node) :=
  match ns with
  | [] => Some new
  | n :: ns =>
    match (match find_node_id (g_nodes g) (n_id n) with
           | Some o => Some o
           | None => find_node_id new (n_id n)
           end) with
    | None => check_new_nodes g ns (new ++ [n])
    | Some o => if node_eqb o n then check_new_nodes g ns new else None
    end
  end.

Definition label_clash (tbl : list elabel) (l : elabel) : bool :=
  match find_label tbl (l_name l) with Some l' => negb (elabel_eqb l' l) | None => false end.

Definition add_edge (g : graph) (e : edge) : graph * option err :=
  if has_edge_id g (e_id e) then (g, Some ValueErr)
  else if label_clash (g_elabs g) (e_label e) then (g, Some ValueErr)
  else match check_new_nodes g (e_att e) [] with
       | None => (g, Some ValueErr)
       | Some news =>
         let g1 := mkGraph (g_nodes g ++ news) (g_edges g) (g_ext g) (g_elabs g)
                           (add_nlabs (g_nlabs g) (map n_label news)) in
         match add_edge_label (g_elabs g1) (e_label e) with
         | Err k => (g1, Some k)
         | Ok tbl => (mkGraph (g_nodes g1) (g_edges g1 ++ [e]) (g_ext g1) tbl (g_nlabs g1), None)
         end
       end.

(** * replace_edge *)
Definition nmap := list (node * node).
Definition emap := list (edge * edge).

(** [for gnode, rnode in zip(edge.nodes, replacement.ext): node_map[rnode] = gnode]
    (a repeated external keeps its first position and gets the LAST zipped value) *)
Definition ext_map {V} (ext : list node) (vals : list V) : list (node * V) :=
  fold_left (fun m p => aset node_eqb m (snd p) (fst p)) (combine vals ext) [].

(** [for rnode in replacement.nodes(): if rnode not in node_map: gnode = Node(rnode.label); ...].
    [graph.add_node]'s duplicate test cannot fire for a newly created object (its id is the
    address of a live object); the model's counterpart of that fact is the guard [belowb]. *)
Definition copy_node (st : graph * nat * nmap) (rn : node) : graph * nat * nmap :=
  let '(g, nx, nm) := st in
  if amem node_eqb nm rn then st
  else let gn := mkNode (Fresh nx) (n_label rn) in
       (push_node g gn, S nx, aset node_eqb nm rn gn).
Definition copy_nodes (rnodes : list node) (st : graph * nat * nmap) : graph * nat * nmap :=
  fold_left copy_node rnodes st.

Fixpoint map_nodes (nm : nmap) (ns : list node) : option (list node) :=
  match ns with
  | [] => Some []
  | n :: ns => match aget node_eqb nm n with
               | None => None
               | Some g => match map_nodes nm ns with None => None | Some gs => Some (g :: gs) end
               end
  end.

(** [for redge in replacement.edges(): gnodes = ...; gedge = Edge(redge.label, gnodes); ...]
    KeyError if an attachment node is not in node_map; ValueError from [Edge.__init__] if the
    labels do not fit; [add_edge] may raise on a label-name clash. *)
Fixpoint copy_edges (nm : nmap) (res : list edge) (g : graph) (nx : nat) (em : emap)
  : graph * nat * result emap :=
  match res with
  | [] => (g, nx, Ok em)
  | re :: res =>
    match map_nodes nm (e_att re) with
    | None => (g, nx, Err KeyErr)
    | Some gns =>
      if negb (list_eqb Nat.eqb (l_type (e_label re)) (map n_label gns)) then (g, S nx, Err ValueErr)
      else
        let ge := mkEdge (Fresh nx) (e_label re) gns in
        match add_edge g ge with
        | (g', Some k) => (g', S nx, Err k)
        | (g', None) => copy_edges nm res g' (S nx) (aset edge_eqb em re ge)
        end
    end
  end.

(** returns the host graph after the call (also when it raised), the counter, and the maps.
    Since /repo 0be4bef the code reads [replacement.nodes()], [.edges()], [.ext] into lists BEFORE
    [graph.remove_edge(edge)] and iterates over those lists: [r] below is that snapshot, a value,
    whether or not the replacement object is the host object (see [replace_edge_self_model]). *)
Definition replace_edge_model (g : graph) (nx : nat) (e : edge) (r : graph)
  : graph * nat * result (nmap * emap) :=
  if negb (list_eqb Nat.eqb (l_type (e_label e)) (gtype r)) then (g, nx, Err ValueErr)
  else if negb (has_edge_id g (e_id e)) then (g, nx, Err ValueErr)
  else
    let g1 := remove_edge_id g (e_id e) in
    let nm0 := ext_map (g_ext r) (e_att e) in
    let '(g2, nx2, nm) := copy_nodes (g_nodes r) (g1, nx, nm0) in
    match copy_edges nm (g_edges r) g2 nx2 [] with
    | (g3, nx3, Ok em) => (g3, nx3, Ok (nm, em))
    | (g3, nx3, Err k) => (g3, nx3, Err k)
    end.

(** * replace_edge(g, e, g): the replacement IS the host object (aliasing).
    As the code is now (0be4bef): the snapshot taken before the first mutation is the host as the
    caller passed it, so the call is the functional model with [r := g]. *)
Definition replace_edge_self_model (g : graph) (nx : nat) (e : edge) : graph * nat * result (nmap * emap) :=
  replace_edge_model g nx e g.

(** ** the OLD code (before 0be4bef; finding c15_replacement_is_host), kept as the record of the
    finding.  Same statements without the snapshot, one heap object: [graph.remove_edge(edge)] also removes the edge from the
    replacement; [replacement.ext] is the host's; the two [for] loops iterate over live views of
    the dicts that their bodies grow ([graph.add_node] / [graph.add_edge]), so the [next()] that
    follows the first insertion raises [RuntimeError: dictionary changed size during iteration]
    (CPython tests the size on every [next()], also on the one that would end the loop).
    Nodes already in [node_map] are skipped without insertion, so the iteration goes on. *)
Fixpoint alias_copy_nodes_old (g : graph) (nx : nat) (nm : nmap) (rnodes : list node)
  : graph * nat * nmap * option err :=
  match rnodes with
  | [] => (g, nx, nm, None)
  | rn :: rnodes =>
    if amem node_eqb nm rn then alias_copy_nodes_old g nx nm rnodes
    else let gn := mkNode (Fresh nx) (n_label rn) in
         (push_node g gn, S nx, aset node_eqb nm rn gn, Some RuntimeErr)
  end.

Definition alias_copy_edges_old (nm : nmap) (g : graph) (nx : nat) : graph * nat * result emap :=
  match g_edges g with
  | [] => (g, nx, Ok [])
  | re :: _ =>
    match map_nodes nm (e_att re) with
    | None => (g, nx, Err KeyErr)
    | Some gns =>
      if negb (list_eqb Nat.eqb (l_type (e_label re)) (map n_label gns)) then (g, S nx, Err ValueErr)
      else
        let ge := mkEdge (Fresh nx) (e_label re) gns in
        match add_edge g ge with
        | (g', Some k) => (g', S nx, Err k)
        | (g', None) => (g', S nx, Err RuntimeErr)
        end
    end
  end.

Definition replace_edge_alias_model_old (g : graph) (nx : nat) (e : edge) : graph * nat * result (nmap * emap) :=
  if negb (list_eqb Nat.eqb (l_type (e_label e)) (gtype g)) then (g, nx, Err ValueErr)
  else if negb (has_edge_id g (e_id e)) then (g, nx, Err ValueErr)
  else
    let g1 := remove_edge_id g (e_id e) in
    let nm0 := ext_map (g_ext g1) (e_att e) in
    match alias_copy_nodes_old g1 nx nm0 (g_nodes g1) with
    | (g2, nx2, nm, Some k) => (g2, nx2, Err k)
    | (g2, nx2, nm, None) =>
      match alias_copy_edges_old nm g2 nx2 with
      | (g3, nx3, Ok em) => (g3, nx3, Ok (nm, em))
      | (g3, nx3, Err k) => (g3, nx3, Err k)
      end
    end.

(** * start_graph *)
Fixpoint fresh_nodes (nx : nat) (ls : list nat) : list node :=
  match ls with [] => [] | l :: ls => mkNode (Fresh nx) l :: fresh_nodes (S nx) ls end.

Definition empty_graph : graph := mkGraph [] [] [] [] [].

(** [e = Edge(s, [Node(l) for l in s.type]); ret.add_edge(e)] *)
Definition start_graph_model (s : elabel) (nx : nat) : graph * nat * edge :=
  let ns := fresh_nodes nx (l_type s) in
  let nx1 := nx + length (l_type s) in
  let e := mkEdge (Fresh nx1) s ns in
  (fst (add_edge empty_graph e), S nx1, e).

(** * Derivation trees and derive() *)
Record rule := mkRule { r_lhs : elabel; r_rhs : graph }.
(** [FGGDerivation(fgg, rule, asst, children)]; values are domain indices *)
Inductive dtree := DT (r : rule) (a : list (node * nat)) (cs : list (edge * dtree)).
Definition t_rule (t : dtree) := match t with DT r _ _ => r end.
Definition t_asst (t : dtree) := match t with DT _ a _ => a end.
Definition t_children (t : dtree) := match t with DT _ _ cs => cs end.

Definition asst_t := list (node * nat).

(** [for node in deriv.rule.rhs.nodes(): asst[node_map[node]] = deriv.asst[node]] *)
Fixpoint assign_nodes (nm : nmap) (a : asst_t) (rnodes : list node) (acc : asst_t) : asst_t * option err :=
  match rnodes with
  | [] => (acc, None)
  | v :: rnodes =>
    match aget node_eqb nm v with
    | None => (acc, Some KeyErr)
    | Some g => match aget node_eqb a v with
                | None => (acc, Some KeyErr)
                | Some x => assign_nodes nm a rnodes (aset node_eqb acc g x)
                end
    end
  end.

Record dstate := mkDS { ds_graph : graph; ds_next : nat; ds_asst : asst_t }.

Fixpoint visit (t : dtree) (e : edge) (s : dstate) : dstate * option err :=
  match t with
  | DT r a cs =>
    match replace_edge_model (ds_graph s) (ds_next s) e (r_rhs r) with
    | (g', n', Err k) => (mkDS g' n' (ds_asst s), Some k)
    | (g', n', Ok (nm, em)) =>
      match assign_nodes nm a (g_nodes (r_rhs r)) (ds_asst s) with
      | (as', Some k) => (mkDS g' n' as', Some k)
      | (as', None) =>
        (fix go (cs : list (edge * dtree)) (s : dstate) : dstate * option err :=
           match cs with
           | [] => (s, None)
           | (k, c) :: cs =>
             match aget edge_eqb em k with
             | None => (s, Some KeyErr)
             | Some e' => match visit c e' s with
                          | (s', Some x) => (s', Some x)
                          | (s', None) => go cs s'
                          end
             end
           end) cs (mkDS g' n' as')
      end
    end
  end.

Definition derive_model (t : dtree) (nx : nat) : dstate * option err :=
  let '(g, nx1, e) := start_graph_model (r_lhs (t_rule t)) nx in
  visit t e (mkDS g nx1 []).

(** * Any-order execution of the replacement steps *)
Definition path := list id.           (* ids of the child-key edges from the root *)
Inductive name := NStart (j : nat) | NInst (p : path) (i : id).
Definition name_eqb (a b : name) : bool :=
  match a, b with
  | NStart x, NStart y => Nat.eqb x y
  | NInst p x, NInst q y => list_eqb id_eqb p q && id_eqb x y
  | _, _ => false
  end.

Record task := mkTask { tk_path : path; tk_edge : edge; tk_tree : dtree }.
Record rstate := mkRS { rs_graph : graph; rs_next : nat; rs_asst : asst_t; rs_pending : list task;
                        rs_nnames : list (node * name); rs_enames : list (edge * name) }.

Fixpoint split_task (p : path) (l : list task) : option (list task * task * list task) :=
  match l with
  | [] => None
  | tk :: l => if list_eqb id_eqb (tk_path tk) p then Some ([], tk, l)
               else match split_task p l with
                    | None => None
                    | Some (pre, x, post) => Some (tk :: pre, x, post)
                    end
  end.

Fixpoint child_tasks (p : path) (em : emap) (cs : list (edge * dtree)) : option (list task) :=
  match cs with
  | [] => Some []
  | (k, c) :: cs =>
    match aget edge_eqb em k with
    | None => None
    | Some e' => match child_tasks p em cs with
                 | None => None
                 | Some l => Some (mkTask (p ++ [e_id k]) e' c :: l)
                 end
    end
  end.

Definition is_ext (r : graph) (v : node) : bool := memb node_eqb (g_ext r) v.

(** names of the nodes added by the step at path p: the images of the non-external rule nodes *)
Definition new_nnames (p : path) (r : graph) (nm : nmap) : list (node * name) :=
  map (fun rg => (snd rg, NInst p (n_id (fst rg)))) (filter (fun rg => negb (is_ext r (fst rg))) nm).
Definition new_enames (p : path) (em : emap) : list (edge * name) :=
  map (fun rg => (snd rg, NInst p (e_id (fst rg)))) em.

(** one replacement step: rewrite the pending edge of the task at path [p].
    [Err OtherErr] = [p] is not pending (the sequence is not a linearisation). *)
Definition step (p : path) (s : rstate) : result rstate :=
  match split_task p (rs_pending s) with
  | None => Err OtherErr
  | Some (pre, tk, post) =>
    match tk_tree tk with
    | DT r a cs =>
      match replace_edge_model (rs_graph s) (rs_next s) (tk_edge tk) (r_rhs r) with
      | (_, _, Err k) => Err k
      | (g', n', Ok (nm, em)) =>
        match assign_nodes nm a (g_nodes (r_rhs r)) (rs_asst s) with
        | (_, Some k) => Err k
        | (as', None) =>
          match child_tasks (tk_path tk) em cs with
          | None => Err KeyErr
          | Some newt =>
            Ok (mkRS g' n' as' (pre ++ newt ++ post)
                     (rs_nnames s ++ new_nnames (tk_path tk) (r_rhs r) nm)
                     (filter (fun en => negb (id_eqb (e_id (fst en)) (e_id (tk_edge tk)))) (rs_enames s)
                      ++ new_enames (tk_path tk) em))
          end
        end
      end
    end
  end.

Fixpoint run (l : list path) (s : rstate) : result rstate :=
  match l with
  | [] => Ok s
  | p :: l => match step p s with Err k => Err k | Ok s' => run l s' end
  end.

Fixpoint start_names (j : nat) (ns : list node) : list (node * name) :=
  match ns with [] => [] | n :: ns => (n, NStart j) :: start_names (S j) ns end.

Definition init_state (t : dtree) (nx : nat) : rstate :=
  let '(g, nx1, e) := start_graph_model (r_lhs (t_rule t)) nx in
  mkRS g nx1 [] [mkTask [] e t] (start_names 0 (g_nodes g)) [(e, NStart 0)].

(** depth-first order (the one derive() uses): preorder, children in dict order *)
Fixpoint preorder (p : path) (t : dtree) : list path :=
  match t with
  | DT r a cs => p :: flat_map (fun kc => preorder (p ++ [e_id (fst kc)]) (snd kc)) cs
  end.

(** * The denotational derived graph *)
Definition dnode := (name * nat)%type.
Definition dedge := (name * elabel * list name)%type.
Record dgraph := mkDG { d_nodes : list dnode; d_edges : list dedge }.

Definition local_name (p : path) (m : list (node * name)) (v : node) : name :=
  match aget node_eqb m v with Some x => x | None => NInst p (n_id v) end.
Definition is_key (cs : list (edge * dtree)) (e : edge) : bool := memb edge_eqb (map fst cs) e.

Fixpoint dsub_nodes (p : path) (t : dtree) : list dnode :=
  match t with
  | DT r a cs =>
    map (fun v => (NInst p (n_id v), n_label v)) (filter (fun v => negb (is_ext (r_rhs r) v)) (g_nodes (r_rhs r)))
    ++ flat_map (fun kc => dsub_nodes (p ++ [e_id (fst kc)]) (snd kc)) cs
  end.

Fixpoint dsub_edges (p : path) (xs : list name) (t : dtree) : list dedge :=
  match t with
  | DT r a cs =>
    let m := ext_map (g_ext (r_rhs r)) xs in
    map (fun e => (NInst p (e_id e), e_label e, map (local_name p m) (e_att e)))
        (filter (fun e => negb (is_key cs e)) (g_edges (r_rhs r)))
    ++ flat_map (fun kc => dsub_edges (p ++ [e_id (fst kc)]) (map (local_name p m) (e_att (fst kc))) (snd kc)) cs
  end.

Fixpoint dsub_asst (p : path) (t : dtree) : list (name * nat) :=
  match t with
  | DT r a cs =>
    flat_map (fun v => match aget node_eqb a v with Some x => [(NInst p (n_id v), x)] | None => [] end)
             (filter (fun v => negb (is_ext (r_rhs r) v)) (g_nodes (r_rhs r)))
    ++ flat_map (fun kc => dsub_asst (p ++ [e_id (fst kc)]) (snd kc)) cs
  end.

Fixpoint start_dnodes (j : nat) (ls : list nat) : list dnode :=
  match ls with [] => [] | l :: ls => (NStart j, l) :: start_dnodes (S j) ls end.
Fixpoint start_xs (j : nat) (ls : list nat) : list name :=
  match ls with [] => [] | l :: ls => NStart j :: start_xs (S j) ls end.

Definition derived_graph (t : dtree) : dgraph :=
  let ty := l_type (r_lhs (t_rule t)) in
  mkDG (start_dnodes 0 ty ++ dsub_nodes [] t) (dsub_edges [] (start_xs 0 ty) t).

(** the assignment of the derived graph: the root's values on its external nodes name the
    start nodes; every other node is named by the instance that owns it *)
Fixpoint start_asst (j : nat) (a : asst_t) (ext : list node) : list (name * nat) :=
  match ext with
  | [] => []
  | v :: ext => match aget node_eqb a v with Some x => [(NStart j, x)] | None => [] end ++ start_asst (S j) a ext
  end.
Definition derived_asst (t : dtree) : list (name * nat) :=
  start_asst 0 (t_asst t) (g_ext (r_rhs (t_rule t))) ++ dsub_asst [] t.

(** * Weights (any semiring; [w label values] is the factor of a terminal label) *)
Fixpoint omap {A B} (f : A -> option B) (l : list A) : option (list B) :=
  match l with
  | [] => Some []
  | x :: l => match f x with None => None
              | Some y => match omap f l with None => None | Some ys => Some (y :: ys) end end
  end.

Section Weights.
  Context {S : Type} (o : sr_ops S) (w : elabel -> list nat -> S).
  Definition edge_weight (a : asst_t) (e : edge) : option S :=
    match omap (aget node_eqb a) (e_att e) with Some vs => Some (w (e_label e) vs) | None => None end.
  Fixpoint edges_weight (a : asst_t) (es : list edge) : option S :=
    match es with
    | [] => Some (one o)
    | e :: es => match edge_weight a e, edges_weight a es with
                 | Some x, Some y => Some (mul o x y) | _, _ => None end
    end.
  Definition terminal_edges (g : graph) : list edge := filter (fun e => l_term (e_label e)) (g_edges g).
  (** weight of a factor graph under an assignment: product over its terminal edges *)
  Definition graph_weight (g : graph) (a : asst_t) : option S := edges_weight a (terminal_edges g).
  (** weight of one rule instance *)
  Definition rule_weight (t : dtree) : option S := graph_weight (r_rhs (t_rule t)) (t_asst t).
  Fixpoint tree_weight (t : dtree) : option S :=
    match t with
    | DT r a cs =>
      match graph_weight (r_rhs r) a with
      | None => None
      | Some x =>
        (fix go (cs : list (edge * dtree)) : option S :=
           match cs with
           | [] => Some x
           | kc :: cs => match tree_weight (snd kc), go cs with
                         | Some y, Some z => Some (mul o y z) | _, _ => None end
           end) cs
      end
    end.
End Weights.

(** * Well-formedness (boolean guards) *)
Definition sub_nodes (l : list node) (ns : list node) : bool := forallb (memb node_eqb ns) l.

Definition wf_graphb (g : graph) : bool :=
  nodupb id_eqb (map n_id (g_nodes g))
  && nodupb id_eqb (map e_id (g_edges g))
  && forallb (fun e => sub_nodes (e_att e) (g_nodes g)
                       && list_eqb Nat.eqb (l_type (e_label e)) (map n_label (e_att e))
                       && memb elabel_eqb (g_elabs g) (e_label e)) (g_edges g)
  && sub_nodes (g_ext g) (g_nodes g)
  && nodupb Nat.eqb (map l_name (g_elabs g)).

Definition id_below (nx : nat) (i : id) : bool := match i with Explicit _ => true | Fresh n => Nat.ltb n nx end.
Definition belowb (nx : nat) (g : graph) : bool :=
  forallb (fun n => id_below nx (n_id n)) (g_nodes g) && forallb (fun e => id_below nx (e_id e)) (g_edges g).

(** all labels of [g] (table and edges) belong to a name-functional universe [L] *)
Definition functionalb (L : list elabel) : bool :=
  forallb (fun a => forallb (fun b => negb (Nat.eqb (l_name a) (l_name b)) || elabel_eqb a b) L) L.
Definition labels_in (L : list elabel) (g : graph) : bool :=
  forallb (memb elabel_eqb L) (g_elabs g) && forallb (fun e => memb elabel_eqb L (e_label e)) (g_edges g).

Definition wf_ruleb (r : rule) : bool :=
  wf_graphb (r_rhs r) && nodupb node_eqb (g_ext (r_rhs r))
  && list_eqb Nat.eqb (l_type (r_lhs r)) (gtype (r_rhs r)) && negb (l_term (r_lhs r)).

(** derivation tree: keys are distinct nonterminal edges of the rhs labelled by the child's lhs;
    the assignment is total on the rhs nodes and agrees with the parent's on glued nodes *)
Fixpoint glue_okb (a : asst_t) (att : list node) (ac : asst_t) (ext : list node) : bool :=
  match att, ext with
  | g :: att, v :: ext =>
    match aget node_eqb a g, aget node_eqb ac v with
    | Some x, Some y => Nat.eqb x y && glue_okb a att ac ext
    | _, _ => false
    end
  | _, _ => true
  end.

Fixpoint wf_dtreeb (L : list elabel) (t : dtree) : bool :=
  match t with
  | DT r a cs =>
    wf_ruleb r && labels_in L (r_rhs r) && memb elabel_eqb L (r_lhs r)
    && forallb (fun v => amem node_eqb a v) (g_nodes (r_rhs r))
    && nodupb id_eqb (map (fun kc => e_id (fst kc)) cs)
    && forallb (fun kc => memb edge_eqb (g_edges (r_rhs r)) (fst kc)
                          && elabel_eqb (e_label (fst kc)) (r_lhs (t_rule (snd kc)))
                          && glue_okb a (e_att (fst kc)) (t_asst (snd kc)) (g_ext (r_rhs (t_rule (snd kc))))
                          && wf_dtreeb L (snd kc)) cs
  end.

Fixpoint tsize (t : dtree) : nat :=
  match t with DT r a cs => S (fold_right (fun kc n => tsize (snd kc) + n) 0 cs) end.

(** * Oracles on implementation outputs *)
Definition count_by {A} (eqb : A -> A -> bool) (x : A) (l : list A) : nat := length (filter (eqb x) l).
Definition perm_eqb {A} (eqb : A -> A -> bool) (l1 l2 : list A) : bool :=
  Nat.eqb (length l1) (length l2)
  && forallb (fun x => Nat.eqb (count_by eqb x l1) (count_by eqb x l2)) l1.

Definition is_prefix {A} (eqb : A -> A -> bool) (p l : list A) : bool := list_eqb eqb p (firstn (length p) l).

(** [replace_ok host edge repl result node_map edge_map]:
    exactly [edge] removed; rest of host, its order and [ext] untouched; the added nodes are the
    images of the non-external replacement nodes (same labels, new, pairwise distinct ids); the
    externals are mapped to the attachment nodes in order; the added edges are the images of the
    replacement's edges with labels and attachment order preserved; all ids unique; the label
    table only grows. *)
Definition replace_ok (host : graph) (e : edge) (repl : graph) (res : graph) (nm : nmap) (em : emap) : bool :=
  let kept := filter (fun e' => negb (id_eqb (e_id e') (e_id e))) (g_edges host) in
  let nonext := filter (fun rg => negb (is_ext repl (fst rg))) nm in
  (* the edge was there, and only it is gone *)
  memb edge_eqb (g_edges host) e
  && list_eqb edge_eqb (g_edges res) (kept ++ map snd em)
  && list_eqb node_eqb (g_nodes res) (g_nodes host ++ map snd nonext)
  && list_eqb node_eqb (g_ext res) (g_ext host)
  (* node_map: defined exactly on the replacement's nodes *)
  && perm_eqb node_eqb (map fst nm) (g_nodes repl)
  && nodupb node_eqb (map fst nm)
  (* externals identified in order *)
  && list_eqb node_eqb (map (fun v => match aget node_eqb nm v with Some g => g | None => v end) (g_ext repl))
                       (e_att e)
  && forallb (fun v => amem node_eqb nm v) (g_ext repl)
  (* copies keep the label *)
  && forallb (fun rg => Nat.eqb (n_label (fst rg)) (n_label (snd rg))) nm
  (* edge_map: defined exactly on the replacement's edges, in order *)
  && list_eqb edge_eqb (map fst em) (g_edges repl)
  && forallb (fun rg => elabel_eqb (e_label (fst rg)) (e_label (snd rg))
                        && match map_nodes nm (e_att (fst rg)) with
                           | Some gs => list_eqb node_eqb gs (e_att (snd rg))
                           | None => false
                           end) em
  (* ids unique (so the copies are new and pairwise distinct) *)
  && nodupb id_eqb (map n_id (g_nodes res))
  && nodupb id_eqb (map e_id (g_edges res))
  (* label table only grows, and covers the new edges *)
  && is_prefix elabel_eqb (g_elabs host) (g_elabs res)
  && forallb (fun rg => memb elabel_eqb (g_elabs res) (e_label (snd rg))) em
  (* node-label table: the labels of the added nodes are registered, in order, nothing else *)
  && list_eqb Nat.eqb (g_nlabs res) (add_nlabs (g_nlabs host) (map (fun rg => n_label (snd rg)) nonext)).

(** [start_graph]: one edge labelled by the start symbol attached to pairwise distinct nodes of
    the right labels, nothing else, no external nodes *)
Definition start_ok (s : elabel) (g : graph) : bool :=
  match g_edges g with
  | [e] => elabel_eqb (e_label e) s && list_eqb node_eqb (e_att e) (g_nodes g)
           && list_eqb Nat.eqb (map n_label (g_nodes g)) (l_type s)
           && nodupb id_eqb (map n_id (g_nodes g))
           && match g_ext g with [] => true | _ => false end
           && list_eqb elabel_eqb (g_elabs g) [s]
           && list_eqb Nat.eqb (g_nlabs g) (add_nlabs [] (l_type s))
  | _ => false
  end.

(** rename a graph through given namings of its nodes and edges *)
Definition rename_edge (nn : list (node * name)) (en : edge * name) : option dedge :=
  match omap (aget node_eqb nn) (e_att (fst en)) with
  | Some xs => Some (snd en, e_label (fst en), xs)
  | None => None
  end.
Definition rename_graph (nn : list (node * name)) (en : list (edge * name)) : option dgraph :=
  match omap (rename_edge nn) en with
  | Some es => Some (mkDG (map (fun gx => (snd gx, n_label (fst gx))) nn) es)
  | None => None
  end.

Definition dnode_eqb (a b : dnode) : bool := name_eqb (fst a) (fst b) && Nat.eqb (snd a) (snd b).
Definition dedge_eqb (a b : dedge) : bool :=
  name_eqb (fst (fst a)) (fst (fst b)) && elabel_eqb (snd (fst a)) (snd (fst b)) && list_eqb name_eqb (snd a) (snd b).

(** isomorphism through a given naming: the namings are defined exactly on the graph's nodes and
    edges, are injective, and the renamed graph is [d] up to the order of the lists *)
Definition same_upto_naming (g : graph) (nn : list (node * name)) (en : list (edge * name)) (d : dgraph) : bool :=
  list_eqb node_eqb (map fst nn) (g_nodes g)
  && list_eqb edge_eqb (map fst en) (g_edges g)
  && nodupb id_eqb (map n_id (g_nodes g))
  && nodupb id_eqb (map e_id (g_edges g))
  && nodupb name_eqb (map snd nn)
  && nodupb name_eqb (map snd en)
  && match rename_graph nn en with
     | Some d' => perm_eqb dnode_eqb (d_nodes d') (d_nodes d) && perm_eqb dedge_eqb (d_edges d') (d_edges d)
     | None => false
     end.
