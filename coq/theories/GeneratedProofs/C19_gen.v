(** C19 -- the property theorems restated about the functions GENERATED from the current source
    text of fggs/utils.py (module [Fggs.Generated.SCC_gen], regenerated on every run by
    harness/translate/py2gallina.py).  Compiled on every [bin/check C19 ...] by
    harness/props/C19.py (translator_tie), against the freshly generated file; each theorem is
    closed by [exact]/[rewrite] from the refinement theorems and the theorems of Props/C19.v,
    and followed by Print Assumptions (must be closed under the global context). *)
From Coq Require Import List Arith Bool Permutation.
Import ListNotations.
Require Import Fggs.Model.SCC Fggs.Proofs.SCC_ntgraph Fggs.Proofs.SCC_checker Fggs.Proofs.SCC_tarjan Fggs.Proofs.SCC_unique.
Require Import Fggs.Generated.SCC_gen Fggs.GeneratedProofs.SCC_gen_refines.

(** the generated [scc] computes what the hand-written model computes, on every closed graph *)
Theorem C19_gen_scc_refines :
  forall g, closed g = true -> gen_scc g = scc g.
Proof. exact gen_scc_refines. Qed.
Print Assumptions C19_gen_scc_refines.

(** the generated [nonterminal_graph] computes what the hand-written model computes (the
    nonterminals are distinct and every rule's left-hand side is one of them: otherwise the
    Python code raises KeyError at [g[r.lhs]], which the generated function models as [None]) *)
Theorem C19_gen_ntgraph_refines :
  forall nts rules, NoDup nts -> (forall r, In r rules -> In (fst r) nts) ->
    gen_ntgraph (nts, rules) = Some (ntgraph nts rules).
Proof. exact gen_ntgraph_refines. Qed.
Print Assumptions C19_gen_ntgraph_refines.

(** C19_tarjan_correct_spec, about the generated function: on every closed graph the generated
    [scc] terminates without a Python exception (no KeyError, no IndexError, fuel suffices)
    and returns the dependency-ordered SCC decomposition *)
Theorem C19_gen_tarjan_correct_spec :
  forall g, closed g = true ->
    exists cs, gen_scc g = Some cs /\
     NoDup (concat cs) /\ Permutation (concat cs) (verts g)
     /\ (forall c, In c cs -> c <> [])
     /\ (forall u v, In u (verts g) -> In v (verts g) ->
           ((exists c, In c cs /\ In u c /\ In v c) <-> (path g u v /\ path g v u)))
     /\ (forall l1 c l2 d u v, cs = l1 ++ c :: l2 -> In d l2 -> In u c -> In v d -> ~ In v (succs g u)).
Proof. intros g Hc. rewrite (gen_scc_refines g Hc). exact (tarjan_correct_spec g Hc). Qed.
Print Assumptions C19_gen_tarjan_correct_spec.

Theorem C19_gen_tarjan_correct :
  forall g, closed g = true -> exists cs, gen_scc g = Some cs /\ scc_ok g cs = true.
Proof. intros g Hc. rewrite (gen_scc_refines g Hc). exact (tarjan_correct g Hc). Qed.
Print Assumptions C19_gen_tarjan_correct.

(** C19_tarjan_dependencies_before / C19_accepted_components_are_tarjan, about the generated function *)
Theorem C19_gen_tarjan_dependencies_before :
  forall g, closed g = true ->
    exists cs, gen_scc g = Some cs /\
      forall l1 c l2 u v, cs = l1 ++ c :: l2 -> In u c -> path g u v -> In v c \/ In v (concat l1).
Proof. intros g Hc. rewrite (gen_scc_refines g Hc). exact (tarjan_deps_before g Hc). Qed.
Print Assumptions C19_gen_tarjan_dependencies_before.

Theorem C19_gen_accepted_components_are_tarjan :
  forall g cs', closed g = true -> scc_ok g cs' = true ->
    exists cs, gen_scc g = Some cs /\
      (forall c, In c cs -> exists c', In c' cs' /\ forall v, In v c <-> In v c') /\
      (forall c', In c' cs' -> exists c, In c cs /\ forall v, In v c' <-> In v c).
Proof. intros g cs' Hc Hok. rewrite (gen_scc_refines g Hc). exact (scc_ok_components_are_tarjan g cs' Hc Hok). Qed.
Print Assumptions C19_gen_accepted_components_are_tarjan.

(** C19_nonterminal_graph_vertices / _edges, about the generated function *)
Theorem C19_gen_nonterminal_graph_vertices :
  forall nts rules, NoDup nts -> (forall r, In r rules -> In (fst r) nts) ->
    exists g, gen_ntgraph (nts, rules) = Some g /\ verts g = nts.
Proof.
  intros nts rules Hnd Hl. exists (ntgraph nts rules).
  split; [exact (gen_ntgraph_refines nts rules Hnd Hl) | exact (ntgraph_verts nts rules)].
Qed.
Print Assumptions C19_gen_nonterminal_graph_vertices.

Theorem C19_gen_nonterminal_graph_edges :
  forall nts rules, NoDup nts -> (forall r, In r rules -> In (fst r) nts) ->
    exists g, gen_ntgraph (nts, rules) = Some g /\
      forall x y, In y (succs g x) <->
                  In x nts /\ exists r, In r rules /\ fst r = x /\ In (y, true) (snd r).
Proof.
  intros nts rules Hnd Hl. exists (ntgraph nts rules).
  split; [exact (gen_ntgraph_refines nts rules Hnd Hl) | exact (ntgraph_edge nts rules)].
Qed.
Print Assumptions C19_gen_nonterminal_graph_edges.

(** the hypotheses are satisfiable by non-trivial values *)
Example C19_gen_example :
  gen_scc [(0, [1]); (1, [2]); (2, [0; 3]); (3, [])] = Some [[3]; [2; 1; 0]]
  /\ closed [(0, [1]); (1, [2]); (2, [0; 3]); (3, [])] = true
  /\ gen_ntgraph ([0; 1; 2], [(0, [(1, true); (5, false); (2, true)]); (1, [(0, true)])])
     = Some [(0, [1; 2]); (1, [0]); (2, [])].
Proof. vm_compute. repeat split. Qed.
