(** The translator tie for C19: the functions GENERATED from the current source text of
    fggs/utils.py ([Fggs.Generated.SCC_gen.gen_scc], [gen_ntgraph], regenerated on every run by
    harness/translate/py2gallina.py) compute exactly what the hand-written model
    ([Fggs.Model.SCC.scc], [ntgraph]) computes:

      [gen_scc_refines]     : closed g = true -> gen_scc g = scc g
      [gen_ntgraph_refines] : NoDup nts -> (every rule's lhs is in nts) ->
                              gen_ntgraph (nts, rules) = Some (ntgraph nts rules)

    The generated code differs from the hand model in representation, not in algorithm:
    a KeyError / IndexError is [None] (the hand model uses defaults), the Python list [stack]
    is kept in Python order (the hand model keeps the top first), the set [onstack] exists (the
    hand model tests membership in the stack), and the component is popped by a fuelled
    [while] loop (the hand model uses the structural [pop_until]).  The proof is a forward
    simulation from the hand model's run (which succeeds on every closed graph by
    [tarjan_partition]) under a small invariant [J] that makes every lookup succeed.

    This file is compiled by the harness (harness/props/C19.py, translator_tie) against the
    freshly generated file, NOT by the main build.  The loop bodies of the generated code are
    never quoted here: they are picked up from the goal ([set (body := ...)]), so that the
    script depends on the generated record constructors / field order and on the sequence of
    operations, not on the generated text as such. *)
From Coq Require Import List Arith Bool PeanoNat Lia Permutation.
Import ListNotations.
Require Import Fggs.Model.SCC Fggs.Model.PyRT.
Require Import Fggs.Proofs.SCC_ntgraph Fggs.Proofs.SCC_checker Fggs.Proofs.SCC_tarjan.
Require Import Fggs.Generated.SCC_gen.

(** * The run-time library against the hand model's helpers *)
Lemma py_dget_get m k : py_dget m k = get m k.
Proof. induction m as [|[a b] m IH]; simpl; [reflexivity|]. destruct (Nat.eqb a k); auto. Qed.

Lemma py_dmem_get m k : @py_dmem nat m k = match get m k with Some _ => true | None => false end.
Proof. induction m as [|[a b] m IH]; simpl; [reflexivity|]. destruct (Nat.eqb a k); auto. Qed.

Lemma py_dset_set m k v : py_dset m k v = set m k v.
Proof. induction m as [|[a b] m IH]; simpl; [reflexivity|]. destruct (Nat.eqb a k); [reflexivity|]. f_equal. exact IH. Qed.

Lemma py_mem_mem l x : py_mem l x = mem l x.
Proof.
  induction l as [|y l IH]; simpl; [reflexivity|]. rewrite (Nat.eqb_sym x y).
  destruct (Nat.eqb y x); simpl; auto.
Qed.

Lemma py_mem_In l x : py_mem l x = true <-> In x l.
Proof. rewrite py_mem_mem. apply SCC_checker.mem_In. Qed.

Lemma py_mem_false l x : py_mem l x = false <-> ~ In x l.
Proof. rewrite <- py_mem_In. destruct (py_mem l x); split; congruence. Qed.

Lemma py_kadd_add_new l x : py_kadd l x = add_new l x.
Proof. unfold py_kadd, add_new. rewrite py_mem_mem. reflexivity. Qed.

Lemma py_pop_snoc (A : Type) (l : list A) x : py_pop (l ++ [x]) = Some (l, x).
Proof. induction l as [|y l IH]; simpl; [reflexivity|]. rewrite IH. reflexivity. Qed.

Lemma py_sremove_perm l x : In x l -> exists l', py_sremove l x = Some l' /\ Permutation l (x :: l').
Proof.
  induction l as [|y l IH]; simpl; [tauto|]. intros H.
  destruct (Nat.eqb y x) eqn:E.
  - apply Nat.eqb_eq in E. subst. exists l. split; [reflexivity | apply Permutation_refl].
  - apply Nat.eqb_neq in E. destruct H as [H|H]; [congruence|].
    destruct (IH H) as [l' [H1 H2]]. rewrite H1. exists (y :: l'). split; [reflexivity|].
    eapply perm_trans; [apply perm_skip; exact H2 | apply perm_swap].
Qed.

Lemma py_dget_succs g v : In v (verts g) -> py_dget g v = Some (succs g v).
Proof.
  induction g as [|[u ws] g IH]; simpl; [tauto|].
  destruct (Nat.eqb u v) eqn:E; [reflexivity|].
  apply Nat.eqb_neq in E. intros [H|H]; [congruence | exact (IH H)].
Qed.

Lemma py_dset_upd g x y : In x (verts g) ->
  exists ws, py_dget g x = Some ws /\ py_dset g x (py_kadd ws y) = upd g x y.
Proof.
  induction g as [|[u ws] g IH]; simpl; [tauto|].
  destruct (Nat.eqb u x) eqn:E.
  - intros _. exists ws. split; [reflexivity|]. rewrite py_kadd_add_new. reflexivity.
  - apply Nat.eqb_neq in E. intros [H|H]; [congruence|].
    destruct (IH H) as [ws' [H1 H2]]. exists ws'. split; [exact H1|]. rewrite H2. reflexivity.
Qed.

Lemma py_dset_new (V : Type) (m : list (nat * V)) k v : ~ In k (map fst m) -> py_dset m k v = m ++ [(k, v)].
Proof.
  induction m as [|[a b] m IH]; simpl; [reflexivity|]. intros H.
  destruct (Nat.eqb a k) eqn:E.
  - apply Nat.eqb_eq in E. tauto.
  - f_equal. apply IH. tauto.
Qed.

(** * nonterminal_graph *)
Lemma dictcomp_keys (nts : list nat) : NoDup nts -> forall acc : graph,
  (forall x, In x nts -> ~ In x (map fst acc)) ->
  fold_left (fun acc0 x0 => py_dset acc0 x0 []) nts acc = acc ++ map (fun x => (x, @nil nat)) nts.
Proof.
  induction 1 as [|x nts Hx Hnd IH]; intros acc Hacc; simpl.
  - rewrite app_nil_r. reflexivity.
  - rewrite py_dset_new by (apply Hacc; left; reflexivity).
    rewrite IH.
    + rewrite <- app_assoc. reflexivity.
    + intros y Hy. rewrite map_app, in_app_iff. simpl. intros [H|[H|[]]].
      * exact (Hacc y (or_intror Hy) H).
      * subst. exact (Hx Hy).
Qed.

Ltac nt_norm :=
  cbv beta iota zeta delta [set_gen_ntgraph_o0 set_gen_ntgraph_m0 set_gen_ntgraph_o1 set_gen_ntgraph_o2
                            gen_ntgraph_o0 gen_ntgraph_m0 gen_ntgraph_o1 gen_ntgraph_o2].

Theorem gen_ntgraph_refines nts rules :
  NoDup nts -> (forall r, In r rules -> In (fst r) nts) ->
  gen_ntgraph (nts, rules) = Some (ntgraph nts rules).
Proof.
  intros Hnd Hlhs. unfold gen_ntgraph, ntgraph.
  nt_norm. cbn [fst snd].
  rewrite (dictcomp_keys nts Hnd []) by (intros x _ []).
  cbn [app].
  match goal with |- context [py_for ?B rules ?st] => set (body := B); set (st0 := st) end.
  assert (Hverts0 : verts (map (fun x => (x, @nil nat)) nts) = nts).
  { unfold verts. rewrite map_map. simpl. apply map_id. }
  (* the outer loop, for any current graph with vertex list nts *)
  assert (Hloop : forall rs, (forall r, In r rs -> In (fst r) nts) ->
            forall h g r e, verts g = nts ->
            exists r' e', py_for body rs (mk_gen_ntgraph h g r e) =
              Some (mk_gen_ntgraph h (fold_left rule_step rs g) r' e')).
  { induction rs as [|r0 rs IH]; intros Hin h g r e Hv.
    - exists r, e. reflexivity.
    - cbn [py_for fold_left]. unfold body at 1. nt_norm.
      match goal with |- context [py_for ?B (snd r0) ?st] => set (ibody := B) end.
      (* the inner loop over the edges of r0 *)
      assert (Hin1 : forall es g1 e1, verts g1 = nts ->
                exists e', py_for ibody es (mk_gen_ntgraph h g1 r0 e1) =
                  Some (mk_gen_ntgraph h (fold_left (fun (g : graph) (e : nat * bool) => if snd e then upd g (fst r0) (fst e) else g) es g1) r0 e')).
      { induction es as [|e0 es IHe]; intros g1 e1 Hv1.
        - exists e1. reflexivity.
        - cbn [py_for fold_left]. unfold ibody at 1. nt_norm.
          destruct (snd e0) eqn:Ee.
          + destruct (py_dset_upd g1 (fst r0) (fst e0)) as [ws [H1 H2]].
            { rewrite Hv1. apply Hin. left. reflexivity. }
            rewrite H1, H2. apply IHe. rewrite verts_upd. exact Hv1.
          + apply IHe. exact Hv1. }
      destruct (Hin1 (snd r0) g e Hv) as [e' He']. rewrite He'.
      apply IH.
      + intros r1 Hr1. apply Hin. right. exact Hr1.
      + fold (rule_step g r0). rewrite verts_rule_step. exact Hv. }
  destruct (Hloop rules Hlhs (nts, rules) _ (0, []) (0, false) Hverts0) as [r' [e' H]].
  subst st0. rewrite H. reflexivity.
Qed.

(** * scc *)
Ltac scc_norm :=
  cbv beta iota zeta delta [set_gen_scc_m0 set_gen_scc_n0 set_gen_scc_d0 set_gen_scc_d1 set_gen_scc_l0
                            set_gen_scc_s0 set_gen_scc_c0 set_gen_scc_n1
                            gen_scc_m0 gen_scc_n0 gen_scc_d0 gen_scc_d1 gen_scc_l0 gen_scc_s0 gen_scc_c0 gen_scc_n1
                            set_gen_scc_f0_n0 set_gen_scc_f0_n1 set_gen_scc_f0_k0
                            gen_scc_f0_n0 gen_scc_f0_n1 gen_scc_f0_k0].

Lemma perm_mem a b x : Permutation a b -> mem a x = mem b x.
Proof.
  intros H. destruct (mem a x) eqn:Ea, (mem b x) eqn:Eb; try reflexivity.
  - apply SCC_checker.mem_In in Ea. apply (Permutation_in _ H) in Ea. apply SCC_checker.mem_In in Ea. congruence.
  - apply SCC_checker.mem_In in Eb. apply (Permutation_in _ (Permutation_sym H)) in Eb. apply SCC_checker.mem_In in Eb. congruence.
Qed.

Lemma get_getd m k : get m k <> None -> get m k = Some (getd m k).
Proof. unfold getd. destruct (get m k); [reflexivity | congruence]. Qed.

Lemma get_set_mono m k v x : get m x <> None -> get (set m k v) x <> None.
Proof.
  intros H. destruct (Nat.eq_dec x k) as [->|Hn].
  - rewrite get_set_same. discriminate.
  - rewrite get_set_other by exact Hn. exact H.
Qed.

(** the generated frame of [scc] against the hand model's state: same counter, maps and
    components; the Python list [stack] is the hand model's stack reversed; the set [onstack]
    is a permutation of the stack; [j] is the loop variable of [scc]'s own [for] *)
Definition R (g : graph) (o : gen_scc_frame) (s : st) : Prop :=
  exists S j, o = mk_gen_scc g (idx s) (indexof s) (lowlink s) (rev (stack s)) S (comps s) j
              /\ Permutation S (stack s).

(** what makes every dictionary read of the generated code succeed *)
Definition J (s : st) : Prop :=
  NoDup (stack s) /\ (forall x, In x (stack s) -> vis s x) /\ (forall x, vis s x -> get (lowlink s) x <> None).

Definition ext (v : nat) (s s' : st) : Prop :=
  (exists s2, stack s' = s2 ++ stack s) /\ (forall x, vis s x -> vis s' x) /\ vis s' v.

Definition sim_spec (g : graph) (fuel : nat) : Prop :=
  forall v s s' o, In v (verts g) -> R g o s -> J s -> ~ vis s v ->
    visit fuel g v s = Some s' ->
    exists o', gen_scc_f0 fuel o v = Some o' /\ R g o' s' /\ J s' /\ ext v s s'.

Lemma J_set_low s v x : J s -> J (set_low s v x).
Proof.
  intros (H1 & H2 & H3). split; [exact H1 | split; [exact H2|]].
  intros y Hy. cbn [set_low lowlink]. apply get_set_mono. apply H3. exact Hy.
Qed.

Lemma J_push s v : J s -> ~ vis s v -> J (push v s).
Proof.
  intros (H1 & H2 & H3) Hv. split; [|split].
  - cbn [push stack]. constructor; [|exact H1]. intros H. exact (Hv (H2 _ H)).
  - intros x Hx. apply vis_push. cbn [push stack] in Hx. destruct Hx as [->|Hx]; [left; reflexivity | right; auto].
  - intros x Hx. apply vis_push in Hx. cbn [push lowlink].
    destruct (Nat.eq_dec x v) as [->|Hn].
    + rewrite get_set_same. discriminate.
    + apply get_set_mono. apply H3. tauto.
Qed.

Section Sim.
Variable g : graph.
Hypothesis Hc : closed g = true.

Lemma sim_step fuel : sim_spec g fuel -> sim_spec g (S fuel).
Proof.
  intros IHf v s s' o Hv (S0 & j0 & -> & HP) HJ Hnv Hvis.
  rewrite visit_S in Hvis.
  destruct (go_body (visit fuel g) v (succs g v) (push v s)) as [s1|] eqn:Hgo; [|discriminate].
  cbn [gen_scc_f0]. scc_norm.
  rewrite (py_dget_succs g v Hv).
  assert (HnS : py_mem S0 v = false).
  { apply py_mem_false. intros H. apply (Permutation_in _ HP) in H. destruct HJ as (_ & H2 & _). exact (Hnv (H2 _ H)). }
  unfold py_sadd at 1. rewrite HnS.
  match goal with |- context [py_for ?B (succs g v) _] => set (body := B) end.
  (* the successor loop *)
  assert (Hloop : forall ws, incl ws (verts g) -> forall sc sc' S1 j lw lk,
            Permutation S1 (stack sc) -> J sc ->
            (exists s3, stack sc = s3 ++ v :: stack s) -> (forall x, vis (push v s) x -> vis sc x) ->
            go_body (visit fuel g) v ws sc = Some sc' ->
            exists S1' j' lw',
              py_for body ws (mk_gen_scc g (idx sc) (indexof sc) (lowlink sc) (rev (stack sc)) S1 (comps sc) j,
                              mk_gen_scc_f0 v lw lk)
              = Some (mk_gen_scc g (idx sc') (indexof sc') (lowlink sc') (rev (stack sc')) S1' (comps sc') j',
                      mk_gen_scc_f0 v lw' lk)
              /\ Permutation S1' (stack sc') /\ J sc'
              /\ (exists s3, stack sc' = s3 ++ v :: stack s) /\ (forall x, vis (push v s) x -> vis sc' x)).
  { induction ws as [|w ws IHws]; intros Hincl sc sc' S1 j lw lk HP1 HJ1 HK1 HM1 Hg.
    - cbn in Hg. injection Hg as <-. exists S1, j, lw. cbn [py_for]. auto.
    - rewrite go_body_cons in Hg.
      assert (Hvv : vis sc v). { apply HM1. apply vis_push. left. reflexivity. }
      assert (Hlv : get (lowlink sc) v = Some (getd (lowlink sc) v)).
      { apply get_getd. destruct HJ1 as (_ & _ & H3). apply H3. exact Hvv. }
      assert (Hincl' : incl ws (verts g)). { intros x Hx. apply Hincl. right. exact Hx. }
      cbn [py_for]. unfold body at 1. scc_norm.
      rewrite py_dmem_get.
      destruct (get (indexof sc) w) as [iw|] eqn:Ew.
      + cbn [negb]. rewrite py_mem_mem, (perm_mem _ _ w HP1).
        destruct (mem (stack sc) w) eqn:Em.
        * rewrite !py_dget_get, Hlv, Ew, py_dset_set.
          specialize (IHws Hincl' (set_low sc v (Nat.min (getd (lowlink sc) v) iw)) sc' S1 j w lk).
          cbn [set_low idx indexof lowlink stack comps] in IHws.
          apply IHws; [exact HP1 | apply J_set_low; exact HJ1 | exact HK1 | exact HM1 | exact Hg].
        * apply IHws; [exact Hincl' | exact HP1 | exact HJ1 | exact HK1 | exact HM1 | exact Hg].
      + cbn [negb].
        destruct (visit fuel g w sc) as [sw|] eqn:Hw; [|discriminate].
        assert (Hwin : In w (verts g)). { apply Hincl. left. reflexivity. }
        assert (HRw : R g (mk_gen_scc g (idx sc) (indexof sc) (lowlink sc) (rev (stack sc)) S1 (comps sc) j) sc).
        { exists S1, j. split; [reflexivity | exact HP1]. }
        assert (Hnw : ~ vis sc w). { unfold vis. rewrite Ew. tauto. }
        destruct (IHf w sc sw _ Hwin HRw HJ1 Hnw Hw)
          as (o' & Hcall & (S2 & j2 & -> & HP2) & HJ2 & (s2 & Hst2) & Hmono2 & Hvw).
        rewrite Hcall. scc_norm.
        assert (Hlv2 : get (lowlink sw) v = Some (getd (lowlink sw) v)).
        { apply get_getd. destruct HJ2 as (_ & _ & H3). apply H3. apply Hmono2. exact Hvv. }
        assert (Hlw2 : get (lowlink sw) w = Some (getd (lowlink sw) w)).
        { apply get_getd. destruct HJ2 as (_ & _ & H3). apply H3. exact Hvw. }
        rewrite !py_dget_get, Hlv2, Hlw2, py_dset_set.
        specialize (IHws Hincl' (set_low sw v (Nat.min (getd (lowlink sw) v) (getd (lowlink sw) w))) sc' S2 j2 w lk).
        cbn [set_low idx indexof lowlink stack comps] in IHws.
        apply IHws; [exact HP2 | apply J_set_low; exact HJ2 | | | exact Hg].
        * destruct HK1 as [s3 Hs3]. exists (s2 ++ s3). rewrite Hst2, Hs3, app_assoc. reflexivity.
        * intros x Hx. apply Hmono2. apply HM1. exact Hx. }
  destruct (Hloop (succs g v) (fun x Hx => closed_succs g Hc v x Hx) (push v s) s1 (S0 ++ [v]) j0 0 [])
    as (S1 & j1 & lw1 & Hfor & HP1 & HJ1 & (s3 & Hs3) & HM1); auto.
  { cbn [push stack]. eapply perm_trans; [apply Permutation_sym; apply Permutation_cons_append | apply perm_skip; exact HP]. }
  { apply J_push; assumption. }
  { exists []. reflexivity. }
  cbn [push idx indexof lowlink stack comps rev] in Hfor.
  rewrite !py_dset_set, Nat.add_1_r. rewrite Hfor. scc_norm.
  assert (Hvv : vis s1 v). { apply HM1. apply vis_push. left. reflexivity. }
  assert (Hlv : get (lowlink s1) v = Some (getd (lowlink s1) v)).
  { apply get_getd. destruct HJ1 as (_ & _ & H3). apply H3. exact Hvv. }
  assert (Hiv : get (indexof s1) v = Some (getd (indexof s1) v)).
  { apply get_getd. exact Hvv. }
  rewrite !py_dget_get, Hlv, Hiv.
  unfold finish in Hvis.
  assert (Hmono : forall x, vis s x -> vis s1 x).
  { intros x Hx. apply HM1. apply vis_push. right. exact Hx. }
  destruct (Nat.eqb (getd (lowlink s1) v) (getd (indexof s1) v)) eqn:Eroot.
  - (* v is a root: pop the component *)
    assert (Hnd : NoDup (s3 ++ v :: stack s)). { rewrite <- Hs3. apply HJ1. }
    assert (Hv3 : ~ In v s3).
    { intros H. apply NoDup_remove_2 in Hnd. apply Hnd. apply in_or_app. left. exact H. }
    rewrite Hs3, (pop_until_split v s3 (stack s) Hv3) in Hvis. injection Hvis as <-.
    match goal with |- context [py_while _ ?C ?B _] => set (wcond := C); set (wbody := B) end.
    assert (Hwhile : forall s2 r C S2 n lw i d0 d1 cs j,
              NoDup (s2 ++ v :: r) -> (forall x, In x (s2 ++ [v]) -> ~ In x C) ->
              Permutation S2 (s2 ++ v :: r) -> length s2 + 2 <= n ->
              exists S2' lw',
                py_while n wcond wbody (mk_gen_scc g i d0 d1 (rev (s2 ++ v :: r)) S2 cs j, mk_gen_scc_f0 v lw C)
                = Some (mk_gen_scc g i d0 d1 (rev r) S2' cs j, mk_gen_scc_f0 v lw' (C ++ s2 ++ [v]))
                /\ Permutation S2' r).
    { induction s2 as [|w s2 IH2]; intros r C S2 n lw i d0 d1 cs j Hnd2 Hdis HP2 Hn.
      - destruct n as [|[|n]]; [cbn in Hn; lia | cbn in Hn; lia |].
        cbn [py_while]. unfold wcond at 1, wbody at 1. scc_norm.
        assert (HvC : py_mem C v = false). { apply py_mem_false. apply Hdis. left. reflexivity. }
        rewrite HvC. cbn [negb app rev].
        rewrite py_pop_snoc.
        destruct (py_sremove_perm S2 v) as [S2' [Hr Hp]].
        { apply (Permutation_in _ (Permutation_sym HP2)). left. reflexivity. }
        rewrite Hr. unfold py_kadd. rewrite HvC.
        unfold wcond at 1. scc_norm.
        assert (HvC' : py_mem (C ++ [v]) v = true). { apply py_mem_In. apply in_or_app. right. left. reflexivity. }
        rewrite HvC'. cbn [negb]. exists S2', v. split; [reflexivity|].
        apply Permutation_cons_inv with (a := v). eapply perm_trans; [apply Permutation_sym; exact Hp | exact HP2].
      - destruct n as [|n]; [cbn in Hn; lia|].
        cbn [py_while]. unfold wcond at 1, wbody at 1. scc_norm.
        assert (HvC : py_mem C v = false). { apply py_mem_false. apply Hdis. apply in_or_app. right. left. reflexivity. }
        assert (HwC : py_mem C w = false). { apply py_mem_false. apply Hdis. left. reflexivity. }
        rewrite HvC. cbn [negb app rev].
        rewrite py_pop_snoc.
        destruct (py_sremove_perm S2 w) as [S2' [Hr Hp]].
        { apply (Permutation_in _ (Permutation_sym HP2)). left. reflexivity. }
        rewrite Hr. unfold py_kadd. rewrite HwC.
        cbn [app] in Hnd2. inversion Hnd2 as [|? ? Hw Hnd2']; subst.
        destruct (IH2 r (C ++ [w]) S2' n w i d0 d1 cs j) as (S3 & lw' & Hwh & HP3); auto.
        + intros x Hx Hc'. apply in_app_or in Hc'. destruct Hc' as [Hc'|[<-|[]]].
          * apply (Hdis x); [right; exact Hx | exact Hc'].
          * apply Hw. apply in_app_or in Hx. apply in_or_app. destruct Hx as [Hx|[<-|[]]]; [left; exact Hx | right; left; reflexivity].
        + apply Permutation_cons_inv with (a := w). eapply perm_trans; [apply Permutation_sym; exact Hp | exact HP2].
        + cbn in Hn. lia.
        + exists S3, lw'. rewrite Hwh. split; [|exact HP3].
          rewrite <- app_assoc. reflexivity. }
    destruct (Hwhile s3 (stack s) [] S1 (Datatypes.S (length (rev (s3 ++ v :: stack s)))) lw1
                     (idx s1) (indexof s1) (lowlink s1) (comps s1) j1) as (S2 & lw2 & Hwh & HP2); auto.
    { rewrite <- Hs3. exact HP1. }
    { rewrite rev_length, app_length. cbn [length]. lia. }
    rewrite Hs3. rewrite Hwh. scc_norm. cbn [app].
    eexists. split; [reflexivity|]. split; [|split; [|split; [|split]]].
    + exists S2, j1. cbn [idx indexof lowlink stack comps]. split; [reflexivity | exact HP2].
    + destruct HJ1 as (_ & H2 & H3). split; [|split]; cbn [stack]; unfold vis; cbn [indexof lowlink].
      * apply NoDup_app_iff in Hnd. destruct Hnd as (_ & Hnd & _). inversion Hnd; assumption.
      * intros x Hx. apply Hmono. apply HJ. exact Hx.
      * exact H3.
    + exists []. reflexivity.
    + intros x Hx. unfold vis. cbn [indexof]. apply Hmono. exact Hx.
    + unfold vis. cbn [indexof]. exact Hvv.
  - injection Hvis as <-.
    eexists. split; [reflexivity|]. split; [|split; [|split; [|split]]].
    + exists S1, j1. split; [reflexivity | exact HP1].
    + exact HJ1.
    + exists (s3 ++ [v]). rewrite Hs3, <- app_assoc. reflexivity.
    + exact Hmono.
    + exact Hvv.
Qed.

Lemma sim_all fuel : sim_spec g fuel.
Proof.
  induction fuel as [|fuel IH]; [|exact (sim_step fuel IH)].
  intros v s s' o _ _ _ _ H. discriminate.
Qed.

Theorem gen_scc_refines_closed : gen_scc g = scc g.
Proof.
  destruct (tarjan_partition g Hc) as [cs [Hs _]]. rewrite Hs.
  unfold scc in Hs.
  destruct (scc_loop (S (length g)) g (verts g) init_st) as [sf|] eqn:Hl; [|discriminate].
  injection Hs as <-.
  unfold gen_scc, gen_scc_fuel. scc_norm.
  match goal with |- context [py_for ?B _ _] => set (body := B) end.
  assert (Hloop : forall vs, incl vs (verts g) -> forall s s' S1 j, Permutation S1 (stack s) -> J s ->
            scc_loop (S (length g)) g vs s = Some s' ->
            exists S1' j', py_for body vs (mk_gen_scc g (idx s) (indexof s) (lowlink s) (rev (stack s)) S1 (comps s) j)
              = Some (mk_gen_scc g (idx s') (indexof s') (lowlink s') (rev (stack s')) S1' (comps s') j')).
  { induction vs as [|v vs IH]; intros Hincl s s' S1 j HP HJ Hs.
    - cbn in Hs. injection Hs as <-. exists S1, j. reflexivity.
    - cbn [scc_loop] in Hs. cbn [py_for]. unfold body at 1. scc_norm.
      assert (Hincl' : incl vs (verts g)). { intros x Hx. apply Hincl. right. exact Hx. }
      rewrite py_dmem_get.
      destruct (get (indexof s) v) as [iv|] eqn:Ev.
      + cbn [negb]. apply IH; auto.
      + cbn [negb].
        destruct (visit (S (length g)) g v s) as [sv|] eqn:Hv; [|discriminate].
        assert (Hvin : In v (verts g)). { apply Hincl. left. reflexivity. }
        assert (HRv : R g (mk_gen_scc g (idx s) (indexof s) (lowlink s) (rev (stack s)) S1 (comps s) v) s).
        { exists S1, v. split; [reflexivity | exact HP]. }
        assert (Hnv : ~ vis s v). { unfold vis. rewrite Ev. tauto. }
        destruct (sim_all (S (length g)) v s sv _ Hvin HRv HJ Hnv Hv)
          as (o' & Hcall & (S2 & j2 & -> & HP2) & HJ2 & _).
        rewrite Hcall. apply IH; auto. }
  change (py_keys g) with (verts g).
  destruct (Hloop (verts g) (incl_refl _) init_st sf [] 0) as (S1 & j1 & H); auto.
  { split; [constructor | split; [intros x [] |]]. intros x Hx. exfalso. apply Hx. reflexivity. }
  cbn [init_st idx indexof lowlink stack comps rev] in H. rewrite H. reflexivity.
Qed.
End Sim.

Theorem gen_scc_refines g : closed g = true -> gen_scc g = scc g.
Proof. exact (gen_scc_refines_closed g). Qed.
