(** The translator tie for C19: the functions GENERATED from the current source text of
    fggs/utils.py ([Fggs.Generated.SCC_gen.gen_scc], [gen_ntgraph], regenerated on every run by
    harness/translate/py2gallina.py) compute exactly what the hand-written model
    ([Fggs.Model.SCC.scc], [ntgraph]) computes:

      [gen_scc_refines]     : closed g = true -> gen_scc g = scc g
      [gen_ntgraph_refines] : NoDup nts -> (every rule's lhs is in nts) ->
                              gen_ntgraph (nts, rules) = Some (ntgraph nts rules)

    The generated code differs from the hand model in representation, not in algorithm:
    a KeyError / IndexError is [None] (the hand model uses defaults), the Python list [stack]
    is kept in Python order (the hand model keeps the top first), the set [onstack] exists (the
    hand model tests membership in the stack), and the component is popped by a fuelled
    [while] loop (the hand model uses the structural [pop_until]).  The proof is a forward
    simulation from the hand model's run (which succeeds on every closed graph by
    [tarjan_partition]) under a small invariant [J] that makes every lookup succeed.

    This file is compiled by the harness (harness/props/C19.py, translator_tie) against the
    freshly generated file, NOT by the main build.  The loop bodies of the generated code are
    never quoted here: they are picked up from the goal ([set (body := ...)]), so that the
    script depends on the generated record constructors / field order and on the sequence of
    operations, not on the generated text as such. *)
From Coq Require Import List Arith Bool PeanoNat Lia Permutation.
Import ListNotations.
Require Import Fggs.Model.SCC Fggs.Model.PyRT.
Require Import Fggs.Proofs.SCC_ntgraph Fggs.Proofs.SCC_checker Fggs.Proofs.SCC_tarjan.
Require Import Fggs.Generated.SCC_gen.

(** * The run-time library against the hand model's helpers *)
Lemma py_dget_get m k : py_dget m k = get m k.
Proof. induction m as [|[a b] m IH]; simpl; [reflexivity|]. destruct (Nat.eqb a k); auto. Qed.

Lemma py_dmem_get m k : @py_dmem nat m k = match get m k with Some _ => true | None => false end.
Proof. induction m as [|[a b] m IH]; simpl; [reflexivity|]. destruct (Nat.eqb a k); auto. Qed.

Lemma py_dset_set m k v : py_dset m k v = set m k v.
Proof. induction m as [|[a b] m IH]; simpl; [reflexivity|]. destruct (Nat.eqb a k); [reflexivity|]. f_equal. exact IH. Qed.

Lemma py_mem_mem l x : py_mem l x = mem l x.
Proof.
  induction l as [|y l IH]; simpl; [reflexivity|]. rewrite (Nat.eqb_sym x y).
  destruct (Nat.eqb y x); simpl; auto.
Qed.

Lemma py_mem_In l x : py_mem l x = true <-> In x l.
Proof. rewrite py_mem_mem. apply SCC_checker.mem_In. Qed.

Lemma py_mem_false l x : py_mem l x = false <-> ~ In x l.
Proof. rewrite <- py_mem_In. destruct (py_mem l x); split; congruence. Qed.

Lemma py_kadd_add_new l x : py_kadd l x = add_new l x.
Proof. unfold py_kadd, add_new. rewrite py_mem_mem. reflexivity. Qed.

Lemma py_pop_snoc (A : Type) (l : list A) x : py_pop (l ++ [x]) = Some (l, x).
Proof. induction l as [|y l IH]; simpl; [reflexivity|]. rewrite IH. reflexivity. Qed.

Lemma py_sremove_perm l x : In x l -> exists l', py_sremove l x = Some l' /\ Permutation l (x :: l').
Proof.
  induction l as [|y l IH]; simpl; [tauto|]. intros H.
  destruct (Nat.eqb y x) eqn:E.
  - apply Nat.eqb_eq in E. subst. exists l. split; [reflexivity | apply Permutation_refl].
  - apply Nat.eqb_neq in E. destruct H as [H|H]; [congruence|].
    destruct (IH H) as [l' [H1 H2]]. rewrite H1. exists (y :: l'). split; [reflexivity|].
    eapply perm_trans; [apply perm_skip; exact H2 | apply perm_swap].
Qed.

Lemma py_dget_succs g v : In v (verts g) -> py_dget g v = Some (succs g v).
Proof.
  induction g as [|[u ws] g IH]; simpl; [tauto|].
  destruct (Nat.eqb u v) eqn:E; [reflexivity|].
  apply Nat.eqb_neq in E. intros [H|H]; [congruence | exact (IH H)].
Qed.

Lemma py_dset_upd g x y : In x (verts g) ->
  exists ws, py_dget g x = Some ws /\ py_dset g x (py_kadd ws y) = upd g x y.
Proof.
  induction g as [|[u ws] g IH]; simpl; [tauto|].
  destruct (Nat.eqb u x) eqn:E.
  - intros _. exists ws. split; [reflexivity|]. rewrite py_kadd_add_new. reflexivity.
  - apply Nat.eqb_neq in E. intros [H|H]; [congruence|].
    destruct (IH H) as [ws' [H1 H2]]. exists ws'. split; [exact H1|]. rewrite H2. reflexivity.
Qed.

Lemma py_dset_new (V : Type) (m : list (nat * V)) k v : ~ In k (map fst m) -> py_dset m k v = m ++ [(k, v)].
Proof.
  induction m as [|[a b] m IH]; simpl; [reflexivity|]. intros H.
  destruct (Nat.eqb a k) eqn:E.
  - apply Nat.eqb_eq in E. tauto.
  - f_equal. apply IH. tauto.
Qed.

(** * nonterminal_graph *)
Lemma dictcomp_keys (nts : list nat) : NoDup nts -> forall acc : graph,
  (forall x, In x nts -> ~ In x (map fst acc)) ->
  fold_left (fun acc0 x0 => py_dset acc0 x0 []) nts acc = acc ++ map (fun x => (x, @nil nat)) nts.
Proof.
  induction 1 as [|x nts Hx Hnd IH]; intros acc Hacc; simpl.
  - rewrite app_nil_r. reflexivity.
  - rewrite py_dset_new by (apply Hacc; left; reflexivity).
    rewrite IH.
    + rewrite <- app_assoc. reflexivity.
    + intros y Hy. rewrite map_app, in_app_iff. simpl. intros [H|[H|[]]].
      * exact (Hacc y (or_intror Hy) H).
      * subst. exact (Hx Hy).
Qed.

Ltac nt_norm :=
  cbv beta iota zeta delta [set_gen_ntgraph_o0 set_gen_ntgraph_m0 set_gen_ntgraph_o1 set_gen_ntgraph_o2
                            gen_ntgraph_o0 gen_ntgraph_m0 gen_ntgraph_o1 gen_ntgraph_o2].

Theorem gen_ntgraph_refines nts rules :
  NoDup nts -> (forall r, In r rules -> In (fst r) nts) ->
  gen_ntgraph (nts, rules) = Some (ntgraph nts rules).
Proof.
  intros Hnd Hlhs. unfold gen_ntgraph, ntgraph.
  nt_norm. cbn [fst snd].
  rewrite (dictcomp_keys nts Hnd []) by (intros x _ []).
  cbn [app].
  match goal with |- context [py_for ?B rules ?st] => set (body := B); set (st0 := st) end.
  assert (Hverts0 : verts (map (fun x => (x, @nil nat)) nts) = nts).
  { unfold verts. rewrite map_map. simpl. apply map_id. }
  (* the outer loop, for any current graph with vertex list nts *)
  assert (Hloop : forall rs, (forall r, In r rs -> In (fst r) nts) ->
            forall h g r e, verts g = nts ->
            exists r' e', py_for body rs (mk_gen_ntgraph h g r e) =
              Some (mk_gen_ntgraph h (fold_left rule_step rs g) r' e')).
  { induction rs as [|r0 rs IH]; intros Hin h g r e Hv.
    - exists r, e. reflexivity.
    - cbn [py_for fold_left]. unfold body at 1. nt_norm.
      match goal with |- context [py_for ?B (snd r0) ?st] => set (ibody := B) end.
      (* the inner loop over the edges of r0 *)
      assert (Hin1 : forall es g1 e1, verts g1 = nts ->
                exists e', py_for ibody es (mk_gen_ntgraph h g1 r0 e1) =
                  Some (mk_gen_ntgraph h (fold_left (fun (g : graph) (e : nat * bool) => if snd e then upd g (fst r0) (fst e) else g) es g1) r0 e')).
      { induction es as [|e0 es IHe]; intros g1 e1 Hv1.
        - exists e1. reflexivity.
        - cbn [py_for fold_left]. unfold ibody at 1. nt_norm.
          destruct (snd e0) eqn:Ee.
          + destruct (py_dset_upd g1 (fst r0) (fst e0)) as [ws [H1 H2]].
            { rewrite Hv1. apply Hin. left. reflexivity. }
            rewrite H1, H2. apply IHe. rewrite verts_upd. exact Hv1.
          + apply IHe. exact Hv1. }
      destruct (Hin1 (snd r0) g e Hv) as [e' He']. rewrite He'.
      apply IH.
      + intros r1 Hr1. apply Hin. right. exact Hr1.
      + fold (rule_step g r0). rewrite verts_rule_step. exact Hv. }
  destruct (Hloop rules Hlhs (nts, rules) _ (0, []) (0, false) Hverts0) as [r' [e' H]].
  subst st0. rewrite H. reflexivity.
Qed.
