(** C05 / sum-product: the value of a rule whose nodes are a sub-list ("bag") of a global node
    numbering, as a sum over global assignments ([assts_over] of Model/SumProduct.v). *)
From Coq Require Import List Arith Bool PeanoNat Lia Permutation Ring Ring_theory.
Import ListNotations.
Require Import Fggs.Model.Semiring Fggs.Model.SCC Fggs.Model.SumProduct.
Require Import Fggs.Proofs.SCC_ntgraph Fggs.Proofs.BigSum Fggs.Proofs.SP_trees Fggs.Proofs.SP_nonrec
               Fggs.Proofs.SP_code Fggs.Proofs.SP_rename Fggs.Proofs.SP_main Fggs.Proofs.SP_unfold.

Lemma nth_map_in (f : nat -> nat) l k : k < length l -> nth k (map f l) 0 = f (nth k l 0).
Proof. intro H. rewrite (nth_indep _ 0 (f 0)) by (now rewrite map_length). apply map_nth. Qed.

Section Embed.
Context {R : Type} (o : sr_ops R).
Hypothesis Hr : sr_ring o.
Add Ring RingREm : (sr_is_srt o Hr).
Variable G : grammar.
Variable labels : list nat.          (* the node label of every global node *)
Let n := length labels.
Let sizes := map (dom G) labels.

Lemma sizes_nth v : v < n -> nth v sizes 0 = dom G (nth v labels 0).
Proof.
  intro H. unfold sizes. rewrite (nth_indep _ 0 (dom G 0)) by (now rewrite map_length). now rewrite map_nth.
Qed.
Lemma sizes_length : length sizes = n.
Proof. unfold sizes. now rewrite map_length. Qed.

(** the positional rule whose nodes are the global nodes [bag] (in that order) *)
Definition sub_rule (lhs : nat) (bag : list nat) (edges : list (nat * list nat)) (X : list nat) : rule :=
  {| r_lhs := lhs; r_nodes := map (fun v => nth v labels 0) bag;
     r_edges := map (fun ed => (fst ed, map (fun v => index_of v bag) (snd ed))) edges;
     r_ext := map (fun v => index_of v bag) X |}.

Definition minus (bag X : list nat) : list nat := filter (fun v => negb (mem X v)) bag.
Lemma minus_In bag X v : In v (minus bag X) <-> In v bag /\ ~ In v X.
Proof.
  unfold minus. rewrite filter_In, negb_true_iff. split; intros [H1 H2]; split; trivial.
  - intro H. apply mem_In in H. congruence.
  - destruct (mem X v) eqn:E; [apply mem_In in E; contradiction|reflexivity].
Qed.

Variables (bag : list nat).
Hypothesis NDb : NoDup bag.
Hypothesis Bn : forall v, In v bag -> v < n.

(** global assignment from a local one *)
Definition glob (a b : list nat) : list nat :=
  map (fun v => if mem bag v then nth (index_of v bag) b 0 else nth v a 0) (seq 0 n).
Lemma glob_length a b : length (glob a b) = n.
Proof. unfold glob. now rewrite map_length, seq_length. Qed.
Lemma glob_in a b v : In v bag -> nth v (glob a b) 0 = nth (index_of v bag) b 0.
Proof. intro H. unfold glob. rewrite nth_map_seq by (now apply Bn). now rewrite (proj2 (mem_In bag v) H). Qed.
Lemma glob_out a b v : v < n -> ~ In v bag -> nth v (glob a b) 0 = nth v a 0.
Proof.
  intros Hv H. unfold glob. rewrite nth_map_seq by exact Hv.
  destruct (mem bag v) eqn:E; [apply mem_In in E; contradiction|reflexivity].
Qed.

Lemma sel_glob a b l : incl l bag -> sel (glob a b) l = sel b (map (fun v => index_of v bag) l).
Proof.
  intro H. unfold sel. rewrite map_map. apply map_ext_in. intros v Hv. apply glob_in. now apply H.
Qed.

Lemma sub_sizes lhs edges X : node_sizes G (sub_rule lhs bag edges X) = map (fun v => nth v sizes 0) bag.
Proof.
  unfold node_sizes, sub_rule. cbn [r_nodes]. rewrite map_map. apply map_ext_in. intros v Hv.
  symmetry. apply sizes_nth. now apply Bn.
Qed.

Theorem embed (e : env (R:=R)) lhs edges X a :
  incl X bag -> (forall ed, In ed edges -> incl (snd ed) bag) -> In a (all_assts sizes) ->
  rule_val o G e (sub_rule lhs bag edges X) (sel a X)
  = sumS o (assts_over sizes (minus bag X) a) (fun a' => prodS o edges (fun ed => e (fst ed) (sel a' (snd ed)))).
Proof.
  intros HX HE Ha.
  pose proof (all_assts_length _ _ Ha) as La. rewrite sizes_length in La.
  unfold rule_val. rewrite sub_sizes. cbn [r_ext r_edges sub_rule].
  assert (Hvs : forall v, In v (minus bag X) -> v < length a).
  { intros v Hv. apply minus_In in Hv. rewrite La. apply Bn. tauto. }
  apply (sumS_bij o Hr (glob a)).
  - apply NoDup_filter, NoDup_all_assts.
  - apply NoDup_AO; [apply NoDup_filter; exact NDb|exact Hvs].
  - (* glob lands in the assignments that differ from a only inside bag \ X *)
    intros b Hb. apply filter_In in Hb. destruct Hb as [Hb Hs]. apply nat_list_eqb_iff in Hs.
    pose proof (all_assts_length _ _ Hb) as Lb. rewrite map_length in Lb.
    apply in_AO_bwd; trivial.
    + now rewrite glob_length.
    + intros u Hu. destruct (Nat.lt_ge_cases u n) as [Hun|Hun].
      2:{ rewrite !nth_overflow; trivial; [lia|rewrite glob_length; lia]. }
      destruct (in_dec Nat.eq_dec u bag) as [Hin|Hnin]; [|now apply glob_out].
      assert (HuX : In u X).
      { destruct (in_dec Nat.eq_dec u X) as [H|H]; trivial. exfalso. apply Hu. apply minus_In. tauto. }
      (* on X the local assignment agrees with a *)
      rewrite glob_in by exact Hin.
      assert (E : sel b (map (fun v => index_of v bag) X) = sel a X) by exact Hs.
      unfold sel in E. rewrite map_map in E.
      clear -E HuX. induction X as [|x X' IH]; [destruct HuX|]. cbn [map] in E. injection E as E1 E2.
      destruct HuX as [->|H]; [exact E1|now apply IH].
    + intros u Hu. apply minus_In in Hu. destruct Hu as [Hin _]. rewrite glob_in by exact Hin.
      pose proof (all_assts_nth _ _ (index_of u bag) Hb) as Hlt. rewrite map_length in Hlt.
      specialize (Hlt (index_of_lt _ _ Hin)).
      rewrite nth_map_in in Hlt by (now apply index_of_lt). now rewrite index_of_In_nth in Hlt.
  - (* injective *)
    intros b1 b2 H1 H2 E. apply filter_In in H1, H2. destruct H1 as [H1 _], H2 as [H2 _].
    pose proof (all_assts_length _ _ H1) as L1. pose proof (all_assts_length _ _ H2) as L2. rewrite map_length in L1, L2.
    apply nth_ext with (d := 0) (d' := 0); [congruence|]. intros k Hk. rewrite L1 in Hk.
    assert (Hin : In (nth k bag 0) bag) by now apply nth_In.
    pose proof (glob_in a b1 _ Hin) as G1. pose proof (glob_in a b2 _ Hin) as G2.
    rewrite (index_of_nth_NoDup _ NDb k Hk) in G1, G2. congruence.
  - (* surjective *)
    intros a' Ha'. apply in_AO_fwd in Ha'; [|exact Hvs]. destruct Ha' as (Ll & Ho & Hs).
    assert (Ain : forall v, v < n -> nth v a' 0 < nth v sizes 0).
    { intros v Hv. destruct (in_dec Nat.eq_dec v (minus bag X)) as [H|H]; [now apply Hs|].
      rewrite Ho by exact H. apply all_assts_nth; trivial. now rewrite sizes_length. }
    exists (sel a' bag). split.
    + apply filter_In. split.
      * apply all_assts_intro; [unfold sel; now rewrite !map_length|].
        intros k Hk. rewrite map_length in Hk.
        unfold sel. rewrite !nth_map_in by exact Hk. apply Ain. apply Bn. now apply nth_In.
      * apply nat_list_eqb_iff. unfold sel. rewrite map_map. apply map_ext_in. intros v Hv.
        rewrite nth_map_in by (apply index_of_lt; now apply HX). rewrite index_of_In_nth by (now apply HX).
        apply Ho. intro H. apply minus_In in H. tauto.
    + apply nth_ext with (d := 0) (d' := 0); [rewrite glob_length; congruence|].
      intros v Hv. rewrite glob_length in Hv.
      destruct (in_dec Nat.eq_dec v bag) as [Hin|Hnin].
      * rewrite glob_in by exact Hin. unfold sel.
        rewrite nth_map_in by (now apply index_of_lt). now rewrite index_of_In_nth.
      * rewrite glob_out by trivial. symmetry. apply Ho. intro H. apply minus_In in H. tauto.
  - intros b Hb. rewrite prodS_map. apply prodS_ext. intros ed Hed. cbn [fst snd]. f_equal. symmetry. apply sel_glob. now apply HE.
Qed.

End Embed.
