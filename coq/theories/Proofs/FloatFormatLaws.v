(** C08, float level, every IEEE-754 binary format: the semiring laws that survive rounding,
    proved for ALL values of [binary_float prec emax] (any [prec], [emax] with
    [0 < prec < emax]; binary32 and binary64 are instantiated at the end), and concrete
    witnesses for the laws that do NOT survive it.

    Method: the order of the format is embedded in the reals ([xR]: the infinities go to
    [+- 2^emax], which no finite value reaches), the rounded operations are characterised on
    finite operands by [xR (x op y) = clamp (round (x op y))] (Flocq's [Bplus_correct],
    [Bmult_correct]), and rounding and clamping are monotone. *)
From Coq Require Import ZArith Bool Reals Lra Lia.
From Flocq Require Import Core Plus_error.
Require Import Fggs.Model.FloatFormat.

Local Open Scope R_scope.

Section Laws.

Variable prec emax : Z.
Context (prec_gt_0_ : Prec_gt_0 prec).
Context (prec_lt_emax_ : SN.Prec_lt_emax prec emax).

Notation bf := (SN.binary_float prec emax).
Notation fexp := (SpecFloat.fexp prec emax).
Notation rnd := (round radix2 fexp ZnearestE).
Notation M := (bpow radix2 emax).

Local Instance fexp_valid : Valid_exp fexp := SN.fexp_correct prec emax prec_gt_0_.
Local Instance fexp_mono : Monotone_exp fexp := SN.fexp_monotone prec emax.

Notation zero := (ff_zero prec emax).
Notation nzero := (ff_nzero prec emax).
Notation inf := (ff_inf prec emax).
Notation ninf := (ff_ninf prec emax).
Notation one := (ff_one prec emax prec_gt_0_ prec_lt_emax_).
Notation add := (ff_add prec emax prec_gt_0_ prec_lt_emax_).
Notation mul := (ff_mul prec emax prec_gt_0_ prec_lt_emax_).
Notation ltb := (ff_ltb prec emax).
Notation leb := (ff_leb prec emax).
Notation fmax := (ff_max prec emax).
Notation real_mul := (ff_real_mul prec emax prec_gt_0_ prec_lt_emax_).
Notation vit_mul := (ff_vit_mul prec emax prec_gt_0_ prec_lt_emax_).
Notation vit_star := (ff_vit_star prec emax).
Notation nonneg := (ff_nonneg prec emax).

(* ------------------------------------------------------------------------- *)
(** * The order, embedded in the reals *)

Definition xR (x : bf) : R :=
  match x with
  | SN.B754_infinity false => M
  | SN.B754_infinity true => - M
  | _ => SN.B2R x
  end.

Lemma M_pos : 0 < M.
Proof. apply bpow_gt_0. Qed.

Lemma B2R_lt_M (x : bf) : - M < SN.B2R x < M.
Proof. generalize (SN.abs_B2R_lt_emax prec emax x). intros H. apply Rabs_lt_inv in H. lra. Qed.

Lemma xR_finite (x : bf) : SN.is_finite x = true -> xR x = SN.B2R x.
Proof. now destruct x as [s|s| |s m e H]. Qed.

Lemma xR_bounds (x : bf) : - M <= xR x <= M.
Proof.
  destruct x as [s|[|]| |s m e H]; cbn [xR]; try (generalize M_pos; lra);
    match goal with |- context [SN.B2R ?z] => generalize (B2R_lt_M z); lra end.
Qed.

Lemma Bcompare_xR (x y : bf) :
  SN.is_nan x = false -> SN.is_nan y = false ->
  SN.Bcompare x y = Some (Rcompare (xR x) (xR y)).
Proof.
  intros Nx Ny.
  destruct (SN.is_finite x) eqn:Fx, (SN.is_finite y) eqn:Fy.
  - rewrite !xR_finite by assumption. now apply SN.Bcompare_correct.
  - destruct y as [sy|[|]| |sy my ey Hy]; try discriminate;
      rewrite xR_finite by assumption; cbn [xR]; generalize (B2R_lt_M x); intros Hb;
      destruct x as [sx|sx| |sx mx ex Hx]; try discriminate; cbn -[SN.B2R]; f_equal; symmetry;
      solve [apply Rcompare_Gt; lra | apply Rcompare_Lt; lra].
  - destruct x as [sx|[|]| |sx mx ex Hx]; try discriminate;
      rewrite (xR_finite y) by assumption; cbn [xR]; generalize (B2R_lt_M y); intros Hb;
      destruct y as [sy|sy| |sy my ey Hy]; try discriminate; cbn -[SN.B2R]; f_equal; symmetry;
      solve [apply Rcompare_Gt; lra | apply Rcompare_Lt; lra].
  - generalize M_pos; intros HM.
    destruct x as [sx|[|]| |sx mx ex Hx], y as [sy|[|]| |sy my ey Hy]; try discriminate;
      cbn; f_equal; symmetry;
      solve [apply Rcompare_Eq; lra | apply Rcompare_Gt; lra | apply Rcompare_Lt; lra].
Qed.

Lemma ltb_xR (x y : bf) :
  SN.is_nan x = false -> SN.is_nan y = false -> ltb x y = Rlt_bool (xR x) (xR y).
Proof.
  intros Nx Ny. generalize (Bcompare_xR x y Nx Ny).
  unfold ff_ltb, SN.Bltb, SpecFloat.SFltb, SN.Bcompare. intros ->.
  case Rcompare_spec; intro H; case Rlt_bool_spec; intro H'; try reflexivity; lra.
Qed.

Lemma leb_xR (x y : bf) :
  SN.is_nan x = false -> SN.is_nan y = false -> leb x y = Rle_bool (xR x) (xR y).
Proof.
  intros Nx Ny. generalize (Bcompare_xR x y Nx Ny).
  unfold ff_leb, SN.Bleb, SpecFloat.SFleb, SN.Bcompare. intros ->.
  case Rcompare_spec; intro H; case Rle_bool_spec; intro H'; try reflexivity; lra.
Qed.

Lemma ltb_nan_l (y : bf) : ltb SN.B754_nan y = false.
Proof. reflexivity. Qed.
Lemma ltb_nan_r (x : bf) : ltb x SN.B754_nan = false.
Proof. now destruct x as [s|[|]| |[|] m e H]. Qed.
Lemma leb_nan_r (x : bf) : leb x SN.B754_nan = false.
Proof. now destruct x as [s|[|]| |[|] m e H]. Qed.

Lemma leb_true_not_nan (x y : bf) : leb x y = true -> SN.is_nan x = false /\ SN.is_nan y = false.
Proof.
  destruct x as [sx|sx| |sx mx ex Hx]; try discriminate;
    destruct y as [sy|sy| |sy my ey Hy]; try (now split); rewrite leb_nan_r; discriminate.
Qed.
Lemma ltb_true_not_nan (x y : bf) : ltb x y = true -> SN.is_nan x = false /\ SN.is_nan y = false.
Proof.
  destruct x as [sx|sx| |sx mx ex Hx]; try discriminate;
    destruct y as [sy|sy| |sy my ey Hy]; try (now split); rewrite ltb_nan_r; discriminate.
Qed.

Lemma leb_le (x y : bf) : leb x y = true <-> SN.is_nan x = false /\ SN.is_nan y = false /\ xR x <= xR y.
Proof.
  split.
  - intros H. destruct (leb_true_not_nan _ _ H) as [Nx Ny]. repeat split; trivial.
    rewrite leb_xR in H by assumption. revert H. case Rle_bool_spec; [trivial | discriminate].
  - intros (Nx & Ny & H). rewrite leb_xR by assumption. now apply Rle_bool_true.
Qed.

Lemma ltb_lt (x y : bf) : ltb x y = true <-> SN.is_nan x = false /\ SN.is_nan y = false /\ xR x < xR y.
Proof.
  split.
  - intros H. destruct (ltb_true_not_nan _ _ H) as [Nx Ny]. repeat split; trivial.
    rewrite ltb_xR in H by assumption. revert H. case Rlt_bool_spec; [trivial | discriminate].
  - intros (Nx & Ny & H). rewrite ltb_xR by assumption. now apply Rlt_bool_true.
Qed.

Lemma strict_B2R (x : bf) : SN.is_finite_strict x = true -> SN.B2R x <> 0.
Proof.
  intros H. generalize (SN.abs_B2R_ge_emin prec emax x H) (bpow_gt_0 radix2 (SpecFloat.emin prec emax)).
  intros H1 H2 E. rewrite E, Rabs_R0 in H1. lra.
Qed.

(** two non-NaN values with the same image are equal, except for the two zeros *)
Lemma xR_inj (x y : bf) :
  SN.is_nan x = false -> SN.is_nan y = false -> xR x = xR y ->
  x = y \/ (ff_is_zero prec emax x = true /\ ff_is_zero prec emax y = true).
Proof.
  intros Nx Ny E.
  destruct (SN.is_finite_strict x) eqn:Sx, (SN.is_finite_strict y) eqn:Sy.
  - left. apply SN.B2R_inj; trivial.
    rewrite <- !xR_finite; trivial; [now destruct y | now destruct x].
  - assert (Fx : xR x = SN.B2R x) by (apply xR_finite; now destruct x).
    generalize (strict_B2R x Sx) (B2R_lt_M x). rewrite Fx in E. revert E.
    generalize (SN.B2R x). intros r E Hr Hb.
    destruct y as [sy|[|]| |sy my ey Hy]; try discriminate; cbn in E; lra.
  - assert (Fy : xR y = SN.B2R y) by (apply xR_finite; now destruct y).
    generalize (strict_B2R y Sy) (B2R_lt_M y). rewrite Fy in E. revert E.
    generalize (SN.B2R y). intros r E Hr Hb.
    destruct x as [sx|[|]| |sx mx ex Hx]; try discriminate; cbn in E; lra.
  - generalize M_pos; intros HM.
    destruct x as [sx|[|]| |sx mx ex Hx]; try discriminate;
      destruct y as [sy|[|]| |sy my ey Hy]; try discriminate; cbn [xR SN.B2R] in E;
      try lra; try (left; reflexivity); right; split; reflexivity.
Qed.

(* ------------------------------------------------------------------------- *)
(** * Laws that need no rounding argument *)

Theorem ff_add_comm (x y : bf) : add x y = add y x.
Proof.
  unfold ff_add, SN.Bplus.
  destruct x as [sx|sx| |sx mx ex Hx], y as [sy|sy| |sy my ey Hy]; try reflexivity.
  - destruct sx, sy; reflexivity.
  - destruct sx, sy; reflexivity.
  - rewrite (Z.min_comm ey ex). unfold SN.Fplus_naive. now rewrite Z.add_comm.
Qed.

Theorem ff_mul_comm (x y : bf) : mul x y = mul y x.
Proof.
  unfold ff_mul, SN.Bmult.
  destruct x as [sx|sx| |sx mx ex Hx], y as [sy|sy| |sy my ey Hy]; try reflexivity;
    try (now rewrite xorb_comm).
  apply SN.B2SF_inj. rewrite !SN.B2SF_SF2B.
  now rewrite xorb_comm, Pos.mul_comm, Z.add_comm.
Qed.

Corollary ff_real_mul_comm (x y : bf) : real_mul x y = real_mul y x.
Proof. unfold ff_real_mul. now rewrite ff_mul_comm. Qed.
Corollary ff_vit_mul_comm (x y : bf) : vit_mul x y = vit_mul y x.
Proof. unfold ff_vit_mul. now rewrite ff_add_comm. Qed.

(** zero annihilates RealSemiring.mul, [0 * inf] and [0 * nan] included: the result is a zero
    for EVERY x, and it is +0 whenever x carries no minus sign *)
Theorem ff_real_mul_zero_is_zero (x : bf) :
  ff_is_zero prec emax (real_mul zero x) = true /\ ff_is_zero prec emax (real_mul x zero) = true.
Proof. now destruct x as [sx|[|]| |sx mx ex Hx]. Qed.

Theorem ff_real_mul_zero (x : bf) :
  SN.Bsign x = false -> real_mul zero x = zero /\ real_mul x zero = zero.
Proof. destruct x as [sx|[|]| |sx mx ex Hx]; cbn; intros H; try discriminate; subst; now split. Qed.

Corollary ff_real_mul_zero_inf : real_mul zero inf = zero /\ real_mul inf zero = zero.
Proof. now split. Qed.

(** -inf annihilates ViterbiSemiring.mul / LogSemiring.mul for EVERY x, [+inf] and NaN included *)
Theorem ff_vit_mul_ninf (x : bf) : vit_mul ninf x = ninf /\ vit_mul x ninf = ninf.
Proof. now destruct x as [sx|[|]| |sx mx ex Hx]. Qed.

(** additive identities *)
Theorem ff_add_zero (x : bf) : x <> nzero -> add x zero = x /\ add zero x = x.
Proof.
  destruct x as [[|]|sx| |sx mx ex Hx]; intros H; now split.
Qed.
Lemma ff_add_zero_nzero : add nzero zero = zero /\ add zero nzero = zero.
Proof. now split. Qed.

Theorem ff_vit_mul_one (x : bf) :
  SN.is_nan x = false -> x <> nzero ->
  vit_mul x (ff_vit_one prec emax) = x /\ vit_mul (ff_vit_one prec emax) x = x.
Proof.
  destruct x as [[|]|[|]| |sx mx ex Hx]; intros N H; try discriminate; now split.
Qed.

(** ** maximum *)
Theorem ff_max_idem (x : bf) : fmax x x = x.
Proof.
  unfold ff_max. destruct (SN.is_nan x) eqn:N; trivial.
  now destruct (ltb x x).
Qed.

Theorem ff_max_ninf (x : bf) : fmax ninf x = x /\ fmax x ninf = x.
Proof.
  split.
  - destruct x as [sx|[|]| |sx mx ex Hx]; reflexivity.
  - destruct x as [sx|[|]| |[|] mx ex Hx]; reflexivity.
Qed.

Lemma ff_max_not_nan (x y : bf) :
  SN.is_nan x = false -> SN.is_nan y = false -> fmax x y = if ltb x y then y else x.
Proof. unfold ff_max. now intros -> ->. Qed.

Lemma ff_max_is_nan (x y : bf) : SN.is_nan (fmax x y) = SN.is_nan x || SN.is_nan y.
Proof.
  unfold ff_max. destruct (SN.is_nan x) eqn:Nx; trivial. destruct (SN.is_nan y) eqn:Ny; trivial.
  now destruct (ltb x y).
Qed.

Theorem ff_max_assoc (x y z : bf) : fmax (fmax x y) z = fmax x (fmax y z).
Proof.
  destruct (SN.is_nan x) eqn:Nx.
  { destruct x; try discriminate. reflexivity. }
  assert (E1 : forall w : bf, SN.is_nan w = false -> fmax w SN.B754_nan = SN.B754_nan)
    by (intros w Hw; unfold ff_max; now rewrite Hw).
  destruct (SN.is_nan y) eqn:Ny.
  { destruct y; try discriminate. rewrite (E1 x Nx).
    change (fmax SN.B754_nan z) with (SN.B754_nan : bf). now rewrite E1. }
  destruct (SN.is_nan z) eqn:Nz.
  { destruct z; try discriminate. rewrite (E1 y Ny), (E1 x Nx). apply E1.
    now rewrite ff_max_is_nan, Nx, Ny. }
  rewrite (ff_max_not_nan x y), (ff_max_not_nan y z) by assumption.
  destruct (ltb x y) eqn:Lxy, (ltb y z) eqn:Lyz; rewrite !ff_max_not_nan by assumption;
    rewrite ?Lxy, ?Lyz; trivial.
  - apply ltb_lt in Lxy, Lyz. destruct Lxy as (_ & _ & Lxy), Lyz as (_ & _ & Lyz).
    assert (H : ltb x z = true) by (apply ltb_lt; repeat split; trivial; lra). now rewrite H.
  - destruct (ltb x z) eqn:Lxz; trivial.
    rewrite ltb_xR in Lxy, Lyz, Lxz by assumption.
    revert Lxy Lyz Lxz. repeat case Rlt_bool_spec; intros; try discriminate; lra.
Qed.

(** commutative up to the sign of zero: [maximum(+0,-0)] and [maximum(-0,+0)] differ *)
Theorem ff_max_comm (x y : bf) :
  fmax x y = fmax y x \/ (ff_is_zero prec emax x = true /\ ff_is_zero prec emax y = true).
Proof.
  destruct (SN.is_nan x) eqn:Nx.
  { left. destruct x; try discriminate. unfold ff_max. now destruct y. }
  destruct (SN.is_nan y) eqn:Ny.
  { left. destruct y; try discriminate. unfold ff_max. cbn. now rewrite Nx. }
  rewrite !ff_max_not_nan by assumption.
  rewrite !ltb_xR by assumption.
  repeat case Rlt_bool_spec; intros H1 H2; auto; try lra.
  destruct (xR_inj x y Nx Ny) as [E|E]; [lra | left; now rewrite E | now right].
Qed.

Corollary ff_max_comm_same (x y : bf) : ff_same_mod_zero prec emax (fmax x y) (fmax y x) = true.
Proof.
  assert (R : forall z : bf, ff_same prec emax z z = true).
  { intros [s|s| |s m e H]; cbn; trivial; try (now destruct s).
    now rewrite eqb_reflx, Pos.eqb_refl, Z.eqb_refl. }
  unfold ff_same_mod_zero.
  destruct (ff_max_comm x y) as [E|[Zx Zy]].
  - now rewrite E, R.
  - destruct x as [sx|sx| |sx mx ex Hx]; try discriminate.
    destruct y as [sy|sy| |sy my ey Hy]; try discriminate.
    destruct sx, sy; reflexivity.
Qed.

(** ViterbiSemiring.star is the unfolding  star x = one [+] x [.] star x,  for EVERY x (NaN included) *)
Theorem ff_vit_star_unfold (x : bf) :
  vit_star x = fmax (ff_vit_one prec emax) (vit_mul x (vit_star x)).
Proof.
  destruct x as [sx|[|]| |[|] mx ex Hx]; try reflexivity.
  destruct sx; reflexivity.
Qed.

(* ------------------------------------------------------------------------- *)
(** * The rounded operations on finite operands *)

Definition clamp (r : R) : R := Rmax (- M) (Rmin M r).

Lemma clamp_le a b : a <= b -> clamp a <= clamp b.
Proof. unfold clamp, Rmax, Rmin. repeat destruct Rle_dec; lra. Qed.
Lemma clamp_id r : Rabs r < M -> clamp r = r.
Proof. intros H. apply Rabs_lt_inv in H. unfold clamp, Rmax, Rmin. repeat destruct Rle_dec; lra. Qed.
Lemma clamp_hi r : M <= r -> clamp r = M.
Proof. generalize M_pos. unfold clamp, Rmax, Rmin. repeat destruct Rle_dec; lra. Qed.
Lemma clamp_lo r : r <= - M -> clamp r = - M.
Proof. generalize M_pos. unfold clamp, Rmax, Rmin. repeat destruct Rle_dec; lra. Qed.
Lemma clamp_nonneg r : 0 <= r -> 0 <= clamp r.
Proof. generalize M_pos. unfold clamp, Rmax, Rmin. repeat destruct Rle_dec; lra. Qed.
Lemma clamp_eq_0 r : clamp r = 0 -> r = 0.
Proof. generalize M_pos. unfold clamp, Rmax, Rmin. repeat destruct Rle_dec; lra. Qed.

Lemma rnd_le a b : a <= b -> rnd a <= rnd b.
Proof. apply round_le; auto with typeclass_instances. Qed.
Lemma rnd_0 : rnd 0 = 0.
Proof. apply round_0; auto with typeclass_instances. Qed.
Lemma rnd_B2R (x : bf) : rnd (SN.B2R x) = SN.B2R x.
Proof. apply round_generic; auto with typeclass_instances. apply SN.generic_format_B2R. Qed.

Lemma sign_B2R (x : bf) :
  (SN.Bsign x = false -> 0 <= SN.B2R x) /\ (SN.Bsign x = true -> SN.B2R x <= 0).
Proof.
  destruct x as [s|s| |s m e H]; cbn [SN.Bsign SN.B2R]; split; intros E; try lra; subst.
  - apply F2R_ge_0. cbn. lia.
  - apply F2R_le_0. cbn. lia.
Qed.

Lemma finite_not_nan (x : bf) : SN.is_finite x = true -> SN.is_nan x = false.
Proof. now destruct x. Qed.

Lemma overflow_is_inf (z : bf) s : SN.B2SF z = SN.binary_overflow prec emax mode_NE s -> z = SN.B754_infinity s.
Proof. intros E. apply SN.B2SF_inj. exact E. Qed.

Lemma add_finite (x y : bf) :
  SN.is_finite x = true -> SN.is_finite y = true ->
  SN.is_nan (add x y) = false /\ xR (add x y) = clamp (rnd (SN.B2R x + SN.B2R y)).
Proof.
  intros Fx Fy. generalize (SN.Bplus_correct prec emax _ _ mode_NE x y Fx Fy).
  unfold ff_add. cbn [SN.round_mode].
  case Rlt_bool_spec; intros Hlt.
  - intros (E & F & _). split. { now apply finite_not_nan. }
    rewrite xR_finite, E by assumption. symmetry. now apply clamp_id.
  - intros (E & S). apply overflow_is_inf in E. rewrite E. split; trivial.
    destruct (sign_B2R x) as [Px Nx], (sign_B2R y) as [Py Ny]. rewrite <- S in Py, Ny.
    destruct (SN.Bsign x); cbn [xR]; symmetry.
    + apply clamp_lo. specialize (Nx eq_refl). specialize (Ny eq_refl).
      assert (H : rnd (SN.B2R x + SN.B2R y) <= 0) by (rewrite <- rnd_0; apply rnd_le; lra).
      rewrite Rabs_left1 in Hlt by assumption. lra.
    + apply clamp_hi. specialize (Px eq_refl). specialize (Py eq_refl).
      assert (H : 0 <= rnd (SN.B2R x + SN.B2R y)) by (rewrite <- rnd_0; apply rnd_le; lra).
      rewrite Rabs_pos_eq in Hlt by assumption. lra.
Qed.

Lemma mul_finite (x y : bf) :
  SN.is_finite x = true -> SN.is_finite y = true ->
  SN.is_nan (mul x y) = false /\ xR (mul x y) = clamp (rnd (SN.B2R x * SN.B2R y)).
Proof.
  intros Fx Fy. generalize (SN.Bmult_correct prec emax _ _ mode_NE x y).
  unfold ff_mul. cbn [SN.round_mode].
  case Rlt_bool_spec; intros Hlt.
  - rewrite Fx, Fy. intros (E & F & _). split. { now apply finite_not_nan. }
    rewrite xR_finite, E by assumption. symmetry. now apply clamp_id.
  - intros E. apply overflow_is_inf in E. rewrite E. split; trivial.
    destruct (sign_B2R x) as [Px Nx], (sign_B2R y) as [Py Ny].
    destruct (SN.Bsign x), (SN.Bsign y); cbn [xorb xR]; symmetry.
    + apply clamp_hi. specialize (Nx eq_refl). specialize (Ny eq_refl).
      assert (H : 0 <= rnd (SN.B2R x * SN.B2R y)) by (rewrite <- rnd_0; apply rnd_le; nra).
      rewrite Rabs_pos_eq in Hlt by assumption. lra.
    + apply clamp_lo. specialize (Nx eq_refl). specialize (Py eq_refl).
      assert (H : rnd (SN.B2R x * SN.B2R y) <= 0) by (rewrite <- rnd_0; apply rnd_le; nra).
      rewrite Rabs_left1 in Hlt by assumption. lra.
    + apply clamp_lo. specialize (Px eq_refl). specialize (Ny eq_refl).
      assert (H : rnd (SN.B2R x * SN.B2R y) <= 0) by (rewrite <- rnd_0; apply rnd_le; nra).
      rewrite Rabs_left1 in Hlt by assumption. lra.
    + apply clamp_hi. specialize (Px eq_refl). specialize (Py eq_refl).
      assert (H : 0 <= rnd (SN.B2R x * SN.B2R y)) by (rewrite <- rnd_0; apply rnd_le; nra).
      rewrite Rabs_pos_eq in Hlt by assumption. lra.
Qed.

(* ------------------------------------------------------------------------- *)
(** * Multiplicative identity: rounding a representable value is the identity *)

Lemma one_shape : exists m e H, one = SN.B754_finite false m e H.
Proof.
  generalize (@SN.is_finite_strict_Bone prec emax prec_gt_0_ prec_lt_emax_)
             (@SN.Bsign_Bone prec emax prec_gt_0_ prec_lt_emax_).
  unfold ff_one. destruct (@SN.Bone prec emax prec_gt_0_ prec_lt_emax_) as [s|s| |s m e H]; try discriminate.
  cbn. intros _ ->. now exists m, e, H.
Qed.

Theorem ff_mul_one (x : bf) : mul x one = x /\ mul one x = x.
Proof.
  assert (A : mul x one = x).
  { destruct (SN.is_finite x) eqn:Fx.
    - generalize (SN.Bmult_correct prec emax _ _ mode_NE x one).
      unfold ff_mul, ff_one. rewrite SN.Bone_correct, Rmult_1_r. cbn [SN.round_mode].
      rewrite rnd_B2R, Rlt_bool_true by apply SN.abs_B2R_lt_emax.
      rewrite Fx, SN.is_finite_Bone, SN.Bsign_Bone, xorb_false_r.
      intros (E & F & S). apply SN.B2R_Bsign_inj; trivial. apply S. now apply finite_not_nan.
    - destruct one_shape as (m & e & H & ->).
      destruct x as [sx|sx| |sx mx ex Hx]; try discriminate; cbn; trivial. now rewrite xorb_false_r. }
  split; trivial. now rewrite ff_mul_comm.
Qed.

Lemma nan_to_num_real_id (x : bf) :
  SN.is_nan x = false -> x <> ninf -> ff_nan_to_num prec emax x zero inf (ff_lowest prec emax prec_gt_0_ prec_lt_emax_) = x.
Proof. destruct x as [s|[|]| |s m e H]; intros N Hn; try discriminate; trivial. now elim Hn. Qed.

Lemma nan_to_num_vit_id (x : bf) :
  SN.is_nan x = false -> ff_nan_to_num prec emax x ninf inf ninf = x.
Proof. destruct x as [s|[|]| |s m e H]; intros N; try discriminate; trivial. Qed.

Theorem ff_real_mul_one (x : bf) :
  SN.is_nan x = false -> x <> ninf -> real_mul x one = x /\ real_mul one x = x.
Proof.
  intros N Hn. unfold ff_real_mul. destruct (ff_mul_one x) as [-> ->].
  split; now apply nan_to_num_real_id.
Qed.

(* ------------------------------------------------------------------------- *)
(** * Monotonicity (rounding is monotone) *)

Lemma leb_inf_r (x : bf) : SN.is_nan x = false -> leb x inf = true.
Proof. destruct x as [s|[|]| |[|] m e H]; intros N; try discriminate; reflexivity. Qed.
Lemma leb_ninf_l (x : bf) : SN.is_nan x = false -> leb ninf x = true.
Proof. destruct x as [s|[|]| |[|] m e H]; intros N; try discriminate; reflexivity. Qed.
Lemma real_mul_not_nan (a c : bf) : SN.is_nan (real_mul a c) = false.
Proof. unfold ff_real_mul. destruct (mul a c) as [s|[|]| |s m e H]; reflexivity. Qed.
Lemma vit_mul_not_nan (a c : bf) : SN.is_nan (vit_mul a c) = false.
Proof. unfold ff_vit_mul. destruct (add a c) as [s|[|]| |s m e H]; reflexivity. Qed.

(** RealSemiring.add on the carrier [0, +inf] *)
Theorem ff_add_mono (a b c : bf) :
  nonneg a = true -> nonneg c = true -> leb a b = true -> leb (add a c) (add b c) = true.
Proof.
  intros Pa Pc Lab.
  destruct (SN.is_finite a) eqn:Fa; [destruct (SN.is_finite b) eqn:Fb; [destruct (SN.is_finite c) eqn:Fc|]|].
  1: { apply leb_le in Lab. destruct Lab as (_ & _ & Lab). rewrite !xR_finite in Lab by assumption.
       destruct (add_finite a c Fa Fc) as [N1 E1], (add_finite b c Fb Fc) as [N2 E2].
       apply leb_le. repeat split; trivial. rewrite E1, E2. apply clamp_le, rnd_le. lra. }
  all: destruct a as [[|]|[|]| |[|] ma ea Ha], b as [[|]|[|]| |[|] mb eb Hb], c as [[|]|[|]| |[|] mc ec Hc];
    try discriminate; try reflexivity;
    apply leb_inf_r; apply add_finite; reflexivity.
Qed.

Lemma mul_nonneg_xR (a c : bf) :
  SN.is_finite a = true -> SN.is_finite c = true -> 0 <= SN.B2R a -> 0 <= SN.B2R c ->
  real_mul a c = mul a c /\ SN.is_nan (mul a c) = false /\ xR (mul a c) = clamp (rnd (SN.B2R a * SN.B2R c)).
Proof.
  intros Fa Fc Pa Pc. destruct (mul_finite a c Fa Fc) as [N E]. repeat split; trivial.
  unfold ff_real_mul. apply nan_to_num_real_id; trivial. intros Hn. rewrite Hn in E. cbn [xR ff_ninf] in E.
  assert (H : 0 <= clamp (rnd (SN.B2R a * SN.B2R c))).
  { apply clamp_nonneg. rewrite <- rnd_0. apply rnd_le. nra. }
  generalize M_pos. lra.
Qed.

(** RealSemiring.mul on the carrier [0, +inf], [0 * inf = 0] included *)
Theorem ff_real_mul_mono (a b c : bf) :
  nonneg a = true -> nonneg c = true -> leb a b = true -> leb (real_mul a c) (real_mul b c) = true.
Proof.
  intros Pa Pc Lab.
  destruct (SN.is_finite a) eqn:Fa; [destruct (SN.is_finite b) eqn:Fb; [destruct (SN.is_finite c) eqn:Fc|]|].
  1: { apply leb_le in Lab, Pa, Pc. destruct Lab as (_ & _ & Lab), Pa as (_ & _ & Pa), Pc as (_ & _ & Pc).
       rewrite !xR_finite in Lab, Pa, Pc by (assumption || reflexivity). cbn [SN.B2R ff_zero] in Pa, Pc.
       destruct (mul_nonneg_xR a c) as (-> & N1 & E1); trivial.
       destruct (mul_nonneg_xR b c) as (-> & N2 & E2); trivial; try lra.
       apply leb_le. repeat split; trivial. rewrite E1, E2. apply clamp_le, rnd_le.
       now apply Rmult_le_compat_r. }
  all: destruct a as [[|]|[|]| |[|] ma ea Ha], b as [[|]|[|]| |[|] mb eb Hb], c as [[|]|[|]| |[|] mc ec Hc];
    try discriminate; try reflexivity;
    apply leb_inf_r, real_mul_not_nan.
Qed.

(** ViterbiSemiring.mul / LogSemiring.mul on the whole format *)
Theorem ff_vit_mul_mono (a b c : bf) :
  leb a b = true -> leb (vit_mul a c) (vit_mul b c) = true.
Proof.
  intros Lab.
  destruct (SN.is_finite a) eqn:Fa; [destruct (SN.is_finite b) eqn:Fb; [destruct (SN.is_finite c) eqn:Fc|]|].
  1: { apply leb_le in Lab. destruct Lab as (_ & _ & Lab). rewrite !xR_finite in Lab by assumption.
       destruct (add_finite a c Fa Fc) as [N1 E1], (add_finite b c Fb Fc) as [N2 E2].
       unfold ff_vit_mul. rewrite !nan_to_num_vit_id by assumption.
       apply leb_le. repeat split; trivial. rewrite E1, E2. apply clamp_le, rnd_le. lra. }
  all: destruct a as [[|]|[|]| |[|] ma ea Ha], b as [[|]|[|]| |[|] mb eb Hb], c as [[|]|[|]| |[|] mc ec Hc];
    try discriminate; try reflexivity;
    solve [apply leb_inf_r, vit_mul_not_nan | apply leb_ninf_l, vit_mul_not_nan].
Qed.

(* ------------------------------------------------------------------------- *)
(** * Viterbi: the rounded addition distributes over maximum EXACTLY *)

Lemma vit_mul_zero_inv (a c : bf) :
  ff_is_zero prec emax (vit_mul a c) = true ->
  SN.is_finite a = true /\ SN.is_finite c = true /\ SN.B2R a + SN.B2R c = 0.
Proof.
  intros Z.
  destruct (SN.is_finite a) eqn:Fa; [destruct (SN.is_finite c) eqn:Fc|].
  - repeat split. destruct (add_finite a c Fa Fc) as [N E].
    unfold ff_vit_mul in Z. rewrite nan_to_num_vit_id in Z by assumption.
    destruct (add a c) as [s|s| |s m e H]; try discriminate.
    cbn [xR SN.B2R] in E. symmetry in E. apply clamp_eq_0 in E.
    apply round_plus_eq_0 in E; auto with typeclass_instances; apply SN.generic_format_B2R.
  - exfalso. destruct a as [[|]|[|]| |[|] ma ea Ha], c as [[|]|[|]| |[|] mc ec Hc]; discriminate.
  - exfalso. destruct a as [[|]|[|]| |[|] ma ea Ha], c as [[|]|[|]| |[|] mc ec Hc]; discriminate.
Qed.

Theorem ff_vit_mul_max_distr (a b c : bf) :
  SN.is_nan a = false -> SN.is_nan b = false ->
  vit_mul (fmax a b) c = fmax (vit_mul a c) (vit_mul b c).
Proof.
  intros Na Nb. rewrite ff_max_not_nan by assumption.
  rewrite (ff_max_not_nan (vit_mul a c) (vit_mul b c)) by apply vit_mul_not_nan.
  destruct (ltb a b) eqn:Lab.
  - assert (Lle : leb a b = true).
    { apply leb_le. apply ltb_lt in Lab. destruct Lab as (? & ? & ?). repeat split; trivial. lra. }
    generalize (ff_vit_mul_mono a b c Lle). intros Mo.
    destruct (ltb (vit_mul a c) (vit_mul b c)) eqn:Lf; trivial.
    apply leb_le in Mo. destruct Mo as (N1 & N2 & Mo).
    rewrite ltb_xR in Lf by assumption. revert Lf. case Rlt_bool_spec; try discriminate. intros Ge _.
    destruct (xR_inj (vit_mul a c) (vit_mul b c) N1 N2) as [E|[Z1 Z2]]; [lra | now symmetry | ].
    exfalso. apply vit_mul_zero_inv in Z1, Z2. destruct Z1 as (Fa & Fc & S1), Z2 as (Fb & _ & S2).
    apply ltb_lt in Lab. destruct Lab as (_ & _ & Lab). rewrite !xR_finite in Lab by assumption. lra.
  - assert (Lle : leb b a = true).
    { apply leb_le. repeat split; trivial. rewrite ltb_xR in Lab by assumption.
      revert Lab. case Rlt_bool_spec; try discriminate. intros; lra. }
    generalize (ff_vit_mul_mono b a c Lle). intros Mo. apply leb_le in Mo. destruct Mo as (N1 & N2 & Mo).
    rewrite ltb_xR by assumption. now rewrite Rlt_bool_false.
Qed.

(** the same on the other side *)
Corollary ff_vit_mul_max_distr_l (a b c : bf) :
  SN.is_nan a = false -> SN.is_nan b = false ->
  vit_mul c (fmax a b) = fmax (vit_mul c a) (vit_mul c b).
Proof. intros Na Nb. rewrite !(ff_vit_mul_comm c). now apply ff_vit_mul_max_distr. Qed.

End Laws.
