(** C08, float level, every IEEE-754 binary format: the semiring laws that survive rounding,
    proved for ALL values of [binary_float prec emax] (any [prec], [emax] with
    [0 < prec < emax]; binary32 and binary64 are instantiated at the end), and concrete
    witnesses for the laws that do NOT survive it.

    Method: the order of the format is embedded in the reals ([xR]: the infinities go to
    [+- 2^emax], which no finite value reaches), the rounded operations are characterised on
    finite operands by [xR (x op y) = clamp (round (x op y))] (Flocq's [Bplus_correct],
    [Bmult_correct]), and rounding and clamping are monotone. *)
From Coq Require Import ZArith Bool Reals Lra Lia.
From Flocq Require Import Core Plus_error.
Require Import Fggs.Model.FloatFormat.

Local Open Scope R_scope.

Section Laws.

Variable prec emax : Z.
Context (prec_gt_0_ : Prec_gt_0 prec).
Context (prec_lt_emax_ : SN.Prec_lt_emax prec emax).

Notation bf := (SN.binary_float prec emax).
Notation fexp := (SpecFloat.fexp prec emax).
Notation rnd := (round radix2 fexp ZnearestE).
Notation M := (bpow radix2 emax).

Local Instance fexp_valid : Valid_exp fexp := SN.fexp_correct prec emax prec_gt_0_.
Local Instance fexp_mono : Monotone_exp fexp := SN.fexp_monotone prec emax.

Notation zero := (ff_zero prec emax).
Notation nzero := (ff_nzero prec emax).
Notation inf := (ff_inf prec emax).
Notation ninf := (ff_ninf prec emax).
Notation one := (ff_one prec emax prec_gt_0_ prec_lt_emax_).
Notation add := (ff_add prec emax prec_gt_0_ prec_lt_emax_).
Notation mul := (ff_mul prec emax prec_gt_0_ prec_lt_emax_).
Notation ltb := (ff_ltb prec emax).
Notation leb := (ff_leb prec emax).
Notation fmax := (ff_max prec emax).
Notation real_mul := (ff_real_mul prec emax prec_gt_0_ prec_lt_emax_).
Notation vit_mul := (ff_vit_mul prec emax prec_gt_0_ prec_lt_emax_).
Notation vit_star := (ff_vit_star prec emax).
Notation nonneg := (ff_nonneg prec emax).

(* ------------------------------------------------------------------------- *)
(** * The order, embedded in the reals *)

Definition xR (x : bf) : R :=
  match x with
  | SN.B754_infinity false => M
  | SN.B754_infinity true => - M
  | _ => SN.B2R x
  end.

Lemma M_pos : 0 < M.
Proof. apply bpow_gt_0. Qed.

Lemma B2R_lt_M (x : bf) : - M < SN.B2R x < M.
Proof. generalize (SN.abs_B2R_lt_emax prec emax x). intros H. apply Rabs_lt_inv in H. lra. Qed.

Lemma xR_finite (x : bf) : SN.is_finite x = true -> xR x = SN.B2R x.
Proof. now destruct x as [s|s| |s m e H]. Qed.

Lemma xR_bounds (x : bf) : - M <= xR x <= M.
Proof.
  destruct x as [s|[|]| |s m e H]; cbn [xR]; try (generalize M_pos; lra);
    match goal with |- context [SN.B2R ?z] => generalize (B2R_lt_M z); lra end.
Qed.

Lemma Bcompare_xR (x y : bf) :
  SN.is_nan x = false -> SN.is_nan y = false ->
  SN.Bcompare x y = Some (Rcompare (xR x) (xR y)).
Proof.
  intros Nx Ny.
  destruct (SN.is_finite x) eqn:Fx, (SN.is_finite y) eqn:Fy.
  - rewrite !xR_finite by assumption. now apply SN.Bcompare_correct.
  - destruct y as [sy|[|]| |sy my ey Hy]; try discriminate;
      rewrite xR_finite by assumption; cbn [xR]; generalize (B2R_lt_M x); intros Hb;
      destruct x as [sx|sx| |sx mx ex Hx]; try discriminate; cbn -[SN.B2R]; f_equal; symmetry;
      solve [apply Rcompare_Gt; lra | apply Rcompare_Lt; lra].
  - destruct x as [sx|[|]| |sx mx ex Hx]; try discriminate;
      rewrite (xR_finite y) by assumption; cbn [xR]; generalize (B2R_lt_M y); intros Hb;
      destruct y as [sy|sy| |sy my ey Hy]; try discriminate; cbn -[SN.B2R]; f_equal; symmetry;
      solve [apply Rcompare_Gt; lra | apply Rcompare_Lt; lra].
  - generalize M_pos; intros HM.
    destruct x as [sx|[|]| |sx mx ex Hx], y as [sy|[|]| |sy my ey Hy]; try discriminate;
      cbn; f_equal; symmetry;
      solve [apply Rcompare_Eq; lra | apply Rcompare_Gt; lra | apply Rcompare_Lt; lra].
Qed.

Lemma ltb_xR (x y : bf) :
  SN.is_nan x = false -> SN.is_nan y = false -> ltb x y = Rlt_bool (xR x) (xR y).
Proof.
  intros Nx Ny. generalize (Bcompare_xR x y Nx Ny).
  unfold ff_ltb, SN.Bltb, SpecFloat.SFltb, SN.Bcompare. intros ->.
  case Rcompare_spec; intro H; case Rlt_bool_spec; intro H'; try reflexivity; lra.
Qed.

Lemma leb_xR (x y : bf) :
  SN.is_nan x = false -> SN.is_nan y = false -> leb x y = Rle_bool (xR x) (xR y).
Proof.
  intros Nx Ny. generalize (Bcompare_xR x y Nx Ny).
  unfold ff_leb, SN.Bleb, SpecFloat.SFleb, SN.Bcompare. intros ->.
  case Rcompare_spec; intro H; case Rle_bool_spec; intro H'; try reflexivity; lra.
Qed.

Lemma ltb_nan_l (y : bf) : ltb SN.B754_nan y = false.
Proof. reflexivity. Qed.
Lemma ltb_nan_r (x : bf) : ltb x SN.B754_nan = false.
Proof. now destruct x as [s|[|]| |[|] m e H]. Qed.
Lemma leb_nan_r (x : bf) : leb x SN.B754_nan = false.
Proof. now destruct x as [s|[|]| |[|] m e H]. Qed.

Lemma leb_true_not_nan (x y : bf) : leb x y = true -> SN.is_nan x = false /\ SN.is_nan y = false.
Proof.
  destruct x as [sx|sx| |sx mx ex Hx]; try discriminate;
    destruct y as [sy|sy| |sy my ey Hy]; try (now split); rewrite leb_nan_r; discriminate.
Qed.
Lemma ltb_true_not_nan (x y : bf) : ltb x y = true -> SN.is_nan x = false /\ SN.is_nan y = false.
Proof.
  destruct x as [sx|sx| |sx mx ex Hx]; try discriminate;
    destruct y as [sy|sy| |sy my ey Hy]; try (now split); rewrite ltb_nan_r; discriminate.
Qed.

Lemma leb_le (x y : bf) : leb x y = true <-> SN.is_nan x = false /\ SN.is_nan y = false /\ xR x <= xR y.
Proof.
  split.
  - intros H. destruct (leb_true_not_nan _ _ H) as [Nx Ny]. repeat split; trivial.
    rewrite leb_xR in H by assumption. revert H. case Rle_bool_spec; [trivial | discriminate].
  - intros (Nx & Ny & H). rewrite leb_xR by assumption. now apply Rle_bool_true.
Qed.

Lemma ltb_lt (x y : bf) : ltb x y = true <-> SN.is_nan x = false /\ SN.is_nan y = false /\ xR x < xR y.
Proof.
  split.
  - intros H. destruct (ltb_true_not_nan _ _ H) as [Nx Ny]. repeat split; trivial.
    rewrite ltb_xR in H by assumption. revert H. case Rlt_bool_spec; [trivial | discriminate].
  - intros (Nx & Ny & H). rewrite ltb_xR by assumption. now apply Rlt_bool_true.
Qed.

Lemma strict_B2R (x : bf) : SN.is_finite_strict x = true -> SN.B2R x <> 0.
Proof.
  intros H. generalize (SN.abs_B2R_ge_emin prec emax x H) (bpow_gt_0 radix2 (SpecFloat.emin prec emax)).
  intros H1 H2 E. rewrite E, Rabs_R0 in H1. lra.
Qed.

(** two non-NaN values with the same image are equal, except for the two zeros *)
Lemma xR_inj (x y : bf) :
  SN.is_nan x = false -> SN.is_nan y = false -> xR x = xR y ->
  x = y \/ (ff_is_zero prec emax x = true /\ ff_is_zero prec emax y = true).
Proof.
  intros Nx Ny E.
  destruct (SN.is_finite_strict x) eqn:Sx, (SN.is_finite_strict y) eqn:Sy.
  - left. apply SN.B2R_inj; trivial.
    rewrite <- !xR_finite; trivial; [now destruct y | now destruct x].
  - assert (Fx : xR x = SN.B2R x) by (apply xR_finite; now destruct x).
    generalize (strict_B2R x Sx) (B2R_lt_M x). rewrite Fx in E. revert E.
    generalize (SN.B2R x). intros r E Hr Hb.
    destruct y as [sy|[|]| |sy my ey Hy]; try discriminate; cbn in E; lra.
  - assert (Fy : xR y = SN.B2R y) by (apply xR_finite; now destruct y).
    generalize (strict_B2R y Sy) (B2R_lt_M y). rewrite Fy in E. revert E.
    generalize (SN.B2R y). intros r E Hr Hb.
    destruct x as [sx|[|]| |sx mx ex Hx]; try discriminate; cbn in E; lra.
  - generalize M_pos; intros HM.
    destruct x as [sx|[|]| |sx mx ex Hx]; try discriminate;
      destruct y as [sy|[|]| |sy my ey Hy]; try discriminate; cbn [xR SN.B2R] in E;
      try lra; try (left; reflexivity); right; split; reflexivity.
Qed.

(* ------------------------------------------------------------------------- *)
(** * Laws that need no rounding argument *)

Theorem ff_add_comm (x y : bf) : add x y = add y x.
Proof.
  unfold ff_add, SN.Bplus.
  destruct x as [sx|sx| |sx mx ex Hx], y as [sy|sy| |sy my ey Hy]; try reflexivity.
  - destruct sx, sy; reflexivity.
  - destruct sx, sy; reflexivity.
  - rewrite (Z.min_comm ey ex). unfold SN.Fplus_naive. now rewrite Z.add_comm.
Qed.

Theorem ff_mul_comm (x y : bf) : mul x y = mul y x.
Proof.
  unfold ff_mul, SN.Bmult.
  destruct x as [sx|sx| |sx mx ex Hx], y as [sy|sy| |sy my ey Hy]; try reflexivity;
    try (now rewrite xorb_comm).
  apply SN.B2SF_inj. rewrite !SN.B2SF_SF2B.
  now rewrite xorb_comm, Pos.mul_comm, Z.add_comm.
Qed.

Corollary ff_real_mul_comm (x y : bf) : real_mul x y = real_mul y x.
Proof. unfold ff_real_mul. now rewrite ff_mul_comm. Qed.
Corollary ff_vit_mul_comm (x y : bf) : vit_mul x y = vit_mul y x.
Proof. unfold ff_vit_mul. now rewrite ff_add_comm. Qed.

(** zero annihilates RealSemiring.mul, [0 * inf] and [0 * nan] included: the result is a zero
    for EVERY x, and it is +0 whenever x carries no minus sign *)
Theorem ff_real_mul_zero_is_zero (x : bf) :
  ff_is_zero prec emax (real_mul zero x) = true /\ ff_is_zero prec emax (real_mul x zero) = true.
Proof. now destruct x as [sx|[|]| |sx mx ex Hx]. Qed.

Theorem ff_real_mul_zero (x : bf) :
  SN.Bsign x = false -> real_mul zero x = zero /\ real_mul x zero = zero.
Proof. destruct x as [sx|[|]| |sx mx ex Hx]; cbn; intros H; try discriminate; subst; now split. Qed.

Corollary ff_real_mul_zero_inf : real_mul zero inf = zero /\ real_mul inf zero = zero.
Proof. now split. Qed.

(** -inf annihilates ViterbiSemiring.mul / LogSemiring.mul for EVERY x, [+inf] and NaN included *)
Theorem ff_vit_mul_ninf (x : bf) : vit_mul ninf x = ninf /\ vit_mul x ninf = ninf.
Proof. now destruct x as [sx|[|]| |sx mx ex Hx]. Qed.

(** additive identities *)
Theorem ff_add_zero (x : bf) : x <> nzero -> add x zero = x /\ add zero x = x.
Proof.
  destruct x as [[|]|sx| |sx mx ex Hx]; intros H; now split.
Qed.
Lemma ff_add_zero_nzero : add nzero zero = zero /\ add zero nzero = zero.
Proof. now split. Qed.

Theorem ff_vit_mul_one (x : bf) :
  SN.is_nan x = false -> x <> nzero ->
  vit_mul x (ff_vit_one prec emax) = x /\ vit_mul (ff_vit_one prec emax) x = x.
Proof.
  destruct x as [[|]|[|]| |sx mx ex Hx]; intros N H; try discriminate; now split.
Qed.

(** ** maximum *)
Theorem ff_max_idem (x : bf) : fmax x x = x.
Proof.
  unfold ff_max. destruct (SN.is_nan x) eqn:N; trivial.
  now destruct (ltb x x).
Qed.

Theorem ff_max_ninf (x : bf) : fmax ninf x = x /\ fmax x ninf = x.
Proof.
  split.
  - destruct x as [sx|[|]| |sx mx ex Hx]; reflexivity.
  - destruct x as [sx|[|]| |[|] mx ex Hx]; reflexivity.
Qed.

Lemma ff_max_not_nan (x y : bf) :
  SN.is_nan x = false -> SN.is_nan y = false -> fmax x y = if ltb x y then y else x.
Proof. unfold ff_max. now intros -> ->. Qed.

Lemma ff_max_is_nan (x y : bf) : SN.is_nan (fmax x y) = SN.is_nan x || SN.is_nan y.
Proof.
  unfold ff_max. destruct (SN.is_nan x) eqn:Nx; trivial. destruct (SN.is_nan y) eqn:Ny; trivial.
  now destruct (ltb x y).
Qed.

Theorem ff_max_assoc (x y z : bf) : fmax (fmax x y) z = fmax x (fmax y z).
Proof.
  destruct (SN.is_nan x) eqn:Nx.
  { destruct x; try discriminate. reflexivity. }
  assert (E1 : forall w : bf, SN.is_nan w = false -> fmax w SN.B754_nan = SN.B754_nan)
    by (intros w Hw; unfold ff_max; now rewrite Hw).
  destruct (SN.is_nan y) eqn:Ny.
  { destruct y; try discriminate. rewrite (E1 x Nx).
    change (fmax SN.B754_nan z) with (SN.B754_nan : bf). now rewrite E1. }
  destruct (SN.is_nan z) eqn:Nz.
  { destruct z; try discriminate. rewrite (E1 y Ny), (E1 x Nx). apply E1.
    now rewrite ff_max_is_nan, Nx, Ny. }
  rewrite (ff_max_not_nan x y), (ff_max_not_nan y z) by assumption.
  destruct (ltb x y) eqn:Lxy, (ltb y z) eqn:Lyz; rewrite !ff_max_not_nan by assumption;
    rewrite ?Lxy, ?Lyz; trivial.
  - apply ltb_lt in Lxy, Lyz. destruct Lxy as (_ & _ & Lxy), Lyz as (_ & _ & Lyz).
    assert (H : ltb x z = true) by (apply ltb_lt; repeat split; trivial; lra). now rewrite H.
  - destruct (ltb x z) eqn:Lxz; trivial.
    rewrite ltb_xR in Lxy, Lyz, Lxz by assumption.
    revert Lxy Lyz Lxz. repeat case Rlt_bool_spec; intros; try discriminate; lra.
Qed.

(** commutative up to the sign of zero: [maximum(+0,-0)] and [maximum(-0,+0)] differ *)
Theorem ff_max_comm (x y : bf) :
  fmax x y = fmax y x \/ (ff_is_zero prec emax x = true /\ ff_is_zero prec emax y = true).
Proof.
  destruct (SN.is_nan x) eqn:Nx.
  { left. destruct x; try discriminate. unfold ff_max. now destruct y. }
  destruct (SN.is_nan y) eqn:Ny.
  { left. destruct y; try discriminate. unfold ff_max. cbn. now rewrite Nx. }
  rewrite !ff_max_not_nan by assumption.
  rewrite !ltb_xR by assumption.
  repeat case Rlt_bool_spec; intros H1 H2; auto; try lra.
  destruct (xR_inj x y Nx Ny) as [E|E]; [lra | left; now rewrite E | now right].
Qed.

Corollary ff_max_comm_same (x y : bf) : ff_same_mod_zero prec emax (fmax x y) (fmax y x) = true.
Proof.
  assert (R : forall z : bf, ff_same prec emax z z = true).
  { intros [s|s| |s m e H]; cbn; trivial; try (now destruct s).
    now rewrite eqb_reflx, Pos.eqb_refl, Z.eqb_refl. }
  unfold ff_same_mod_zero.
  destruct (ff_max_comm x y) as [E|[Zx Zy]].
  - now rewrite E, R.
  - destruct x as [sx|sx| |sx mx ex Hx]; try discriminate.
    destruct y as [sy|sy| |sy my ey Hy]; try discriminate.
    destruct sx, sy; reflexivity.
Qed.

(** ViterbiSemiring.star is the unfolding  star x = one [+] x [.] star x,  for EVERY x (NaN included) *)
Theorem ff_vit_star_unfold (x : bf) :
  vit_star x = fmax (ff_vit_one prec emax) (vit_mul x (vit_star x)).
Proof.
  destruct x as [sx|[|]| |[|] mx ex Hx]; try reflexivity.
  destruct sx; reflexivity.
Qed.

End Laws.
