(** An executable form of the hypothesis [typed_pair] of the premise-free C13 theorems, its
    soundness, and examples showing that the hypothesis is satisfiable by non-trivial pairs. *)
From Coq Require Import List Arith Lia PeanoNat Bool PArith QArith Qcanon.
Import ListNotations.
Require Import Fggs.Model.Axis Fggs.Model.AxisCheck Fggs.Model.XVal Fggs.Model.PTensor Fggs.Model.PTensorCheck Fggs.Model.PTEqual.
Require Import Fggs.Proofs.Axis_sem Fggs.Proofs.Axis_typed Fggs.Proofs.Axis_total Fggs.Proofs.Axis_typed_check.
Require Import Fggs.Proofs.PTEqual_main Fggs.Proofs.PTEqual_typed_main Fggs.Proofs.PTEqual_examples.
Local Open Scope nat_scope.

Definition ctx_of_list (cl : list (positive * list ity)) : ctx :=
  fun k => match assoc k cl with Some ps => ps | None => [] end.

Definition typed_pair_tb (cl : list (positive * list ity)) (next : positive) (pss : list (list ity)) (t u : pt) : bool :=
  let G := ctx_of_list cl in
  wf_b t && wf_b u &&
  forallb (fun kp : positive * list ity => gprimes_b (snd kp) && Pos.ltb (fst kp) next) cl &&
  all2 (ty_b G) (vaxes t) pss && all2 (ty_b G) (vaxes u) pss && forallb gprimes_b pss.

Theorem typed_pair_tb_sound cl next pss (t u : pt) :
  typed_pair_tb cl next pss t u = true -> typed_pair xval (ctx_of_list cl) next pss t u.
Proof.
  unfold typed_pair_tb. intros H.
  apply andb_true_iff in H. destruct H as [H H0]. apply andb_true_iff in H. destruct H as [H Hu].
  apply andb_true_iff in H. destruct H as [H Ht]. apply andb_true_iff in H. destruct H as [H H2].
  apply andb_true_iff in H. destruct H as [Wt Wu].
  rewrite forallb_forall in H2.
  split.
  - apply wf_b_sound. exact Wt.
  - apply wf_b_sound. exact Wu.
  - intros k. unfold ctx_of_list. destruct (assoc k cl) as [ps|] eqn:A; [|constructor].
    apply assoc_In in A. specialize (H2 _ A). apply andb_true_iff in H2. apply gprimes_b_sound. tauto.
  - intros k Hk. unfold ctx_of_list. destruct (assoc k cl) as [ps|] eqn:A; [|reflexivity]. exfalso.
    apply assoc_In in A. specialize (H2 _ A). apply andb_true_iff in H2. destruct H2 as [_ H2]. apply Pos.ltb_lt in H2. simpl in H2. lia.
  - apply list_eqb_tys. assumption.
  - apply list_eqb_tys. assumption.
  - apply Forall_forall. intros ps Hps. rewrite forallb_forall in H0. apply gprimes_b_sound. auto.
Qed.

(** the diagonal against the dense matrix; a one-cell tensor nested in the diagonal (a sum type
    with a unit summand); an operand against itself (freshening path) *)
Example typed_pair_ex :
  typed_pair_tb [(1%positive, [TAtom 3]); (2%positive, [TAtom 3]); (3%positive, [TAtom 3])] 10
                [[TAtom 3]; [TAtom 3]] ex_diag ex_dense = true /\
  typed_pair_tb [(1%positive, [TSum [TAtom 1; TAtom 2]]); (4%positive, [TAtom 2])] 10
                [[TSum [TAtom 1; TAtom 2]]; [TSum [TAtom 1; TAtom 2]]] ex_cell ex_diag = true /\
  typed_pair_tb [(1%positive, [TAtom 3])] 10 [[TAtom 3]; [TAtom 3]] ex_diag ex_diag = true /\
  equal_model 10 ex_diag ex_dense = Ok true /\
  equal_model 10 ex_cell ex_diag = Ok false.
Proof. vm_compute. repeat split; reflexivity. Qed.

(** * corollaries on typed pairs, without the executable premise *)
Lemma typed_pair_sym V G next pss (t u : ptensor V) : typed_pair V G next pss t u -> typed_pair V G next pss u t.
Proof. intros [A B C D E F H]. split; assumption. Qed.

Corollary equal_symmetric_typed G next pss (t u : pt) b1 b2 :
  typed_pair xval G next pss t u ->
  equal_model next t u = Ok b1 -> equal_model next u t = Ok b2 -> b1 = b2.
Proof.
  intros TP H1 H2.
  pose proof (compare_model_correct_typed xeq_num G next pss t u b1 TP H1) as C1.
  pose proof (compare_model_correct_typed xeq_num G next pss u t b2 (typed_pair_sym _ _ _ _ _ _ TP) H2) as C2.
  assert (X : cellwise xeq_num t u <-> cellwise xeq_num u t).
  { unfold cellwise. split; intros [S A]; (split; [symmetry; exact S|]); intros idx B; rewrite xeq_num_sym; apply A; congruence. }
  destruct b1, b2; trivial.
  - assert (false = true); [apply C2; apply X; apply C1; reflexivity|discriminate].
  - assert (false = true); [apply C1; apply X; apply C2; reflexivity|discriminate].
Qed.

Corollary equal_reflexive_typed G next pss (t : pt) b : nan_free t ->
  typed_pair xval G next pss t t -> equal_model next t t = Ok b -> b = true.
Proof.
  intros NF TP H. apply (equal_correct_typed G next pss t t b TP H). split; [reflexivity|].
  intros idx B. split; [reflexivity|apply NF; exact B].
Qed.
